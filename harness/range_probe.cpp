// C18 probe: runs include/utap/range.h (from /repo's working tree) on enumerated operands.
//   range_probe corr <quick|thorough> <seed>   -> one line per case for the extracted Coq model
//   range_probe oracle <quick|thorough> <seed> -> direct set-semantics oracle (brute force in wider arithmetic)
#include "utap/range.h"
#include <cstdio>
#include <cstdint>
#include <cstring>
#include <cstdlib>
#include <vector>
#include <string>
#include <algorithm>
#include <cmath>
#include <limits>
using namespace UTAP;
typedef long long ll;

static uint64_t rng_state = 88172645463325252ULL;
static uint64_t rnd() { rng_state ^= rng_state << 13; rng_state ^= rng_state >> 7; rng_state ^= rng_state << 17; return rng_state; }

template <class T> struct L { static constexpr ll lo = std::numeric_limits<T>::min(), hi = std::numeric_limits<T>::max(); };
template <class T> static bool fit(ll v) { return L<T>::lo <= v && v <= L<T>::hi; }
template <class T> static const char* tn();
template <> const char* tn<int8_t>() { return "i8"; }
template <> const char* tn<int32_t>() { return "i32"; }

static long ncases = 0, nfails = 0;

template <class T> static void outr(const char* op, std::initializer_list<ll> args, const range_t<T>& r)
{
    printf("%s %s", tn<T>(), op);
    for (ll a : args) printf(" %lld", a);
    printf(" -> %lld %lld\n", (ll)r.first(), (ll)r.last());
    ++ncases;
}
template <class T> static void outb(const char* op, std::initializer_list<ll> args, ll b)
{
    printf("%s %s", tn<T>(), op);
    for (ll a : args) printf(" %lld", a);
    printf(" -> %lld\n", b);
    ++ncases;
}

// ---- correspondence stream ---------------------------------------------------------------
template <class T> static void corr_unary(ll a, ll b, ll e, bool wrap_ok)
{
    using R = range_t<T>;
    R r{(T)a, (T)b};
    T te = (T)e;
    if (wrap_ok || fit<T>(e + 1)) outr<T>("gt", {a, b, e}, R(r).gt(te));
    if (wrap_ok || fit<T>(e - 1)) outr<T>("lt", {a, b, e}, R(r).lt(te));
    outr<T>("geq", {a, b, e}, R(r).geq(te));
    outr<T>("leq", {a, b, e}, R(r).leq(te));
    outr<T>("or_e", {a, b, e}, r | te);
    outr<T>("and_e", {a, b, e}, r & te);
    outr<T>("lower", {a, b, e}, R(r).lower(te));
    outr<T>("raise", {a, b, e}, R(r).raise(te));
    if (fit<T>(a + e) && fit<T>(b + e)) outr<T>("add_e", {a, b, e}, r + te);
    if (fit<T>(a - e) && fit<T>(b - e)) outr<T>("sub_e", {a, b, e}, r - te);
    if (fit<T>(a * e) && fit<T>(b * e)) outr<T>("mul_e", {a, b, e}, r * te);
    outb<T>("contains", {a, b, e}, r.contains(te));
    outb<T>("contains_op", {a, b, e}, r && te);
    outb<T>("eq_e", {a, b, e}, r == te);
    // the in-place named aliases must agree with the operators
    outr<T>("or_e", {a, b, e}, R(r).add(te));
    outr<T>("or_e", {a, b, e}, r.unite(te));
    outr<T>("and_e", {a, b, e}, R(r).intersect(te));
    outr<T>("and_e", {a, b, e}, r.intersection(te));
}
template <class T> static void corr_binary(ll a, ll b, ll c, ll d)
{
    using R = range_t<T>;
    R r{(T)a, (T)b}, o{(T)c, (T)d};
    outr<T>("or_r", {a, b, c, d}, r | o);
    outr<T>("and_r", {a, b, c, d}, r & o);
    outr<T>("or_r", {a, b, c, d}, R(r).add(o));
    outr<T>("or_r", {a, b, c, d}, r.unite(o));
    outr<T>("and_r", {a, b, c, d}, R(r).intersect(o));
    outr<T>("and_r", {a, b, c, d}, r.intersection(o));
    if (c <= d) {  // the C++ asserts !o.empty() for these
        if (fit<T>(a + c) && fit<T>(b + d)) outr<T>("add_r", {a, b, c, d}, r + o);
        if (fit<T>(a - d) && fit<T>(b - c)) outr<T>("sub_r", {a, b, c, d}, r - o);
        if (fit<T>(a * c) && fit<T>(a * d) && fit<T>(b * c) && fit<T>(b * d)) outr<T>("mul_r", {a, b, c, d}, r * o);
        outb<T>("r_lt", {a, b, c, d}, r < o);
        outb<T>("r_ge", {a, b, c, d}, r >= o);
    }
    if (a <= b) {
        outb<T>("r_gt", {a, b, c, d}, r > o);
        outb<T>("r_le", {a, b, c, d}, r <= o);
    }
    outb<T>("intersects", {a, b, c, d}, r.intersects(o));
    outb<T>("intersects", {a, b, c, d}, r && o);
    outb<T>("eq_r", {a, b, c, d}, r == o);
}

template <class T> static std::vector<ll> values(bool thorough)
{
    std::vector<ll> v;
    ll lo = L<T>::lo, hi = L<T>::hi;
    int k = thorough ? 9 : 4;
    for (ll i = -k; i <= k; ++i) v.push_back(i);
    for (ll i = 0; i < 3; ++i) { v.push_back(lo + i); v.push_back(hi - i); }
    if (sizeof(T) > 1) { v.push_back(46340); v.push_back(46341); v.push_back(-46341); v.push_back(65536); v.push_back(1 << 30); v.push_back(-(1 << 30)); }
    int nr = thorough ? 8 : 3;
    for (int i = 0; i < nr; ++i) v.push_back(lo + (ll)(rnd() % (uint64_t)(hi - lo + 1)));
    std::sort(v.begin(), v.end());
    v.erase(std::unique(v.begin(), v.end()), v.end());
    return v;
}

template <class T> static void corr(bool thorough, bool wrap_ok)
{
    auto v = values<T>(thorough);
    for (ll a : v) for (ll b : v) for (ll e : v) corr_unary<T>(a, b, e, wrap_ok);   // empty ranges (a>b) included
    for (ll a : v) for (ll b : v) for (ll c : v) for (ll d : v) corr_binary<T>(a, b, c, d);
    for (ll a : v) for (ll b : v) {
        range_t<T> r{(T)a, (T)b};
        if (fit<int32_t>(b - a + 1)) outb<T>("size", {a, b}, (ll)r.size());  // 1 + (finish - start) is computed in int
        outb<T>("empty", {a, b}, r.empty());
    }
}

// ---- direct oracle: brute-force set semantics over int8_t ----------------------------------
static void fail(const char* op, ll a, ll b, ll c, ll d, ll gs, ll gf, ll ws, ll wf)
{
    if (nfails < 50) printf("FAIL i8 %s %lld %lld %lld %lld got=[%lld,%lld] want=[%lld,%lld]\n", op, a, b, c, d, gs, gf, ws, wf);
    ++nfails;
}
// the set {x in [a,b] | pred} must be exactly the members of res (both are intervals or empty)
template <class F> static void check_subset(const char* op, ll a, ll b, ll e, const range_t<int8_t>& res, F pred)
{
    ++ncases;
    ll ws = 1, wf = 0; bool any = false;
    for (ll x = a; x <= b; ++x) if (pred(x)) { if (!any) { ws = x; any = true; } wf = x; }
    bool resempty = res.empty();
    if (!any) { if (!resempty) fail(op, a, b, e, 0, res.first(), res.last(), ws, wf); return; }
    if (resempty || res.first() != ws || res.last() != wf) fail(op, a, b, e, 0, res.first(), res.last(), ws, wf);
}
static void oracle(bool thorough)
{
    using R = range_t<int8_t>;
    int step = thorough ? 1 : 5;
    for (ll a = -128; a <= 127; a += step) for (ll b = a; b <= 127; b += (thorough ? 1 : 3)) {
        R r{(int8_t)a, (int8_t)b};
        for (ll e = -128; e <= 127; ++e) {
            int8_t te = (int8_t)e;
            if (e < 127) check_subset("gt", a, b, e, R(r).gt(te), [&](ll x) { return x > e; });
            if (e > -128) check_subset("lt", a, b, e, R(r).lt(te), [&](ll x) { return x < e; });
            check_subset("geq", a, b, e, R(r).geq(te), [&](ll x) { return x >= e; });
            check_subset("leq", a, b, e, R(r).leq(te), [&](ll x) { return x <= e; });
            check_subset("and_e", a, b, e, r & te, [&](ll x) { return x == e; });
            ++ncases;
            bool in = a <= e && e <= b;
            if (r.contains(te) != in || (r && te) != in) fail("contains", a, b, e, 0, r.contains(te), 0, in, 0);
            if ((r == te) != (a == e && b == e)) fail("eq_e", a, b, e, 0, r == te, 0, (a == e && b == e), 0);
            { R u = r | te; ll ws = std::min(a, e), wf = std::max(b, e); if (u.first() != ws || u.last() != wf) fail("or_e", a, b, e, 0, u.first(), u.last(), ws, wf); }
            // pointwise images
            auto img = [&](const char* op, R res, auto f) {
                ll mn = 1LL << 40, mx = -(1LL << 40);
                for (ll x = a; x <= b; ++x) { ll v = f(x); mn = std::min(mn, v); mx = std::max(mx, v); }
                if (mn < -128 || mx > 127) return;  // overflow: outside the property's guard
                ++ncases;
                if (res.first() != mn || res.last() != mx) fail(op, a, b, e, 0, res.first(), res.last(), mn, mx);
            };
            if ((b - a) < 40 || thorough) {
                img("add_e", r + te, [&](ll x) { return x + e; });
                img("sub_e", r - te, [&](ll x) { return x - e; });
                img("mul_e", r * te, [&](ll x) { return x * e; });
            }
        }
        ++ncases;
        if ((ll)r.size() != b - a + 1) fail("size", a, b, 0, 0, r.size(), 0, b - a + 1, 0);
        // the compound operators with the object itself as the operand (both operands are the same interval)
        if (2 * a >= -128 && 2 * b <= 127) { R q = r; q += q; ++ncases; if (q.first() != 2 * a || q.last() != 2 * b) fail("add_self", a, b, 0, 0, q.first(), q.last(), 2 * a, 2 * b); }
        if (a - b >= -128 && b - a <= 127) { R q = r; q -= q; ++ncases; if (q.first() != a - b || q.last() != b - a) fail("sub_self", a, b, 0, 0, q.first(), q.last(), a - b, b - a); }
        { ll t1 = a * a, t2 = a * b, t4 = b * b; ll mn = std::min(std::min(t1, t2), t4), mx = std::max(std::max(t1, t2), t4);
          if (mn >= -128 && mx <= 127) { R q = r; q *= q; ++ncases; if (q.first() != mn || q.last() != mx) fail("mul_self", a, b, 0, 0, q.first(), q.last(), mn, mx); } }
        { R q = r; q &= q; R u = r; u |= u; ++ncases; if (q.first() != a || q.last() != b || u.first() != a || u.last() != b) fail("and_or_self", a, b, 0, 0, q.first(), q.last(), a, b); }
    }
    // binary operations: all interval pairs over a window plus the type's boundaries
    std::vector<ll> v;
    int k = thorough ? 12 : 6;
    for (ll i = -k; i <= k; ++i) v.push_back(i);
    for (ll i = 0; i < 2; ++i) { v.push_back(-128 + i); v.push_back(127 - i); }
    if (thorough) { v.push_back(-64); v.push_back(63); v.push_back(-20); v.push_back(31); }
    std::sort(v.begin(), v.end());
    for (ll a : v) for (ll b : v) if (a <= b) for (ll c : v) for (ll d : v) if (c <= d) {
        R r{(int8_t)a, (int8_t)b}, o{(int8_t)c, (int8_t)d};
        ++ncases;
        { R i = r & o; ll ws = std::max(a, c), wf = std::min(b, d);
          bool we = ws > wf;
          if (we ? !i.empty() : (i.empty() || i.first() != ws || i.last() != wf)) fail("and_r", a, b, c, d, i.first(), i.last(), ws, wf); }
        { R u = r | o; ll ws = std::min(a, c), wf = std::max(b, d); if (u.first() != ws || u.last() != wf) fail("or_r", a, b, c, d, u.first(), u.last(), ws, wf); }
        bool ov = std::max(a, c) <= std::min(b, d);
        if (r.intersects(o) != ov || (r && o) != ov) fail("intersects", a, b, c, d, r.intersects(o), 0, ov, 0);
        if ((r == o) != (a == c && b == d)) fail("eq_r", a, b, c, d, r == o, 0, a == c && b == d, 0);
        if ((r < o) != (b < c)) fail("r_lt", a, b, c, d, r < o, 0, b < c, 0);
        if ((r > o) != (a > d)) fail("r_gt", a, b, c, d, r > o, 0, a > d, 0);
        if ((r <= o) != !(a > d)) fail("r_le", a, b, c, d, r <= o, 0, !(a > d), 0);
        if ((r >= o) != !(b < c)) fail("r_ge", a, b, c, d, r >= o, 0, !(b < c), 0);
        auto img2 = [&](const char* op, R res, auto f) {
            ll mn = 1LL << 40, mx = -(1LL << 40);
            for (ll x = a; x <= b; ++x) for (ll y = c; y <= d; ++y) { ll w = f(x, y); mn = std::min(mn, w); mx = std::max(mx, w); }
            if (mn < -128 || mx > 127) return;
            ++ncases;
            if (res.first() != mn || res.last() != mx) fail(op, a, b, c, d, res.first(), res.last(), mn, mx);
        };
        if ((b - a) * (d - c) <= 4096) {
            img2("add_r", r + o, [](ll x, ll y) { return x + y; });
            img2("sub_r", r - o, [](ll x, ll y) { return x - y; });
            img2("mul_r", r * o, [](ll x, ll y) { return x * y; });
        }
    }
}

// ---- double: sampled set-semantics oracle (a test, not a proof) -------------------------------
static void dfail(const char* op, double a, double b, double e, double x)
{
    if (nfails < 50) printf("FAIL f64 %s %a %a %a x=%a\n", op, a, b, e, x);
    ++nfails;
}
static void oracle_double(bool thorough)
{
    using R = range_t<double>;
    const double inf = std::numeric_limits<double>::infinity();
    std::vector<double> v = {-inf, std::numeric_limits<double>::lowest(), -1e300, -2.5, -1.0, -std::numeric_limits<double>::min(),
                             -std::numeric_limits<double>::denorm_min(), 0.0, std::numeric_limits<double>::denorm_min(),
                             std::numeric_limits<double>::min(), 0.1, 1.0, std::nextafter(1.0, 2.0), 1.5, 3.0, 1e300,
                             std::numeric_limits<double>::max(), inf};
    int nr = thorough ? 24 : 6;
    for (int i = 0; i < nr; ++i) { double m = (double)(int64_t)rnd() / 9.2e18; v.push_back(std::ldexp(m, (int)(rnd() % 200) - 100)); }
    std::vector<double> xs = v;
    for (double d : v) { if (d < inf) xs.push_back(std::nextafter(d, inf)); if (d > -inf) xs.push_back(std::nextafter(d, -inf)); }
    for (double a : v) for (double b : v) if (a <= b) {
        R r{a, b};
        for (double e : v) {
            R g = R(r).gt(e), l = R(r).lt(e), ge = R(r).geq(e), le = R(r).leq(e), ie = r & e, ue = r | e;
            for (double x : xs) {
                bool in = a <= x && x <= b;
                ncases += 6;
                if (g.contains(x) != (in && x > e)) dfail("gt", a, b, e, x);
                if (l.contains(x) != (in && x < e)) dfail("lt", a, b, e, x);
                if (ge.contains(x) != (in && x >= e)) dfail("geq", a, b, e, x);
                if (le.contains(x) != (in && x <= e)) dfail("leq", a, b, e, x);
                if (ie.contains(x) != (in && x == e)) dfail("and_e", a, b, e, x);
                if (ue.contains(x) != (std::min(a, e) <= x && x <= std::max(b, e))) dfail("or_e", a, b, e, x);
            }
            ++ncases;
            if (r.contains(e) != (a <= e && e <= b)) dfail("contains", a, b, e, e);
            if (std::isfinite(a) && std::isfinite(b) && std::isfinite(e)) {
                R s = r + e, m = r - e, p = r * e;
                for (double x : xs) if (a <= x && x <= b) {
                    ncases += 3;
                    double y = x + e; if (std::isfinite(s.first()) && std::isfinite(s.last()) && !s.contains(y)) dfail("add_e", a, b, e, x);
                    y = x - e; if (std::isfinite(m.first()) && std::isfinite(m.last()) && !m.contains(y)) dfail("sub_e", a, b, e, x);
                    y = x * e; if (std::isfinite(p.first()) && std::isfinite(p.last()) && !p.contains(y)) dfail("mul_e", a, b, e, x);
                }
            }
        }
        for (double c : v) for (double d : v) if (c <= d) {
            R o{c, d};
            ncases += 4;
            bool ov = std::max(a, c) <= std::min(b, d);
            if (r.intersects(o) != ov) dfail("intersects", a, b, c, d);
            if ((r == o) != (a == c && b == d)) dfail("eq_r", a, b, c, d);
            if ((r < o) != (b < c)) dfail("r_lt", a, b, c, d);
            if ((r > o) != (a > d)) dfail("r_gt", a, b, c, d);
            R i = r & o, u = r | o;
            for (double x : xs) {
                ncases += 2;
                if (i.contains(x) != (a <= x && x <= b && c <= x && x <= d)) dfail("and_r", a, b, c, x);
                if (u.contains(x) != (std::min(a, c) <= x && x <= std::max(b, d))) dfail("or_r", a, b, c, x);
            }
        }
    }
}

int main(int argc, char** argv)
{
    if (argc < 3) return 2;
    bool thorough = !strcmp(argv[2], "thorough");
    if (argc > 3) rng_state ^= (uint64_t)atoll(argv[3]) * 0x9E3779B97F4A7C15ULL;
    if (!rng_state) rng_state = 1;
    if (!strcmp(argv[1], "corr")) {
        corr<int8_t>(thorough, false);   // gt(max) / lt(min) step outside the type: the property leaves them open, so does the correspondence
        corr<int32_t>(thorough, false);
        fprintf(stderr, "CORR cases=%ld\n", ncases);
    } else if (!strcmp(argv[1], "oracle")) {
        oracle(thorough);
        long ni = ncases;
        oracle_double(thorough);
        printf("ORACLE cases_int8=%ld cases_double=%ld fails=%ld\n", ni, ncases - ni, nfails);
    }
    return 0;
}
