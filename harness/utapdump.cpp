// utapdump — canonical dumps of what libutap builds, for the /verif correspondence checks.
//
// Reads a job stream on stdin:
//   CASE <id> [fork] [old]         start a case with a fresh Document (fork: run it in a child process)
//   MODEL xml|xta|xmlfile <n>\n<n bytes>\n     parse through the public Document entry point
//   PART <xta_part_t number> <n>\n<bytes>\n  parse_XTA(text, DocumentBuilder, newxta, part, "") into the document
//   DUMP doc|errors|supported|inv|templates|frames
//   EXPR <n>\n<bytes>\n            ExpressionBuilder parse of S_EXPRESSION (no type check); tree dump
//   TEXPR <n>\n<bytes>\n           parseExpression-like: parse + TypeChecker::checkExpression; tree + type + errors
//   RT <n>\n<bytes>\n              expression print/re-parse round trip
//   QUERY <n>\n<bytes>\n           TigaPropertyBuilder parseProperty; dumps tree, quantifier, str round trip
//   LAWS <n>\n<bytes>\n            C19 algebraic laws on the parsed expression
//   PRETTY <part> <n>\n<bytes>\n   PrettyPrinter back end on the text
//   END
// Output: "== <id>" ... "-- <id> <status>".  Status: ok | CRASH sig=<n> | TIMEOUT | EXC <class>
#include "utap/utap.h"
#include "utap/DocumentBuilder.hpp"
#include "utap/ExpressionBuilder.hpp"
#include "utap/StatementBuilder.hpp"
#include "utap/property.h"
#include "utap/typechecker.h"
#include "utap/featurechecker.h"
#include "utap/prettyprinter.h"
#include "utap/builder.h"
#include "kinds_gen.h"
#include "libparser.h"   // UTAP::tracker (the process-global position counter)
#include "trace_gen.h"   // TraceBuilder (generated from builder.h)
#ifdef UTAPDUMP_COV
extern "C" void __gcov_dump(void);
#endif

#include <cstdio>
#include <cstring>
#include <cstdlib>
#include <string>
#include <vector>
#include <sstream>
#include <fstream>
#include <iostream>
#include <algorithm>
#include <map>
#include <set>
#include <memory>
#include <typeinfo>
#include <cxxabi.h>
#include <unistd.h>
#include <signal.h>
#include <sys/wait.h>
#include <sys/resource.h>

using namespace UTAP;
using namespace UTAP::Constants;

static std::string hex64(double d)
{
    uint64_t u;
    memcpy(&u, &d, 8);
    char b[20];
    snprintf(b, sizeof b, "%016llx", (unsigned long long)u);
    return b;
}

static std::string esc(const std::string& s)
{
    std::string r;
    for (unsigned char c : s) {
        if (c == '\n') r += "\\n";
        else if (c == '\r') r += "\\r";
        else if (c == '\\') r += "\\\\";
        else if (c < 32 || c > 126) { char b[8]; snprintf(b, sizeof b, "\\x%02x", c); r += b; }
        else r += c;
    }
    return r;
}

static std::string demangle(const char* n)
{
    int st = 0;
    char* d = abi::__cxa_demangle(n, nullptr, nullptr, &st);
    std::string r = (st == 0 && d) ? d : n;
    free(d);
    return r;
}

static std::string safe_type_str(type_t t)
{
    try {
        if (t.unknown()) return "?";
        return t.str();
    } catch (std::exception& e) { return std::string("<type.str throws ") + demangle(typeid(e).name()) + ">"; }
}

// the class of an expression type as TypeChecker's predicates see it (names of coq/theories/Typing.v)
static const char* type_class(type_t t)
{
    if (t.unknown()) return "Unknown";
    if (t.is_integer()) return "CInt";
    if (t.is(BOOL)) return "CBool";
    if (t.is_double()) return "CDouble";
    if (t.is_clock()) return "CClock";
    if (t.is(DIFF)) return "CDiff";
    if (t.is(RATE)) return "CRate";
    if (t.is(COST)) return "CCost";
    if (t.is(INVARIANT)) return "CInvariant";
    if (t.is(INVARIANT_WR)) return "CInvariantWR";
    if (t.is(GUARD)) return "CGuard";
    if (t.is(CONSTRAINT)) return "CConstraint";
    if (t.is(FORMULA)) return "CFormula";
    if (t.is_record()) return "CRecord";
    if (t.is_array()) return "CArray";
    if (t.is_scalar()) return "CScalar";
    if (t.is_channel()) return "CChannel";
    if (t.is_string()) return "CString";
    if (t.is_void()) return "CVoid";
    return "Other";
}

// ---- frames: a path naming the scope a symbol was declared in ------------------------------------
struct Scopes
{
    Document* doc;
    // The frame a symbol was declared in, found by searching the frames the document keeps alive: symbol_t::get_frame()
    // must not be used here, a symbol bound by a quantifier or declared in a block points to a frame that may be gone.
    static bool has(frame_t f, const symbol_t& s) { return !(f == frame_t()) && f.get_index_of(s).has_value(); }
    std::string frame_name(symbol_t s)
    {
        if (has(doc->get_globals().frame, s)) return "global";
        int ti = 0;
        for (auto& t : doc->get_templates()) {
            if (has(t.parameters, s)) return "tmpl" + std::to_string(ti) + ".param";
            if (has(t.frame, s)) return "tmpl" + std::to_string(ti) + ".local";
            int ei = 0;
            for (auto& e : t.edges) { if (has(e.select, s)) return "tmpl" + std::to_string(ti) + ".edge" + std::to_string(ei) + ".select"; ++ei; }
            ++ti;
        }
        return "inner";
    }
};
static Scopes scopes;
static bool opt_bind = false;

static void dump_expr(std::ostream& os, const expression_t& e, int depth = 0)
{
    if (e.empty()) { os << "<empty>"; return; }
    if (depth > 2000) { os << "<deep>"; return; }
    kind_t k = e.get_kind();
    os << '(' << kind_name(k);
    switch (k) {
    case IDENTIFIER: {
        symbol_t s = e.get_symbol();
        if (s == symbol_t()) os << " <nosym>";
        else {
            os << ' ' << s.get_name();
            if (opt_bind) os << '@' << scopes.frame_name(s) << ':' << esc(safe_type_str(s.get_type()));
        }
        break;
    }
    case CONSTANT: {
        type_t t = e.get_type();
        if (t.is(DOUBLE)) os << " d:" << hex64(e.get_double_value());
        else if (t.is_string()) os << " s:\"" << esc(std::string(e.get_string_value())) << '"';
        else if (t.is_integer()) os << " i:" << e.get_value();
        else if (t.is(BOOL)) os << " b:" << e.get_value();
        else os << " ?:" << esc(safe_type_str(t));
        break;
    }
    case VAR_INDEX: os << " v:" << e.get_value(); break;
    case DOT: {
        os << " ." << e.get_index();
        if (opt_bind) {   // C07: the member a qualified name P.x is bound to, with the type after renaming / substitution
            type_t bt = e.get_size() > 0 ? e.get(0).get_type() : type_t();
            std::string label = "?";
            if (!bt.unknown() && (bt.is_record() || bt.is_process()) && (size_t)e.get_index() < bt.strip().size()) label = bt.strip().get_label(e.get_index());
            os << ':' << label << ':' << esc(safe_type_str(e.get_type()));
        }
        break;
    }
    case SYNC: os << (e.get_sync() == SYNC_QUE ? " ?" : e.get_sync() == SYNC_BANG ? " !" : " csp"); break;
    default: break;
    }
    size_t n = e.get_size();
    for (size_t i = 0; i < n; ++i) { os << ' '; dump_expr(os, e.get(i), depth + 1); }
    os << ')';
}
static std::string expr_s(const expression_t& e) { std::ostringstream os; dump_expr(os, e); return os.str(); }
static std::string safe_str(const expression_t& e)
{
    if (e.empty()) return "<empty>";
    try { return e.str(); }
    catch (std::exception& x) { return std::string("<str throws ") + demangle(typeid(x).name()) + ">"; }
}

// ---- diagnostics ----------------------------------------------------------------------------------
static void dump_errs(const char* tag, const std::vector<UTAP::error_t>& v)
{
    for (auto& e : v) {
        printf("%s msg=\"%s\" ctx=\"%s\" path=\"%s\" line=%u..%u col=%u..%u abs=%u..%u\n", tag, esc(e.msg).c_str(), esc(e.context).c_str(),
               e.start.path ? esc(*e.start.path).c_str() : "<null>", e.start.line, e.end.line,
               e.position.start - e.start.position, e.position.end - e.end.position, e.position.start, e.position.end);
    }
}

// ---- document ---------------------------------------------------------------------------------------
static std::string frame_sig(frame_t f)
{
    std::string r = "[";
    if (!(f == frame_t()))
        for (uint32_t i = 0; i < f.get_size(); ++i) {
            if (i) r += "; ";
            r += esc(safe_type_str(f[i].get_type())) + " " + f[i].get_name();
        }
    return r + "]";
}

static std::string end_name(location_t* l, branchpoint_t* b)
{
    if (l) return "loc:" + l->uid.get_name();
    if (b) return "bp:" + b->uid.get_name();
    return "null";
}

static void dump_decls(const char* pfx, declarations_t& d, bool skip_builtin)
{
    int i = 0;
    for (auto& v : d.variables) {
        printf("%s var %d %s : %s = %s\n", pfx, i++, v.uid.get_name().c_str(), esc(safe_type_str(v.uid.get_type())).c_str(), expr_s(v.init).c_str());
    }
    i = 0;
    for (auto& f : d.functions) {
        std::string ch, dp;
        std::vector<std::string> a, b;
        for (auto& s : f.changes) a.push_back(s.get_name());
        for (auto& s : f.depends) b.push_back(s.get_name());
        std::sort(a.begin(), a.end()); std::sort(b.begin(), b.end());
        for (auto& s : a) ch += s + ",";
        for (auto& s : b) dp += s + ",";
        printf("%s fun %d %s : %s changes={%s} depends={%s} locals=%zu\n", pfx, i++, f.uid.get_name().c_str(), esc(safe_type_str(f.uid.get_type())).c_str(),
               ch.c_str(), dp.c_str(), f.variables.size());
        if (opt_bind)   // C07: the initialisers of function-local variables show what a use inside a body is bound to
            for (auto& v : f.variables)
                printf("%s funlocal %s %s : %s = %s\n", pfx, f.uid.get_name().c_str(), v.uid.get_name().c_str(), esc(safe_type_str(v.uid.get_type())).c_str(), expr_s(v.init).c_str());
    }
    // typedefs and other frame entries
    if (!(d.frame == frame_t())) {
        for (uint32_t k = 0; k < d.frame.get_size(); ++k) {
            symbol_t s = d.frame[k];
            if (s.get_type().is(TYPEDEF)) printf("%s typedef %s : %s\n", pfx, s.get_name().c_str(), esc(safe_type_str(s.get_type())).c_str());
        }
    }
    i = 0;
    for (auto& p : d.progress) printf("%s progress %d guard=%s measure=%s\n", pfx, i++, expr_s(p.guard).c_str(), expr_s(p.measure).c_str());
}

static void dump_instance(const char* tag, int idx, instance_t& p)
{
    printf("%s %d name=%s templ=%s params=%s unbound=%zu arguments=%zu", tag, idx, p.uid.get_name().c_str(),
           p.templ ? p.templ->uid.get_name().c_str() : "<null>", frame_sig(p.parameters).c_str(), p.unbound, p.arguments);
    // mapping in parameter order
    printf(" mapping={");
    if (!(p.parameters == frame_t()))
        for (uint32_t k = 0; k < p.parameters.get_size(); ++k) {
            auto it = p.mapping.find(p.parameters[k]);
            if (it != p.mapping.end()) printf("%s:=%s; ", p.parameters[k].get_name().c_str(), expr_s(it->second).c_str());
        }
    printf("} nmapping=%zu", p.mapping.size());
    std::vector<std::string> r;
    for (auto& s : p.restricted) r.push_back(s.get_name());
    std::sort(r.begin(), r.end());
    printf(" restricted={");
    for (auto& s : r) printf("%s,", s.c_str());
    printf("}\n");
}

// a name as one blank-free word: white space inside a name (which a reader must never leave there) is written as an escape, so that the line stays one record
static std::string nmq(const std::string& n)
{
    std::string o;
    for (char c : n) {
        if (c == ' ') o += "\\s"; else if (c == '\n') o += "\\n"; else if (c == '\t') o += "\\t"; else if (c == '\r') o += "\\r"; else o += c;
    }
    return o.empty() ? std::string("<empty>") : o;
}

static void dump_doc(Document& doc, bool with_builtins)
{
    dump_decls("global", doc.get_globals(), !with_builtins);
    int ti = 0;
    for (auto& t : doc.get_templates()) {
        printf("template %d name=%s params=%s isTA=%d instantiated=%d dynamic=%d init=%s nloc=%zu nbp=%zu nedge=%zu\n", ti, nmq(t.uid.get_name()).c_str(),
               frame_sig(t.parameters).c_str(), t.is_TA, t.is_instantiated, t.dynamic, t.init == symbol_t() ? "<none>" : nmq(t.init.get_name()).c_str(),
               t.locations.size(), t.branchpoints.size(), t.edges.size());
        std::string pfx = "t" + std::to_string(ti);
        dump_decls(pfx.c_str(), t, false);
        for (auto& l : t.locations) {
            type_t ty = l.uid.get_type();
            printf("%s loc nr=%d name=%s urgent=%d committed=%d inv=%s exprate=%s costrate=%s\n", pfx.c_str(), l.nr, nmq(l.uid.get_name()).c_str(),
                   ty.is(URGENT), ty.is(COMMITTED), expr_s(l.invariant).c_str(), expr_s(l.exp_rate).c_str(), expr_s(l.cost_rate).c_str());
        }
        for (auto& b : t.branchpoints) printf("%s bp nr=%d name=%s\n", pfx.c_str(), b.bpNr, nmq(b.uid.get_name()).c_str());
        for (auto& e : t.edges) {
            printf("%s edge nr=%d src=%s dst=%s control=%d act=%s select=%s guard=%s sync=%s assign=%s prob=%s\n", pfx.c_str(), e.nr,
                   nmq(end_name(e.src, e.srcb)).c_str(), nmq(end_name(e.dst, e.dstb)).c_str(), e.control, e.actname.c_str(), frame_sig(e.select).c_str(),
                   expr_s(e.guard).c_str(), expr_s(e.sync).c_str(), expr_s(e.assign).c_str(), expr_s(e.prob).c_str());
        }
        ++ti;
    }
    int pi = 0;
    for (auto& p : doc.get_processes()) dump_instance("process", pi++, p);
    for (auto& c : doc.get_chan_priorities()) {
        printf("chanprio head=%s", expr_s(c.head).c_str());
        for (auto& e : c.tail) printf(" %c %s", e.first, expr_s(e.second).c_str());
        printf("\n");
    }
    for (auto& p : doc.get_processes()) {
        int pr = doc.get_proc_priority(p.uid.get_name().c_str());
        if (pr) printf("procprio %s %d\n", p.uid.get_name().c_str(), pr);
    }
    if (!doc.get_before_update().empty()) printf("before_update %s\n", expr_s(doc.get_before_update()).c_str());
    if (!doc.get_after_update().empty()) printf("after_update %s\n", expr_s(doc.get_after_update()).c_str());
    int qi = 0;
    for (auto& q : doc.get_queries()) printf("query %d formula=\"%s\" comment=\"%s\"\n", qi++, esc(q.formula).c_str(), esc(q.comment).c_str());
}

// ---- C20: the document as XMLWriter reads it, in the s-expression syntax of drv_writer -------------------
static std::string penc(const std::string& s)
{
    std::string r = "~";
    for (unsigned char c : s) {
        if (isalnum(c) || c == '_' || c == '.') r += c;
        else { char b[8]; snprintf(b, sizeof b, "%%%02X", c); r += b; }
    }
    return r;
}
static std::string oexpr(const expression_t& e) { return e.empty() ? "-" : penc(e.str()); }
static void dump_wdoc(Document& doc)
{
    for (auto& t : doc.get_templates()) {
        if (!t.is_TA) continue;
        std::ostringstream os;
        os << "(t " << penc(t.uid.get_name()) << ' ' << penc(t.parameters_str()) << ' ' << penc(t.str(false)) << " (locs";
        for (auto& l : t.locations) {
            type_t ty = l.uid.get_type();
            os << " (l " << l.nr << ' ' << penc(l.uid.get_name()) << ' ' << oexpr(l.invariant) << ' ' << oexpr(l.exp_rate) << ' '
               << (ty.is(COMMITTED) ? 1 : 0) << ' ' << (ty.is(URGENT) ? 1 : 0) << ')';
        }
        os << ") (bps";
        for (auto& b : t.branchpoints) os << ' ' << b.bpNr;
        os << ") (init ";
        if (t.init.get_data() == nullptr) os << '-'; else os << static_cast<const location_t*>(t.init.get_data())->nr;
        os << ") (edges";
        bool ok = true;
        for (auto& e : t.edges) {
            if ((!e.src && !e.srcb) || (!e.dst && !e.dstb)) { ok = false; break; }
            os << " (e ";
            if (e.src) os << "(L " << e.src->nr << ')'; else os << "(B " << e.srcb->bpNr << ')';
            os << ' ';
            if (e.dst) os << "(L " << e.dst->nr << ')'; else os << "(B " << e.dstb->bpNr << ')';
            os << ' ' << (e.control ? 1 : 0) << " (sel";
            for (uint32_t i = 0; i < e.select.get_size(); ++i) {
                type_t ty = e.select[i].get_type();
                if (ty.get_kind() == CONSTANT) ty = ty.get(0);
                os << " (" << penc(e.select[i].get_name()) << ' ' << penc(ty.declaration()) << ')';
            }
            os << ") " << oexpr(e.guard) << ' ' << oexpr(e.sync) << ' ' << oexpr(e.assign) << ' ' << oexpr(e.prob) << ')';
        }
        os << "))";
        if (ok) printf("wt %s\n", os.str().c_str()); else printf("wt-dangling %s\n", t.uid.get_name().c_str());
    }
}

// ---- C08 structural invariants ----------------------------------------------------------------------
static int inv_fail = 0;
#define INV(c, ...) do { if (!(c)) { ++inv_fail; printf("INVFAIL " __VA_ARGS__); printf("\n"); } } while (0)
static void inv_decls(const char* where, declarations_t& d)
{
    for (auto& v : d.variables) INV(v.uid.get_data() == &v, "%s variable %s is not the user object of its symbol", where, v.uid.get_name().c_str());
    for (auto& f : d.functions) {
        INV(f.uid.get_data() == &f, "%s function %s is not the user object of its symbol", where, f.uid.get_name().c_str());
        for (auto& v : f.variables) INV(v.uid.get_data() == &v, "%s function-local %s is not the user object of its symbol", where, v.uid.get_name().c_str());
    }
}
static void inv_instance(const char* what, instance_t& p)
{
    const char* n = p.uid.get_name().c_str();
    INV(p.uid.get_data() == &p, "%s %s is not the user object of its symbol", what, n);
    uint32_t np = p.parameters == frame_t() ? 0 : p.parameters.get_size();
    INV(p.unbound <= np, "%s %s unbound %zu > parameters %u", what, n, p.unbound, np);
    if (p.unbound <= np) {
        for (uint32_t k = 0; k < np; ++k) {
            bool mapped = p.mapping.count(p.parameters[k]) > 0;
            if (k < p.unbound) INV(!mapped, "%s %s unbound parameter %u is mapped (unbound parameters must come first)", what, n, k);
            else INV(mapped, "%s %s bound parameter %u has no argument", what, n, k);
        }
        INV(p.mapping.size() == np - p.unbound, "%s %s maps %zu parameters, expected %u", what, n, p.mapping.size(), (unsigned)(np - p.unbound));
    }
    type_t ty = p.uid.get_type();
    // templates / instances carry an INSTANCE type over the unbound parameters; a process with unbound
    // parameters carries a PROCESS_SET type of that arity; a closed process carries PROCESS over the template frame
    if (!ty.unknown() && !ty.is(PROCESS)) INV(ty.size() == p.unbound, "%s %s type arity %zu != unbound %zu", what, n, ty.size(), p.unbound);
}
static void check_inv(Document& doc, bool need_init)
{
    inv_decls("global", doc.get_globals());
    for (auto& t : doc.get_templates()) {
        const char* tn = t.uid.get_name().c_str();
        inv_instance("template", t);
        inv_decls(tn, t);
        std::set<location_t*> locs;
        std::set<branchpoint_t*> bps;
        int i = 0;
        for (auto& l : t.locations) {
            locs.insert(&l);
            INV(l.uid.get_data() == &l, "template %s location %s is not the user object of its symbol", tn, l.uid.get_name().c_str());
            INV(l.nr == i, "template %s location %s has nr %d at position %d", tn, l.uid.get_name().c_str(), l.nr, i);
            ++i;
        }
        i = 0;
        for (auto& b : t.branchpoints) {
            bps.insert(&b);
            INV(b.uid.get_data() == &b, "template %s branchpoint %s is not the user object of its symbol", tn, b.uid.get_name().c_str());
            INV(b.bpNr == i, "template %s branchpoint %s has nr %d at position %d", tn, b.uid.get_name().c_str(), b.bpNr, i);
            ++i;
        }
        i = 0;
        for (auto& e : t.edges) {
            INV(e.nr == i, "template %s edge at position %d has nr %d", tn, i, e.nr);
            INV((e.src != nullptr) + (e.srcb != nullptr) == 1, "template %s edge %d has %d sources", tn, i, (e.src != nullptr) + (e.srcb != nullptr));
            INV((e.dst != nullptr) + (e.dstb != nullptr) == 1, "template %s edge %d has %d targets", tn, i, (e.dst != nullptr) + (e.dstb != nullptr));
            if (e.src) INV(locs.count(e.src), "template %s edge %d source is not a location of this template", tn, i);
            if (e.dst) INV(locs.count(e.dst), "template %s edge %d target is not a location of this template", tn, i);
            if (e.srcb) INV(bps.count(e.srcb), "template %s edge %d source is not a branchpoint of this template", tn, i);
            if (e.dstb) INV(bps.count(e.dstb), "template %s edge %d target is not a branchpoint of this template", tn, i);
            ++i;
        }
        if (need_init && t.is_TA) {
            bool ok = false;
            if (!(t.init == symbol_t()))
                for (auto& l : t.locations) if (l.uid == t.init) ok = true;
            INV(ok, "template %s has no initial location among its own locations", tn);
        }
    }
    for (auto& p : doc.get_processes()) inv_instance("process", p);
    // partial instantiations live in the global frame as INSTANCE symbols
    frame_t g = doc.get_globals().frame;
    for (uint32_t k = 0; k < g.get_size(); ++k) {
        symbol_t s = g[k];
        type_t ty = s.get_type();
        if ((ty.is(INSTANCE) || ty.is(LSC_INSTANCE)) && s.get_data()) {
            instance_t* i = (instance_t*)s.get_data();
            INV(i->uid == s, "instance %s: symbol's user object names another symbol", s.get_name().c_str());
            if (i->uid == s) inv_instance("instance", *i);
        }
    }
}

// ---- reading the job stream -----------------------------------------------------------------------------
static bool read_line(std::string& l)
{
    l.clear();
    int c;
    while ((c = getchar()) != EOF) { if (c == '\n') return true; l += (char)c; }
    return !l.empty();
}
static std::string read_bytes(size_t n)
{
    std::string s(n, '\0');
    size_t got = fread(&s[0], 1, n, stdin);
    s.resize(got);
    int c = getchar();  // trailing newline
    if (c != '\n' && c != EOF) ungetc(c, stdin);
    return s;
}

struct Cmd { std::string op, arg; std::string data; };

static const char* quant_name(quant_t q)
{
    static char b[24];
    snprintf(b, sizeof b, "q%d", (int)q);
    return b;
}

// captures the query expression exactly as the grammar built it (TigaPropertyBuilder::typeProperty replaces
// `control:`-style queries by their sub-property, which is not a query of its own)
class RawQueryBuilder : public UTAP::StatementBuilder
{
public:
    std::vector<expression_t> queries;
    explicit RawQueryBuilder(Document& doc): UTAP::StatementBuilder{doc} {}
    void property() override
    {
        if (fragments.size() == 0) throw std::logic_error("No query fragments after building query");
        queries.push_back(fragments[0]);
        fragments.pop();
    }
    void strategy_declaration(const char*) override {}
    void subjection(const char*) override {}
    void imitation(const char*) override {}
    variable_t* addVariable(type_t, const std::string&, expression_t, position_t) override { throw NotSupportedException(__FUNCTION__); }
    bool addFunction(type_t, const std::string&, position_t) override { throw NotSupportedException(__FUNCTION__); }
};
static expression_t parse_raw_query(Document& doc, const std::string& text, std::string& exc, int& ret)
{
    RawQueryBuilder b(doc);
    ret = -2;
    try { ret = parseProperty(text.c_str(), &b); }
    catch (std::exception& x) { exc = demangle(typeid(x).name()) + ": " + x.what(); }
    return b.queries.empty() ? expression_t() : b.queries.back();
}

// query builder that records the raw tree before typeProperty may throw
static expression_t parse_plain_expr(Document& doc, const std::string& text, bool newxta, bool& ok, size_t& nfrag)
{
    ExpressionBuilder b(doc);
    ok = true;
    int32_t r = parse_XTA(text.c_str(), &b, newxta, S_EXPRESSION, "");
    nfrag = b.getExpressions().size();
    if (r != 0 || nfrag == 0) { ok = false; return expression_t(); }
    return b.getExpressions()[0];
}

static void laws(const expression_t& e)
{
                    // clone_deeper: equal, shares no node; mutation isolated
                    expression_t cl = e.clone_deeper();
                    printf("clone_equal %d\n", e.equal(cl) && cl.equal(e));
                    printf("clone_tree_same %d\n", expr_s(e) == expr_s(cl));
                    // node sharing: compare identities via operator== (pointer equality) over all node pairs on the same path
                    struct W {
                        static void nodes(const expression_t& x, std::vector<expression_t>& out) { if (x.empty()) return; out.push_back(x); for (size_t i = 0; i < x.get_size(); ++i) nodes(x.get(i), out); }
                    };
                    std::vector<expression_t> n1, n2;
                    W::nodes(e, n1); W::nodes(cl, n2);
                    int shared = 0;
                    for (auto& a : n1) for (auto& b : n2) if (a == b) ++shared;
                    printf("clone_shared_nodes %d of %zu\n", shared, n1.size());
                    // get_size vs accessible children
                    int badsize = 0;
                    for (auto& a : n1) { size_t n = a.get_size(); for (size_t i = 0; i < n; ++i) { if (a.get(i).empty() && false) ++badsize; } }
                    printf("nodes %zu\n", n1.size());
                    // mutation isolation: change type of every node of the clone, original's dump must not change
                    std::string before = expr_s(e) + "|" + safe_str(e);
                    if (n2.size() > 1) { n2.back().set_type(type_t::create_primitive(Constants::VOID_TYPE)); if (cl.get_size() > 0) cl[0] = expression_t::create_constant(424242); }
                    printf("mutation_isolated %d\n", before == expr_s(e) + "|" + safe_str(e));
                    // equality laws
                    printf("equal_refl %d\n", e.equal(e));
                    // substitution
                    std::set<symbol_t> syms;
                    e.get_symbols(syms);
                    std::vector<symbol_t> sv(syms.begin(), syms.end());
                    std::sort(sv.begin(), sv.end(), [](const symbol_t& a, const symbol_t& b) { return a.get_name() < b.get_name(); });
                    for (auto& s : sv) {
                        std::string orig = expr_s(e);
                        expression_t id = e.subst(s, expression_t::create_identifier(s));
                        printf("subst_self %s %d\n", s.get_name().c_str(), id.equal(e));
                        expression_t k = e.subst(s, expression_t::create_constant(777));
                        printf("subst_unchanged %s %d\n", s.get_name().c_str(), orig == expr_s(e));
                        printf("subst_tree %s %s\n", s.get_name().c_str(), expr_s(k).c_str());
                    }
                    // the other two overloads of clone_deeper: renaming one symbol, and looking every symbol up by name in one or two frames
                    std::set<symbol_t> all;
                    for (auto& a : n1) if (a.get_kind() == Constants::IDENTIFIER && a.get_symbol() != symbol_t()) all.insert(a.get_symbol());
                    std::vector<symbol_t> av(all.begin(), all.end());
                    std::sort(av.begin(), av.end(), [](const symbol_t& a, const symbol_t& b) { return a.get_name() < b.get_name(); });
                    for (auto& s : av) {
                        printf("clone_rename_self %s %d\n", s.get_name().c_str(), e.clone_deeper(s, s).equal(e));
                        // every overload returns a deep copy: no node of the result is a node of the original, whatever the renaming
                        auto sharing = [&](const expression_t& c) { std::vector<expression_t> m; W::nodes(c, m); int n = 0; for (auto& a : n1) for (auto& b : m) if (a == b) ++n; return n; };
                        printf("clone_rename_shared %s %d\n", s.get_name().c_str(), sharing(e.clone_deeper(s, s)));
                        const symbol_t& t = av[(&s - &av[0] + 1) % av.size()];
                        printf("clone_rename_subst %s %s %d\n", s.get_name().c_str(), t.get_name().c_str(), e.clone_deeper(s, t).equal(e.subst(s, expression_t::create_identifier(t))));
                        printf("clone_rename_shared %s->%s %d\n", s.get_name().c_str(), t.get_name().c_str(), sharing(e.clone_deeper(s, t)));
                    }
                    if (scopes.doc) {
                        frame_t g = scopes.doc->get_globals().frame;
                        bool resolvable = true;
                        for (auto& s : av) { symbol_t u; if (!g.resolve(s.get_name(), u) || u != s) resolvable = false; }
                        if (resolvable && !av.empty()) {
                            printf("clone_frame %d\n", e.clone_deeper(g).equal(e));
                            printf("clone_second_frame %d\n", e.clone_deeper(frame_t::create(), g).equal(e));
                            { std::vector<expression_t> m1, m2; W::nodes(e.clone_deeper(g), m1); W::nodes(e.clone_deeper(frame_t::create(), g), m2); int n = 0;
                              for (auto& a : n1) { for (auto& b : m1) if (a == b) ++n; for (auto& b : m2) if (a == b) ++n; }
                              printf("clone_frame_shared %d\n", n); }
                        }
                    }
                
}

static void run_case(const std::string& id, bool newxta, std::vector<Cmd>& cmds)
{
    auto doc = std::make_unique<Document>();
    scopes.doc = doc.get();
    bool returned_normally = true;
    int ci = 0;
    for (auto& c : cmds) {
        printf("#%d %s %s\n", ci++, c.op.c_str(), c.arg.c_str());
        try {
            if (c.op == "MODEL") {
                if (c.arg == "xml") { int r = parse_XML_buffer(c.data.c_str(), doc.get(), newxta); printf("ret %d\n", r); }
                else if (c.arg == "xta") { bool r = parse_XTA(c.data.c_str(), doc.get(), newxta); printf("ret %d\n", r ? 1 : 0); }
                else if (c.arg == "xmlraw") { DocumentBuilder b(*doc); int r = parse_XML_buffer(c.data.c_str(), &b, newxta); printf("ret %d\n", r); }   // builder only: no type checker, no feature checker
                else if (c.arg == "xtaraw") { DocumentBuilder b(*doc); int r = parse_XTA(c.data.c_str(), &b, newxta); printf("ret %d\n", r); }   // builder only
                else if (c.arg == "xmlfile") { int r = parse_XML_file(c.data.c_str(), doc.get(), newxta); printf("ret %d\n", r); }
                else if (c.arg == "xmlfd") {
                    char tmpl[] = "/tmp/utapdumpXXXXXX";
                    int fd = mkstemp(tmpl);
                    if (write(fd, c.data.data(), c.data.size()) < 0) {}
                    lseek(fd, 0, SEEK_SET);
                    unlink(tmpl);
                    int r = parse_XML_fd(fd, doc.get(), newxta);
                    printf("ret %d\n", r);
                }
            } else if (c.op == "OTHER") {
                // C15: a whole model parsed into a document of its own between two calls on this case's document (the documents of a process are independent objects;
                // only process-global state can make the later call notice)
                Document other;
                int r = c.arg == "xml" ? parse_XML_buffer(c.data.c_str(), &other, newxta) : (parse_XTA(c.data.c_str(), &other, newxta) ? 1 : 0);
                printf("other ret %d errors %zu\n", r, other.get_errors().size());
            } else if (c.op == "TRACE") {
                // callbacks with the heights of the three builder stacks before and after (C01 / C16 effect-table tie)
                if (c.arg == "prop") {
                    // queries through the property builder (TigaPropertyBuilder is final: its base class is traced)
                    UTAP::TracePropertyBuilder pb(*doc);
                    int r = parseProperty(c.data.c_str(), &pb);
                    printf("ret %d\n", r);
                    fflush(stdout);
                    continue;
                }
                UTAP::TraceBuilder b(*doc);
                int r = 0;
                if (c.arg == "xml") r = parse_XML_buffer(c.data.c_str(), &b, newxta);
                else if (c.arg == "xta") r = parse_XTA(c.data.c_str(), &b, newxta) ? 1 : 0;
                else r = parse_XTA(c.data.c_str(), &b, newxta, (xta_part_t)atoi(c.arg.c_str()), "");
                printf("ret %d\n", r);
            } else if (c.op == "PART") {
                DocumentBuilder b(*doc);
                int r = parse_XTA(c.data.c_str(), &b, newxta, (xta_part_t)atoi(c.arg.c_str()), "");
                printf("ret %d\n", r);
            } else if (c.op == "SEEDPOS") {
                // C15: carry the global position counter to a chosen value (as if that much input had been parsed before)
                UTAP::tracker.position = (uint32_t)strtoul(c.arg.c_str(), nullptr, 10);
                printf("seeded\n");
            } else if (c.op == "POS") {
                printf("pos %u\n", UTAP::tracker.position);
            } else if (c.op == "BIND") {
                opt_bind = c.arg == "1";
            } else if (c.op == "DUMP") {
                if (c.arg == "doc") dump_doc(*doc, false);
                else if (c.arg == "errors") { dump_errs("error", doc->get_errors()); dump_errs("warning", doc->get_warnings()); }
                else if (c.arg == "supported") { auto& s = doc->get_supported_methods(); printf("supported symbolic=%d stochastic=%d concrete=%d\n", s.symbolic, s.stochastic, s.concrete); }
                else if (c.arg == "wdoc") dump_wdoc(*doc);
                else if (c.arg == "flags") printf("flags stopwatch=%d strictinv=%d strictlow=%d urgenttrans=%d dynamic=%d\n", doc->has_stop_watch(), doc->has_strict_invariants(),
                                                  doc->has_strict_lower_bound_on_controllable_edges(), doc->has_urgent_transition(), doc->has_dynamic_templates());
                else if (c.arg == "instances") {
                    // every INSTANCE symbol of the global frame in declaration order (templates and partial instantiations), then the processes
                    frame_t g = doc->get_globals().frame;
                    int k = 0;
                    for (uint32_t q = 0; q < g.get_size(); ++q) {
                        type_t ty = g[q].get_type();
                        if (ty.is(INSTANCE) && g[q].get_data()) {
                            instance_t* i = (instance_t*)g[q].get_data();
                            printf("arity=%zu ", ty.size());
                            dump_instance("instance", k++, *i);
                        }
                    }
                    k = 0;
                    for (auto& p : doc->get_processes()) dump_instance("process", k++, p);
                }
                else if (c.arg == "inv") { inv_fail = 0; check_inv(*doc, returned_normally && !doc->has_errors()); printf("inv fails=%d\n", inv_fail); }
                else if (c.arg == "clear") { doc->clear_errors(); doc->clear_warnings(); }
            } else if (c.op == "EXPR" || c.op == "RT" || c.op == "LAWS" || c.op == "TEXPR") {
                size_t e0 = doc->get_errors().size();
                bool ok; size_t nfrag;
                expression_t e = parse_plain_expr(*doc, c.data, newxta, ok, nfrag);
                size_t e1 = doc->get_errors().size();
                printf("parse ok=%d nfrag=%zu errors=%zu\n", ok, nfrag, e1 - e0);
                if (e1 > e0) { std::vector<UTAP::error_t> v(doc->get_errors().begin() + e0, doc->get_errors().end()); dump_errs("error", v); }
                if (!e.empty()) printf("tree %s\n", expr_s(e).c_str());
                if (c.op == "TEXPR" && !e.empty() && e1 == e0) {
                    TypeChecker tc{*doc};
                    bool r = tc.checkExpression(e);
                    size_t e2 = doc->get_errors().size();
                    printf("typecheck ret=%d errors=%zu cls=%s type=%s\n", r, e2 - e1, type_class(e.get_type()), esc(safe_type_str(e.get_type())).c_str());
                    if (e2 > e1) { std::vector<UTAP::error_t> v(doc->get_errors().begin() + e1, doc->get_errors().end()); dump_errs("error", v); }
                }
                if (c.op == "RT" && !e.empty() && e1 == e0) {
                    std::string s1 = safe_str(e);
                    std::string t1 = expr_s(e);
                    printf("str %s\n", esc(s1).c_str());
                    bool ok2; size_t nf2;
                    expression_t e2 = parse_plain_expr(*doc, s1, newxta, ok2, nf2);
                    size_t e3 = doc->get_errors().size();
                    printf("reparse ok=%d errors=%zu\n", ok2, e3 - e1);
                    if (!e2.empty() && e3 == e1) {
                        printf("tree2 %s\n", expr_s(e2).c_str());
                        printf("equal %d\n", e.equal(e2) ? 1 : 0);
                        printf("str2 %s\n", esc(safe_str(e2)).c_str());
                    }
                    // is the expression accepted by the type checker (in scope of C03)?  done last: it annotates types
                    size_t e4 = doc->get_errors().size();
                    try {
                        TypeChecker tc{*doc};
                        tc.checkExpression(e);
                        printf("tc errors=%zu\n", doc->get_errors().size() - e4);
                        if (doc->get_errors().size() > e4) printf("tcmsg %s\n", esc(doc->get_errors()[e4].msg).c_str());
                    } catch (std::exception& x) { printf("tc errors=1 exc=%s\n", demangle(typeid(x).name()).c_str()); }
                    // printing after type annotation must not change
                    printf("str_after_tc %d\n", safe_str(e) == s1 ? 1 : 0);
                }
                if (c.op == "LAWS" && !e.empty() && e1 == e0) laws(e);
            } else if (c.op == "QUERY") {
                // acceptance by the query back end (scope of C03), then the raw query tree and its round trip
                size_t e0 = doc->get_errors().size();
                std::string exc;
                int r = -2;
                {
                    TigaPropertyBuilder pb(*doc);
                    try { r = parseProperty(c.data.c_str(), &pb); }
                    catch (std::exception& x) { exc = demangle(typeid(x).name()) + ": " + x.what(); }
                    size_t e1 = doc->get_errors().size();
                    printf("parse ret=%d errors=%zu props=%zu%s%s\n", r, e1 - e0, pb.getProperties().size(), exc.empty() ? "" : " exc=", esc(exc).c_str());
                    if (e1 > e0) { std::vector<UTAP::error_t> v(doc->get_errors().begin() + e0, doc->get_errors().end()); dump_errs("error", v); }
                    if (!pb.getProperties().empty()) {
                        printf("quant %s\n", quant_name(pb.getProperties().back().type));
                        printf("intermediate %s\n", expr_s(pb.getProperties().back().intermediate).c_str());
                    }
                }
                bool accepted = exc.empty() && doc->get_errors().size() == e0 && r == 0;
                doc->clear_errors();
                std::string exc1; int r1;
                expression_t q = parse_raw_query(*doc, c.data, exc1, r1);
                size_t e1 = doc->get_errors().size();
                printf("accepted %d\n", accepted ? 1 : 0);
                if (!q.empty() && e1 == 0 && exc1.empty()) {
                    printf("tree %s\n", expr_s(q).c_str());
                    std::string s1 = safe_str(q);
                    printf("str %s\n", esc(s1).c_str());
                    if (c.arg == "rt") {
                        std::string exc2; int r2;
                        expression_t q2 = parse_raw_query(*doc, s1, exc2, r2);
                        size_t e2 = doc->get_errors().size();
                        printf("reparse ret=%d errors=%zu%s%s\n", r2, e2, exc2.empty() ? "" : " exc=", esc(exc2).c_str());
                        if (e2 > 0) dump_errs("error", doc->get_errors());
                        if (!q2.empty() && e2 == 0 && exc2.empty()) {
                            printf("tree2 %s\n", expr_s(q2).c_str());
                            printf("equal %d\n", q.equal(q2) ? 1 : 0);
                            printf("str2 %s\n", esc(safe_str(q2)).c_str());
                        }
                    }
                }
                doc->clear_errors();
            } else if (c.op == "PAIR") {
                // two expressions separated by a NUL byte: equal() in both directions
                size_t z = c.data.find('\0');
                bool ok1, ok2; size_t n1, n2;
                expression_t a = parse_plain_expr(*doc, c.data.substr(0, z), newxta, ok1, n1);
                expression_t b = parse_plain_expr(*doc, c.data.substr(z + 1), newxta, ok2, n2);
                printf("parse errors=%zu\n", doc->get_errors().size());
                if (!a.empty() && !b.empty() && doc->get_errors().empty()) {
                    printf("tree1 %s\ntree2 %s\n", expr_s(a).c_str(), expr_s(b).c_str());
                    printf("equal12 %d\nequal21 %d\n", a.equal(b) ? 1 : 0, b.equal(a) ? 1 : 0);
                    expression_t ca = a.clone_deeper();
                    printf("equal_clone2 %d\n", ca.equal(b) ? 1 : 0);     // transitivity witness: clone(a) ~ a ~ b
                    printf("streq %d\n", safe_str(a) == safe_str(b) ? 1 : 0);
                }
                doc->clear_errors();
            } else if (c.op == "QLAWS") {
                std::string exc; int r;
                expression_t q = parse_raw_query(*doc, c.data, exc, r);
                printf("parse ret=%d errors=%zu%s%s\n", r, doc->get_errors().size(), exc.empty() ? "" : " exc=", esc(exc).c_str());
                if (!q.empty() && doc->get_errors().empty() && exc.empty()) { printf("tree %s\n", expr_s(q).c_str()); laws(q); }
                doc->clear_errors();
            } else if (c.op == "PRETTY") {
                std::ostringstream os;
                PrettyPrinter pp(os);
                int r = parse_XTA(c.data.c_str(), &pp, newxta, (xta_part_t)atoi(c.arg.c_str()), "");
                printf("ret %d\nout %s\n", r, esc(os.str()).c_str());
            } else if (c.op == "PRETTYQ") {
                std::ostringstream os;
                PrettyPrinter pp(os);
                int r = parseProperty(c.data.c_str(), &pp);
                printf("ret %d\nout %s\n", r, esc(os.str()).c_str());
            } else if (c.op == "WRITE") {
                std::string path = c.arg + "." + std::to_string((long)getpid()) + ".xml";
                int r = write_XML_file(path.c_str(), doc.get());
                printf("ret %d\n", r);
                std::ifstream in(path, std::ios::binary);
                std::stringstream ss;
                ss << in.rdbuf();
                printf("xml %s\n", esc(ss.str()).c_str());
                unlink(path.c_str());
            }
        } catch (std::exception& x) {
            returned_normally = false;
            printf("EXC %s what=\"%s\"\n", demangle(typeid(x).name()).c_str(), esc(x.what()).c_str());
        }
        fflush(stdout);
    }
}

int main(int argc, char** argv)
{
    setvbuf(stdout, nullptr, _IOFBF, 1 << 16);
    setenv("UTAP_VERIF_NO_DLOPEN", "1", 1);
    long timeout_s = 20;
    if (getenv("UTAPDUMP_TIMEOUT")) timeout_s = atol(getenv("UTAPDUMP_TIMEOUT"));
    std::string line;
    while (read_line(line)) {
        if (line.rfind("CASE ", 0) != 0) continue;
        std::istringstream is(line.substr(5));
        std::string id, w;
        is >> id;
        bool do_fork = false, newxta = true;
        while (is >> w) { if (w == "fork") do_fork = true; else if (w == "old") newxta = false; }
        std::vector<Cmd> cmds;
        while (read_line(line)) {
            if (line == "END") break;
            std::istringstream ls(line);
            Cmd c;
            ls >> c.op;
            if (c.op == "MODEL" || c.op == "PART" || c.op == "PRETTY" || c.op == "TRACE" || c.op == "OTHER") { size_t n = 0; ls >> c.arg >> n; c.data = read_bytes(n); }
            else if (c.op == "EXPR" || c.op == "TEXPR" || c.op == "RT" || c.op == "LAWS" || c.op == "PRETTYQ" || c.op == "PAIR" || c.op == "QLAWS") { size_t n = 0; ls >> n; c.data = read_bytes(n); }
            else if (c.op == "QUERY") { size_t n = 0; std::string a; ls >> a; if (isdigit((unsigned char)a[0])) { n = atol(a.c_str()); } else { c.arg = a; ls >> n; } c.data = read_bytes(n); }
            else ls >> c.arg;
            cmds.push_back(std::move(c));
        }
        printf("== %s\n", id.c_str());
        fflush(stdout);
        if (!do_fork) {
            try { run_case(id, newxta, cmds); printf("-- %s ok\n", id.c_str()); }
            catch (std::exception& x) { printf("-- %s EXC %s\n", id.c_str(), demangle(typeid(x).name()).c_str()); }
            catch (...) { printf("-- %s EXC non-std\n", id.c_str()); }
        } else {
            pid_t pid = fork();
            if (pid == 0) {
                struct rlimit rl = {(rlim_t)timeout_s, (rlim_t)timeout_s + 1};
                setrlimit(RLIMIT_CPU, &rl);
                struct rlimit nc = {0, 0};
                setrlimit(RLIMIT_CORE, &nc);
                alarm(timeout_s * 3);
                int st = 0;
                try { run_case(id, newxta, cmds); }
                catch (std::exception& x) { printf("EXC-ESCAPED %s\n", demangle(typeid(x).name()).c_str()); st = 3; }
                catch (...) { printf("EXC-ESCAPED non-std\n"); st = 4; }
                fflush(stdout);
#ifdef UTAPDUMP_COV
                __gcov_dump();   // coverage build: the child leaves through _exit, which skips the counters' atexit flush
#endif
                _exit(st);
            }
            int st = 0;
            waitpid(pid, &st, 0);
            if (WIFSIGNALED(st)) {
                int sg = WTERMSIG(st);
                if (sg == SIGXCPU || sg == SIGALRM || sg == SIGKILL) printf("-- %s TIMEOUT sig=%d\n", id.c_str(), sg);
                else printf("-- %s CRASH sig=%d\n", id.c_str(), sg);
            } else if (WEXITSTATUS(st) == 0) printf("-- %s ok\n", id.c_str());
            else if (WEXITSTATUS(st) == 3) printf("-- %s EXC std\n", id.c_str());
            else if (WEXITSTATUS(st) == 4) printf("-- %s EXC non-std\n", id.c_str());
            else printf("-- %s CRASH exit=%d\n", id.c_str(), WEXITSTATUS(st));
        }
        fflush(stdout);
    }
    return 0;
}
