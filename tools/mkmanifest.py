#!/usr/bin/env python3
"""Regenerates MANIFEST.json from the table below (kept here so the manifest stays schema-valid)."""
import json, os
V = os.path.dirname(os.path.dirname(os.path.abspath(__file__)))
ALL = ['C%02d' % i for i in range(1, 21)]
CLAIMED = {
 'C18': dict(technique='Coq proof over a hand-written Gallina model of range.h + exhaustive model/implementation correspondence (extracted OCaml)',
             text='21 unbounded theorems (gt/lt/geq/leq, intersection, convex union, + - * tightness, contains/intersects/==/</>, size) over any integral element type [lo,hi] '
                  'under the explicit no-overflow guard; the model is tied to include/utap/range.h by running both on millions of operand tuples (int8_t, int32_t) on every run, '
                  'and a brute-force set-semantics oracle on the real header looks for failing inputs.',
             design='4/C18',
             note='Trusted: Coq kernel, extraction (ExtrOcamlBasic), the hand model RangeDefs.v (tied by correspondence, not generated), g++. double is covered by a sampled oracle only; '
                  'signed overflow is excluded as the property states.'),
 'C02': dict(technique='Coq proof of parse(render t) = t for a generic shift-reduce precedence machine instantiated with the operator table regenerated from parser.y (bison --xml), certificate against a reference UPPAAL table, exhaustive triple correspondence with the real parser',
             text='Unbounded round-trip theorems (minimal and full parenthesisation, uniqueness of the parse) for all expression trees over infix/prefix/postfix/ternary/index/call/builtin operators, '
                  'a machine-checked certificate that every shift/reduce decision, precedence symbol and node kind of the regenerated table equals the reference UPPAAL table, alias/imply/unary-plus lemmas, '
                  'and exact-or-rejected integer literals for every behaviour of atoi; tied to the code by regenerating the table on every run and by parsing the extracted renderer\'s output with the real library '
                  '(all context x child triples, spine chains, random trees, mutated token strings, literal boundaries).',
             design='4/C02',
             note='Trusted: Coq kernel, bison --xml as the description of the parser bison generates, the .y/.l readers, the hand-written reference table OpTableRef.v, extraction, utapdump. '
                  'Partial: floating literals are tested against correctly rounded conversion only; binder types, dynamic and MITL expressions are outside the SR model.'),
 'C03': dict(technique='Coq proof that the printer model round-trips through the SR machine whenever the decidable predicate `covered` holds, printer precedence table regenerated from get_precedence, byte-level correspondence of the printer model with str(), direct print/re-parse oracle on expressions and queries',
             text='C03_print_safe: for all trees, if the printer\'s parentheses are the table-required ones plus its own extras (decidable `covered`, evaluated by the extracted model on every generated tree) then parse(print t) = t and printing is idempotent; '
                  'the hand model of expression_t::print is compared with the real str() on every case, and the implementation oracle parse(str(e)) equal e / str idempotent runs on all type-correct expressions and 60+ query forms.',
             design='4/C03',
             note='Trusted as for C02 plus the reader of get_precedence and the hand model PrintImpl.v. Partial: query forms (Pr, E, simulate, control, minE...) and double formatting are decided by the implementation oracle only; '
                  'trees on which `covered` is false (conservative spine condition) are decided by the oracle; binder symbols are compared up to alpha-equivalence.'),
 'C19': dict(technique='Coq proofs over a node-identity model of clone_deeper / subst / equal, arity table regenerated from get_size, extracted model run on the implementation\'s dumped trees, law oracle under ASan',
             text='13 theorems: clone is structurally identical, equal, and allocates only fresh identities; subst is exactly tree substitution (self-substitution and absent symbols are identities); equal() coincides with equality of the identity-free tree '
                  '(so it is reflexive, symmetric, transitive and discriminating); the regenerated get_size table agrees with the children the builder attaches for every tree of the expression language. '
                  'Tied by running the extracted equal/subst/clone on the trees the real library dumps and by exercising the real laws (clone, mutation isolation, subst per symbol, equal on perturbed pairs, child walks) under ASan+UBSan.',
             design='4/C19',
             note='Trusted: hand model ExprLaws.v (tied by correspondence), reader of get_size, pointer identity via operator==. Hypotheses: no NaN / negative zero constants, identity coherence. '
                  'Known finding: equal() ignores the type of CONSTANT nodes (1 vs true).'),
 'C10': dict(technique='Coq proof by structural induction over formula trees typed by a class-level model of checkExpression; exhaustive class-table and formula-verdict correspondence with the real type checker; machine-checked refutation for the known findings',
             text='C10_accepted_convex_outside: for formulas of any depth over integer predicates and atomic clock comparisons with && || ! imply xor == != forall exists, a type accepted by visitEdge/visitLocation implies convexity, '
                  'for every formula avoiding the 16 atom shapes that the numeric fall-through clauses type as plain booleans; C10_refuted exhibits the failing formula for those (confirmed on the implementation, recorded as known findings); '
                  'conjunction completeness. The model is tied by exhaustive comparison of every (operator, class, class) entry and of thousands of formulas placed as guard and as invariant in real models.',
             design='4/C10',
             note='Trusted: hand models Typing.v/Convex.v (tied by exhaustive correspondence), extraction, utapdump. Rate/cost atoms are outside the formula language. Known findings: C10-neq-numeric, C10-rel-diff.'),
 'C14': dict(technique='Coq proofs of operand-order symmetry of the class-level typing clauses and of structural type equivalence; exhaustive class-table correspondence and both-orders oracle on the real type checker',
             text='comm_sym for + * == != && || & | ^ <? >? xor over all operand classes, inline-if acceptance symmetry, result-class symmetry up to the int/bool case (refuted there, known finding), symmetry of areEquivalent over structural types '
                  'and of scalar-set name equivalence with wrappers on either side; tied by comparing every (operator, class, class) and (condition, branch, branch) entry with TypeChecker::checkExpression and by a parameter x argument matrix for reference/const parameters.',
             design='4/C14',
             note='Trusted: hand models Typing.v/TypeSym.v (the structural equivalence model is tied at class level only), extraction, utapdump. Classes cost/formula/string are not realisable as operands in the fixture. '
                  'Two defects repaired by fix: commits; known finding C14-inline-if-int-bool-kind.'),
 'C17': dict(technique='Coq soundness and irrelevance proofs over a hand model of FeatureChecker on abstract documents; verdict correspondence and specification oracle on generated models',
             text='symbolic/stochastic/concrete soundness (supported implies none of the restricting features occurs in the globals or in any instantiated template, at any depth of the boolean structure), irrelevance of never-instantiated templates, '
                  'invariance under permutation of declarations, templates, edges and conjuncts, operand-order symmetry; tied by comparing the extracted model\'s verdict with the implementation on targeted placements of every feature and on random documents.',
             design='4/C17',
             note='Trusted: hand model Feature.v (tied by correspondence), the abstraction of expressions to uses_fp/uses_clock flags realised by representative expressions, the XML renderer, extraction. Dynamic templates are modelled but not generated. Four defects repaired by fix: commits.'),
 'C11': dict(technique='Coq proof that the write-collection of the checker is complete for an inductive may-write specification over all statement forms, call chains and reference parameters; correspondence of stored function summaries and a context x write-form matrix on the real checker',
             text='C11_writes_complete / C11_side_effect_free_sound: if the model of collect_possible_writes (over the summaries computed in declaration order) returns no symbol then no derivation of "evaluating e may write x" exists, '
                  'where may-write unfolds called function bodies through every statement constructor, nested calls of any depth and non-const reference parameters (mutual induction over the derivation); likewise for reads. '
                  'Tied by comparing function_t::changes/depends of random programs with the extracted summaries, and by 16 side-effect-free contexts x 31 write forms with side-effect-free twins on the real type checker.',
             design='4/C11',
             note='Trusted: hand model Effects.v (tied by summary correspondence), abstract-program renderer, extraction. Partial: recursion is excluded by the theorem\'s scoping hypothesis; that each context consults the write set is shown by the matrix, not by proof.'),
 'C13': dict(technique='Coq proof (on top of the reads-completeness theorem of the effects model) that the checker\'s computability test admits no transitive dependence on a non-computable symbol; chain x context matrix on the real checker',
             text='C13_ctc_sound: if every symbol in the model of collect_possible_reads is computable, and every initialiser of a computable variable passed the same test, then no dependence chain of any length (through initialisers and called function bodies) reaches a non-computable variable; '
                  'tied by 13 compile-time contexts x chains of length 0-4 over 7 link kinds ending in a mutable variable / constant / literal, compared with the extracted model, plus free, bound and partially instantiated process parameters in array sizes.',
             design='4/C13',
             note='Trusted: hand models Effects.v/Compute.v, chain renderer, extraction. The restricted-parameter propagation is decided by the direct oracle only; the computable set is a parameter of the theorem.'),
 'C12': dict(technique='Coq proofs over a model of type mutability (prefix structure) and of isModifiableLValue; exhaustive constness-source x write-form matrix on the real type checker compared with the extracted model',
             text='An accepted write (or non-const reference argument) reaches only variables whose declared type is mutable, through . [] ?: , and nested writes; a type is mutable exactly when no CONSTANT occurs on its spine, under any prefix, through arrays and in any field; '
                  'indexing or selecting into a const object never yields a mutable type. Tied by 200+ cases (10 constness sources x const/mutable, 5 kinds of binders, 10 write forms incl. function and template reference arguments) on the real checker vs the extracted predicates.',
             design='4/C12',
             note='Trusted: hand model Constness.v (tied by the verdict matrix), the mapping of each test case to an lvalue term, extraction. const-qualified struct fields are outside the property.'),
 'C06': dict(technique='Coq proofs of the position index (binary search) and of line/column resolution over the tracker as the lexer drives it; diagnostic oracle with an independent DOM on fault-injected models; range correspondence on undeclared identifiers',
             text='C06_find_correct (the binary search returns the last entry at or before a position on every ordered table), C06_line_column (for every lexeme sequence of a text block - tokens, blanks, comments, LF / CRLF runs, continuations - and every byte offset, '
                  'the looked-up entry has the block\'s path, the right line and a column equal to the distance from the start of that line), C06_table_ordered, C06_xpath_selects_the_element (the path string - tag plus count of same-tag siblings begun so far - read as an XPath selects exactly the element it was computed at, for every tree obeying the DTD multiplicities). Tied by predicting the exact range of undeclared identifiers from the block\'s lexemes with the extracted model, '
                  'and by checking every diagnostic of ~1600 fault-injected models (7 fault kinds at token positions, 5 layouts) against xml.etree: unique element, line inside its text, columns inside the line, attribution to the faulted block.',
             design='4/C06',
             note='Trusted: hand model Position.v, the Python re-implementation of lexeme boundaries, xml.etree. The XPath construction (sibling counting) is decided by the DOM oracle only. Known finding: C06-string-literal-newline.'),
 'C15': dict(technique='Coq proof over an access-order model of the parser\'s process-global state (no global read before written except counter and start condition), translation invariance of position lookup, machine-checked wrap refutation; history-vs-fresh-process oracle',
             text='For parse_XTA(part), parseProperty, parse_XTA(text) and parse_XML with any number of blocks, the only globals a call reads before writing are the running position counter and the scanner start condition; C15_start_condition_reset: with the transition table regenerated from lexer.l, every sequence of parses (also of texts ending inside a comment) leaves the scanner in INITIAL; '
                  'path/line/column of every offset are independent of the counter\'s value (from the C06 theorem); below 2^32 the index accepts every entry, at the wrap add() throws (C15_wrap_refuted, known finding). '
                  'Tied by grammar checks on the regenerated grammar (types / rootTransId written before read) and by random histories of 2-8 calls - including calls that end in exceptions, unterminated comments and aborted array declarations, '
                  'with the counter seeded around 2^31 and 2^32 - each compared with the same call in a fresh process.',
             design='4/C15',
             note='Trusted: hand model State.v (access order read off the source), utapdump, the grammar reader. bison\'s stacks are local and outside the model. Known finding: C15-position-wrap.'),
 'C04': dict(technique='Coq proof that the reader-to-builder composition is the identity on well-formed template elements (induction over locations, branchpoints, edges and labels); generated-model correspondence of the real document, the extracted model and the generator',
             text='C04_reader_builder_identity: for every well-formed <template> element of any size, the callbacks the reader issues, run through the model of DocumentBuilder, append exactly the mirroring document template '
                  '(locations in order with names / _id names, invariant, rate, flags; branchpoints; init; one edge per transition with resolved end points, controllable flag, selects in order, last label of each other kind) and change nothing else; '
                  'tied by hundreds to thousands of generated models whose real document dump must equal the generator\'s model (and the extracted Coq model must agree), including parameters, declarations and process argument binding.',
             design='4/C04',
             note='Trusted: hand model DocModel.v, docgen.py (generator, renderer, dump parser), utapdump. The libxml2 event level and declaration text are outside the Coq model; partial instantiation and LSC are not generated.'),
 'C20': dict(technique='Coq proof that an independent reader of the written element tree returns the graph of the document (unbounded templates; ids via decimal-string injectivity); tree-equality correspondence of write_XML_file output with the extracted writer model, graph oracle from the abstract model',
             text='C20_writer_graph: for every template with dense numbering (any number of locations, branchpoints, edges, selects), read_templ (write_templ t) = Some (graph_of t): unique ids, names, invariant / rate labels, one init, one transition per edge in order with end points, controllable flag and select / guard / synchronisation / assignment / probability texts, and no duplicate label or init; '
                  'tied by parsing write_XML_file output of hundreds to thousands of generated accepted models with expat and comparing it as a tree (layout removed) with the extracted model and as a graph with the generator\'s abstract model.',
             design='4/C20',
             note='Trusted: hand model WriterModel.v, libxml2 text writer (serialisation and escaping), Python ElementTree/expat, docgen.py, utapdump. Layout, the global declaration element and the system element are not modelled; LSC templates are not generated.'),
 'C08': dict(technique='Coq invariant proofs by induction over arbitrary callback / operation sequences (edge end points, initial location, instance parameter order / arity / mapping, dense numbering, back pointers); instance-model correspondence in XML and XTA, and the executable invariant traversed after valid, faulty and throwing parses',
             text='C08_edges_closed, C08_init_among_locations: for every sequence of builder callbacks with arbitrary arguments every edge has a source and a target among the locations / branchpoints of its own template and a recorded init is one of the template\'s locations; '
                  'C08_instances (+ C08_instance_statement): after any sequence of template declarations, full / partial / rejected instantiations and system-line entries every instance lists its unbound parameters first, has a type of that arity and maps exactly its bound parameters; '
                  'C08_numbering_dense, C08_back_pointers. Tied by comparing the document\'s instances and processes with the extracted model on generated scenarios in both front ends, and by the full invariant traversal (utapdump check_inv) after hundreds to thousands of faulty parses.',
             design='4/C08',
             note='Pointer stability of std::list / std::deque is runtime behaviour outside the model (back pointers are modelled as (container, index)). "init present when error-free" is checked by the traversal, not proved (it depends on the front ends reporting a missing init; the XTA front end did not: fixed b597bb8).'),
 'C05': dict(technique='Coq proof that the XTA grammar\'s callback order (states, branchpoints, flags, init, transitions) builds the same document as the XML reader\'s order, for templates of any size; regenerated production table of the process body; relational correspondence of the two real front ends on generated common-subset models',
             text='C05_xta_xml_template: for every template with pairwise distinct location names, build (xta_templ m0 t) = build (read_templ m0 t) from any builder state (C05_flags_commute is the part that differs: commit / urgent declared after all locations and branchpoints); C05_failed_edge_isolated. '
                  'Tied to parser.y by comparing the ProcBody / StateDecl / LocFlags / Init / Transition / Select / Guard / Sync / Assign / Probability productions and their callbacks (bison --xml + action reader) with the modelled structure, '
                  'and to both front ends by parsing each generated model (accepted, and with the same fault in the same label) in both renderings and comparing diagnostics, document dump, supported-analysis verdict and invariants.',
             design='4/C05',
             note='Known finding C05-actname-default (edge_t::actname "SKIP" from XML vs "" from XTA). Declarations and label expressions share one grammar in both formats (text identical in both renderings); positions are C06\'s. The 3.x syntax is not generated.'),
 'C01': dict(technique='Coq soundness theorem for a stack-discipline certificate over the LR(0) item automaton (any token stream, any error recovery), certificate re-checked by vm_compute on the automaton regenerated from parser.y; callback traces against the effect table; ASan/UBSan stream over all entry points and back ends',
             text='C01_fragments_never_underflow, C01_type_fragments_never_underflow, C01_frames_never_underflow: no run of the LR machine of the regenerated automaton (shift any terminal, reduce by any listed rule whatever the lookahead, recover from any state without default reduction to the first state shifting error) '
                  'executes a grammar action that reads more entries of the expression / type / frame stack than the parse has pushed, with counting non-terminals (ArgList, FieldInitList, ...) handled by linear forms over semantic values; '
                  'tied by regenerating automaton, actions and certificate on every run, by replaying bison\'s skeleton (with error recovery) on the regenerated tables and requiring the callback sequence of the real parser, by comparing the three stack heights around every callback of thousands of generated and mutated inputs with the effect table, and by a sanitizer build over parse_XML_buffer / parse_XTA / every xta_part_t / parseProperty x DocumentBuilder / PrettyPrinter / TigaPropertyBuilder x both syntaxes.',
             design='4/C01',
             note='Level is proof for the stack discipline only (partial): null attributes and current-object pointers of the XML reader and builder, the statement-block / field / label stacks, libxml2, flex, memory safety of the C++ runtime and running time are observed by the sanitizer stream, not proved.'),
 'C16': dict(technique='Coq: the LR stack-discipline theorem instantiated for frames, expression and type fragments (no block can reach below what it pushed), builder-model theorems on failed edges and labels without an edge, append-only declaration model; relational fault-injection oracle on generated accepted models with symbol bindings dumped',
             text='C16_block_cannot_reach_below_frames / _fragments / _types (every token stream, every recovery); C16_failed_edge_isolated, C16_labels_need_an_edge (any callback sequence); C16_declaration_prefix_kept. '
                  'Tied by parsing each generated accepted model with one fault in one invariant / rate / guard / synchronisation / update / probability label (token mutations at random positions and faults aimed at mid-rule actions) and comparing, at the builder stage and with bindings (name@frame:type), '
                  'every dump line outside the faulted field with the fault-free document, and the path of every diagnostic with the faulted label; declaration blocks with one truncated / mutated declaration must keep all earlier declarations.',
             design='4/C16',
             note='The upper half (a failed block leaves nothing behind) is refuted on the pinned tree: known findings C16-frame-leak and C16-stray-fragment-location. The "CSP and IO synchronisations cannot be mixed" diagnostic relates two labels and is not counted as stray.'),
 'C07': dict(technique='Coq proof that the frame / name-to-last-index map / parent-chain implementation computes the textbook binding rule on every text (any nesting, any redeclarations); correspondence of real bindings (name@frame:type) with the extracted specification on generated multi-level models',
             text='C07_resolve_is_binds: for every tree of declarations, uses and nested scopes, the builder\'s walk (push a frame per scope, add_symbol, resolve through the map of the frame then the parent chain) gives each use the nearest preceding declaration of its name in the nearest enclosing scope that has one, and none otherwise (C07_nearest, C07_unknown_iff_undeclared spell the rule out; C07_frames_balanced). '
                  'Tied by generated models declaring three names at up to ten scope kinds with types that identify the declaration, uses before / after every declaration, and comparing each use\'s binding read from the document with the extracted Coq specification; Unknown_identifier diagnostics must match the unbound uses.',
             design='4/C07',
             note='Process-qualified names in queries (expr_dot with argument substitution) are not modelled or generated. On recovered parses the leaked binder frame (C16-frame-leak) changes bindings; C07 generates fault-free texts (apart from duplicate definitions and unknown names).'),
 'C09': dict(technique='Coq: parenthesis invariance and keyword-alias equalities from the shift-reduce round-trip theorems over the regenerated operator table, renaming invariance of name resolution (injective renamings) from the scope model; relational oracle on the real library for the four rewrite families',
             text='C09_parentheses_invariant: for every expression tree the tokens with necessary parentheses and the fully parenthesised tokens parse to the same tree; C09_alias_and / _or / _not: the keyword forms build the nodes of their symbolic forms under the same rule; '
                  'C09_renaming_keeps_bindings: under any injective renaming every use keeps its declaration. Tied by rewriting generated accepted and rejected models (blanks / line breaks / comments between the same tokens, redundant parentheses, aliases, consistent renaming of all user identifiers) '
                  'and comparing the multiset of diagnostic messages (renamed, positions dropped), the supported-analysis verdict and the document dump; one probe per soft keyword used as a type name.',
             design='4/C09',
             note='White space and comments are not modelled at character level in Coq (flex-generated lexer): decided by the oracle only. Documents are not compared after a syntax error (the recovered tree depends on which error production applies). Known finding C09-soft-keyword-type-name.'),
}
NOT_YET = 'check not built yet in this revision (work in progress, see DESIGN.md section 7 staging)'
m = dict(version=1, setup_cmd='tools/setup.sh',
         hooks=dict(guard='UTAP_VERIF', enable='tools/buildlib.sh compiles /repo/src with -DUTAP_VERIF into /verif/_work/lib-{rel,asan}',
                    baseline_off_cmd='/verif/tools/baseline_off.sh', source_commits=['522b6863fbd66b8fc2edf30cfab0682c2a13278e'], add_only=True),
         engines=[dict(name='coq', path='coq/', serves_properties=sorted(CLAIMED), kind_free_text='Coq 8.16.1 development: models, proofs, Properties_Cxx.v'),
                  dict(name='check', path='check', serves_properties=sorted(CLAIMED), kind_free_text='Python driver: builds /repo, regenerates tables, runs coqc, extraction, correspondence, oracle search, evidence')],
         checks=[], notes='See DESIGN.md. Fixes committed in /repo are listed in known_findings.jsonl as fixed entries.',
         not_applicable=[])
for p in ALL:
    if p in CLAIMED:
        c = CLAIMED[p]
        m['checks'].append(dict(property_id=p, quick_cmd='./check %s --tier quick' % p, thorough_cmd='./check %s --tier thorough' % p,
                                evidence_file='evidence/%s.json' % p, replay_cmd_template='./check %s --replay {path}' % p, engine='coq',
                                level_claimed=dict(category='proof', text=c['text'], design_ref=c['design']), level_note=c['note'], technique=c['technique']))
    else:
        m['not_applicable'].append(dict(property_id=p, reason=NOT_YET))
json.dump(m, open(os.path.join(V, 'MANIFEST.json'), 'w'), indent=1)
print('claimed', sorted(CLAIMED))
