#!/usr/bin/env python3
"""G-LEX: token spellings read from src/lexer.l (literal rules) and src/keywords.cpp (keyword rows)."""
import os, re, sys
sys.path.insert(0, os.path.dirname(os.path.abspath(__file__)))
import vlib

def load():
    lex = open(os.path.join(vlib.REPO, 'src', 'lexer.l')).read()
    kw = open(os.path.join(vlib.REPO, 'src', 'keywords.cpp')).read()
    literals = []      # (text, token)
    for m in re.finditer(r'(?m)^"((?:[^"\\]|\\.)+)"\s*\{\s*return\s+(\'(?:[^\'\\]|\\.)\'|[A-Za-z_0-9]+)\s*;\s*\}', lex):
        text = m.group(1).replace('\\\\', '\\').replace('\\"', '"')
        tok = m.group(2).strip()
        if tok == "'\\''":
            pass
        literals.append((text, tok))
    keywords = []      # (word, token, syntax)
    for m in re.finditer(r'\{"([A-Za-z_0-9]+)",\s*Keyword\{([A-Z_0-9a-z]+),\s*syntax_t::([A-Z_]+)\}\}', kw):
        keywords.append((m.group(1), m.group(2), m.group(3)))
    if len(literals) < 60 or len(keywords) < 100:
        raise RuntimeError('gen_lex: unexpectedly few rules (%d literals, %d keywords)' % (len(literals), len(keywords)))
    return dict(literals=literals, keywords=keywords)

def spellings(L=None):
    """token -> list of spellings usable in NEW syntax expressions (first literal rule wins for ties)"""
    L = L or load()
    sp = {}
    for text, tok in L['literals']:
        sp.setdefault(tok, []).append(text)
    for w, tok, syn in L['keywords']:
        if 'NEW' in syn:
            sp.setdefault(tok, []).append(w)
    return sp

if __name__ == '__main__':
    L = load()
    print(len(L['literals']), len(L['keywords']))
    s = spellings(L)
    for t in ('T_ASSIGNMENT', 'T_KW_AND', "'&'", 'T_PLUS', "'\\''", 'T_FABS', 'T_MIN'):
        print(t, s.get(t))


def _split_pattern(line):
    """pattern (up to the first blank outside quotes / brackets) and the rest of the line"""
    i, n, q, b = 0, len(line), False, False
    while i < n:
        c = line[i]
        if c == '\\': i += 2; continue
        if q: q = c != '"'
        elif b: b = c != ']'
        elif c == '"': q = True
        elif c == '[': b = True
        elif c in ' \t': break
        i += 1
    return line[:i], line[i:]


def _braces(code):
    code = re.sub(r'/\*.*?\*/', '', code, flags=re.S)
    code = re.sub(r'"(?:[^"\\]|\\.)*"', '', code)
    code = re.sub(r"'(?:[^'\\]|\\.)'", '', code)
    return code.count('{') - code.count('}')


def flex_rules():
    """every rule of src/lexer.l in file order: (start conditions or None, pattern, action text, definitions).  Understands rules grouped in a
    <cond>{ ... } block and rules prefixed by <cond>, actions on one line, over several lines, empty, `;` or comment only."""
    text = open(os.path.join(vlib.REPO, 'src', 'lexer.l')).read()
    parts = text.split('\n%%\n')
    if len(parts) < 2:
        raise RuntimeError('lexer.l: no rules section')
    head, body = parts[0], parts[1]
    # name definitions (alpha [a-zA-Z_], num {digit}+ ...): expanded in the patterns below, so that their names and their nesting are immaterial
    rawdefs = dict(re.findall(r'^([A-Za-z_]\w*)[ \t]+(\S+)[ \t]*$', head.split('%{')[0] + head.split('%}')[-1] if '%}' in head else head, re.M))
    def expand(pat, depth=0):
        if depth > 8:
            return pat
        return re.sub(r'\{([A-Za-z_]\w*)\}', lambda m: '(' + expand(rawdefs[m.group(1)], depth + 1) + ')' if m.group(1) in rawdefs else m.group(0), pat)
    def tidy(pat):
        # (x) around a single bracket expression or a single bracket expression with + adds nothing
        prev = None
        while prev != pat:
            prev = pat
            pat = re.sub(r'\((\[[^\]\[()]*\])\)', r'\1', pat)
            pat = re.sub(r'\((\[[^\]\[()]*\]\+)\)(?![*+?])', r'\1', pat)
        return pat
    defs = []
    helpers = _static_helpers(head + '\n' + (parts[2] if len(parts) > 2 else ''))
    xconds = re.findall(r'^%x\s+(\w+)', head, re.M)
    rules, block, lines = [], None, body.split('\n')
    k = 0
    while k < len(lines):
        line = lines[k]; k += 1
        st = line.strip()
        if not st:
            continue
        m = re.match(r'^<([\w,*]+)>\{\s*$', line)
        if block is None and m:
            block = m.group(1).split(','); continue
        if block is not None and st == '}':
            block = None; continue
        if block is None and line[0] in ' \t':
            continue                                   # indented code outside a block is copied to the scanner, not a rule
        if st.startswith('/*') and block is None and line[0] not in '"<[\\({.':
            while '*/' not in line and k < len(lines):
                line = lines[k]; k += 1
            continue
        conds = block
        m = re.match(r'^<([\w,*]+)>(.*)$', st)
        if m:
            conds, st = m.group(1).split(','), m.group(2)
        pat, action = _split_pattern(st)
        depth = _braces(action)
        while depth > 0 and k < len(lines):
            action += '\n' + lines[k]; depth += _braces(lines[k]); k += 1
        rules.append((conds, tidy(expand(pat)), _inline(action.strip(), helpers)))
    return dict(rules=rules, defs=defs, xconds=xconds)


def _static_helpers(code):
    """file-static functions of the scanner's C code: name -> (parameter names, body text)"""
    out = {}
    for m in re.finditer(r'\bstatic\s+(?:inline\s+)?[\w:<>\*&\s]+?\b(\w+)\s*\(([^)]*)\)\s*\{', code):
        k, depth = m.end(), 1
        while k < len(code) and depth:
            depth += {'{': 1, '}': -1}.get(code[k], 0); k += 1
        params = [re.findall(r'\w+', x)[-1] for x in m.group(2).split(',') if re.findall(r'\w+', x) and x.strip() != 'void']
        out[m.group(1)] = (params, code[m.end():k - 1])
    return out


def _inline(action, helpers, depth=0):
    """calls of file-static helpers in a rule's action replaced by the helper's body (arguments substituted textually): what the readers below
    look for (BEGIN, tracker.newline, the returned token, the OLD-syntax test) is then in the text wherever the maintainers keep it"""
    if depth > 3 or not helpers:
        return action
    def sub(m):
        name = m.group(2)
        if name not in helpers:
            return m.group(0)
        params, body = helpers[name]
        args = [a.strip() for a in m.group(3).split(',')] if m.group(3).strip() else []
        if len(args) != len(params):
            return m.group(0)
        for p_, a_ in zip(params, args):
            body = re.sub(r'\b%s\b' % re.escape(p_), a_, body)
        return ('{ %s }' % body) if not m.group(1) else body.strip()     # `return f(x);` becomes the body (which returns itself)
    new = re.sub(r'(return\s+)?\b(\w+)\s*\(([^()]*)\)\s*;', sub, action)
    return _inline(new, helpers, depth + 1) if new != action else new


def _action_class(pat, action):
    a = re.sub(r'/\*.*?\*/', '', action, flags=re.S).strip()
    a = re.sub(r'^\{\s*|\s*\}$', '', a).strip()
    if a in ('', ';'): return 'ASkip'
    if 'BEGIN(INITIAL)' in a: return 'AEofEnd' if pat == '<<EOF>>' else 'AEnd'
    if 'BEGIN(' in a: return 'AOther'
    if 'newline' in a and 'return' not in a: return 'ANewline'
    if 'handle_expect' in a and 'return' not in a: return 'AExpect'
    return 'AOther'


def startcond_table():
    """flex start conditions of lexer.l: (condition, event) -> condition after the rule's action; events: open '/*', close '*/',
    eof, other.  Written to coq/theories/gen/Gen_StartCond.v; StartCond.v proves what a table with the right EOF rows guarantees."""
    F = flex_rules()
    if F['xconds'] != ['comment']:
        raise RuntimeError('lexer.l declares start conditions %r, the model knows INITIAL and comment' % F['xconds'])
    def active(conds, c):
        return (conds is None and c == 'INITIAL') or (conds is not None and (c in conds or '*' in conds))
    def target(c, pat, default):
        hits = [a for conds, p, a in F['rules'] if active(conds, c) and p == pat]
        if not hits:
            return default
        b = re.findall(r'BEGIN\((\w+)\)', hits[0])
        if len(b) > 1:
            raise RuntimeError('rule %s has several BEGINs' % pat)
        return b[0] if b else default
    tbl = {}
    for c in ('comment', 'INITIAL'):
        for ev, pat in (('open', '"/*"'), ('close', '"*/"'), ('eof', '<<EOF>>')):
            tbl[(c, ev)] = target(c, pat, c)
    nbegin = sum(len(re.findall(r'BEGIN\((\w+)\)', a)) for _, _, a in F['rules'])
    if nbegin != sum(1 for k, v in tbl.items() if v != k[0]):
        raise RuntimeError('lexer.l has BEGIN actions outside the open / close / eof rules the model knows')
    C = lambda c: 'INITIAL' if c == 'INITIAL' else 'COMMENT'
    out = ['(* generated by tools/gen_lex.py from src/lexer.l — do not edit *)', 'From Utap Require Import StartCond.', 'Definition gen_sc (c : cond) (e : ev) : cond :=', '  match c, e with']
    for (c, e), v in sorted(tbl.items()):
        out.append('  | %s, %s => %s' % (C(c), {'open': 'OpenC', 'close': 'CloseC', 'eof': 'Eof'}[e], C(v)))
    out.append('  | c, Other => c\n  end.')
    _write('Gen_StartCond.v', '\n'.join(out) + '\n')
    return tbl


def _write(name, txt):
    path = os.path.join(vlib.COQ, 'theories', 'gen', name)
    if not os.path.exists(path) or open(path).read() != txt:
        open(path, 'w').write(txt)


def _cq(t):
    return '"' + t.replace('"', '""') + '"'


def comment_rules():
    """the rules flex applies inside a block comment, as (pattern text, action class), sorted by pattern (no two of the modelled rules can match
    the same length at the same place, so their order in the file does not matter; a rule that is added shows up whatever its place);
    written to gen/Gen_CommentRules.v.  CommentLex.v models a scanner with the five reference rules."""
    F = flex_rules()
    out = sorted((p, _action_class(p, a)) for conds, p, a in F['rules'] if conds is not None and ('comment' in conds or '*' in conds))
    lines = ['(* generated by tools/gen_lex.py from the <comment> rules of src/lexer.l — do not edit *)', 'From Coq Require Import List String.', 'From Utap Require Import CommentLex.', 'Import ListNotations.',
             'Local Open Scope string_scope.', 'Definition gen_comment_rules : list crule :=', '  [' + ';\n   '.join('CR %s %s' % (_cq(p), a) for p, a in out) + '].']
    _write('Gen_CommentRules.v', '\n'.join(lines) + '\n')
    return out


def lex_rules():
    """the INITIAL-condition rules of lexer.l for coq/theories/LexModel.v: the literal rules (text, token) in file order, the patterns of all
    other rules with their name definitions expanded (sorted: the only ties between them and the literals are decided by the three order flags), and the flags:
    every literal before the identifier rule, every literal before the catch-all dot, {num} before the floating-point rule"""
    F = flex_rules()
    lits, others, pos = [], [], {}
    for idx, (conds, pat, action) in enumerate(F['rules']):
        if conds is not None and 'INITIAL' not in conds and '*' not in conds:
            continue
        lm = re.match(r'^"((?:[^"\\]|\\.)+)"$', pat)
        if lm and pat != '"/*"':
            t = re.sub(r'\\(.)', lambda mm: {'n': '\n', 't': '\t'}.get(mm.group(1), mm.group(1)), lm.group(1))
            rm = re.match(r'^\{\s*return\s+(\'(?:[^\'\\]|\\.)\'|[A-Za-z_0-9]+)\s*;\s*\}$', action)
            if rm:
                lits.append((t, rm.group(1), idx))
            elif t in ('=<', '=>') and 'syntax_t::OLD' in action and 'T_ERROR' in action and ('T_LEQ' if t == '=<' else 'T_GEQ') in action:
                lits.append((t, {'=<': 'T_LEQ|OLD', '=>': 'T_GEQ|OLD'}[t], idx))
            else:
                lits.append((t, 'ACTION:' + re.sub(r'\s+', ' ', action)[:60], idx))
            continue
        others.append(pat); pos[pat] = idx
    last_lit = max(i for _, _, i in lits)
    flag = lambda pat: 'true' if pat in pos and last_lit < pos[pat] else 'false'
    NUM, FLT, IDENT = '[0-9]+', '[0-9]+("."[0-9]+)?([eE]("+"|"-")?[0-9]+)?', '[a-zA-Z_][a-zA-Z0-9_$#]*'
    num_first = 'true' if NUM in pos and FLT in pos and pos[NUM] < pos[FLT] else 'false'
    out = ['(* generated by tools/gen_lex.py from src/lexer.l — do not edit *)', 'From Coq Require Import List String.', 'Import ListNotations.', 'Local Open Scope string_scope.',
           'Definition gen_literals : list (string * string) :=', '  [' + ';\n   '.join('(%s, %s)' % (_cq(t), _cq(k)) for t, k, _ in lits) + '].',
           'Definition gen_other_rules : list string :=', '  [' + ';\n   '.join(_cq(p) for p in sorted(others)) + '].',
           'Definition gen_defs : list (string * string) :=', '  [' + '; '.join('(%s, %s)' % (_cq(a), _cq(b)) for a, b in sorted(F['defs'])) + '].',
           'Definition gen_literals_before_identifier : bool := %s.' % flag(IDENT),
           'Definition gen_literals_before_dot : bool := %s.' % flag('.'),
           'Definition gen_num_before_float : bool := %s.' % num_first]
    _write('Gen_LexRules.v', '\n'.join(out) + '\n')
    return dict(literals=[(t, k) for t, k, _ in lits], others=sorted(others), defs=sorted(F['defs']))


def newline_actions():
    """every rule of lexer.l whose action reports line breaks to the position tracker: (start condition, pattern, argument of tracker.newline),
    sorted; a local that only names the argument (`const auto n = yyleng / 2; ... newline(ch, n)`) is looked through.  Written to
    gen/Gen_NewlineActions.v; LexLines.v proves what a scanner with the four reference actions reports."""
    F = flex_rules()
    out = []
    for conds, pat, action in F['rules']:
        for m in re.finditer(r'\bnewline\s*\(\s*ch\s*,\s*([^;]*?)\)\s*;', action):
            arg = m.group(1).strip()
            if re.fullmatch(r'[A-Za-z_]\w*', arg) and arg != 'yyleng':
                d = re.search(r'\b%s\s*=\s*([^;]+);' % re.escape(arg), action)
                if d:
                    arg = d.group(1).strip()
            arg = re.sub(r'\s+', '', arg)
            arg = re.sub(r'^\((.*)\)$', r'\1', arg)
            out.append((','.join(conds) if conds else 'INITIAL', pat, arg))
    out.sort()
    lines = ['(* generated by tools/gen_lex.py from src/lexer.l — do not edit *)', 'From Coq Require Import List String.', 'Import ListNotations.', 'Local Open Scope string_scope.',
             'Definition gen_newline_actions : list (string * string * string) :=', '  [' + ';\n   '.join('(%s, %s, %s)' % (_cq(c), _cq(p), _cq(a)) for c, p, a in out) + '].']
    _write('Gen_NewlineActions.v', '\n'.join(lines) + '\n')
    return out
