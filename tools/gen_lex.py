#!/usr/bin/env python3
"""G-LEX: token spellings read from src/lexer.l (literal rules) and src/keywords.cpp (keyword rows)."""
import os, re, sys
sys.path.insert(0, os.path.dirname(os.path.abspath(__file__)))
import vlib

def load():
    lex = open(os.path.join(vlib.REPO, 'src', 'lexer.l')).read()
    kw = open(os.path.join(vlib.REPO, 'src', 'keywords.cpp')).read()
    literals = []      # (text, token)
    for m in re.finditer(r'(?m)^"((?:[^"\\]|\\.)+)"\s*\{\s*return\s+([^;]+);\s*\}', lex):
        text = m.group(1).replace('\\\\', '\\').replace('\\"', '"')
        tok = m.group(2).strip()
        if tok == "'\\''":
            pass
        literals.append((text, tok))
    keywords = []      # (word, token, syntax)
    for m in re.finditer(r'\{"([A-Za-z_0-9]+)",\s*Keyword\{([A-Z_0-9a-z]+),\s*syntax_t::([A-Z_]+)\}\}', kw):
        keywords.append((m.group(1), m.group(2), m.group(3)))
    if len(literals) < 60 or len(keywords) < 100:
        raise RuntimeError('gen_lex: unexpectedly few rules (%d literals, %d keywords)' % (len(literals), len(keywords)))
    return dict(literals=literals, keywords=keywords)

def spellings(L=None):
    """token -> list of spellings usable in NEW syntax expressions (first literal rule wins for ties)"""
    L = L or load()
    sp = {}
    for text, tok in L['literals']:
        sp.setdefault(tok, []).append(text)
    for w, tok, syn in L['keywords']:
        if 'NEW' in syn:
            sp.setdefault(tok, []).append(w)
    return sp

if __name__ == '__main__':
    L = load()
    print(len(L['literals']), len(L['keywords']))
    s = spellings(L)
    for t in ('T_ASSIGNMENT', 'T_KW_AND', "'&'", 'T_PLUS', "'\\''", 'T_FABS', 'T_MIN'):
        print(t, s.get(t))
