"""Expression trees for C02 / C03 / C19: generators over the regenerated operator table, conversion of
the extracted model's tokens to concrete text, and the expected dump of the real parser.

Machine trees are s-expressions understood by coq/extract/drv_c02.ml:
  (A n) (B i l r) (U i b x) (P i f x) (I c a b) (X a i) (C f args..) (F kind a rest..)"""
import os, sys, json, random, subprocess
sys.path.insert(0, os.path.dirname(os.path.abspath(__file__)))
import vlib, gen_optable, gen_lex, gen_grammar

FIXTURE_XTA = """
int v0, v1, v2, v3;
bool b0, b1;
clock x0, x1;
double d0;
int arr[4];
int arr2[3][3];
typedef struct { int g0; } T_t;
typedef struct { int f0; int f1; T_t t; } S_t;
S_t s, s2;
S_t sa[3];
int fn0() { return 0; }
int fn1(int a) { return a; }
int fn2(int a, int b) { return a + b; }
int fn3(int a, int b, int c) { return a + b + c; }
process P() { state A; init A; }
system P;
"""

# atom id -> (text, expected dump, category)
ATOMS = [
    ('v0', '(IDENTIFIER v0)', 'int'), ('v1', '(IDENTIFIER v1)', 'int'), ('v2', '(IDENTIFIER v2)', 'int'), ('v3', '(IDENTIFIER v3)', 'int'),
    ('b0', '(IDENTIFIER b0)', 'int'), ('x0', '(IDENTIFIER x0)', 'int'), ('d0', '(IDENTIFIER d0)', 'int'),
    ('0', '(CONSTANT i:0)', 'int'), ('1', '(CONSTANT i:1)', 'int'), ('42', '(CONSTANT i:42)', 'int'), ('2147483647', '(CONSTANT i:2147483647)', 'int'),
    ('true', '(CONSTANT b:1)', 'int'), ('false', '(CONSTANT b:0)', 'int'), ('1.5', '(CONSTANT d:3ff8000000000000)', 'int'),
    ('arr', '(IDENTIFIER arr)', 'arr'), ('arr2', '(IDENTIFIER arr2)', 'arr'),
    ('s', '(IDENTIFIER s)', 'S'), ('s2', '(IDENTIFIER s2)', 'S'), ('sa', '(IDENTIFIER sa)', 'arrS'),
    ('fn0', '(IDENTIFIER fn0)', 'fn0'), ('fn1', '(IDENTIFIER fn1)', 'fn1'), ('fn2', '(IDENTIFIER fn2)', 'fn2'), ('fn3', '(IDENTIFIER fn3)', 'fn3'),
    ('0.1234567891', '(CONSTANT d:3fbf9add37a756df)', 'int'), ('1.0', '(CONSTANT d:3ff0000000000000)', 'int'),
    ('1e100', '(CONSTANT d:54b249ad2594c37d)', 'int'), ('0.1', '(CONSTANT d:3fb999999999999a)', 'int'),
]
INT_ATOMS = [i for i, a in enumerate(ATOMS) if a[2] == 'int']
A_ARR, A_ARR2, A_S, A_S2, A_SA = 14, 15, 16, 17, 18
A_FN = [19, 20, 21, 22]
FIELDS = {'S': [('f0', 'int'), ('f1', 'int'), ('t', 'T')], 'T': [('g0', 'int')]}
BINDERS = ['q0', 'q1', 'q2']


class Table:
    def __init__(self):
        self.G = gen_grammar.load()
        self.tab = gen_optable.write(self.G)
        self.sp = gen_lex.spellings()
        t = self.tab
        self.nb, self.nu, self.npo = len(t['infix']), len(t['prefix']), len(t['postfix'])
        self.post_dot = [i for i, o in enumerate(t['postfix']) if o.get('second') == 'NonTypeId']
        self.post_loc = [i for i, o in enumerate(t['postfix']) if o.get('second') == 'T_LOCATION']
        self.post_plain = [i for i, o in enumerate(t['postfix']) if not o.get('second')]
        self.quant = [i for i, o in enumerate(t['prefix']) if o.get('binder')]
        self.pre_plain = [i for i, o in enumerate(t['prefix']) if not o.get('binder')]
        self.fns = [f for f in t['fns']]

    def spell(self, tok, variant=0):
        s = self.sp.get(tok)
        if not s:
            raise RuntimeError('no spelling for token ' + tok)
        return s[variant % len(s)]

    # ---- tokens of the extracted renderer -> text ------------------------------------------------
    def text(self, toks, rng=None, fields=None, spaced=True):
        """toks: list of driver token strings; fields: list of field names consumed by p<dot> tokens in order"""
        out = []
        fi = 0
        for t in toks:
            c = t[0]
            if c == 'a':
                out.append(ATOMS[int(t[1:])][0])
            elif c == 'o':
                o = self.tab['infix'][int(t[1:])]
                out.append(self.spell(o['tok'], rng.randrange(4) if rng else 0))
            elif c == 'u':
                i, b = t[1:].split('.')
                o = self.tab['prefix'][int(i)]
                w = self.spell(o['tok'])
                if o.get('binder'):
                    w += ' (%s : int[0,3])' % BINDERS[int(b) % len(BINDERS)]
                out.append(w)
            elif c == 'p':
                i, f = t[1:].split('.')
                o = self.tab['postfix'][int(i)]
                if o.get('second') == 'NonTypeId':
                    out.append('.' + fields[fi])
                    fi += 1
                elif o.get('second') == 'T_LOCATION':
                    out.append('.location')
                else:
                    out.append(self.spell(o['tok']))
            elif c == 'f':
                kind = t[1:]
                tok = [f['tok'] for f in self.fns if f['kind'] == kind][0]
                out.append(self.spell(tok))
            else:
                out.append(t)
        if not spaced:
            return ' '.join(out)
        # random extra blanks / comments / newlines between tokens (never inside one)
        if rng is None:
            return ' '.join(out)
        seps = [' ', ' ', ' ', '  ', '\n', ' /* c */ ', '\t']
        return ''.join(w + rng.choice(seps) for w in out).strip()

    # ---- expected dump of the real parser from the model's normalised tree -------------------------
    def expected(self, kt):
        """kt: parsed NORM s-expression (nested lists)"""
        head = kt[0]
        rest = kt[1:]
        leaf = None
        if rest and isinstance(rest[0], str) and rest[0].startswith('#'):
            leaf = int(rest[0][1:])
            rest = rest[1:]
        if head == 'ATOM':
            return ATOMS[leaf][1]
        if head == 'BINDER':
            return '(IDENTIFIER %s)' % BINDERS[leaf % len(BINDERS)]
        subs = ' '.join(self.expected(x) for x in rest)
        if head == 'DOT':
            return '(DOT .%d %s)' % (leaf, subs)
        return '(%s %s)' % (head, subs)


def parse_sx(s):
    toks = s.replace('(', ' ( ').replace(')', ' ) ').split()
    pos = [0]

    def item():
        t = toks[pos[0]]
        pos[0] += 1
        if t == '(':
            l = []
            while toks[pos[0]] != ')':
                l.append(item())
            pos[0] += 1
            return l
        return t
    return item()


class Gen:
    """typed random generator of machine trees"""
    def __init__(self, table, rng):
        self.T, self.r = table, rng

    def atom(self):
        return '(A %d)' % self.r.choice(INT_ATOMS)

    def struct(self, d):
        """-> (tree, type name, [field names used in order])"""
        c = self.r.randrange(4)
        if c == 0 or d <= 0:
            return '(A %d)' % self.r.choice([A_S, A_S2]), 'S', []
        if c == 1:
            i, fl = self.expr(d - 1)
            return '(X (A %d) %s)' % (A_SA, i), 'S', fl
        base, ty, fl = self.struct(d - 1)
        if ty == 'S':
            return '(P %d 2 %s)' % (self.T.post_dot[0], base), 'T', fl + ['t']
        return base, ty, fl

    def dot(self, d):
        base, ty, fl = self.struct(d)
        cands = [(i, n) for i, (n, t) in enumerate(FIELDS[ty]) if t == 'int']
        i, n = self.r.choice(cands)
        return '(P %d %d %s)' % (self.T.post_dot[0], i, base), fl + [n]

    def expr(self, d):
        """-> (tree, fields)"""
        T, r = self.T, self.r
        if d <= 0 or r.random() < 0.12:
            return self.atom(), []
        c = r.random()
        if c < 0.42:
            l, f1 = self.expr(d - 1)
            rr, f2 = self.expr(d - 1)
            return '(B %d %s %s)' % (r.randrange(T.nb), l, rr), f1 + f2
        if c < 0.54:
            x, f = self.expr(d - 1)
            if r.random() < 0.25 and T.quant:
                return '(U %d %d %s)' % (r.choice(T.quant), r.randrange(3), x), f
            return '(U %d 0 %s)' % (r.choice(T.pre_plain), x), f
        if c < 0.62:
            x, f = self.expr(d - 1)
            return '(P %d 0 %s)' % (r.choice(T.post_plain), x), f
        if c < 0.70:
            a, f1 = self.expr(d - 1)
            b, f2 = self.expr(d - 1)
            cc, f3 = self.expr(d - 1)
            return '(I %s %s %s)' % (a, b, cc), f1 + f2 + f3
        if c < 0.78:
            if r.random() < 0.6:
                base, f1 = '(A %d)' % r.choice([A_ARR, A_ARR2]), []
            else:
                base, f1 = self.expr(d - 1)
            i, f2 = self.expr(d - 1)
            return '(X %s %s)' % (base, i), f1 + f2
        if c < 0.86:
            n = r.randrange(4)
            args, fl = [], []
            for _ in range(n):
                a, f = self.expr(d - 1)
                args.append(a)
                fl += f
            return '(C (A %d)%s)' % (A_FN[n], ''.join(' ' + a for a in args)), fl
        if c < 0.93:
            f = r.choice(T.fns)
            args, fl = [], []
            for _ in range(f['arity']):
                a, ff = self.expr(d - 1)
                args.append(a)
                fl += ff
            return '(F %s %s)' % (f['kind'], ' '.join(args)), fl
        t, fl = self.dot(d - 1)
        return t, fl


def shapes(T):
    """all one-operator contexts: list of (name, builder(child) -> tree, position kind) for the exhaustive triples"""
    A = lambda i: '(A %d)' % INT_ATOMS[i]
    ctx = []
    for i in range(T.nb):
        ctx.append(('B%d.l' % i, lambda c, i=i: '(B %d %s %s)' % (i, c, A(1)), 'any'))
        ctx.append(('B%d.r' % i, lambda c, i=i: '(B %d %s %s)' % (i, A(0), c), 'any'))
    for i in range(T.nu):
        b = 1 if i in T.quant else 0
        ctx.append(('U%d' % i, lambda c, i=i, b=b: '(U %d %d %s)' % (i, b, c), 'any'))
    for i in T.post_plain:
        ctx.append(('P%d' % i, lambda c, i=i: '(P %d 0 %s)' % (i, c), 'any'))
    for k, tmpl in enumerate(['(I %s (A 1) (A 2))', '(I (A 0) %s (A 2))', '(I (A 0) (A 1) %s)']):
        ctx.append(('I.%d' % k, lambda c, tmpl=tmpl: tmpl % c, 'any'))
    ctx.append(('X.a', lambda c: '(X %s (A 1))' % c, 'any'))
    ctx.append(('X.i', lambda c: '(X (A %d) %s)' % (A_ARR, c), 'any'))
    ctx.append(('C.1', lambda c: '(C (A %d) %s)' % (A_FN[1], c), 'any'))
    ctx.append(('C.2b', lambda c: '(C (A %d) (A 0) %s)' % (A_FN[2], c), 'any'))
    f1 = [f for f in T.fns if f['arity'] == 1][0]
    f2 = [f for f in T.fns if f['arity'] == 2][0]
    ctx.append(('F1', lambda c: '(F %s %s)' % (f1['kind'], c), 'any'))
    ctx.append(('F2.b', lambda c: '(F %s (A 0) %s)' % (f2['kind'], c), 'any'))
    return ctx


def children(T):
    """all one-operator trees over atoms: list of (name, tree, fields)"""
    A = lambda i: '(A %d)' % INT_ATOMS[i]
    ch = [('atom', A(3), [])]
    for i in range(T.nb):
        ch.append(('B%d' % i, '(B %d %s %s)' % (i, A(2), A(3)), []))
    for i in range(T.nu):
        ch.append(('U%d' % i, '(U %d %d %s)' % (i, 2 if i in T.quant else 0, A(2)), []))
    for i in T.post_plain:
        ch.append(('P%d' % i, '(P %d 0 %s)' % (i, A(2)), []))
    ch.append(('dot', '(P %d 0 (A %d))' % (T.post_dot[0], A_S), ['f0']))
    ch.append(('I', '(I %s %s %s)' % (A(2), A(3), A(4)), []))
    ch.append(('X', '(X (A %d) %s)' % (A_ARR, A(2)), []))
    ch.append(('C', '(C (A %d) %s)' % (A_FN[1], A(2)), []))
    ch.append(('C0', '(C (A %d))' % A_FN[0], []))
    f1 = [f for f in T.fns if f['arity'] == 1][0]
    ch.append(('F', '(F %s %s)' % (f1['kind'], A(2)), []))
    return ch


class Model:
    """the extracted OCaml model as a co-process"""
    def __init__(self, exe):
        self.p = subprocess.Popen([exe], stdin=subprocess.PIPE, stdout=subprocess.PIPE, universal_newlines=True, bufsize=1 << 20)

    def render_many(self, trees):
        inp = ''.join('R %s\n' % t for t in trees)
        out, _ = self.p.communicate(inp)
        lines = out.split('\n')
        res = []
        for i in range(0, len(trees) * 5, 5):
            blk = lines[i:i + 5]
            if len(blk) < 5 or not blk[0].startswith('MIN '):
                raise RuntimeError('model driver output out of step at %d: %r' % (i, blk))
            res.append(dict(min=blk[0][4:].split(), full=blk[1][5:].split(), norm=blk[2][5:], self_ok=blk[3].strip() == 'SELF 1', refmin=blk[4][7:].split()))
        return res


def model_parse_many(exe, token_lists):
    inp = ''.join('P %s\n' % ' '.join(t) for t in token_lists)
    out = subprocess.run([exe], input=inp, stdout=subprocess.PIPE, universal_newlines=True).stdout
    return [l for l in out.split('\n') if l]
