#!/bin/bash
# One-time build after a fresh restore (offline): both library flavours, the Coq development, extraction.
cd "$(dirname "$0")/.."
set -e
tools/buildlib.sh rel >/dev/null
tools/buildlib.sh asan >/dev/null
python3 tools/setup.py
