#!/bin/bash
# Runs the repository's own test suite with the UTAP_VERIF guard OFF (plain upstream build).
set -e
if [ ! -f /repo/_build/build.ninja ]; then cmake -G Ninja -S /repo -B /repo/_build -DCMAKE_BUILD_TYPE=RelWithDebInfo -DCMAKE_CXX_FLAGS=-Wno-error; fi
cmake --build /repo/_build
ctest --test-dir /repo/_build -j8 --timeout 900
