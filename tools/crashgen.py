"""Inputs for C01 / C16: seed texts for every parsing entry point and token-, byte- and element-level mutations of them."""
import re

DECL = [
    'int g; const int N = 3; int a[N] = {1, 2, 3}; bool b = true; clock x, y; chan c, d[2]; urgent broadcast chan u; meta int m; double r = 1.5;',
    'typedef int[0,3] id_t; typedef struct { int a; bool b; } S; S s = {1, true}; typedef scalar[3] sc; sc v;',
    'int f(int a, int &r, const int k) { int loc[2] = {1, 2}; if (a > 0) { r = a + 1; return loc[0]; } else r = 0; while (a < 3) a++; do { a--; } while (a > 0); for (a = 0; a < 2; a++) { r += a; } for (i : int[0,2]) r += i; return k; }',
    'void g() { int i = 0; i = (i > 0) ? 1 : 2; i += forall (q : int[0,3]) q < 4; i = exists (q : int[0,1]) q == i ? 1 : 0; i = sum (q : int[0,2]) q; ; { int z; z = i; } }',
    'bool h(S p) { return p.b && p.a > 0 || !(p.a == 2) and not p.b imply true; } int8_t w = -1; int k2 = 1 <? 2 >? 3;',
    'chan priority c < d[0], d[1] < default; progress { g; b: g + 1; } hybrid clock hc; string str = "abc";',
    'import "libx.so" { int ext(int a); }; const double PI2 = 2 * M_PI; int arr2[2][3]; int arr3[id_t];',
    'int sw(int a) { if (a) if (a > 1) return 1; else return 2; return 0; }',
]
# one declaration each, over every type keyword and prefix (valid and invalid combinations): a compound seed that fails early hides what follows it
DECL += ['string s;', 'meta string ms;', 'const string cs = "a";', 'void vf(string p) { }', 'struct { string f; } rs;', 'string sa[2];', 'typedef string tstr; tstr ts;',
         'hybrid clock hc;', 'urgent chan uc;', 'broadcast chan bc;', 'urgent broadcast chan ubc[2];', 'meta int mi;', 'const double cd = 0.5;', 'double da[2] = {0.1, 0.2};', 'scalar[3] sv;',
         'typedef scalar[2] st; st sx;', 'int[0,1] bi;', 'const int ca[2] = {1, 2};', 'clock ck[3];', 'chan c9; chan priority c9 < default;', 'int pg; progress { pg; }', 'void vv() { }',
         'bool bf(bool p) { return !p; }', 'double df(double p) { return p * 2.0; }', 'struct { int a; struct { int b; } in; } nest;', 'typedef struct { int a; } TS; TS tsv = {1}; TS tsa[2];',
         'int &ref;', 'const clock cc;', 'meta clock mc;', 'urgent int ui;', 'broadcast int bi2;', 'void v;', 'int f2(int a[2], int &b[2]) { return a[0] + b[1]; }', 'const void cv;', 'meta chan mch;',
         'hybrid int hi;', 'urgent urgent chan uu;', 'const const int cci = 1;', 'struct { } es;', 'scalar[0] s0;', 'int[5,1] rev;', 'clock xc = 1.5;', 'chan ch2 = 1;']
EXPR = ['g == 1', 'x <= 3 && g > 0', 'a[g] + f(1, g, 2) * 2', 'forall (i : int[0,2]) a[i] > 0', 'b ? g : 1', 's.a == 1 && s.b', 'g = 1, b = false', 'c!', 'd[g]?',
        "x' == 0", 'exists (j : id_t) j == g', 'sum (k : int[0,1]) k + g', '(g + 1) * -g % 3 << 1', 'g++ + --g', 'not b or b imply b', 'P.L and P.v > 0', 'deadlock', 'x - y < 3', 'true', '1 && g == 2', "P'.L", "P'.v > 0 and g", "(P).L", "s'.a", 'forall (i : bool) a[0] > 0', 'exists (k : clock) true', 'sum (q : double) 1', 'forall (i : S) true']
SYSTEM = ['P1 = P(1); system P1;', 'system P;', 'P1 = P(1); P2(int[0,1] q) = P(q); system P1 < P2;', 'Q = R(); system Q, P;', 'system P; progress { g; } gantt { G(i:int[0,1]): g > i -> 1; }']
PARAMS = ['int a, int &b, const int k', 'int[0,3] q, bool &c, chan &ch', 'S p', '']
SELECT = ['i : int[0,2]', 'i : int[0,2], j : id_t', 'k : sc']
QUERY = ['A[] not deadlock', 'E<> P.L and g > 0', 'A<> g == 1', 'E[] b', 'g > 0 --> b', 'sup: g, x', 'inf{b}: g', 'bounds: g', 'Pr[<=10](<> g > 1)', 'Pr[<=10](<> b) >= 0.5', 'Pr[x<=10; 100]([] b)',
         'E[<=10; 100](max: g)', 'simulate [<=10; 5] {g, x}', 'simulate [<=10] {g} : 2 : b', 'control: A[] b', 'control: A<> g > 0', '{g, b} control: A[] true', '{} control: A[] true',
         'strategy s1 = minE(x)[<=20] {g} -> {x} : <> b', 'strategy s2 = control: A<> b', 'A[] b under s1', 'saveStrategy("f", s1)', 'strategy s3 = loadStrategy {g} -> {x} ("f")',
         'Pr[<=10](<> b) >= Pr[<=10](<> g > 1)', 'E<> exists (i : int[0,2]) a[i] == 1', 'minE(g)[<=20] {b} -> {x} : <> b', 'A[] forall (i : int[0,1]) g > i imply b', 'Pr[#<=20](<> b)']
# queries that are built with a diagnostic or are ill-typed: a query is type-checked whatever building it reported (names of the base model: g b x a s f P L;
# PS is a process set with two free parameters)
QUERY_SEM = ['E<> f() > 0', 'E<> f(1) > 0', 'E<> f(1, g) > 0', 'E<> f(1, g, 2, 3) > 0', 'E<> f(1, 2, 3) > 0', 'E<> abs() > 0', 'E<> abs(1, 2) > 0', 'E<> fmax(1) > 0.0', 'E<> g(1) > 0', 'E<> b() ', 'E<> x(1) > 0',
             'E<> a(1) > 0', 'E<> s(1) == 1', 'E<> P(1).L', 'E<> P().L', 'E<> PS().L', 'E<> PS(1).L', 'E<> PS(1, 0).L', 'E<> PS(1, 0, 1).L', 'E<> PS(1, 0, 1, 1, 1).L', 'E<> PS(b, x).L', 'E<> PS(1, 0).nosuch', 'E<> PS(1, 0)',
             'E<> PS.L', 'E<> PS[1].L', 'E<> PS(1)(0).L', 'E<> g.v > 0', 'E<> f.v > 0', 'E<> P.nosuch', 'E<> P.L.v', 'E<> a[1][2] > 0', 'E<> g[1] > 0', 'E<> f[1] > 0', 'E<> (g + 1)(2) > 0', 'E<> P[1].L', 'A[] f', 'E<> P',
             'E<> a', 'E<> s', 'A[] x', 'sup: f', 'inf: P', 'Pr[<=f](<> b)', 'Pr[<=10](<> f)', 'E<> forall (i : int[0,1]) f() > i', 'simulate [<=10] {f(), g}', 'E<> a[f()] > 0', 'E<> (b ? f() : 1) > 0', 'E<> f(f(), g, 1) > 0',
             'E<> s.a(1) > 0', 'E<> P.v(1) > 0', 'E<> sum (i : int[0,1]) f(i) > 0', 'A[] f(1, g, 2) > 0 imply f()', 'E<> x.v > 0', 'E<> c(1)', 'E<> d[0](1)', 'control: A[] f()', '{f()} control: A[] b', 'E[<=10; 100](max: f())',
             'strategy q1 = minE(f())[<=20] {g} -> {x} : <> b', 'E<> P.L(1)', 'E<> deadlock(1)', 'E<> exists (i : sc) f(i) > 0', 'E<> 1(2) > 0', 'E<> "s"(1)', "E<> x'(1) > 0", 'E<> (f)(1, g, 2) > 0', 'E<> f(1, 2 + g, 2) > 0']
def type_pairs():
    """declarations in which two objects whose types differ in a const prefix, a range or the element / field type meet: compared, assigned, passed by reference,
    in both branches of a conditional; at the top level of the type and below it (array elements, record fields)"""
    ELEM = [('int', '1'), ('const int', '1'), ('int[0,5]', '1'), ('const int[0,5]', '1'), ('bool', 'true'), ('const bool', 'true'), ('id_t', '1'), ('S', '{1, true}'), ('const S', '{1, true}'), ('double', '1.5')]
    out = []
    for t1, i1 in ELEM:
        for t2, i2 in ELEM:
            out.append('%s pa[2] = {%s, %s}; %s pb[2] = {%s, %s}; %s qa = %s; %s qb = %s; struct { %s f; int z; } ra = {%s, 0}; struct { %s f; int z; } rb = {%s, 0};\n'
                       'void tf() { if (pa == pb) { } if (qa == qb) { } if (ra == rb) { } }\nvoid tg(%s &r[2], %s &w) { }\nvoid th() { tg(pb, qb); }\nvoid ti() { pb = pa; qb = qa; rb = ra; }\n'
                       'void tj() { (b ? pa : pb)[0] = (b ? qa : qb); }' % (t1, i1, i1, t2, i2, i2, t1, i1, t2, i2, t1.replace('const ', ''), i1, t2.replace('const ', ''), i2, t1, t1))
    return out


XTA = [
    'clock x; int g; chan c;\nprocess P(int k) { int v; state A { x <= 3 }, B, C { x <= 2 ; 3 }; commit B; urgent C; init A;\n trans A -> B { select i : int[0,2]; guard g == i; sync c!; assign g = 1, v = i; }, B -u-> C { probability 2; }, -> A { }, C -> A { assign x = 0; }; }\nP1 = P(1); system P1;',
    'int g;\nprocess Q() { state L; branchpoint b1; init L; trans L -> b1 { }, b1 -> L { probability 1; assign g = 0; }; }\nsystem Q;',
]
TOKEN = re.compile(r'"[^"]*"|\d+\.\d+|\w+|<=|>=|==|!=|&&|\|\||->|-u->|-->|\+\+|--|<<|>>|<\?|>\?|:=|\+=|-=|[^\w\s]')
POOL = ['(', ')', '{', '}', '[', ']', ';', ',', ':', '+', '-', '*', '?', '!', '=', '==', '<', '&&', 'forall', 'exists', 'sum', 'if', 'else', 'return', 'int', 'const', 'clock', 'struct', 'typedef',
        'g', 'zz', '1', '2.5', 'true', 'urgent', 'broadcast', 'meta', 'hybrid', 'select', 'guard', 'state', 'init', 'trans', 'process', 'system', 'A[]', 'E<>', 'Pr', 'control', 'strategy', '"s"', "'", '.', 'deadlock', '->', 'for', 'while', 'do']


def tokens(text):
    return TOKEN.findall(text)


def join(toks):
    return ' '.join(toks)


def mutate_tokens(rng, text, n=None):
    toks = tokens(text)
    for _ in range(n or rng.choice([1, 1, 1, 2, 3])):
        if not toks:
            toks = [rng.choice(POOL)]
            continue
        k = rng.randrange(len(toks))
        r = rng.random()
        if r < 0.35: del toks[k]
        elif r < 0.6: toks.insert(k, rng.choice(POOL))
        elif r < 0.8: toks[k] = rng.choice(POOL)
        elif r < 0.9: toks.insert(k, toks[k])
        else: toks = toks[:k]
    return join(toks)


def mutate_bytes(rng, data):
    b = bytearray(data.encode('latin-1', 'replace'))
    for _ in range(rng.choice([1, 2, 4])):
        if not b: break
        k = rng.randrange(len(b))
        r = rng.random()
        if r < 0.3: del b[k]
        elif r < 0.6: b[k] = rng.randrange(1, 256)
        elif r < 0.8: b.insert(k, rng.choice(b'<>&"\'/= \n{}();'))
        else: b = b[:k]
    return bytes(b).decode('latin-1')


ATTR = re.compile(r'\s(\w+)="[^"]*"')
ELEM = re.compile(r'<(\w+)[^<>]*?/>|<(\w+)[^<>]*>[^<>]*</\2>')


def mutate_xml(rng, xml):
    """element-level faults: drop an attribute, drop / duplicate / empty an element, change a kind or a reference"""
    r = rng.random()
    if r < 0.12:
        ms = list(re.finditer(r'\b(?:id|ref|kind|controllable|x|y|outcome|type|value)="([^"]*)"', xml))
        if ms:                                                   # an attribute that is present but blank / odd
            m = rng.choice(ms)
            return xml[:m.start(1)] + rng.choice(['', ' ', '\t', '&#10;', 'id0 ', ' id0', 'true', '0', '-1', 'id0 id1']) + xml[m.end(1):]
    if r < 0.35:
        ms = list(ATTR.finditer(xml))
        if ms:
            m = rng.choice(ms)
            return xml[:m.start()] + xml[m.end():]
    elif r < 0.6:
        ms = list(ELEM.finditer(xml))
        if ms:
            m = rng.choice(ms)
            return xml[:m.start()] + (m.group(0) * 2 if rng.random() < 0.4 else '') + xml[m.end():]
    elif r < 0.75:
        ms = list(re.finditer(r'>([^<>]+)</', xml))
        if ms:
            m = rng.choice(ms)
            return xml[:m.start(1)] + xml[m.end(1):]
    elif r < 0.9:
        ms = list(re.finditer(r'kind="(\w+)"', xml))
        if ms:
            m = rng.choice(ms)
            return xml[:m.start(1)] + rng.choice(['guard', 'invariant', 'select', 'comments', 'zzz', 'assignment', 'synchronisation', 'probability', 'exponentialrate', 'testcode']) + xml[m.end(1):]
    ms = list(re.finditer(r'ref="(\w+)"', xml))
    if ms:
        m = rng.choice(ms)
        return xml[:m.start(1)] + 'id9999' + xml[m.end(1):]
    return xml


XML_EXTRA = '''<queries><query><formula>A[] not deadlock</formula><comment>c</comment><expect outcome="success" type="probability" value="0.5"><resource type="time" value="1" unit="s"/></expect></query>
<query><formula>E&lt;&gt; P.id0</formula><comment/><expect outcome="failure" type="symbolic" value="x"/><result outcome="success" type="quality" timestamp="t"><details>d</details></result></query></queries>'''


def wrap_xml(decl, tdecl='int v;', params='', inv='x <= 3', guard='g == 1', sync='c!', assign='g = 1', select='i : int[0,2]', system='system P;', extra=''):
    esc = lambda t: t.replace('&', '&amp;').replace('<', '&lt;').replace('>', '&gt;')
    return ('<?xml version="1.0" encoding="utf-8"?><nta><declaration>%s</declaration><template><name x="1" y="2">P</name><parameter>%s</parameter><declaration>%s</declaration>'
            '<location id="id0" x="0" y="0"><name>L</name><label kind="invariant">%s</label></location><location id="id1"><urgent/></location><branchpoint id="id2"/><init ref="id0"/>'
            '<transition controllable="false" action=""><source ref="id0"/><target ref="id1"/><label kind="select">%s</label><label kind="guard">%s</label><label kind="synchronisation">%s</label>'
            '<label kind="assignment">%s</label><nail x="1" y="2"/></transition><transition><source ref="id1"/><target ref="id2"/></transition><transition><source ref="id2"/><target ref="id0"/><label kind="probability">2</label></transition>'
            '</template><system>%s</system>%s</nta>') % (esc(decl), esc(params), esc(tdecl), esc(inv), esc(select), esc(guard), esc(sync), esc(assign), esc(system), extra)


def long_token(rng, text):
    """a very long identifier, number or string literal spliced into the text (the lexer's fixed token buffers)"""
    n = rng.choice([3999, 4000, 4001, 4002, 4100, 9000, 70000])
    kind = rng.random()
    tok = ('q' + 'a' * (n - 1)) if kind < 0.5 else (('7' * n) if kind < 0.7 else ('"' + 'z' * n + '"'))
    toks = tokens(text)
    cand = [i for i, t in enumerate(toks) if re.match(r'^[A-Za-z_]\w*$', t) and t not in POOL] or list(range(len(toks))) or [0]
    k = rng.choice(cand)
    if toks:
        toks[k] = tok
    else:
        toks = [tok]
    return join(toks)


def init_lists(rng):
    """declarations whose brace initialisers have too few, exactly enough or too many elements (structs, arrays, nested, named fields)"""
    nf = rng.randrange(1, 6)
    fields = ['f%d' % i for i in range(nf)]
    decl = 'typedef struct { %s } S; ' % ' '.join('int %s;' % f for f in fields)
    def lst(n, named=False):
        items = []
        for i in range(n):
            v = str(rng.randrange(0, 9))
            items.append('%s: %s' % (fields[i % nf], v) if named and rng.random() < 0.6 else v)
        return '{ ' + ', '.join(items) + ' }'
    k = rng.choice([0, max(0, nf - 1), nf, nf, nf + 1, nf + 2, nf + 7])
    out = decl + 'S s = %s; ' % lst(k, named=rng.random() < 0.4)
    m = rng.randrange(1, 4)
    j = rng.choice([0, max(0, m - 1), m, m + 1, m + 4])
    out += 'int a[%d] = %s; ' % (m, lst(j))
    if rng.random() < 0.5:
        out += 'S t[2] = { %s, %s%s }; ' % (lst(rng.choice([nf, nf + 1])), lst(nf), ', ' + lst(nf) if rng.random() < 0.4 else '')
    if rng.random() < 0.4:
        out += 'typedef struct { S in; int z[2]; } O; O o = { %s, %s%s }; ' % (lst(rng.choice([nf - 1 if nf > 1 else 1, nf, nf + 1])), lst(rng.choice([1, 2, 3])), ', 5' if rng.random() < 0.4 else '')
    if rng.random() < 0.3:
        out += 'void f() { S l = %s; int b[2] = %s; }' % (lst(rng.choice([nf, nf + 1, nf + 3])), lst(rng.choice([2, 3])))
    return out


LSC_DOC = ('<?xml version="1.0" encoding="utf-8"?><nta><declaration>clock x; chan m1, m2; int g;</declaration>'
           '<template><name>P</name><location id="id0"><name>L</name></location><init ref="id0"/><transition><source ref="id0"/><target ref="id0"/><label kind="synchronisation">m1!</label></transition></template>'
           '<lsc><name>Sc</name><parameter>int a</parameter><type>Universal</type><mode>Invariant</mode><declaration>int v;</declaration>'
           '<yloccoord number="0" y="0"/><yloccoord number="1" y="56"/><yloccoord number="2" y="104"/><yloccoord number="3" y="144"/>'
           '<instance id="id8" x="432" y="0"><name x="0" y="0">A</name></instance><instance id="id9" x="288" y="0"><name>B</name></instance>'
           '<prechart x="0" y="104"><lsclocation>2</lsclocation></prechart>'
           '<message x="0" y="56"><source ref="id8"/><target ref="id9"/><lsclocation>1</lsclocation><label kind="message" x="61" y="-18">m1</label></message>'
           '<message x="0" y="144"><source ref="id9"/><target ref="id8"/><lsclocation>3</lsclocation><label kind="message">m2</label></message>'
           '<condition x="0" y="56"><anchor instanceid="id9"/><lsclocation>1</lsclocation><temperature>cold</temperature><label kind="condition">x &gt;= a</label></condition>'
           '<update x="0" y="144"><anchor instanceid="id8"/><lsclocation>3</lsclocation><label kind="update">g = 1</label></update></lsc>'
           '<system>system P;</system></nta>')


def structural_sweep(xml):
    """every single element-level and attribute-level fault of a document, systematically: each attribute removed / blank / a
    space; each element removed, duplicated, emptied (children and text dropped), its text dropped.  -> list of (what, xml)"""
    import copy
    import xml.etree.ElementTree as ET
    head = '<?xml version="1.0" encoding="utf-8"?>'
    root = ET.fromstring(xml[xml.index('<nta'):])
    out = []
    def ser(r):
        return head + ET.tostring(r, encoding='unicode')
    def nodes(r):
        res = []
        def walk(e, path):
            for i, c in enumerate(list(e)):
                res.append(path + [i]); walk(c, path + [i])
        walk(r, [])
        return res
    def at(r, path):
        e = r
        for i in path[:-1]: e = list(e)[i]
        return e, list(e)[path[-1]]
    for path in nodes(root):
        _, el0 = at(root, path)
        label = '%s@%s' % (el0.tag, '.'.join(map(str, path)))
        for a in list(el0.attrib):
            for val, nm in ((None, 'no'), ('', 'empty'), (' ', 'blank')):
                r = copy.deepcopy(root); _, el = at(r, path)
                if val is None: del el.attrib[a]
                else: el.attrib[a] = val
                out.append(('%s %s attribute %s' % (label, nm, a), ser(r)))
        r = copy.deepcopy(root); par, el = at(r, path); par.remove(el); out.append((label + ' removed', ser(r)))
        r = copy.deepcopy(root); par, el = at(r, path); par.insert(path[-1], copy.deepcopy(el)); out.append((label + ' duplicated', ser(r)))
        if len(el0) or (el0.text or '').strip():
            r = copy.deepcopy(root); par, el = at(r, path)
            for c in list(el): el.remove(c)
            el.text = None; out.append((label + ' emptied', ser(r)))
        if len(el0) and (el0.text or '').strip() == '':
            r = copy.deepcopy(root); par, el = at(r, path); el.text = 'zz'; out.append((label + ' stray text', ser(r)))
    return out


def scale(kind, n):
    """structures whose size or nesting depth grows with n: (xta_part_t, text).  The parser, the builders, the type checker and the destructors
    recurse over them; none may crash or take time out of proportion at sizes an input file can reasonably have"""
    return {'plus': (12, '+'.join(['1'] * n)), 'and': (9, ' && '.join(['g == 1'] * n)), 'paren': (12, '(' * n + '1' + ')' * n), 'index': (12, 'a[' * n + '0' + ']' * n),
            'call': (12, 'f(' * n + '1' + ')' * n), 'args': (12, 'f(' + ','.join(['1'] * n) + ')'), 'comma': (11, ', '.join(['g = 1'] * n)), 'unary': (12, '-' * n + '1'),
            'ite': (12, 'g ? 1 : ' * n + '0'), 'blocks': (1, 'void h() { ' + '{ ' * n + 'g = 1;' + ' }' * n + ' }'), 'ifelse': (1, 'void h() { ' + 'if (g) g = 1; else ' * n + 'g = 2; }'),
            'decls': (1, ' '.join('int v%d;' % i for i in range(n))), 'init': (1, 'int big[%d] = {%s};' % (n, ','.join(['1'] * n))), 'stmts': (1, 'void h() { ' + 'g = 1; ' * n + '}'),
            'forall': (12, 'forall (i : int[0,1]) ' * n + 'true'), 'dots': (12, 'st' + '.s' * n), 'strings': (1, 'const string big = "%s";' % ('x' * n))}[kind]


SCALE_KINDS = ['plus', 'and', 'paren', 'index', 'call', 'args', 'comma', 'unary', 'ite', 'blocks', 'ifelse', 'decls', 'init', 'stmts', 'forall', 'dots', 'strings']
SCALE_DECL = 'int g; int a[2]; int f(int x) { return x; } typedef struct { int s; } ST; ST st;'
# function bodies by the shape of their last statement, and the dynamic-template constructs
DECL += ['int r1(int x) { if (x > 0) return 1; }', 'int r2(int x) { if (x > 0) { return 1; } }', 'int r3(int x) { while (x > 0) return 1; }', 'int r4(int x) { for (x = 0; x < 2; x++) return 1; }', 'int r5() { }',
         'int r6(int x) { if (x) return 1; else return 2; }', 'int r7(int x) { x++; { { if (x == 1) { return 1; } } } }', 'int r8(int x) { do return 1; while (x); }', 'void r9(int x) { return 1; }', 'int r10() { return; }',
         'int r11(int x) { for (i : int[0,1]) return i; }', 'int r12(int x) { if (x) if (x > 1) return 1; else return 2; }', 'int r13(int x) { ; }', 'int r14(int x) { x = 1; }', 'int r15(int x) { return 1; x = 2; }',
         'int r16(int x) { if (x) { } else return 1; }', 'int r17(int x) { { } }', 'bool r18() { return 1 < 2; }', 'int r19(int x) { while (x) { if (x) return 1; else return 2; } }',
         'void ex() { exit(); }', 'dynamic Dyn(int a); void sp() { spawn Dyn(1); }', 'dynamic Dyn(int a); int nf() { return numOf(Dyn); }', 'int ex2() { return exit(); }', 'void sp2() { spawn Nope(1); }',
         'dynamic Dyn(int a); bool fd() { return forall (p : Dyn) true; }', 'dynamic Dyn(int a); int sd() { return sum (p : Dyn) 1; }']

# every alternative of the property grammar as a query that type-checks cleanly on the crash model (names of BASE_DECL: g, b, x, y, a, s, f; process P with location L):
# what the query back end does after a successful type check (classification of the property, strategy bookkeeping) runs only for these
QUERY_OK = ['A[] g >= 0', 'E<> b', 'A<> P.L', 'E[] not b', 'b --> g > 0', 'A[] not deadlock', 'sup: g', 'sup{b}: g, a[0]', 'inf: x', 'inf{g > 0}: g', 'bounds: g', 'bounds{b}: a[1]',
            'control: A[] b', 'control: A<> b', 'control: A[ b U g > 0 ]', 'control: A[ b W g > 0 ]', 'E<> control: A<> b', 'control_t*(2,1): A<> b', 'control_t*(10): A<> b', 'control_t*(g + 10): A[ not b U g > 0 ]',
            'control_t*: A<> b', 'control_t*: A[ b U P.L ]', '{g, b} control: A<> b', '{} control: A[] b', 'control: A[] (b && A<> g > 0)',
            'Pr[<=10](<> b)', 'Pr[<=10]([] b)', 'Pr[#<=10](<> b)', 'Pr[x<=10](<> b)', 'Pr[<=10](<> b) >= 0.5', 'Pr[<=10]([] b) <= 0.25', 'Pr[<=10](<> b) >= Pr[<=20](<> g > 0)', 'Pr[<=10](b U g > 0)', 'Pr[<=10; 7](<> b)',
            'E[<=10; 100](max: g)', 'E[#<=10; 50](min: g + 1)', 'E[<=10](max: g)', 'simulate [<=10] { g, x }', 'simulate [<=10; 5] { g }', 'simulate [<=10; 5] { g } : b', 'simulate [<=10; 5] { g } : 2 : b',
            'minE(g)[<=10] {a[0]} -> {x} : <> b', 'maxE(g)[<=10] : <> b', 'minE(g)[#<=10] {g} -> {} : <> b', 'minPr[<=10] : <> b', 'maxPr[<=10] {g} -> {x} : <> b',
            'strategy S1 = control: A<> b', 'strategy S2 = minE(g)[<=10] : <> b', 'strategy S3 = loadStrategy {g} -> {x} ("f.json")', 'strategy S4 = control_t*(5): A<> b',
            'A[] forall (i : int[0,2]) a[i] >= 0', 'E<> exists (i : id_t) a[i % 3] == 1', 'E<> sum (i : int[0,2]) a[i] > 2', 'A[] s.a >= 0 imply s.b']

# queries over dynamic templates (a model that declares, defines and spawns one): members through quantified process variables, with and without the brackets the
# grammar wants around the body (without them the dot applies to the whole quantifier), counts, nested binders
DYN_MODEL = ('<?xml version="1.0" encoding="utf-8"?><nta><declaration>int g; broadcast chan c;\ndynamic Child(const int di);</declaration>'
             '<template><name>Child</name><parameter>const int di</parameter><declaration>int n; clock z;</declaration><location id="idd"><name>L</name></location><init ref="idd"/></template>'
             '<template><name>T</name><location id="id0"/><location id="id1"/><init ref="id0"/><transition><source ref="id0"/><target ref="id1"/><label kind="assignment">spawn Child(1)</label></transition></template>'
             '<system>system T;</system></nta>')
DYN_QUERIES = ['simulate [<=10] { sum (p : Child) p.n }', 'simulate [<=10] { sum (p : Child) (p.n + 1) }', 'E[<=10; 10](max: sum (p : Child) p.n)', 'Pr[<=10](<> exists (p : Child) (p.n > 0))',
               'Pr[<=10](<> exists (p : Child) p.n > 0)', 'Pr[<=10](<> forall (p : Child) p.L)', 'Pr[<=10](<> forall (p : Child) (p.L))', 'simulate [<=10] { numOf(Child) }', 'Pr[<=10](<> numOf(Child) > 2)',
               'E<> exists (p : Child) (p.n > 0)', 'A[] forall (p : Child) (p.n >= 0)', 'Pr[<=10](<> exists (p : Child) (forall (q : Child) (p.n >= q.n)))', 'simulate [<=10] { sum (p : Child) p }',
               'Pr[<=10](<> exists (p : Child) p)', 'simulate [<=10] { (sum (p : Child) (p.n)).x }', 'Pr[<=10](<> exists (p : Nope) (p.n > 0))', 'Pr[<=10](<> exists (p : Child) (p.nope > 0))',
               'Pr[<=10](<> exists (p : Child) (q.n > 0))', 'simulate [<=10] { sum (p : Child) (p.z) }', "Pr[<=10](<> exists (p : Child) (p.n' == 1))", 'Pr[<=10](<> exists (p : T) (p.n > 0))']

