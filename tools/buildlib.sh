#!/bin/bash
# Build libUTAP.a from /repo's *current working tree* into /verif/_work/lib-<flavour>.
# flavours: rel (-O1 -g, -DUTAP_VERIF), asan (same + ASan/UBSan), off (guard off, for sanity), cov (gcov instrumentation)
# Incremental through make's mtime + -MMD dependency files.  Prints the library path.
set -e
FL=${1:-rel}
REPO=${UTAP_REPO:-/repo}
HERE=$(cd "$(dirname "$0")/.." && pwd)
OUT=${VERIF_WORK:-$HERE/_work}/lib-$FL
mkdir -p "$OUT/include"
case $FL in
  rel)  FLAGS="-O1 -g -DUTAP_VERIF" ;;
  asan) FLAGS="-O1 -g -DUTAP_VERIF -fsanitize=address,undefined -fno-sanitize-recover=all -fno-omit-frame-pointer" ;;
  off)  FLAGS="-O1 -g" ;;
  cov)  FLAGS="-O0 -g --coverage -DUTAP_VERIF" ;;   # development aid: which branches of /repo do the checks' inputs reach (tools/coverage.sh)
  *) echo "unknown flavour $FL" >&2; exit 2 ;;
esac
cat > "$OUT/Makefile" <<M
REPO=$REPO
CXX=g++
CXXFLAGS=-std=c++17 -fPIC -Wno-error -w -DNDEBUG $FLAGS -DMODELS_DIR=\"$REPO/test/models\" -I$OUT/include -I$OUT -I$REPO/src -I$REPO/include -isystem /usr/include/libxml2
SRCS=\$(wildcard \$(REPO)/src/*.cpp)
OBJS=\$(patsubst \$(REPO)/src/%.cpp,%.o,\$(SRCS)) parser.o
all: libUTAP.a
lexer.cc: \$(REPO)/src/lexer.l
	flex --outfile=lexer.cc -Putap_ \$<
parser.cpp: \$(REPO)/src/parser.y lexer.cc
	bison -putap_ -bparser \$< --output=parser.cpp --defines=include/parser.hpp 2>bison.log || (cat bison.log; false)
parser.o: parser.cpp
	\$(CXX) \$(CXXFLAGS) -MMD -c \$< -o \$@
%.o: \$(REPO)/src/%.cpp parser.cpp
	\$(CXX) \$(CXXFLAGS) -MMD -c \$< -o \$@
libUTAP.a: \$(OBJS)
	rm -f \$@; ar rcs \$@ \$(OBJS)
-include \$(wildcard *.d)
M
# Rebuild by content, not by time stamp: a tree restored or copied with old time stamps would otherwise keep stale objects.
# Every source whose sha256 differs from the one recorded at the last build gets a new time stamp for make: a changed .cpp / .y / .l
# loses its object (and generated files); a changed header under src/ or include/ invalidates every object.
( cd "$REPO" && find src include -type f \( -name '*.cpp' -o -name '*.h' -o -name '*.hpp' -o -name '*.y' -o -name '*.l' \) -print0 | sort -z | xargs -0 sha256sum ) > "$OUT/sources.new" 2>/dev/null || true
if [ -f "$OUT/sources.sha256" ]; then
  changed=$(diff <(sort "$OUT/sources.sha256") <(sort "$OUT/sources.new") | grep '^[<>]' | awk '{print $3}' | sort -u)
  for f in $changed; do
    case "$f" in
      src/parser.y|src/lexer.l) rm -f "$OUT/parser.cpp" "$OUT/lexer.cc" "$OUT/parser.o" "$OUT/include/parser.hpp" ;;
      src/*.cpp) rm -f "$OUT/$(basename "$f" .cpp).o" ;;
      *) rm -f "$OUT"/*.o ;;
    esac
  done
else
  rm -f "$OUT"/*.o "$OUT/parser.cpp" "$OUT/lexer.cc"
fi
# objects of source files that no longer exist must not linger in the archive
for o in "$OUT"/*.o; do [ -e "$o" ] || continue; b=$(basename "$o" .o); [ "$b" = parser ] && continue; [ -e "$REPO/src/$b.cpp" ] || rm -f "$o"; done
if ! make -s -C "$OUT" -j16 all >"$OUT/build.log" 2>&1; then
  # an interrupted earlier build can leave a truncated dependency or object file behind: start this flavour from scratch once
  rm -f "$OUT"/*.d "$OUT"/*.o "$OUT"/libUTAP.a "$OUT"/parser.cpp "$OUT"/lexer.cc "$OUT"/include/parser.hpp
  make -s -C "$OUT" -j16 all >"$OUT/build.log" 2>&1 || { tail -40 "$OUT/build.log" >&2; echo "BUILD-FAILED $FL" >&2; exit 2; }
fi
mv -f "$OUT/sources.new" "$OUT/sources.sha256"
echo "$OUT/libUTAP.a"
