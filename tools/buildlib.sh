#!/bin/bash
# Build libUTAP.a from /repo's *current working tree* into /verif/_work/lib-<flavour>.
# flavours: rel (-O1 -g, -DUTAP_VERIF), asan (same + ASan/UBSan), off (guard off, for sanity), cov (gcov instrumentation)
# Incremental through make's mtime + -MMD dependency files.  Prints the library path.
set -e
FL=${1:-rel}
REPO=${UTAP_REPO:-/repo}
HERE=$(cd "$(dirname "$0")/.." && pwd)
OUT=${VERIF_WORK:-$HERE/_work}/lib-$FL
mkdir -p "$OUT/include"
case $FL in
  rel)  FLAGS="-O1 -g -DUTAP_VERIF" ;;
  asan) FLAGS="-O1 -g -DUTAP_VERIF -fsanitize=address,undefined -fno-sanitize-recover=all -fno-omit-frame-pointer" ;;
  off)  FLAGS="-O1 -g" ;;
  cov)  FLAGS="-O0 -g --coverage -DUTAP_VERIF" ;;   # development aid: which branches of /repo do the checks' inputs reach (tools/coverage.sh)
  *) echo "unknown flavour $FL" >&2; exit 2 ;;
esac
cat > "$OUT/Makefile" <<M
REPO=$REPO
CXX=g++
CXXFLAGS=-std=c++17 -fPIC -Wno-error -w -DNDEBUG $FLAGS -DMODELS_DIR=\"$REPO/test/models\" -I$OUT/include -I$OUT -I$REPO/src -I$REPO/include -isystem /usr/include/libxml2
SRCS=\$(wildcard \$(REPO)/src/*.cpp)
OBJS=\$(patsubst \$(REPO)/src/%.cpp,%.o,\$(SRCS)) parser.o
all: libUTAP.a
lexer.cc: \$(REPO)/src/lexer.l
	flex --outfile=lexer.cc -Putap_ \$<
parser.cpp: \$(REPO)/src/parser.y lexer.cc
	bison -putap_ -bparser \$< --output=parser.cpp --defines=include/parser.hpp 2>bison.log || (cat bison.log; false)
parser.o: parser.cpp
	\$(CXX) \$(CXXFLAGS) -MMD -c \$< -o \$@
%.o: \$(REPO)/src/%.cpp parser.cpp
	\$(CXX) \$(CXXFLAGS) -MMD -c \$< -o \$@
libUTAP.a: \$(OBJS)
	rm -f \$@; ar rcs \$@ \$(OBJS)
-include \$(wildcard *.d)
M
# objects of source files that no longer exist must not linger in the archive
for o in "$OUT"/*.o; do [ -e "$o" ] || continue; b=$(basename "$o" .o); [ "$b" = parser ] && continue; [ -e "$REPO/src/$b.cpp" ] || rm -f "$o"; done
if ! make -s -C "$OUT" -j16 all >"$OUT/build.log" 2>&1; then
  # an interrupted earlier build can leave a truncated dependency or object file behind: start this flavour from scratch once
  rm -f "$OUT"/*.d "$OUT"/*.o "$OUT"/libUTAP.a "$OUT"/parser.cpp "$OUT"/lexer.cc "$OUT"/include/parser.hpp
  make -s -C "$OUT" -j16 all >"$OUT/build.log" 2>&1 || { tail -40 "$OUT/build.log" >&2; echo "BUILD-FAILED $FL" >&2; exit 2; }
fi
echo "$OUT/libUTAP.a"
