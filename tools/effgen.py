"""Abstract programs for C11 / C13: functions over a fixed set of globals, rendered both to UPPAAL text and
to the s-expressions of coq/extract/drv_effects.ml.

exp:  ('v', id) ('lit', n) ('op', e, e) ('dot', e) ('idx', a, i) ('ite', c, a, b) ('asg', l, r, opname) ('inc', pre, l, '++'|'--') ('call', f, [args])
stm:  ('expr', e) ('assert', e) ('ret', e) ('for', i, c, s, body) ('iter', body) ('while', c, body) ('do', body, c)
      ('block', [(local id, init exp)], [stm]) ('if', c, t) ('ife', c, t, f) ('empty',)
fun:  dict(params=[(id, kind)], body=stm)   kind in 'val' | 'ref' | 'cref'
"""
GLOBALS = ['g0', 'g1', 'g2', 'g3', 'g4', 'g5']          # ids 0..5, ints
GA, GS = 6, 7                                            # int ga[3]; struct { int f; } gs;
GLOBAL_DECL = 'int g0, g1, g2, g3, g4, g5;\nint ga[3];\nstruct { int f; } gs;\nconst int K = 2;\n'


class Names:
    def __init__(self):
        self.n = {i: g for i, g in enumerate(GLOBALS)}
        self.n[GA] = 'ga'
        self.n[GS] = 'gs'
        self.n[8] = 'K'

    def add(self, i, name):
        self.n[i] = name

    def __getitem__(self, i):
        return self.n[i]


def e_txt(e, N):
    h = e[0]
    if h == 'v': return N[e[1]]
    if h == 'lit': return str(e[1])
    if h == 'op': return '(%s + %s)' % (e_txt(e[1], N), e_txt(e[2], N))
    if h == 'dot': return '%s.f' % e_txt(e[1], N)
    if h == 'idx': return '%s[%s]' % (e_txt(e[1], N), e_txt(e[2], N))
    if h == 'ite': return '(%s > 0 ? %s : %s)' % (e_txt(e[1], N), e_txt(e[2], N), e_txt(e[3], N))
    if h == 'asg': return '(%s %s %s)' % (e_txt(e[1], N), e[3], e_txt(e[2], N))
    if h == 'inc': return '(%s%s)' % (e[3], e_txt(e[2], N)) if e[1] else '(%s%s)' % (e_txt(e[2], N), e[3])
    if h == 'call': return 'f%d(%s)' % (e[1], ', '.join(e_txt(a, N) for a in e[2]))
    raise ValueError(h)


def e_sx(e):
    h = e[0]
    if h == 'v': return '(v %d)' % e[1]
    if h == 'lit': return '(lit)'
    if h == 'op': return '(op %s %s)' % (e_sx(e[1]), e_sx(e[2]))
    if h == 'dot': return '(dot %s)' % e_sx(e[1])
    if h == 'idx': return '(idx %s %s)' % (e_sx(e[1]), e_sx(e[2]))
    if h == 'ite': return '(ite %s %s %s)' % (e_sx(e[1]), e_sx(e[2]), e_sx(e[3]))
    if h == 'asg': return '(asg %s %s)' % (e_sx(e[1]), e_sx(e[2]))
    if h == 'inc': return '(inc %d %s)' % (1 if e[1] else 0, e_sx(e[2]))
    if h == 'call': return '(call %d%s)' % (e[1], ''.join(' ' + e_sx(a) for a in e[2]))
    raise ValueError(h)


def s_txt(s, N, ind='  '):
    h = s[0]
    if h == 'expr': return ind + e_txt(s[1], N) + ';\n'
    if h == 'assert': return ind + 'assert(%s >= 0 || true);\n' % e_txt(s[1], N)
    if h == 'ret': return ind + 'return %s;\n' % e_txt(s[1], N)
    if h == 'empty': return ind + ';\n'
    if h == 'for': return ind + 'for (%s; %s < 3; %s)\n%s' % (e_txt(s[1], N), e_txt(s[2], N), e_txt(s[3], N), s_txt(s[4], N, ind + '  '))
    if h == 'iter': return ind + 'for (q%d : int[0,1])\n%s' % (s[2], s_txt(s[1], N, ind + '  '))
    if h == 'while': return ind + 'while (%s < 0)\n%s' % (e_txt(s[1], N), s_txt(s[2], N, ind + '  '))
    if h == 'do': return ind + 'do\n%s%swhile (%s < 0);\n' % (s_txt(s[1], N, ind + '  '), ind, e_txt(s[2], N))
    if h == 'block':
        out = ind + '{\n'
        for lid, init in s[1]:
            out += ind + '  %sint %s = %s;\n' % ('const ' if N[lid].startswith('kc') else '', N[lid], e_txt(init, N))     # names kc... are const locals
        for x in s[2]:
            out += s_txt(x, N, ind + '  ')
        return out + ind + '}\n'
    if h == 'if': return ind + 'if (%s > 0)\n%s' % (e_txt(s[1], N), s_txt(s[2], N, ind + '  '))
    if h == 'ife': return ind + 'if (%s > 0)\n%s%selse\n%s' % (e_txt(s[1], N), s_txt(s[2], N, ind + '  '), ind, s_txt(s[3], N, ind + '  '))
    raise ValueError(h)


def s_sx(s):
    h = s[0]
    if h in ('expr', 'assert', 'ret'): return '(%s %s)' % (h, e_sx(s[1]))
    if h == 'empty': return '(empty)'
    if h == 'for': return '(for %s %s %s %s)' % (e_sx(s[1]), e_sx(s[2]), e_sx(s[3]), s_sx(s[4]))
    if h == 'iter': return '(iter %s)' % s_sx(s[1])
    if h == 'while': return '(while %s %s)' % (e_sx(s[1]), s_sx(s[2]))
    if h == 'do': return '(do %s %s)' % (s_sx(s[1]), e_sx(s[2]))
    if h == 'block': return '(block (inits%s)%s)' % (''.join(' ' + e_sx(i) for _, i in s[1]), ''.join(' ' + s_sx(x) for x in s[2]))
    if h == 'if': return '(if %s %s)' % (e_sx(s[1]), s_sx(s[2]))
    if h == 'ife': return '(ife %s %s %s)' % (e_sx(s[1]), s_sx(s[2]), s_sx(s[3]))
    raise ValueError(h)


def locals_of(s):
    h = s[0]
    if h == 'block':
        out = [lid for lid, _ in s[1]]
        for x in s[2]:
            out += locals_of(x)
        return out
    out = []
    for x in s[1:]:
        if isinstance(x, tuple) and x and x[0] in ('expr', 'assert', 'ret', 'for', 'iter', 'while', 'do', 'block', 'if', 'ife', 'empty'):
            out += locals_of(x)
    return out


def fun_txt(k, f, N):
    ps = []
    for pid, kind in f['params']:
        ps.append({'val': 'int %s', 'ref': 'int &%s', 'cref': 'const int &%s'}[kind] % N[pid])
    body = f['body']
    assert body[0] == 'block'
    return '%s f%d(%s)\n%s' % ('void' if f.get('void') else 'int', k, ', '.join(ps), s_txt(body, N, ''))


def fun_sx(f):
    refs = ' '.join('1' if kind == 'ref' else '0' for _, kind in f['params'])
    return '(fdef %d (refs %s) (locals %s) (params %s) %s)' % (len(f['params']), refs, ' '.join(str(i) for i in locals_of(f['body'])),
                                                                 ' '.join(str(p) for p, _ in f['params']), s_sx(f['body']))


class RandProg:
    """random well-typed programs: functions return int or nothing (void functions are called as statements only); calls go to earlier functions only"""
    def __init__(self, rng, nfun):
        self.r = rng
        self.N = Names()
        self.funs = []
        self.nextid = 1000
        for k in range(nfun):
            self.funs.append(self.fun(k))

    def fresh(self, name):
        self.nextid += 1
        self.N.add(self.nextid, name)
        return self.nextid

    def lval(self, env, d):
        r = self.r
        c = r.random()
        cands = list(range(6)) + env['mut']
        if c < 0.6 or d <= 0:
            return ('v', r.choice(cands))
        if c < 0.75:
            return ('idx', ('v', GA), self.exp(env, d - 1, pure=True))
        if c < 0.9:
            return ('dot', ('v', GS))
        return ('ite', self.exp(env, d - 1, pure=True), ('v', r.choice(cands)), ('v', r.choice(cands)))

    def exp(self, env, d, pure=False):
        r = self.r
        c = r.random()
        if d <= 0 or c < 0.25:
            return ('v', r.choice(list(range(6)) + env['all'])) if r.random() < 0.7 else ('lit', r.randrange(4))
        if c < 0.45:
            return ('op', self.exp(env, d - 1, pure), self.exp(env, d - 1, pure))
        if c < 0.52:
            return ('idx', ('v', GA), self.exp(env, d - 1, pure))
        if c < 0.57:
            return ('dot', ('v', GS))
        if c < 0.63:
            return ('ite', self.exp(env, d - 1, pure), self.exp(env, d - 1, pure), self.exp(env, d - 1, pure))
        if pure:
            return ('lit', 1)
        if c < 0.78:
            return ('asg', self.lval(env, d - 1), self.exp(env, d - 1), r.choice(['=', ':=', '+=', '-=', '*=', '/=', '%=', '|=', '&=', '^=', '<<=', '>>=']))
        if c < 0.86:
            return ('inc', r.random() < 0.5, self.lval(env, 0), r.choice(['++', '--']))
        valued = [q for q in range(env['k']) if not self.funs[q].get('void')]
        if valued:
            f = r.choice(valued)
            args = []
            for pid, kind in self.funs[f]['params']:
                if kind == 'val':
                    args.append(self.exp(env, d - 1))
                else:
                    args.append(self.lval(env, 0) if kind == 'ref' else ('v', r.choice(list(range(6)) + env['all'])))
            return ('call', f, args)
        return ('lit', 2)

    def call_stm(self, env):
        r = self.r
        f = r.randrange(env['k'])
        args = []
        for pid, kind in self.funs[f]['params']:
            if kind == 'val':
                args.append(self.exp(env, 1))
            else:
                args.append(self.lval(env, 0) if kind == 'ref' else ('v', r.choice(list(range(6)) + env['all'])))
        return ('expr', ('call', f, args))

    def stm(self, env, d):
        r = self.r
        if env['k'] > 0 and r.random() < 0.12:
            return self.call_stm(env)
        c = r.random()
        if d <= 0 or c < 0.3:
            return ('expr', self.exp(env, 2))
        if c < 0.36:
            return ('assert', self.exp(env, 1, pure=True))
        if c < 0.44:
            i = r.choice(env['mut'] + [0])
            return ('for', ('asg', ('v', i), ('lit', 0), '='), ('v', i), ('inc', False, ('v', i), '++'), self.stm(env, d - 1)) if r.random() < 0.5 else \
                   ('for', self.exp(env, 1), self.exp(env, 1, pure=True), self.exp(env, 1), self.stm(env, d - 1))
        if c < 0.50:
            self.nextid += 1
            return ('iter', self.stm(env, d - 1), self.nextid)
        if c < 0.58:
            return ('while', self.exp(env, 1), self.stm(env, d - 1))
        if c < 0.64:
            return ('do', self.stm(env, d - 1), self.exp(env, 1))
        if c < 0.80:
            locs = []
            env2 = dict(env, all=list(env['all']), mut=list(env['mut']))
            for _ in range(r.randrange(0, 3)):
                lid = self.fresh('l%d' % (self.nextid + 1))
                locs.append((lid, self.exp(env2, 1, pure=True)))
                env2['all'].append(lid)
                env2['mut'].append(lid)
            return ('block', locs, [self.stm(env2, d - 1) for _ in range(r.randrange(1, 4))])
        if c < 0.9:
            return ('if', self.exp(env, 1), self.stm(env, d - 1))
        return ('ife', self.exp(env, 1), self.stm(env, d - 1), self.stm(env, d - 1))

    def fun(self, k):
        r = self.r
        params = []
        for j in range(r.randrange(0, 3)):
            pid = self.fresh('p%d_%d' % (k, j))
            params.append((pid, r.choice(['val', 'ref', 'cref'])))
        env = dict(k=k, all=[p for p, _ in params], mut=[p for p, kind in params if kind != 'cref'])
        locs = []
        for _ in range(r.randrange(0, 3)):
            lid = self.fresh('l%d' % (self.nextid + 1))
            locs.append((lid, self.exp(env, 1, pure=True)))
            env['all'].append(lid)
            env['mut'].append(lid)
        void = r.random() < 0.25
        body = ('block', locs, [self.stm(env, r.choice([1, 2, 2, 3])) for _ in range(r.randrange(1, 5))] + [('expr' if void else 'ret', self.exp(env, 1))])
        return dict(params=params, body=body, void=void)

    def text(self):
        return GLOBAL_DECL + '\n'.join(fun_txt(k, f, self.N) for k, f in enumerate(self.funs))

    def sx_lines(self):
        return ['R'] + ['D ' + fun_sx(f) for f in self.funs] + ['S']
