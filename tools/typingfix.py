"""Shared fixture for the typing checks (C10, C14, ...): representative expressions of every operand
class of coq/theories/Typing.v, the model's complete class tables, and the real checker's answers."""
import os, re, subprocess, sys
sys.path.insert(0, os.path.dirname(os.path.abspath(__file__)))
import vlib

FIXTURE = """
int i, j; int[0,5] ri; bool b, c; double d, e; clock x, y;
typedef struct { int a; } S0; typedef struct { int a; int b; } S1;
S0 s0, s0b; S1 s1;
int arr0[2]; int arr0b[2]; int arr1[3];
typedef scalar[3] Sc0; typedef scalar[4] Sc1;
Sc0 sc0, sc0b; Sc1 sc1;
urgent chan cu, cu2; broadcast chan cb, cb2; chan cn, cn2;
void vf() { }
int f(int p) { return p; }
process P() { state A; init A; }
system P;
"""
# class name -> list of representative expressions (the first is used for exhaustive products)
REPS = {
    'CInt': ['i', 'ri', '3', 'i + 1'], 'CBool': ['b', 'true', 'i < 3'], 'CDouble': ['d', '1.5'], 'CClock': ['x'], 'CDiff': ['x - y'],
    'CRate': ["x'"], 'CInvariant': ['x < 3'], 'CInvariantWR': ["x' == 1"], 'CGuard': ['x == 3'], 'CConstraint': ['x != 3'],
    'CRecord0': ['s0', 's0b'], 'CRecord1': ['s1'], 'CArray0': ['arr0', 'arr0b'], 'CArray1': ['arr1'],
    'CScalar0': ['sc0', 'sc0b'], 'CScalar1': ['sc1'], 'CChannel0': ['cu', 'cu2'], 'CChannel1': ['cb', 'cb2'], 'CChannel2': ['cn', 'cn2'],
    'CVoid': ['vf()'],
}
# classes of the model that cannot be written as operand expressions of a declaration-level fixture
NOT_REALISED = ['CCost', 'CFormula', 'CString']
OPS = {'PLUS': '+', 'MINUS': '-', 'MULT': '*', 'DIV': '/', 'POW': '**', 'MIN': '<?', 'MAX': '>?', 'MOD': '%', 'BIT_AND': '&', 'BIT_OR': '|',
       'BIT_XOR': '^', 'BIT_LSHIFT': '<<', 'BIT_RSHIFT': '>>', 'AND': '&&', 'OR': '||', 'XOR': 'xor', 'LT': '<', 'LE': '<=', 'GE': '>=', 'GT': '>',
       'EQ': '==', 'NEQ': '!='}


def model_tables(drv):
    out = subprocess.run([drv, 'tables'], stdout=subprocess.PIPE, universal_newlines=True).stdout
    T = {}
    for line in out.split('\n'):
        if ' -> ' in line:
            k, r = line.split(' -> ')
            T[tuple(k.split())] = r
    return T


def base(cls):
    """CRecord0 -> CRecord (the implementation reports the class without the nominal tag)"""
    return re.sub(r'\d+$', '', cls) if cls else cls


def texpr_all(exprs, flavour='rel'):
    """type-check every expression in the fixture; -> list of (cls or None, [error messages])"""
    nsh = 16
    shards = [vlib.Job() for _ in range(nsh)]
    for k, j in enumerate(shards):
        j.case('t%d' % k, fork=True).model('xta', FIXTURE)
    for i, e in enumerate(exprs):
        shards[i % nsh].texpr(e)
    big = vlib.Job()
    for j in shards:
        j.end(); big.parts += j.parts; big.ids += j.ids
    res = vlib.run_jobs(big, flavour=flavour, shards=nsh)
    cur = {k: 1 for k in range(nsh)}
    out = []
    for i, e in enumerate(exprs):
        sh = i % nsh
        cs = res['t%d' % sh]
        if cur[sh] >= len(cs['cmds']):
            out.append(('CRASH:' + cs['status'], []))
            continue
        op, arg, lines = cs['cmds'][cur[sh]]
        cur[sh] += 1
        errs = [l.split('msg="')[1].split('"')[0] for l in lines if l.startswith('error')]
        tc = next((l for l in lines if l.startswith('typecheck ')), None)
        if tc is None:
            out.append((None, errs or ['parse error']))
        else:
            m = re.search(r'errors=(\d+) cls=(\S+)', tc)
            out.append((m.group(2) if m.group(1) == '0' else None, errs))
    return out
