#!/bin/bash
# Development aid (not a registered command): which lines of /repo/src do the quick checks' inputs reach?
# usage: tools/coverage.sh [C04 C05 ...]   -> _work/coverage/<file>.gcov and a per-file summary
set -e
cd /verif
props=${@:-C02 C03 C04 C05 C06 C07 C08 C09 C10 C11 C12 C13 C14 C15 C16 C17 C19 C20}
rm -f _work/lib-cov/*.gcda
for p in $props; do VERIF_FLAVOUR=cov ./check $p >/dev/null 2>&1 || true; done
mkdir -p _work/coverage; cd _work/lib-cov
for f in /repo/src/*.cpp parser.cpp; do b=$(basename $f .cpp); [ -e $b.gcda ] && gcov -b -o . $f >/dev/null 2>&1 || true; done
mv -f *.gcov ../coverage/ 2>/dev/null || true
cd ../coverage
for f in typechecker.cpp.gcov expression.cpp.gcov DocumentBuilder.cpp.gcov ExpressionBuilder.cpp.gcov StatementBuilder.cpp.gcov xmlreader.cpp.gcov featurechecker.cpp.gcov document.cpp.gcov symbols.cpp.gcov xmlwriter.cpp.gcov type.cpp.gcov prettyprinter.cpp.gcov position.cpp.gcov; do
  [ -e $f ] || continue
  tot=$(grep -c -E '^ +[0-9#]+[*]?:' $f || true); miss=$(grep -c -E '^ +#####:' $f || true)
  echo "$f lines=$tot unreached=$miss"
done
