import os, sys
sys.path.insert(0, os.path.dirname(os.path.abspath(__file__)))
import vlib
# regenerate every table the Coq development imports from /repo's working tree, then build everything
import exprgen, gen_prec, gen_lr, gen_kinds, gen_trace
exprgen.Table()
gen_prec.write(); gen_prec.write_sizes()
gen_lr.write()
import gen_lex
gen_lex.startcond_table(); gen_lex.comment_rules(); gen_lex.lex_rules(); gen_lex.newline_actions()
gen_kinds.write_header(); gen_trace.write()
import gen_builtins; gen_builtins.write()
import gen_rules; gen_rules.write()
vlib.coq_makefile()
rc, o, e = vlib.sh(['make', '-k', '-j16'], cwd=vlib.COQ, timeout=6000)
print((o + e)[-2000:])
print('coq make rc', rc)
bad = vlib.forbidden_constructs()
print('forbidden constructs:', bad or 'none')
