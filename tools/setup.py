import os, sys
sys.path.insert(0, os.path.dirname(os.path.abspath(__file__)))
import vlib
vlib.coq_makefile()
rc, o, e = vlib.sh(['make', '-k', '-j16'], cwd=vlib.COQ, timeout=6000)
print((o + e)[-2000:])
print('coq make rc', rc)
