"""Deterministic replay of bison's parser skeleton on the tables regenerated from parser.y (gen_grammar), producing the
sequence of builder callbacks a token stream causes — including syntax errors and recovery.  Every move of the replay is an
instance of a step of the Coq machine of LRStack.v (Shift, Reduce, Recover); C01 compares the replayed callback names with
the callbacks the real parser issues (TraceBuilder), which ties the table reader, the action reader and the recovery model."""
import os, re, sys
sys.path.insert(0, os.path.dirname(os.path.abspath(__file__)))
import gen_grammar, gen_lex

START = {0: ('T_NEW', 'T_OLD'), 1: ('T_NEW_DECLARATION', 'T_OLD_DECLARATION'), 2: ('T_NEW_LOCAL_DECL', 'T_OLD_LOCAL_DECL'), 3: ('T_NEW_INST', 'T_OLD_INST'), 4: ('T_NEW_SYSTEM', 'T_NEW_SYSTEM'),
         5: ('T_NEW_PARAMETERS', 'T_OLD_PARAMETERS'), 6: ('T_NEW_INVARIANT', 'T_OLD_INVARIANT'), 7: ('T_EXPONENTIAL_RATE',) * 2, 8: ('T_NEW_SELECT',) * 2, 9: ('T_NEW_GUARD', 'T_OLD_GUARD'),
         10: ('T_NEW_SYNC',) * 2, 11: ('T_NEW_ASSIGN', 'T_OLD_ASSIGN'), 12: ('T_EXPRESSION',) * 2, 13: ('T_EXPRESSION_LIST',) * 2, 14: ('T_PROPERTY',) * 2, 15: ('T_XTA_PROCESS',) * 2,
         16: ('T_PROBABILITY',) * 2, 17: ('T_INSTANCE_LINE',) * 2, 18: ('T_MESSAGE',) * 2, 19: ('T_UPDATE',) * 2, 20: ('T_CONDITION',) * 2}
UNTRACED = {'handle_error', 'handle_warning', 'handle_expect', 'set_position'}


class Sim:
    def __init__(self):
        self.G = gen_grammar.load()
        self.A = gen_grammar.automaton(self.G)
        self.rules = {r['num']: r for r in self.G['rules']}
        L = gen_lex.load()
        self.literals = sorted(L['literals'], key=lambda p: -len(p[0]))
        self.kw = {}
        for w, tok, syn in L['keywords']:
            self.kw.setdefault(w, []).append((tok, syn))

    # ---- the lexer, for texts made of ordinary tokens (no type names declared by typedef, no string escapes)
    def lex(self, text, newxta=True, prop=False):
        out, i, n = [], 0, len(text)
        while i < n:
            c = text[i]
            if c in ' \t\r\n':
                i += 1; continue
            if text.startswith('//', i):
                j = text.find('\n', i); i = n if j < 0 else j; continue
            if text.startswith('/*', i):
                j = text.find('*/', i + 2)
                if j < 0: return None                         # unterminated comment: not replayed
                i = j + 2; continue
            m = re.compile(r'[A-Za-z_][A-Za-z0-9_$#]*').match(text, i)
            longest = next((lit for lit, t in self.literals if text.startswith(lit, i)), '')
            if m and len(longest) > len(m.group(0)):
                m = None                                     # flex takes the longest match: "A[]" beats the identifier A
            if m:
                w = m.group(0); i = m.end()
                tok = 'T_ID'
                whole = [t for lit, t in self.literals if lit == w]
                if whole:                                    # "A", "U", "location", ...: a literal rule of the same length comes first in lexer.l
                    out.append((whole[0], w)); continue
                cur = {'PROPERTY'} if prop else ({'NEW', 'GUIDING'} if newxta else {'OLD', 'GUIDING'})
                for t, syn in self.kw.get(w, []):
                    comps = set(syn.split('_'))
                    if 'PROB' in comps:                      # ENABLE_PROB is not defined in this build
                        continue
                    if comps & cur:
                        tok = 'T_OLDCONST' if (t == 'T_CONST' and not newxta and not prop) else t
                        break
                out.append((tok, w)); continue
            m = re.compile(r'[0-9]+(\.[0-9]+)?([eE][+-]?[0-9]+)?').match(text, i)
            if m:
                w = m.group(0); i = m.end()
                if re.match(r'^[0-9]+$', w):
                    s = w.lstrip('0')
                    if s == '2147483648': out.append(('T_POS_NEG_MAX', w))
                    elif s and int(s) > 2147483647: out.append(('T_ERROR', w))
                    else: out.append(('T_NAT', w))
                else:
                    out.append(('T_FLOATING', w))
                continue
            if c == '"':
                j = text.find('"', i + 1)
                if j <= i + 1: out.append(('T_ERROR', c)); i += 1; continue
                out.append(('T_CHARARR', text[i:j + 1])); i = j + 1; continue
            for lit, tok in self.literals:
                if text.startswith(lit, i):
                    out.append((tok, lit)); i += len(lit); break
            else:
                out.append(('T_ERROR', c)); i += 1
        return out

    # ---- yacc.c
    def run(self, start_tok, toks, limit=200000):
        """-> (list of callback names, outcome) ; outcome: 'accept' | 'abort'"""
        A, rules = self.A, self.rules
        stream = [(start_tok, '')] + list(toks) + [('$end', '')]
        pos = 0
        stack = [0]
        calls = []
        errstatus = 0
        la = None
        steps = 0
        def act(state, tok):
            st = A[state]
            if tok in st['shifts']: return ('s', st['shifts'][tok])
            if tok in st['errors']: return ('e', None)
            if tok in st['reds']: return ('r', st['reds'][tok])
            if '$default' in st['reds']: return ('r', st['reds']['$default'])
            return ('e', None)
        while True:
            steps += 1
            if steps > limit: return calls, 'limit'
            state = stack[-1]
            st = A[state]
            # a state whose only action is its default reduction does not consult the lookahead
            only_default = not st['shifts'] and set(st['reds']) == {'$default'}
            if only_default:
                a = ('r', st['reds']['$default'])
            else:
                if la is None:
                    la = stream[pos][0]; pos += 1
                a = act(state, la)
            if a[0] == 's':
                stack.append(a[1]); la = None
                if errstatus: errstatus -= 1
                continue
            if a[0] == 'r':
                r = a[1]
                if r < 0 or r == 0:
                    return calls, 'accept'
                ru = rules[r]
                for c in ru.get('calls') or []:
                    if c[0] not in UNTRACED: calls.append(c[0])
                if ru['rhs']:
                    del stack[-len(ru['rhs']):]
                stack.append(A[stack[-1]]['gotos'][ru['lhs']])
                continue
            # syntax error
            if errstatus == 3:
                if la == '$end': return calls, 'abort'
                la = None                                   # discard the offending token
            errstatus = 3
            while True:
                s = stack[-1]
                if 'error' in A[s]['shifts']:
                    stack.append(A[s]['shifts']['error']); break
                if len(stack) == 1: return calls, 'abort'
                stack.pop()
