"""Deterministic replay of bison's parser skeleton on the tables regenerated from parser.y (gen_grammar), fed by the extracted scanner of
coq/theories/LexModel.v, producing the
sequence of builder callbacks a token stream causes — including syntax errors and recovery.  Every move of the replay is an
instance of a step of the Coq machine of LRStack.v (Shift, Reduce, Recover); C01 compares the replayed callback names with
the callbacks the real parser issues (TraceBuilder), which ties the table reader, the action reader and the recovery model."""
import os, re, sys
sys.path.insert(0, os.path.dirname(os.path.abspath(__file__)))
import gen_grammar, gen_lex

START = {0: ('T_NEW', 'T_OLD'), 1: ('T_NEW_DECLARATION', 'T_OLD_DECLARATION'), 2: ('T_NEW_LOCAL_DECL', 'T_OLD_LOCAL_DECL'), 3: ('T_NEW_INST', 'T_OLD_INST'), 4: ('T_NEW_SYSTEM', 'T_NEW_SYSTEM'),
         5: ('T_NEW_PARAMETERS', 'T_OLD_PARAMETERS'), 6: ('T_NEW_INVARIANT', 'T_OLD_INVARIANT'), 7: ('T_EXPONENTIAL_RATE',) * 2, 8: ('T_NEW_SELECT',) * 2, 9: ('T_NEW_GUARD', 'T_OLD_GUARD'),
         10: ('T_NEW_SYNC',) * 2, 11: ('T_NEW_ASSIGN', 'T_OLD_ASSIGN'), 12: ('T_EXPRESSION',) * 2, 13: ('T_EXPRESSION_LIST',) * 2, 14: ('T_PROPERTY',) * 2, 15: ('T_XTA_PROCESS',) * 2,
         16: ('T_PROBABILITY',) * 2, 17: ('T_INSTANCE_LINE',) * 2, 18: ('T_MESSAGE',) * 2, 19: ('T_UPDATE',) * 2, 20: ('T_CONDITION',) * 2}
def prelude_text():
    """the built-in declarations parse_XTA parses (as a declaration block) before a whole new-syntax text: read from src/parser.y"""
    import vlib
    src = open(os.path.join(vlib.REPO, 'src', 'parser.y')).read()
    m = re.search(r'utap_builtin_declarations\(\)\s*\{\s*return(.*?);\s*\}', src, re.S)
    if not m:
        raise RuntimeError('parser.y: utap_builtin_declarations() not found')
    body = re.sub(r'//[^\n]*', '', m.group(1))
    return ''.join(bytes(x, 'latin-1').decode('unicode_escape') for x in re.findall(r'"((?:[^"\\]|\\.)*)"', body))


UNTRACED = {'handle_error', 'handle_warning', 'handle_expect', 'set_position'}


def stray_fragments(sim, part, text):
    """expression fragments a block text leaves behind beyond the one a complete parse delivers: what the replay of the parser pushes in all (recovery included)
    minus one if the parse is accepted (None: not lexable, or a callback whose effect depends on its arguments occurs)"""
    import gen_lr
    toks = sim.lex_many([(text, True, False)])[0]
    if toks is None or any(t[0] == 'T_ERROR' for t in toks):
        return None
    calls, outcome = sim.run(START[part][0], toks)
    h = 0
    for c in calls:
        e = gen_lr.EFFECTS.get(c)
        if e is None or not all(isinstance(x, int) for x in e['fragments']):
            return None
        h += e['fragments'][1]
    return h - (1 if outcome == 'accept' else 0)


class Sim:
    def __init__(self):
        self.G = gen_grammar.load()
        self.A = gen_grammar.automaton(self.G)
        self.rules = {r['num']: r for r in self.G['rules']}
        L = gen_lex.load()
        self.literals = sorted(L['literals'], key=lambda p: -len(p[0]))
        self.kw = {}
        for w, tok, syn in L['keywords']:
            self.kw.setdefault(w, []).append((tok, syn))

    # ---- the lexer: the scanner of LexModel.v (extracted, instantiated with the literal table regenerated from lexer.l) splits the
    # text; what is left here is what the actions of the identifier and number rules do (keyword table, syntax mask, overflow)
    def lex_many(self, items):
        """items: [(text, newxta, prop)] -> [token list | None]; None: unclosed comment, or the extraction is unavailable"""
        import subprocess, vlib
        if not hasattr(self, 'drv'):
            self.drv, self.drv_err = vlib.build_extract('lex', 'Extract_Lex.v', 'drv_lex')
        if self.drv is None:
            return [None] * len(items)
        out = subprocess.run([self.drv], input=''.join(t.encode('latin-1', 'replace').hex() + '\n' for t, _, _ in items), stdout=subprocess.PIPE, universal_newlines=True).stdout.split('\n')
        res = []
        for (text, newxta, prop), line in zip(items, out):
            if line.strip() == 'UNCLOSED':
                res.append(None); continue
            toks = []
            for w in line.split():
                k, _, hx = w.rpartition(':')
                t = bytes.fromhex(hx).decode('latin-1')
                if k == 'I':
                    tok = 'T_ID'
                    cur = {'PROPERTY'} if prop else ({'NEW', 'GUIDING'} if newxta else {'OLD', 'GUIDING'})
                    for kt, syn in self.kw.get(t, []):
                        comps = set(syn.split('_'))
                        if 'PROB' in comps:                  # ENABLE_PROB is not defined in this build
                            continue
                        if comps & cur:
                            tok = 'T_OLDCONST' if (kt == 'T_CONST' and not newxta and not prop) else kt
                            break
                    toks.append((tok, t))
                elif k == 'N':
                    z = t.lstrip('0')
                    toks.append(('T_POS_NEG_MAX' if z == '2147483648' else ('T_ERROR' if z and int(z) > 2147483647 else 'T_NAT'), t))
                elif k == 'F': toks.append(('T_FLOATING', t))
                elif k == 'S': toks.append(('T_CHARARR', t))
                elif k == 'E': toks.append(('T_ERROR', t))
                elif k == 'NL': continue
                elif k.startswith('L'):
                    name = k[1:]
                    if name.endswith('|OLD'):
                        name = name[:-4] if not newxta and not prop else 'T_ERROR'
                    toks.append((name, t))
            res.append(toks)
        return res

    # ---- yacc.c
    def run(self, start_tok, toks, limit=200000):
        """-> (list of callback names, outcome) ; outcome: 'accept' | 'abort'"""
        A, rules = self.A, self.rules
        stream = [(start_tok, '')] + list(toks) + [('$end', '')]
        pos = 0
        stack = [0]
        calls = []
        errstatus = 0
        la = None
        steps = 0
        def act(state, tok):
            st = A[state]
            if tok in st['shifts']: return ('s', st['shifts'][tok])
            if tok in st['errors']: return ('e', None)
            if tok in st['reds']: return ('r', st['reds'][tok])
            if '$default' in st['reds']: return ('r', st['reds']['$default'])
            return ('e', None)
        while True:
            steps += 1
            if steps > limit: return calls, 'limit'
            state = stack[-1]
            st = A[state]
            # a state whose only action is its default reduction does not consult the lookahead
            only_default = not st['shifts'] and set(st['reds']) == {'$default'}
            if only_default:
                a = ('r', st['reds']['$default'])
            else:
                if la is None:
                    la = stream[pos][0]; pos += 1
                a = act(state, la)
            if a[0] == 's':
                stack.append(a[1]); la = None
                if errstatus: errstatus -= 1
                continue
            if a[0] == 'r':
                r = a[1]
                if r < 0 or r == 0:
                    return calls, 'accept'
                ru = rules[r]
                for c in ru.get('calls') or []:
                    if c[0] not in UNTRACED: calls.append(c[0])
                if ru['rhs']:
                    del stack[-len(ru['rhs']):]
                stack.append(A[stack[-1]]['gotos'][ru['lhs']])
                continue
            # syntax error
            if errstatus == 3:
                if la == '$end': return calls, 'abort'
                la = None                                   # discard the offending token
            errstatus = 3
            while True:
                s = stack[-1]
                if 'error' in A[s]['shifts']:
                    stack.append(A[s]['shifts']['error']); break
                if len(stack) == 1: return calls, 'abort'
                stack.pop()
