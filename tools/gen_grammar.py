#!/usr/bin/env python3
"""G-LR: reads /repo/src/parser.y through `bison --xml` (the LALR automaton bison itself builds:
terminals with precedence/associativity, rules with %prec, states with shifts / gotos / reductions /
precedence-resolved conflicts) and through a small reader of the .y text (actions per rule position),
aligned rule by rule.  Any construct the reader does not understand raises GrammarError — the tie is
then reported as broken, never guessed."""
import os, re, sys, json, subprocess
import xml.etree.ElementTree as ET
sys.path.insert(0, os.path.dirname(os.path.abspath(__file__)))
import vlib


class GrammarError(Exception):
    pass


def run_bison():
    d = os.path.join(vlib.WORK, 'gen')
    os.makedirs(d, exist_ok=True)
    y = os.path.join(vlib.REPO, 'src', 'parser.y')
    xmlp = os.path.join(d, 'parser.xml')
    # the cache is keyed by the content of parser.y, not by its time stamp (a tree restored or copied with old time stamps must not hit a stale cache)
    import hashlib
    h = hashlib.sha256(open(y, 'rb').read()).hexdigest()
    stamp = xmlp + '.sha256'
    if not os.path.exists(xmlp) or not os.path.exists(stamp) or open(stamp).read().strip() != h:
        rc, o, e = vlib.sh(['bison', '-putap_', '--xml=' + xmlp, '-o', os.path.join(d, 'parser_x.cpp'), y], timeout=300)
        if rc != 0:
            raise GrammarError('bison failed: ' + e[-800:])
        open(stamp, 'w').write(h)
    return xmlp


# ---- the .y reader ---------------------------------------------------------------------------------
def _skip_code(s, i):
    """s[i] == '{' ; returns index after the matching '}' (strings, chars and comments respected)"""
    depth, n = 0, len(s)
    while i < n:
        c = s[i]
        if c == '{':
            depth += 1
        elif c == '}':
            depth -= 1
            if depth == 0:
                return i + 1
        elif c == '"' or c == "'":
            q = c
            i += 1
            while i < n and s[i] != q:
                if s[i] == '\\':
                    i += 1
                i += 1
        elif s.startswith('//', i):
            i = s.index('\n', i)
        elif s.startswith('/*', i):
            i = s.index('*/', i) + 1
        i += 1
    raise GrammarError('unbalanced braces in parser.y')


def read_y_rules(text):
    """-> list of (lhs, [alternatives]); alternative = dict(items=[('sym', name) | ('act', code)], prec=name|None)"""
    parts = re.split(r'(?m)^%%\s*$', text)
    if len(parts) < 3:
        raise GrammarError('parser.y: cannot find the rules section')
    s = parts[1]
    # file-level named constants of the prologue (static constexpr bool kControllable = true; #define NO_RATE false): the actions are read with
    # the literal each stands for
    consts = {}
    for m in re.finditer(r'(?m)^\s*(?:static\s+|inline\s+)*(?:constexpr|const)\s+(?:static\s+)?(?:bool|int|unsigned|auto)\s+(\w+)\s*(?:=\s*([\w-]+)\s*|\{\s*([\w-]+)\s*\})\s*;', parts[0]):
        consts[m.group(1)] = m.group(2) or m.group(3)
    for m in re.finditer(r'(?m)^[ \t]*#[ \t]*define[ \t]+(\w+)[ \t]+(true|false|-?\d+)[ \t]*(?://.*|/\*.*\*/[ \t]*)?$', parts[0]):
        consts[m.group(1)] = m.group(2)
    consts = {k: v for k, v in consts.items() if re.fullmatch(r'true|false|-?\d+', v)}
    const_re = re.compile(r'(?<![\w$@.>:])(' + '|'.join(map(re.escape, consts)) + r')(?![\w(])') if consts else None
    from gen_lex import _static_helpers, _inline as gen_lex_inline
    helpers = {k: v for k, v in _static_helpers(re.sub(r'//[^\n]*|/\*.*?\*/', ' ', parts[0] + '\n' + parts[2], flags=re.S)).items() if len(v[1]) < 400 and not re.match(r'utap_|yy|parse', k)}
    i, n = 0, len(s)
    rules = []
    cur_lhs, alts, cur = None, None, None

    def new_alt():
        return dict(items=[], prec=None, names={})

    def named(i):
        """bison's named references: sym[name] gives the item just read a name; returns the index after it"""
        m = re.match(r'\s*\[\s*([A-Za-z_][A-Za-z0-9_.-]*)\s*\]', s[i:])
        if m and cur is not None and cur['items']:
            cur['names'][m.group(1)] = len(cur['items'])
            return i + m.end()
        return i

    def close(alt):
        """$name / $[name] / @name / @[name] in the actions become the positional $k / @k they stand for (a symbol that occurs once in the
        rule may also be referred to by its own name)"""
        names = dict(alt.pop('names'))
        if helpers:      # file-static helpers called from the actions (rememberTransitionSource($1);) are read as their bodies
            alt['items'] = [(k, gen_lex_inline(v, helpers) if k == 'act' else v) for k, v in alt['items']]
        if const_re:
            alt['items'] = [(k, const_re.sub(lambda m: consts[m.group(1)], v) if k == 'act' else v) for k, v in alt['items']]
        syms = [v for k, v in alt['items'] if k == 'sym']
        for pos, (k, v) in enumerate(alt['items']):
            if k == 'sym' and syms.count(v) == 1 and re.fullmatch(r'[A-Za-z_]\w*', v) and v != cur_lhs:
                names.setdefault(v, pos + 1)
        if names:
            def sub(m):
                nm = m.group(2) or m.group(3)
                return m.group(1) + str(names[nm]) if nm in names else m.group(0)
            alt['items'] = [(k, re.sub(r'([$@])(?:\[([A-Za-z_][A-Za-z0-9_.-]*)\]|([A-Za-z_]\w*))', sub, v) if k == 'act' else v) for k, v in alt['items']]
        return alt
    while i < n:
        c = s[i]
        if c.isspace():
            i += 1
        elif s.startswith('/*', i):
            i = s.index('*/', i) + 2
        elif s.startswith('//', i):
            i = s.index('\n', i)
        elif c == '{':
            j = _skip_code(s, i)
            if cur is None:
                raise GrammarError('action outside a rule')
            cur['items'].append(('act', s[i + 1:j - 1]))
            i = named(j)
        elif c == '|':
            alts.append(close(cur))
            cur = new_alt()
            i += 1
        elif c == ';':
            alts.append(close(cur))
            rules.append((cur_lhs, alts))
            cur_lhs = alts = cur = None
            i += 1
        elif c == "'":
            j = i + 1
            if s[j] == '\\':
                j += 1
            j += 1
            if s[j] != "'":
                raise GrammarError('bad character literal at %d' % i)
            cur['items'].append(('sym', s[i:j + 1]))
            i = named(j + 1)
        elif c == '%':
            m = re.match(r"%prec\s+('.'|[A-Za-z_][A-Za-z0-9_]*)", s[i:])
            if m:
                cur['prec'] = m.group(1)
                i += m.end()
            else:
                m = re.match(r'%empty', s[i:])
                if not m:
                    raise GrammarError('unknown directive in rules: ' + s[i:i + 20])
                i += m.end()
        else:
            m = re.match(r'[A-Za-z_][A-Za-z0-9_]*', s[i:])
            if not m:
                raise GrammarError('parser.y: unexpected text %r' % s[i:i + 20])
            name = m.group(0)
            i += m.end()
            k = i
            while k < n and s[k].isspace():
                k += 1
            if cur_lhs is None:
                k += (re.match(r'\[\s*[A-Za-z_][A-Za-z0-9_.-]*\s*\]\s*', s[k:]) or re.match('', '')).end()   # Lhs[name]:
            if cur_lhs is None or (k < n and s[k] == ':' and cur is None):
                if k >= n or s[k] != ':':
                    raise GrammarError('expected ":" after ' + name)
                cur_lhs, alts, cur = name, [], new_alt()
                i = k + 1
            else:
                cur['items'].append(('sym', name))
                i = named(i)
    return rules


def calls_of(code):
    """builder callbacks fired by an action: [(name, argtext)]"""
    res = []
    for m in re.finditer(r'CALL\s*\(\s*@\d+\s*,\s*@\d+\s*,\s*([A-Za-z_0-9]+)\s*\(', code):
        # find matching close paren of the callback's argument list
        j = m.end()
        depth = 1
        k = j
        while depth:
            if code[k] == '(':
                depth += 1
            elif code[k] == ')':
                depth -= 1
            k += 1
        res.append((m.group(1), code[j:k - 1].strip()))
    return res


def load():
    xmlp = run_bison()
    root = ET.parse(xmlp).getroot()
    g = root.find('grammar')
    terms = {}
    for t in g.find('terminals').findall('terminal'):
        terms[t.get('name')] = dict(num=int(t.get('symbol-number')), prec=int(t.get('prec')) if t.get('prec') else None,
                                    assoc=t.get('assoc'))
    nonterms = {t.get('name'): int(t.get('symbol-number')) for t in g.find('nonterminals').findall('nonterminal')}
    rules = []
    for r in g.find('rules').findall('rule'):
        rhs = [x.text for x in r.find('rhs').findall('symbol')]
        rules.append(dict(num=int(r.get('number')), lhs=r.find('lhs').text, rhs=rhs, pprec=r.get('percent_prec'),
                          useful=r.get('usefulness')))
    # rule precedence as bison computes it: %prec, else the last terminal of the rhs
    for r in rules:
        p = None
        if r['pprec']:
            p = r['pprec']
        else:
            for x in reversed(r['rhs']):
                if x in terms:
                    p = x
                    break
        r['prec_sym'] = p
        r['prec'] = terms[p]['prec'] if p and p in terms else None
    # align with the .y text
    ytext = open(os.path.join(vlib.REPO, 'src', 'parser.y')).read()
    yrules = read_y_rules(ytext)
    by_lhs = {}
    for r in rules:
        by_lhs.setdefault(r['lhs'], []).append(r)
    seen = {}
    for lhs, alts in yrules:
        lst = by_lhs.get(lhs)
        if lst is None:
            raise GrammarError('nonterminal %s of parser.y is unknown to bison' % lhs)
        off = seen.get(lhs, 0)
        if off + len(alts) > len(lst):
            raise GrammarError('nonterminal %s: parser.y has more alternatives than bison' % lhs)
        for a, r in zip(alts, lst[off:off + len(alts)]):
            items = a['items']
            # positions: a mid-rule action is a $@N / @N symbol in bison's rhs; a final action is the rule's action
            rhs = r['rhs']
            k = 0
            acts = {}          # position in rhs (before symbol k) -> code ; len(rhs) = final action
            ysyms = []
            for idx, (kind, val) in enumerate(items):
                if kind == 'sym':
                    ysyms.append(val)
                else:
                    is_last = all(kk != 'sym' for kk, _ in items[idx + 1:]) and all(kk != 'act' for kk, _ in items[idx + 1:])
                    if is_last:
                        acts[len(rhs)] = val
                    else:
                        ysyms.append('$mid')
                        acts['mid%d' % len(ysyms)] = val
            # compare symbol sequences
            if len(ysyms) != len(rhs):
                raise GrammarError('rule %d (%s): parser.y has %r, bison has %r' % (r['num'], lhs, ysyms, rhs))
            midcode = {}
            for pos, (ys, bs) in enumerate(zip(ysyms, rhs)):
                if ys == '$mid':
                    if not re.match(r'^[$@]+\d+$', bs):
                        raise GrammarError('rule %d: mid-rule action does not align with %s' % (r['num'], bs))
                    midcode[bs] = acts['mid%d' % (pos + 1)]
                elif ys != bs:
                    raise GrammarError('rule %d (%s): symbol %r vs bison %r' % (r['num'], lhs, ys, bs))
            r['action'] = acts.get(len(rhs), '')
            r['calls'] = calls_of(r['action'])
            r['mid'] = midcode
            r['yprec'] = a['prec']
            if (a['prec'] or None) != (r['pprec'] or None):
                raise GrammarError('rule %d: %%prec %r vs bison %r' % (r['num'], a['prec'], r['pprec']))
        seen[lhs] = off + len(alts)
    # attach the mid-rule code to the $@N rules
    midall = {}
    for r in rules:
        midall.update(r.get('mid', {}))
    for r in rules:
        if re.match(r'^[$@]+\d+$', r['lhs']):
            if r['lhs'] not in midall:
                raise GrammarError('mid-rule %s has no code' % r['lhs'])
            r['action'] = midall[r['lhs']]
            r['calls'] = calls_of(r['action'])
        elif 'action' not in r and r['num'] != 0:
            raise GrammarError('rule %d (%s) was not found in parser.y' % (r['num'], r['lhs']))
    return dict(terms=terms, nonterms=nonterms, rules=rules, xml=xmlp, root=root)


def automaton(G):
    """states: list of dict(shifts={sym: state}, gotos={sym: state}, reds={lookahead|'$default': rule}, errors=[tok])"""
    states = []
    for st in G['root'].find('automaton').findall('state'):
        a = st.find('actions')
        shifts, gotos, reds, errs = {}, {}, {}, []
        for t in a.find('transitions').findall('transition'):
            (shifts if t.get('type') == 'shift' else gotos)[t.get('symbol')] = int(t.get('state'))
        for e in a.find('errors').findall('error'):
            errs.append(e.get('symbol'))
        for r in a.find('reductions').findall('reduction'):
            if r.get('enabled') == 'true':
                rule = r.get('rule')
                reds[r.get('symbol')] = -1 if rule == 'accept' else int(rule)
        items = [(int(i.get('rule-number')), int(i.get('dot'))) for i in st.find('itemset').findall('item')]
        states.append(dict(num=int(st.get('number')), shifts=shifts, gotos=gotos, reds=reds, errors=errs, items=items))
    return states


if __name__ == '__main__':
    G = load()
    print(len(G['terms']), 'terminals', len(G['rules']), 'rules')
    n = sum(1 for r in G['rules'] if r.get('calls'))
    print(n, 'rules with builder calls')
    for r in G['rules']:
        if r['lhs'] == 'Expression' and r['num'] < 10000:
            print(r['num'], r['rhs'], r['prec_sym'], r['prec'], [c[0] + '(' + c[1] + ')' for c in r['calls']])
