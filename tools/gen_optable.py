#!/usr/bin/env python3
"""Derives the operator table of the Expression sub-grammar from the bison automaton data (G-LR) and
writes coq/theories/gen/Gen_OpTable.v plus _work/gen/optable.json (used by the Python renderers).

Every Expression production must be classified (atom / infix / prefix / postfix / bracket / ternary /
delegation); an unclassifiable production raises GrammarError."""
import os, re, sys, json
sys.path.insert(0, os.path.dirname(os.path.abspath(__file__)))
import vlib, gen_grammar
from gen_grammar import GrammarError

CALLBACK_KIND = {  # callbacks that name their node kind implicitly (ExpressionBuilder.cpp); cross-checked by correspondence
    'expr_pre_increment': 'PRE_INCREMENT', 'expr_post_increment': 'POST_INCREMENT',
    'expr_pre_decrement': 'PRE_DECREMENT', 'expr_post_decrement': 'POST_DECREMENT',
    'expr_inline_if': 'INLINE_IF', 'expr_array': 'ARRAY', 'expr_dot': 'DOT', 'expr_location': 'DOT',
    'expr_forall_end': 'FORALL', 'expr_exists_end': 'EXISTS', 'expr_sum_end': 'SUM',
}


def alternatives(G, nt):
    """token -> value of `$$ = X;` for a one-token-per-alternative nonterminal (AssignOp, UnaryOp, BuiltinFunctionN)"""
    res = []
    for r in G['rules']:
        if r['lhs'] == nt:
            if len(r['rhs']) != 1:
                raise GrammarError('%s alternative is not a single token: %r' % (nt, r['rhs']))
            m = re.search(r'\$\$\s*=\s*([A-Za-z_0-9]+)\s*;', r['action'])
            if not m:
                raise GrammarError('%s alternative %r has no "$$ = KIND"' % (nt, r['rhs']))
            res.append((r['rhs'][0], m.group(1)))
    return res


def derive(G):
    T = G['terms']

    def tp(tok):
        t = T.get(tok)
        if t is None:
            raise GrammarError('unknown terminal ' + tok)
        return t['prec'], t['assoc']
    infix, prefix, postfix, atoms, brackets, ternary, delegates, fns = [], [], [], [], [], [], [], []
    unary_alts = alternatives(G, 'UnaryOp')
    assign_alts = alternatives(G, 'AssignOp')
    for r in G['rules']:
        if r['lhs'] not in ('Expression', 'Assignment'):
            continue
        rhs = [x for x in r['rhs']]
        core = [x for x in rhs if not re.match(r'^[$@]+\d+$', x)]
        calls = r['calls']
        cb = calls[-1][0] if calls else None
        arg = calls[-1][1] if calls else None
        E = 'Expression'
        if r['lhs'] == 'Expression' and core == ['Assignment']:
            delegates.append('Assignment')
        elif core in (['DynamicExpression'], ['MITLExpression']):
            delegates.append(core[0])
        elif len(core) == 3 and core[0] == E and core[2] == E and core[1] in T:
            tok = core[1]
            pre_calls = []
            for s in rhs:
                if re.match(r'^[$@]+\d+$', s):
                    pre_calls += gen_grammar.calls_of(r['mid'][s])
            kind = arg if cb == 'expr_binary' else None
            if kind is None:
                raise GrammarError('infix rule %d has no expr_binary(K)' % r['num'])
            p, a = tp(tok)
            infix.append(dict(tok=tok, kind=kind, rule_prec=r['prec'], rule_sym=r['prec_sym'], tok_prec=p, assoc=a, rule=r['num'],
                              wrap_left=[c[1] for c in pre_calls if c[0] == 'expr_unary']))
        elif core == [E, 'AssignOp', E]:
            if cb != 'expr_assignment':
                raise GrammarError('assignment rule does not call expr_assignment')
            for tok, kind in assign_alts:
                p, a = tp(tok)
                infix.append(dict(tok=tok, kind=kind, rule_prec=r['prec'], rule_sym=r['prec_sym'], tok_prec=p, assoc=a, rule=r['num'], wrap_left=[]))
        elif core == ['UnaryOp', E]:
            for tok, kind in unary_alts:
                prefix.append(dict(tok=tok, kind={'MINUS': 'UNARY_MINUS', 'PLUS': '(identity)'}.get(kind, kind), rule_prec=r['prec'], rule_sym=r['prec_sym'], rule=r['num']))
        elif len(core) == 2 and core[1] == E and core[0] in T:
            if cb not in CALLBACK_KIND:
                raise GrammarError('prefix rule %d: unknown callback %s' % (r['num'], cb))
            prefix.append(dict(tok=core[0], kind=CALLBACK_KIND[cb], rule_prec=r['prec'], rule_sym=r['prec_sym'], rule=r['num']))
        elif len(core) == 7 and core[1:6] == ["'('", 'Id', "':'", 'Type', "')'"] and core[6] == E:
            if cb not in CALLBACK_KIND:
                raise GrammarError('quantifier rule %d: unknown callback %s' % (r['num'], cb))
            prefix.append(dict(tok=core[0], kind=CALLBACK_KIND[cb], rule_prec=r['prec'], rule_sym=r['prec_sym'], rule=r['num'], binder=True))
        elif len(core) == 2 and core[0] == E and core[1] in T:
            kind = CALLBACK_KIND.get(cb) or (arg if cb == 'expr_unary' else None)
            if kind is None:
                raise GrammarError('postfix rule %d: unknown callback %s' % (r['num'], cb))
            p, a = tp(core[1])
            postfix.append(dict(tok=core[1], kind=kind, tok_prec=p, assoc=a, rule=r['num']))
        elif len(core) == 3 and core[0] == E and core[1] == "'.'":
            p, a = tp("'.'")
            postfix.append(dict(tok="'.'", second=core[2], kind=CALLBACK_KIND[cb], tok_prec=p, assoc=a, rule=r['num']))
        elif core == [E, "'['", E, "']'"]:
            p, a = tp("'['")
            brackets.append(dict(open="'['", kind='ARRAY', tok_prec=p, assoc=a, rule=r['num'], form='index'))
        elif core == [E, "'('", 'ArgList', "')'"]:
            p, a = tp("'('")
            brackets.append(dict(open="'('", kind='FUN_CALL', tok_prec=p, assoc=a, rule=r['num'], form='call'))
        elif core == ["'('", E, "')'"]:
            if calls:
                raise GrammarError('parenthesis rule builds a node: %r' % calls)
            brackets.append(dict(open="'('", kind=None, rule=r['num'], form='paren'))
        elif core == [E, "'?'", E, "':'", E]:
            p, a = tp("'?'")
            ternary.append(dict(kind=CALLBACK_KIND[cb], rule_prec=r['prec'], rule_sym=r['prec_sym'], q_prec=p, q_assoc=a, rule=r['num']))
        elif core[0] in ('BuiltinFunction1', 'BuiltinFunction2', 'BuiltinFunction3'):
            n = int(core[0][-1])
            if core.count(E) != n:
                raise GrammarError('builtin rule arity')
            for tok, kind in alternatives(G, core[0]):
                fns.append(dict(tok=tok, kind=kind, arity=n))
        elif 'error' in core:
            continue      # error productions: not part of the valid-expression language
        elif len(core) == 1 and core[0] in T or core == ['NonTypeId'] or core == ['T_MINUS', 'T_POS_NEG_MAX']:
            atoms.append(dict(rhs=core, callback=cb, rule=r['num']))
        else:
            raise GrammarError('cannot classify Expression production %d: %r' % (r['num'], rhs))
    if len(ternary) != 1:
        raise GrammarError('expected exactly one ternary production')
    for o in infix + prefix + ternary:
        if o['rule_prec'] is None:
            raise GrammarError('operator rule %d has no precedence' % o['rule'])
    for o in infix + postfix + [b for b in brackets if b['form'] != 'paren']:
        if o['tok_prec'] is None or o['assoc'] not in ('left', 'right'):
            raise GrammarError('operator token of rule %d has no precedence / is nonassoc' % o['rule'])
    return dict(infix=infix, prefix=prefix, postfix=postfix, atoms=atoms, brackets=brackets, ternary=ternary[0], fns=fns,
                delegates=delegates)


def coq_name(tok):
    m = {"'&'": 'AMP', "'?'": 'QUEST', "'.'": 'DOT', "'['": 'LBRACK', "'('": 'LPAREN', "'\\''": 'PRIME', "':'": 'COLON'}
    return m.get(tok, tok)


def write(G=None):
    G = G or gen_grammar.load()
    tab = derive(G)
    d = os.path.join(vlib.COQ, 'theories', 'gen')
    os.makedirs(d, exist_ok=True)
    L = []
    L.append('(* GENERATED by tools/gen_optable.py from /repo/src/parser.y via bison --xml — do not edit *)')
    L.append('From Coq Require Import List String Bool Arith.')
    L.append('Import ListNotations.')
    L.append('Local Open Scope string_scope.')
    bn = ['B_' + coq_name(o['tok']) for o in tab['infix']]
    L.append('Inductive bop := ' + ' | '.join(bn) + '.')
    un = ['U_' + coq_name(o['tok']) for o in tab['prefix']]
    L.append('Inductive uop := ' + ' | '.join(n + (' (binder : nat)' if o.get('binder') else '') for n, o in zip(un, tab['prefix'])) + '.')
    pn = []
    for o in tab['postfix']:
        pn.append('P_' + coq_name(o['tok']) + ('_' + o['second'] if o.get('second') else ''))
    L.append('Inductive pop := ' + ' | '.join(n + (' (field : nat)' if o.get('second') == 'NonTypeId' else '') for n, o in zip(pn, tab['postfix'])) + '.')

    def fn(name, ty, rows, arg='o'):
        L.append('Definition %s (%s : %s) := match %s with %s end.' % (name, arg, ty, arg, ' | '.join(rows)))
    fn('bin_rule', 'bop', ['%s => %d' % (n, o['rule_prec']) for n, o in zip(bn, tab['infix'])])
    fn('bin_tok', 'bop', ['%s => %d' % (n, o['tok_prec']) for n, o in zip(bn, tab['infix'])])
    fn('bin_rassoc', 'bop', ['%s => %s' % (n, 'true' if o['assoc'] == 'right' else 'false') for n, o in zip(bn, tab['infix'])])
    fn('bin_name', 'bop', ['%s => "%s"' % (n, o['tok'].replace('"', '')) for n, o in zip(bn, tab['infix'])])
    fn('bin_rule_sym', 'bop', ['%s => "%s"' % (n, o['rule_sym']) for n, o in zip(bn, tab['infix'])])
    fn('pre_rule_sym', 'uop', ['%s%s => "%s"' % (n, ' _' if o.get('binder') else '', o['rule_sym']) for n, o in zip(un, tab['prefix'])], 'u')
    L.append('Definition ite_rule_sym := "%s".' % tab['ternary']['rule_sym'])
    L.append('Definition ite_kind := "%s".' % tab['ternary']['kind'])
    fn('bin_kind', 'bop', ['%s => "%s"' % (n, o['kind']) for n, o in zip(bn, tab['infix'])])
    fn('bin_wraps_left_not', 'bop', ['%s => %s' % (n, 'true' if o['wrap_left'] == ['NOT'] else 'false') for n, o in zip(bn, tab['infix'])])
    for o in tab['infix']:
        if o['wrap_left'] not in ([], ['NOT']):
            raise GrammarError('infix rule %d wraps its left operand in %r' % (o['rule'], o['wrap_left']))
    fn('pre_rule', 'uop', ['%s%s => %d' % (n, ' _' if o.get('binder') else '', o['rule_prec']) for n, o in zip(un, tab['prefix'])], 'u')
    fn('pre_name', 'uop', ['%s%s => "%s"' % (n, ' _' if o.get('binder') else '', o['tok']) for n, o in zip(un, tab['prefix'])], 'u')
    fn('pre_kind', 'uop', ['%s%s => "%s"' % (n, ' _' if o.get('binder') else '', o['kind']) for n, o in zip(un, tab['prefix'])], 'u')
    fn('post_tok', 'pop', ['%s%s => %d' % (n, ' _' if o.get('second') == 'NonTypeId' else '', o['tok_prec']) for n, o in zip(pn, tab['postfix'])], 'p')
    fn('post_rassoc', 'pop', ['%s%s => %s' % (n, ' _' if o.get('second') == 'NonTypeId' else '', 'true' if o['assoc'] == 'right' else 'false') for n, o in zip(pn, tab['postfix'])], 'p')
    fn('post_name', 'pop', ['%s%s => "%s"' % (n, ' _' if o.get('second') == 'NonTypeId' else '', o['tok'].replace("'\\''", "'''")) for n, o in zip(pn, tab['postfix'])], 'p')
    fn('post_kind', 'pop', ['%s%s => "%s"' % (n, ' _' if o.get('second') == 'NonTypeId' else '', o['kind']) for n, o in zip(pn, tab['postfix'])], 'p')
    t = tab['ternary']
    L.append('Definition ite_rule := %d.' % t['rule_prec'])
    L.append('Definition q_tok := %d.' % t['q_prec'])
    L.append('Definition q_rassoc := %s.' % ('true' if t['q_assoc'] == 'right' else 'false'))
    idx = [b for b in tab['brackets'] if b['form'] == 'index']
    call = [b for b in tab['brackets'] if b['form'] == 'call']
    if len(idx) != 1 or len(call) != 1 or not any(b['form'] == 'paren' for b in tab['brackets']):
        raise GrammarError('expected one index, one call and one parenthesis production')
    L.append('Definition idx_tok := %d.' % idx[0]['tok_prec'])
    L.append('Definition idx_rassoc := %s.' % ('true' if idx[0]['assoc'] == 'right' else 'false'))
    L.append('Definition call_tok := %d.' % call[0]['tok_prec'])
    L.append('Definition call_rassoc := %s.' % ('true' if call[0]['assoc'] == 'right' else 'false'))
    L.append('Definition all_bop := [' + '; '.join(bn) + '].')
    L.append('Definition all_uop := [' + '; '.join(n + (' 0' if o.get('binder') else '') for n, o in zip(un, tab['prefix'])) + '].')
    L.append('Definition all_pop := [' + '; '.join(n + (' 0' if o.get('second') == 'NonTypeId' else '') for n, o in zip(pn, tab['postfix'])) + '].')
    def of_idx(name, ty, names, ops, has):
        rows = ['%d => Some (%s)' % (i, n + (' b' if has(o) else '')) for i, (n, o) in enumerate(zip(names, ops))]
        L.append('Definition %s (i b : nat) : option %s := match i with %s | _ => None end.' % (name, ty, ' | '.join(rows)))
    def idx(name, ty, names, ops, has):
        rows = ['%s%s => (%d, %s)' % (n, ' b' if has(o) else '', i, 'b' if has(o) else '0') for i, (n, o) in enumerate(zip(names, ops))]
        L.append('Definition %s (x : %s) : nat * nat := match x with %s end.' % (name, ty, ' | '.join(rows)))
    of_idx('bop_of_idx', 'bop', bn, tab['infix'], lambda o: False)
    idx('bop_idx', 'bop', bn, tab['infix'], lambda o: False)
    of_idx('uop_of_idx', 'uop', un, tab['prefix'], lambda o: bool(o.get('binder')))
    idx('uop_idx', 'uop', un, tab['prefix'], lambda o: bool(o.get('binder')))
    of_idx('pop_of_idx', 'pop', pn, tab['postfix'], lambda o: o.get('second') == 'NonTypeId')
    idx('pop_idx', 'pop', pn, tab['postfix'], lambda o: o.get('second') == 'NonTypeId')
    L.append('Definition builtin_fns : list (string * string * nat) := [' +
             '; '.join('("%s", "%s", %d)' % (f['tok'], f['kind'], f['arity']) for f in tab['fns']) + '].')
    txt = '\n'.join(L) + '\n'
    p = os.path.join(d, 'Gen_OpTable.v')
    if not os.path.exists(p) or open(p).read() != txt:
        open(p, 'w').write(txt)
    tab['coq'] = dict(bop=bn, uop=un, pop=pn)
    json.dump(tab, open(os.path.join(vlib.WORK, 'gen', 'optable.json'), 'w'), indent=1)
    return tab


if __name__ == '__main__':
    t = write()
    print({k: len(v) if isinstance(v, list) else v for k, v in t.items() if k != 'coq'})
