"""Stack-discipline certificate of the builder under the LR automaton (C01 / C16).

Reads the automaton and the rule actions (bison --xml + parser.y, tools/gen_grammar.py), composes the effect of every
rule action on the three builder stacks from the per-callback effect table below, computes a certificate (contribution
per symbol, potential per state) by an untrusted fix-point / shortest-path pass, mirrors the Coq checker to name what
fails, and writes coq/theories/gen/Gen_LR.v for LRStack.check_all to verify by vm_compute."""
import os, re, sys, json, heapq, collections
sys.path.insert(0, os.path.dirname(__file__))
import vlib, gen_grammar

# the three builder stacks, and two "current object" pointers seen as stacks of height 0 / 1 (null / set): an action that
# dereferences the pointer "reads one entry"; for these two only the need side is compared with the traces
STACKS = ('fragments', 'typeFragments', 'frames', 'currentFun', 'currentTemplate')
F, T, R, CF, CT = STACKS
FLAG_STACKS = (CF, CT)

# effect of a callback on a stack: (need, lo, hi); entries are ints or ('arg', index, add) = value of argument #index + add
def E(f=None, t=None, r=None, cf=None, ct=None):
    return {F: f or (0, 0, 0), T: t or (0, 0, 0), R: r or (0, 0, 0), CF: cf or (0, 0, 0), CT: ct or (0, 0, 0)}
USES_FUN = (1, 0, 0)         # get_block() / currentFun-> without a null check
USES_TEMPL = (1, 0, 0)       # currentTemplate-> without a null check

def n_(i, add=0, mul=1):
    return ('arg', i, add, mul)

EFFECTS = {
    'after_update': E(f=(1, -1, -1)), 'assert_statement': E(f=(1, -1, -1), cf=USES_FUN), 'before_update': E(f=(1, -1, -1)),
    'block_begin': E(r=(0, 1, 1)), 'block_end': E(r=(1, -1, -1), cf=USES_FUN),
    'break_statement': E(), 'case_begin': E(), 'case_end': E(), 'continue_statement': E(), 'default_begin': E(), 'default_end': E(),
    'chan_priority_add': E(f=(1, -1, -1)), 'chan_priority_begin': E(f=(1, -1, -1)), 'chan_priority_default': E(f=(0, 1, 1)),
    'decl_dynamic_template': E(), 'decl_external_func': E(t=(1, -1, -1)), 'decl_field_init': E(f=(1, 0, 0)),
    'decl_func_begin': E(t=(1, -1, -1), r=(0, 1, 1), cf=(0, 1, 1)), 'decl_func_end': E(r=(1, -1, -1), cf=(1, -1, -1)),
    'decl_init_list': E(f=(n_(0), n_(0, 1, -1), n_(0, 1, -1))),
    'decl_parameter': E(t=(1, -1, -1)), 'decl_typedef': E(t=(1, -1, -1)),
    'decl_var': E(f=(n_(1), n_(1, 0, -1), n_(1, 0, -1)), t=(1, -1, -1)),
    'do_while_begin': E(), 'do_while_end': E(f=(1, -1, -1), cf=USES_FUN), 'done': E(), 'dynamic_load_lib': E(), 'empty_statement': E(cf=USES_FUN),
    'expr_MITL_box': E(f=(1, 0, 0)), 'expr_MITL_diamond': E(f=(1, 0, 0)), 'expr_MITL_formula': E(f=(1, 0, 0)), 'expr_MITL_next': E(f=(1, 0, 0)),
    'expr_MITL_release': E(f=(2, -1, -1)), 'expr_MITL_until': E(f=(2, -1, -1)),
    'expr_array': E(f=(2, -1, -1)), 'expr_assignment': E(f=(2, -1, -1)), 'expr_binary': E(f=(2, -1, -1)),
    'expr_builtin_function1': E(f=(1, 0, 0)), 'expr_builtin_function2': E(f=(2, -1, -1)), 'expr_builtin_function3': E(f=(3, -2, -2)),
    'expr_call_begin': E(f=(1, 0, 0)), 'expr_call_end': E(f=(n_(0, 1), n_(0, 0, -1), n_(0, 0, -1))),
    'expr_comma': E(f=(2, -1, -1)), 'expr_deadlock': E(f=(0, 1, 1)),
    'expr_dot': E(f=(1, 0, 1), r=(0, 0, 1)),
    'expr_double': E(f=(0, 1, 1)),
    'expr_exists_begin': E(t=(1, -1, -1), r=(0, 1, 1)), 'expr_exists_dynamic_begin': E(r=(0, 1, 1)),
    'expr_exists_dynamic_end': E(f=(2, -1, -1), r=(1, -1, -1)), 'expr_exists_end': E(f=(1, 0, 0), r=(1, -1, -1)),
    'expr_exit': E(f=(0, 1, 1)), 'expr_false': E(f=(0, 1, 1)),
    'expr_forall_begin': E(t=(1, -1, -1), r=(0, 1, 1)), 'expr_forall_dynamic_begin': E(r=(0, 1, 1)),
    'expr_forall_dynamic_end': E(f=(2, -1, -1), r=(1, -1, -1)), 'expr_forall_end': E(f=(1, 0, 0), r=(1, -1, -1)),
    'expr_foreach_dynamic_begin': E(r=(0, 1, 1)), 'expr_foreach_dynamic_end': E(f=(2, -1, -1), r=(1, -1, -1)),
    'expr_identifier': E(f=(0, 1, 1)), 'expr_inline_if': E(f=(3, -2, -2)), 'expr_load_strategy': E(f=(3, -2, -2)), 'expr_location': E(f=(1, 0, 0)),
    'expr_nary': E(f=(n_(1), n_(1, 1, -1), n_(1, 1, -1))),
    'expr_nat': E(f=(0, 1, 1)), 'expr_numof': E(f=(1, 0, 0)), 'expr_optimize_exp': E(f=(6, -4, -4)),
    'expr_post_decrement': E(f=(1, 0, 0)), 'expr_post_increment': E(f=(1, 0, 0)), 'expr_pre_decrement': E(f=(1, 0, 0)), 'expr_pre_increment': E(f=(1, 0, 0)),
    'expr_proba_compare': E(f=(8, -7, 0)), 'expr_proba_expected': E(f=(4, -3, 0)), 'expr_proba_qualitative': E(f=(4, -3, -3)), 'expr_proba_quantitative': E(f=(5, -4, -4)),
    'expr_save_strategy': E(f=(1, 0, 0)), 'expr_scenario': E(f=(0, 1, 1)),
    'expr_simulate': E(f=(n_(0, 3), n_(0, -2, -1), n_(0, -2, -1))),
    'expr_spawn': E(f=(n_(0, 1), n_(0, 0, -1), n_(0, 0, -1))),
    'expr_statement': E(f=(1, -1, -1), cf=USES_FUN), 'expr_string': E(f=(0, 1, 1)),
    'expr_sum_begin': E(t=(1, -1, -1), r=(0, 1, 1)), 'expr_sum_dynamic_begin': E(r=(0, 1, 1)),
    'expr_sum_dynamic_end': E(f=(2, -1, -1), r=(1, -1, -1)), 'expr_sum_end': E(f=(1, 0, 0), r=(1, -1, -1)),
    'expr_ternary': E(f=(3, -2, -2)), 'expr_true': E(f=(0, 1, 1)), 'expr_unary': E(f=(1, 0, 0)),
    'for_begin': E(), 'for_end': E(f=(3, -3, -3), cf=USES_FUN),
    'gantt_decl_begin': E(r=(0, 1, 1)), 'gantt_decl_end': E(r=(1, -1, -1)), 'gantt_decl_select': E(t=(1, -1, -1)),
    'gantt_entry_begin': E(r=(0, 1, 1)), 'gantt_entry_end': E(f=(2, -2, -2), r=(1, -1, -1)), 'gantt_entry_select': E(t=(1, -1, -1)),
    'if_begin': E(), 'if_condition': E(), 'if_end': E(f=(1, -1, -1), cf=USES_FUN), 'if_then': E(), 'imitation': E(),
    'instance_name': E(), 'instance_name_begin': E(r=(0, 1, 1)), 'instance_name_end': E(f=(n_(1), n_(1, 0, -1), n_(1, 0, -1)), r=(1, -1, -1)),
    'instantiation_begin': E(r=(0, 1, 1)), 'instantiation_end': E(f=(n_(3), n_(3, 0, -1), n_(3, 0, -1)), r=(1, -1, -1)),
    'iteration_begin': E(t=(1, -1, -1), r=(0, 1, 1), cf=USES_FUN), 'iteration_end': E(r=(1, -1, -1), cf=USES_FUN),
    'proc_LSC_update': E(f=(1, -1, -1)), 'proc_begin': E(r=(0, 1, 1), ct=(0, 1, 1)), 'proc_branchpoint': E(ct=USES_TEMPL), 'proc_condition': E(f=(1, -1, -1)),
    'proc_edge_begin': E(r=(0, 1, 1), ct=USES_TEMPL), 'proc_edge_end': E(r=(1, -1, -1)), 'proc_end': E(r=(1, -1, -1), ct=(0, -1, 0)),
    'proc_guard': E(f=(1, -1, 0)), 'proc_sync': E(f=(1, -1, 0)), 'proc_update': E(f=(1, -1, 0)), 'proc_prob': E(f=(1, -1, 0)),
    'proc_location_commit': E(), 'proc_location_init': E(ct=USES_TEMPL), 'proc_location_urgent': E(),
    'proc_message': E(f=(1, -1, -1)), 'proc_priority_inc': E(), 'proc_select': E(t=(1, -1, -1)),
    'process': E(), 'process_list_end': E(), 'property': E(f=(1, -1, -1)),
    'scenario': E(), 'strategy_declaration': E(), 'struct_field': E(t=(1, -1, -1)), 'subjection': E(),
    'switch_begin': E(), 'switch_end': E(),
    'type_array_of_size': E(f=(1, -1, -1), t=(1, 0, 0)), 'type_array_of_type': E(t=(2, -1, -1)),
    'type_bool': E(t=(0, 1, 1)), 'type_bounded_int': E(f=(2, -2, -2), t=(0, 1, 1)), 'type_channel': E(t=(0, 1, 1)), 'type_clock': E(t=(0, 1, 1)),
    'type_double': E(t=(0, 1, 1)), 'type_duplicate': E(t=(1, 1, 1)), 'type_int': E(t=(0, 1, 1)), 'type_name': E(t=(0, 1, 1)), 'type_pop': E(t=(1, -1, -1)),
    'type_scalar': E(f=(1, -1, -1), t=(0, 1, 1)), 'type_string': E(t=(0, 1, 1)), 'type_struct': E(t=(0, 1, 1)), 'type_void': E(t=(0, 1, 1)),
    'while_begin': E(), 'while_end': E(f=(1, -1, -1), cf=USES_FUN),
    'handle_error': E(), 'handle_warning': E(), 'handle_expect': E(), 'set_position': E(),
}
# callbacks whose effect depends on a boolean argument
def special(name, args):
    if name == 'return_statement':
        return E(f=(1, -1, -1)) if args[0] == 'true' else E()          # return_statement checks currentFun itself
    if name == 'decl_progress':
        return E(f=(2, -2, -2)) if args[0] == 'true' else E(f=(1, -1, -1))
    if name == 'expr_optimize_exp':
        return E(f=(6, -4, -4)) if 'EXPRPRICE' in args[1] else E(f=(5, -3, -3))
    if name == 'expr_simulate':
        reach = len(args) > 1 and args[1] in ('true', '1')
        return E(f=(n_(0, 4), n_(0, -3, -1), n_(0, -3, -1))) if reach else E(f=(n_(0, 3), n_(0, -2, -1), n_(0, -2, -1)))
    if name == 'proc_location':
        k = (args[1] == 'true') + (args[2] == 'true')
        return E(f=(k, -k, -k), ct=USES_TEMPL)
    return None


def split_args(s):
    out, depth, cur = [], 0, ''
    for ch in s:
        if ch in '(<[': depth += 1
        if ch in ')>]': depth -= 1
        if ch == ',' and depth == 0:
            out.append(cur.strip()); cur = ''
        else:
            cur += ch
    if cur.strip():
        out.append(cur.strip())
    return out


class Unknown(Exception):
    pass


def lin_of(x, args, n):
    """effect entry -> linear form (const, coefs[n]) over the rhs values"""
    if isinstance(x, int):
        return (x, [0] * n)
    _, idx, add, mul = x
    a = args[idx] if idx < len(args) else None
    if a is None:
        raise Unknown('missing argument %d' % idx)
    m = re.match(r'^\$(?:<\w+>)?(\d+)$', a)
    if m:
        k = int(m.group(1))
        if k < 1 or k > n:
            raise Unknown('argument %s outside the rule' % a)
        co = [0] * n
        co[k - 1] = mul
        return (add, co)
    if re.match(r'^\d+$', a):
        return (add + mul * int(a), [0] * n)
    if a in ('true', 'false'):
        return (add + mul * (a == 'true'), [0] * n)
    raise Unknown('argument %r is not a rule value or constant' % a)


def ladd(a, b):
    return (a[0] + b[0], [x + y for x, y in zip(a[1], b[1])])


def lneg(a):
    return (-a[0], [-x for x in a[1]])


def lmax_pointwise(a, b):
    """an upper bound of both forms (coefficientwise max: values are >= 0)"""
    return (max(a[0], b[0]), [max(x, y) for x, y in zip(a[1], b[1])])


def compose(calls, n, stack):
    """(need, lo, hi) of a sequence of callbacks, as linear forms"""
    zero = (0, [0] * n)
    need, lo, hi = zero, zero, zero
    for name, argtext in calls:
        args = split_args(argtext)
        eff = special(name, args) or EFFECTS.get(name)
        if eff is None:
            raise Unknown('callback %s has no effect entry' % name)
        nd, l, h = (lin_of(x, args, n) for x in eff[stack])
        # before this callback the height is at least (start + lo): it needs nd, so start must be >= nd - lo
        need = lmax_pointwise(need, ladd(nd, lneg(lo)))
        lo, hi = ladd(lo, l), ladd(hi, h)
    return need, lo, hi


def value_form(action, rhs):
    """how the rule computes its semantic value: linear form over the rhs values, or None"""
    n = len(rhs)
    m = re.findall(r'\$\$\s*=\s*([^;]*);', action or '')
    if not m:
        if n >= 1:
            co = [0] * n; co[0] = 1
            return (0, co)                      # bison's default action $$ = $1
        return None
    e = m[-1].strip()
    if len(m) > 1:
        return None
    mm = re.match(r'^(\d+)$', e)
    if mm: return (int(mm.group(1)), [0] * n)
    mm = re.match(r'^\$(\d+)$', e)
    if mm and 1 <= int(mm.group(1)) <= n:
        co = [0] * n; co[int(mm.group(1)) - 1] = 1
        return (0, co)
    mm = re.match(r'^\$(\d+)\s*\+\s*(\d+)$', e) or None
    if mm and 1 <= int(mm.group(1)) <= n:
        co = [0] * n; co[int(mm.group(1)) - 1] = 1
        return (int(mm.group(2)), co)
    mm = re.match(r'^(\d+)\s*\+\s*\$(\d+)$', e)
    if mm and 1 <= int(mm.group(2)) <= n:
        co = [0] * n; co[int(mm.group(2)) - 1] = 1
        return (int(mm.group(1)), co)
    if e in ('true', 'false'):
        return (int(e == 'true'), [0] * n)
    return None


def build():
    G = gen_grammar.load()
    A = gen_grammar.automaton(G)
    symnum = {}
    for name, d in G['terms'].items(): symnum[name] = d['num'] + 1
    for name, num in G['nonterms'].items(): symnum[name] = num + 1
    terms = set(G['terms'])
    rules = {}
    problems = []
    for r in G['rules']:
        n = len(r['rhs'])
        calls = list(r.get('calls') or [])
        ent = dict(num=r['num'], lhs=r['lhs'], rhs=r['rhs'], val=value_form(r.get('action', ''), r['rhs']) if r['num'] != 0 else None, eff={})
        for s in STACKS:
            try:
                ent['eff'][s] = compose(calls, n, s)
            except Unknown as ex:
                problems.append('rule %d (%s): %s' % (r['num'], r['lhs'], ex))
                ent['eff'][s] = ((10 ** 6, [0] * n), (-(10 ** 6), [0] * n), (10 ** 6, [0] * n))
        rules[r['num']] = ent
    # give the error position of a rule its own copy of the error symbol where every state that shifts `error` into it does so for
    # that rule alone (Coq re-checks the relabelled automaton against the items)
    feed = collections.defaultdict(set)              # (rule, pos) -> set of (p, q)
    mixed = set()
    for st in A:
        if 'error' in st['shifts']:
            q = st['shifts']['error']
            rs = set((r, d - 1) for r, d in A[q]['items'] if d >= 1 and rules[r]['rhs'][d - 1] == 'error')
            if len(rs) == 1:
                feed[next(iter(rs))].add((st['num'], q))
            else:
                mixed |= rs
    nxt = max(symnum.values()) + 1
    errsyms = {}
    for (r, i), pq in sorted(feed.items()):
        if (r, i) in mixed:
            continue
        name = 'error#%d' % r
        symnum[name] = nxt; nxt += 1
        errsyms[name] = (r, i)
        rules[r]['rhs'] = list(rules[r]['rhs']); rules[r]['rhs'][i] = name
        for p, q in pq:
            del A[p]['shifts']['error']
            A[p]['shifts'][name] = q
    return G, A, symnum, terms, rules, problems


def certificate(A, rules, symnum, terms, stack):
    """greatest contributions and shortest-path potentials (untrusted)"""
    syms = list(symnum)
    iserr = lambda x: x == 'error' or x.startswith('error#')
    # counting symbols: a symbol whose value enters an effect or a value function with a non-zero coefficient
    b = {s: 0 for s in syms}
    changed = True
    while changed:
        changed = False
        for r in rules.values():
            need, lo, hi = r['eff'][stack]
            for j, x in enumerate(r['rhs']):
                dep = need[1][j] != 0 or lo[1][j] != 0 or (r['val'] is not None and r['val'][1][j] != 0 and b[r['lhs']] == 1)
                if dep and x not in terms and b[x] == 0:
                    b[x] = 1; changed = True
    BIG = 10 ** 4
    a = {s: (0 if s in terms else BIG) for s in syms}
    for _ in range(400):
        changed = False
        for r in rules.values():
            if r['num'] == 0: continue
            need, lo, hi = r['eff'][stack]
            tot = sum(a[x] for x in r['rhs']) + lo[0]
            if b[r['lhs']] and r['val'] is not None:
                tot -= r['val'][0]
            v = max(-50, min(a[r['lhs']], tot))
            if v != a[r['lhs']]:
                a[r['lhs']] = v; changed = True
        if not changed: break
    for s in syms:
        if a[s] >= BIG: a[s] = 0                     # unreachable / useless symbols
    edges = [(st['num'], x, q) for st in A for x, q in list(st['shifts'].items()) + list(st['gotos'].items())]
    errsym = {st['num']: next((x for x in st['shifts'] if iserr(x)), None) for st in A}
    rec = {k: v is not None for k, v in errsym.items()}
    INF = 10 ** 6
    for x in syms:
        if iserr(x): a[x] = 0
    for rounds in range(6):
        h, g, why = potentials(A, a, edges, rec, errsym, INF)
        bad = [st['num'] for st in A if '$default' not in st['reds'] and g[st['num']] < 0]
        if not bad: break
        lowered = False
        for s0 in bad:
            q = s0
            while q in why and not why[q][1]:
                q = why[q][0]
            if q not in why: continue
            p = why[q][0]
            x = errsym[p]
            if x is None or x == 'error': continue
            r = int(x.split('#')[1]); ru = rules[r]
            slack = sum(a[y] for y in ru['rhs'] if y != x) + ru['eff'][stack][1][0] - a[ru['lhs']]
            want = a[x] + g[s0]
            new = max(-max(0, slack), want)
            if new < a[x]:
                a[x] = new; lowered = True
        if not lowered: break
    h, g, why = potentials(A, a, edges, rec, errsym, INF)
    for k in h:
        if h[k] >= INF: h[k] = 0
    return a, b, h, g


def potentials(A, a, edges, rec, errsym, INF):
    h = {st['num']: INF for st in A}; h[0] = 0
    g = {st['num']: INF for st in A}
    why = {}
    for _ in range(80):
        changed = False
        for p, x, q in edges:
            if h[p] < INF and h[p] + a[x] < h[q]:
                h[q] = h[p] + a[x]; changed = True
            cand = a[x] - a[errsym[p]] if rec[p] else (g[p] + a[x] if g[p] < INF else INF)
            if cand < g[q]:
                g[q] = cand; why[q] = (p, rec[p]); changed = True
        if not changed: break
    return h, g, why


def le_coef(k1, k2):
    return all(x <= y for x, y in zip(k1, k2))


def mirror_check(A, rules, symnum, terms, stack, a, b, h, g):
    """the Coq checker, in Python, naming what fails"""
    fails = []
    for st in A:
        p = st['num']
        for x, q in list(st['shifts'].items()) + list(st['gotos'].items()):
            es = [y for y in st['shifts'] if y == 'error' or y.startswith('error#')]
            okt = h[q] <= h[p] + a[x] and h[q] >= 0 and (all(g[q] + a[y] <= a[x] for y in es) if es else g[q] <= g[p] + a[x])
            if not okt:
                fails.append(('potential', p, -1, x, q))
        if '$default' not in st['reds'] and g[p] < 0:
            fails.append(('recovery', p, -1, 'error detected here, below a consumed entry', g[p]))
        for r in set(st['reds'].values()):
            if r < 0: continue
            ru = rules[r]
            need, lo, hi = ru['eff'][stack]
            n = len(ru['rhs'])
            have = (sum(a[x] for x in ru['rhs']) + lo[0], [b[x] + lo[1][j] for j, x in enumerate(ru['rhs'])])
            if ru['val'] is not None:
                lhsf = (a[ru['lhs']] + b[ru['lhs']] * ru['val'][0], [b[ru['lhs']] * c for c in ru['val'][1]])
                okc = lhsf[0] <= have[0] and le_coef(lhsf[1], have[1])
            else:
                okc = b[ru['lhs']] == 0 and a[ru['lhs']] <= have[0] and all(c >= 0 for c in have[1])
            if not okc:
                fails.append(('contribution', p, r, None, None))
            rl = (sum(a[x] for x in ru['rhs']), [b[x] for x in ru['rhs']])
            okn = (need[0] <= rl[0] and le_coef(need[1], rl[1])) or (all(c <= 0 for c in need[1]) and need[0] <= h.get(p, 0))
            if not okn:
                fails.append(('need', p, r, None, None))
    return fails


def zs(x):
    return '%d' % x if x >= 0 else '(%d)' % x


def lin_v(l):
    return '(mklin %s [%s])' % (zs(l[0]), '; '.join(zs(c) for c in l[1]))


def write(path=None, exclude=None):
    """exclude: {stack: set(rule numbers)} whose need is not certified (reported as known crash sites)"""
    G, A, symnum, terms, rules, problems = build()
    out = []
    out.append('(* generated by tools/gen_lr.py from src/parser.y (bison --xml) — do not edit *)')
    out.append('From Coq Require Import List ZArith PArith FMapPositive.\nFrom Utap Require Import LRStack.\nImport ListNotations.\nLocal Open Scope Z_scope.\n')
    # states
    out.append('Definition lr_states : list (positive * sinfo) := [')
    rows = []
    for st in A:
        items = '; '.join('(%d%%positive, %d%%nat)' % (r + 1, d) for r, d in st['items'])
        trans = '; '.join('(%d%%positive, %d%%positive)' % (symnum[x], q + 1) for x, q in list(st['shifts'].items()) + list(st['gotos'].items()))
        reds = '; '.join('%d%%positive' % (r + 1) for r in sorted(set(st['reds'].values())) if r >= 0)
        rows.append('(%d%%positive, mksinfo [%s] [%s] [%s] %s)' % (st['num'] + 1, items, trans, reds, 'false' if '$default' in st['reds'] else 'true'))
    out.append(';\n'.join(rows) + '].\n')
    out.append('Definition lr_state_map : PositiveMap.t sinfo := fold_left (fun m kv => PositiveMap.add (fst kv) (snd kv) m) lr_states (PositiveMap.empty sinfo).')
    out.append('Definition lr_term (x : sym) : bool := Pos.leb x %d && negb (Pos.eqb x %d).' % (max(symnum[t] for t in terms), symnum['error']))
    out.append('Definition lr_err (x : sym) : bool := Pos.eqb x %d || Pos.ltb %d x.' % (symnum['error'], max(v for k, v in symnum.items() if not k.startswith('error#'))))
    assert all(symnum[t] < min(symnum[n] for n in G['nonterms']) for t in terms)
    info = dict(states=len(A), rules=len(rules), problems=problems, stacks={})
    for stack in STACKS:
        a, b, h, g = certificate(A, rules, symnum, terms, stack)
        fails = mirror_check(A, rules, symnum, terms, stack, a, b, h, g)
        tag = {F: 'frag', T: 'type', R: 'frame', CF: 'fun', CT: 'templ'}[stack]
        out.append('(* ---- %s ---- *)' % stack)
        out.append('Definition rules_%s : list (positive * rule) := [' % tag)
        rows = []
        for r in rules.values():
            need, lo, hi = r['eff'][stack]
            val = 'None' if r['val'] is None else '(Some %s)' % lin_v(r['val'])
            rows.append('(%d%%positive, mkrule %d%%positive [%s] %s %s %s)' % (r['num'] + 1, symnum[r['lhs']], '; '.join('%d%%positive' % symnum[x] for x in r['rhs']), val, lin_v(need), lin_v(lo)))
        out.append(';\n'.join(rows) + '].')
        out.append('Definition G_%s : grammar := mkgrammar lr_state_map (fold_left (fun m kv => PositiveMap.add (fst kv) (snd kv) m) rules_%s (PositiveMap.empty rule)) lr_term 1%%positive lr_err.' % (tag, tag))
        nz_a = [(symnum[s], v) for s, v in a.items() if v != 0]
        nz_b = [(symnum[s], v) for s, v in b.items() if v != 0]
        nz_h = [(p + 1, v) for p, v in h.items() if v != 0]
        def table(name, rows_):
            out.append('Definition %s : PositiveMap.t Z := fold_left (fun m kv => PositiveMap.add (fst kv) (snd kv) m) [%s] (PositiveMap.empty Z).'
                       % (name, '; '.join('(%d%%positive, %s)' % (k, zs(v)) for k, v in rows_)))
        nz_g = [(p + 1, v) for p, v in g.items() if v != 0]
        table('ca_%s' % tag, nz_a); table('cb_%s' % tag, nz_b); table('ch_%s' % tag, nz_h); table('cg_%s' % tag, nz_g)
        out.append('Definition look (m : PositiveMap.t Z) (k : positive) : Z := match PositiveMap.find k m with Some v => v | None => 0 end.' if stack == F else '')
        out.append('Definition C_%s : cert := mkcert (look ca_%s) (look cb_%s) (look ch_%s) (look cg_%s).' % (tag, tag, tag, tag, tag))
        info['stacks'][stack] = dict(fails=[dict(kind=k, state=p, rule=r, lhs=rules[r]['lhs'] if r >= 0 else x, rhs=rules[r]['rhs'] if r >= 0 else [str(q)]) for k, p, r, x, q in fails],
                                     negative_symbols=sorted(s for s, v in a.items() if v < 0),
                                     contributing_symbols=len(nz_a), counting_symbols=sorted(s for s, v in b.items() if v), max_potential=max(h.values()) if h else 0)
    text = '\n'.join(out) + '\n'
    path = path or os.path.join(vlib.COQ, 'theories', 'gen', 'Gen_LR.v')
    os.makedirs(os.path.dirname(path), exist_ok=True)
    if not os.path.exists(path) or open(path).read() != text:
        open(path, 'w').write(text)
    os.makedirs(os.path.join(vlib.WORK, 'gen'), exist_ok=True)
    json.dump(info, open(os.path.join(vlib.WORK, 'gen', 'lr.json'), 'w'), indent=1)
    return info


if __name__ == '__main__':
    info = write()
    print(info['states'], 'states', info['rules'], 'rules', len(info['problems']), 'problems')
    for p in info['problems'][:20]: print('  ', p)
    for s, d in info['stacks'].items():
        print(s, 'fails', len(d['fails']), 'counting', d['counting_symbols'], 'maxpot', d['max_potential'])
        seen = set()
        for f in d['fails']:
            key = (f['kind'], f['rule'])
            if key in seen: continue
            seen.add(key)
            print('   ', f['kind'], 'state', f['state'], 'rule', f['rule'], f['lhs'], '->', ' '.join(f['rhs']))
