#!/bin/bash
# usage: seedregress.sh [ids...] — apply every stored seeded change in turn and run its check: each must report a violation
V=${VERIF_DIR:-/verif}; R=${UTAP_REPO:-/repo}; export UTAP_REPO=$R
cd $V
ids="$@"; [ -z "$ids" ] && ids=$(ls seeded)
for d in $ids; do
  p=$V/seeded/$d/patch.diff; id=${d%%-*}
  if ! git -C $R apply --check $p 2>/dev/null; then echo "$d: patch does not apply to the current tree"; continue; fi
  git -C $R apply $p
  if grep -q '"neutralised_by"' $V/seeded/$d/meta.json; then
    o=$(./check $id 2>&1); if echo "$o" | grep -q "^VIOLATION"; then echo "$d: ALARM on a change a later repair made harmless"; else echo "$d: harmless since $(python3 -c "import json;print(json.load(open('$V/seeded/$d/meta.json'))['neutralised_by'])"), no alarm"; fi
    git -C $R checkout -- .; continue
  fi
  o=$(./check $id 2>&1); 
  if echo "$o" | grep -q "^VIOLATION"; then n=$(echo "$o" | grep -c "^VIOLATION"); nf=$(echo "$o" | grep -c "no-failing-input-found"); echo "$d: caught ($n violation lines, $nf without input)"; else echo "$d: MISSED"; fi
  git -C $R checkout -- .
  git -C $V checkout -- evidence/$id.json 2>/dev/null
done
