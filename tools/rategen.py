"""generator of invariant labels for the correspondence of RateModel.v (RateDecomposer::decompose) with visitLocation.

A label is a tree ('F', cls, lt, text) | ('A', a, b) | ('O', a, b) | ('Q', binder, body) | ('R', left, text_of_rate, text_of_value, cls_of_value);
`prefix(e, ids)` is the line drv_rate reads (leaf / rate ids number the atoms left to right), `text(e)` the label."""

DECLS = 'clock x, y; clock c[2]; clock d[2][2]; int i; bool b; const int N = 2; double f;'

# (text, class, root kind is LT); classes as drv_rate spells them
ATOMS = [('x <= 5', 'V', 0), ('x < 3', 'V', 1), ('y <= i', 'V', 0), ('x - y <= 3', 'V', 0), ('y < N', 'V', 1), ('x <= 5 + i', 'V', 0),
         ('b', 'B', 0), ('i == 1', 'B', 0), ('i < 3', 'B', 1), ('true', 'B', 0), ('!b', 'B', 0), ('i', 'I', 0), ('N', 'I', 0), ('i <= N', 'B', 0)]
BOUND_ATOMS = [('c[k] <= 4', 'V', 0), ('c[k] < 7', 'V', 1), ('k < i', 'B', 1), ('d[k][0] <= 2', 'V', 0)]
INTEGRAL = [a for a in ATOMS if a[1] in 'BI']
ODD = [('x == 3', 'G', 0), ('x >= 2', 'V', 0), ('x > 2', 'V', 0), ('x != 3', 'C', 0), ('f', 'D', 0), ('x', 'K', 0)]
RATES = ["x'", "y'", "c[0]'", "d[1][0]'"]
BOUND_RATES = ["c[k]'", "d[k][1]'", "d[0][k]'"]
VALUES = [('0', 'I'), ('1', 'I'), ('2', 'I'), ('i', 'I'), ('N', 'I'), ('b', 'B'), ('1.5', 'D'), ('f', 'D')]


def gen(rng, depth, bound=0, odd=0.0):
    """a label tree; bound: number of enclosing binders (k, k2, ..: only the innermost is used)"""
    r = rng.random()
    if depth <= 0 or r < 0.25:
        if rng.random() < 0.4:
            rate = rng.choice(BOUND_RATES if bound and rng.random() < 0.7 else RATES)
            v = rng.choice(VALUES)
            return ('R', rng.random() < 0.7, rate, v[0], v[1])
        if odd and rng.random() < odd:
            a = rng.choice(ODD)
            return ('F', a[1], a[2], a[0])
        a = rng.choice(BOUND_ATOMS if bound and rng.random() < 0.5 else ATOMS)
        return ('F', a[1], a[2], a[0])
    if r < 0.65:
        return ('A', gen(rng, depth - 1, bound, odd), gen(rng, depth - 1, bound, odd))
    if r < 0.82:
        a = rng.choice(INTEGRAL)
        side = ('F', a[1], a[2], a[0])
        other = gen(rng, depth - 1, bound, odd)
        if odd and rng.random() < odd:
            side = gen(rng, depth - 1, bound, odd)
        return ('O', side, other) if rng.random() < 0.5 else ('O', other, side)
    return ('Q', 'k', gen(rng, depth - 1, bound + 1, odd))


def text(e):
    t = e[0]
    if t == 'F':
        return '(' + e[3] + ')'
    if t == 'R':
        return '(' + (e[2] + ' == ' + e[3] if e[1] else e[3] + ' == ' + e[2]) + ')'
    if t == 'A':
        return '(' + text(e[1]) + ' && ' + text(e[2]) + ')'
    if t == 'O':
        return '(' + text(e[1]) + ' || ' + text(e[2]) + ')'
    return '(forall (k : int[0,1]) ' + text(e[2]) + ')'


def prefix(e, ctr=None):
    ctr = ctr if ctr is not None else [0]
    t = e[0]
    if t == 'F':
        ctr[0] += 1
        return 'F %s %d %d' % (e[1], e[2], ctr[0])
    if t == 'R':
        ctr[0] += 1
        return 'R 0 %d %d %s' % (1 if e[1] else 0, ctr[0], e[4])
    if t == 'Q':
        return 'Q ' + prefix(e[2], ctr)
    a = prefix(e[1], ctr)
    return ('A ' if t == 'A' else 'O ') + a + ' ' + prefix(e[2], ctr)


def parse_prefix(toks):
    """inverse of prefix on drv_rate's output: the tree with ids in place of texts"""
    t = toks.pop(0)
    if t == 'F':
        c, lt, i = toks.pop(0), toks.pop(0), toks.pop(0)
        return ('F', int(i))
    if t == 'R':
        toks.pop(0); toks.pop(0); i = toks.pop(0); toks.pop(0)
        return ('R', int(i))
    if t == 'Q':
        return ('Q', parse_prefix(toks))
    a = parse_prefix(toks)
    return (t, a, parse_prefix(toks))


def skeleton(e, ctr=None):
    """the same shape as parse_prefix gives, computed from the label tree"""
    ctr = ctr if ctr is not None else [0]
    t = e[0]
    if t in 'FR':
        ctr[0] += 1
        return (t, ctr[0])
    if t == 'Q':
        return ('Q', skeleton(e[2], ctr))
    a = skeleton(e[1], ctr)
    return (t, a, skeleton(e[2], ctr))


def subtrees(e, tree, ctr=None, out=None):
    """map every node of the label (as its skeleton) to the subtree of the implementation's parse tree of the label text
    (s-expression as scopegen.sexpr returns it: [KIND, annotations.., child, child])"""
    ctr = ctr if ctr is not None else [0]
    out = out if out is not None else {}
    kids = [x for x in tree[1:] if isinstance(x, list)] if isinstance(tree, list) else []
    t = e[0]
    if t in 'FR':
        ctr[0] += 1
        sk = (t, ctr[0])
    elif t == 'Q':
        if not (isinstance(tree, list) and tree[0] == 'FORALL' and len(kids) >= 1):
            raise ValueError('FORALL expected at %r' % (tree[:1],))
        sub = subtrees(e[2], kids[-1], ctr, out)
        sk = ('Q', sub)
    else:
        want = 'AND' if t == 'A' else 'OR'
        if not (isinstance(tree, list) and tree[0] == want and len(kids) == 2):
            raise ValueError('%s expected at %r' % (want, tree[:1] if isinstance(tree, list) else tree))
        a = subtrees(e[1], kids[0], ctr, out)
        sk = (t, a, subtrees(e[2], kids[1], ctr, out))
    out[sk] = tree
    return sk


def table(e, tree):
    out = {}
    subtrees(e, tree, [0], out)
    return out
