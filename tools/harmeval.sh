#!/bin/bash
# usage: harmeval.sh Cxx [outdir] — run the checks against each behaviour-preserving patch of a sub-agent; any VIOLATION is a false alarm
id=$1; out=${2:-/tmp/harm_out}/$id
V=${VERIF_DIR:-/verif}; R=${UTAP_REPO:-/repo}; export UTAP_REPO=$R
cd $V
for p in $out/patch*.diff; do
  [ -s "$p" ] || continue
  if ! git -C $R apply --check "$p" 2>/dev/null; then echo "$id $(basename $p): does not apply"; continue; fi
  files=$(grep '^+++ b/' "$p" | sed 's#+++ b/##' | tr '\n' ' ')
  checks="$id"
  case "$files" in *parser.y*|*lexer.l*|*keywords.cpp*|*builder.h*|*expression.cpp*) checks="$id C01 C02 C03 C05 C09 C15 C16 C19";; esac
  checks=$(echo $checks | tr ' ' '\n' | awk '!s[$0]++' | tr '\n' ' ')
  git -C $R apply "$p"
  res=""
  for c in $checks; do
    o=$(./check $c 2>&1 | grep -v '^KNOWN'); rc=$?
    if echo "$o" | grep -q "VIOLATION\|Traceback\|REPO-DOES-NOT-BUILD"; then res="$res $c:ALARM"; echo "$o" | cut -c1-600 | head -6 > /tmp/harm_alarm_${id}_$(basename $p .diff)_$c.txt; else res="$res $c:ok"; fi
  done
  git -C $R checkout -- .
  for c in $checks; do git -C $V checkout -- evidence/$c.json 2>/dev/null; done
  echo "$id $(basename $p) [$files]:$res"
done
