"""C19 — expression cloning, substitution and equality obey their algebraic laws."""
import os, re, subprocess
import vlib, exprgen, gen_grammar, gen_prec
from props.C03 import QUERIES


def perturb(T, rng, tree):
    """a single-node perturbation of a machine tree: another operator, swapped operands, another atom"""
    m = list(re.finditer(r'\(B (\d+) ', tree))
    c = rng.randrange(3)
    if c == 0 and m:
        x = rng.choice(m)
        j = (int(x.group(1)) + 1 + rng.randrange(T.nb - 1)) % T.nb
        return tree[:x.start()] + '(B %d ' % j + tree[x.end():], 'operator'
    a = list(re.finditer(r'\(A (\d+)\)', tree))
    if c == 1 and a:
        x = rng.choice(a)
        cur = int(x.group(1))
        if cur in exprgen.INT_ATOMS:
            j = rng.choice([i for i in exprgen.INT_ATOMS if i != cur])
            return tree[:x.start()] + '(A %d)' % j + tree[x.end():], 'atom'
    # swap the operands of the root if it is binary
    mm = re.match(r'^\(B (\d+) ', tree)
    if mm:
        sx = exprgen.parse_sx(tree)
        def unparse(t):
            return '(' + ' '.join(unparse(x) if isinstance(x, list) else x for x in t) + ')'
        sx[2], sx[3] = sx[3], sx[2]
        return unparse(sx), 'swap'
    return tree, 'none'


def kv(lines):
    d = {}
    for l in lines:
        k, _, v = l.partition(' ')
        d.setdefault(k, []).append(v)
    return d


def check(run):
    thorough = run.tier == 'thorough'
    T = None
    try:
        T = exprgen.Table()
        gen_prec.write()
        gen_prec.write_sizes()
    except (gen_grammar.GrammarError, RuntimeError) as e:
        run.tie_broken('G-LR / G-PREC / get_size translation', str(e))
    pr = run.proofs()
    drv2 = drv19 = None
    if T is not None:
        drv2, err = vlib.build_extract('c02', 'Extract_C02.v', 'drv_c02')
        drv19, err2 = vlib.build_extract('c19', 'Extract_C19.v', 'drv_c19')
        if not drv2 or not drv19:
            run.tie_broken('extraction', (err or '') + (err2 or ''))
    rng = run.rng
    nlaws = npairs = nq = 0
    samples = []
    if T is not None and drv2:            # without the extracted laws model (its proofs no longer check) the implementation-only laws still search for a failing input
        g = exprgen.Gen(T, rng)
        trees = []
        for cn, mk, _ in exprgen.shapes(T)[::3]:
            for hn, tree, fl in exprgen.children(T)[::2]:
                trees.append((mk(tree), fl))
        n = 4000 if thorough else 700
        for k in range(n):
            trees.append(g.expr(rng.choice([2, 3, 4, 5])))
        rend = exprgen.Model(drv2).render_many([t for t, _ in trees])
        texts = [T.text(r['min'], fields=fl) for r, (t, fl) in zip(rend, trees)]
        # pairs: (t, perturbed t) and (t, t) spelled differently (full parenthesisation)
        pairs = []
        ptrees = []
        for (t, fl), r in zip(trees, rend):
            if fl:
                continue
            p, how = perturb(T, rng, t)
            ptrees.append((t, p, how, r))
        prend = exprgen.Model(drv2).render_many([p for _, p, _, _ in ptrees])
        for (t, p, how, r), pr2 in zip(ptrees, prend):
            pairs.append((T.text(r['min'], fields=[]), T.text(pr2['min'], fields=[]), how))
            if rng.random() < 0.2:
                pairs.append((T.text(r['min'], fields=[]), T.text(r['full'], fields=[]), 'same'))
        # trees that differ only in the value an inner node carries: the field a dot selects
        for ctx in ('%s', 'v0 + %s', 'arr[%s]', 'fn1(%s)', '%s == v1', 'b0 ? %s : v2', '- %s', 'fn2(v0, %s)', '(%s) * 2'):
            for a, b in (('s.f0', 's.f1'), ('s2.f1', 's2.f0'), ('sa[1].f0', 'sa[1].f1'), ('s.t.g0', 's2.t.g0'), ('s.f0', 's.t.g0'), ('sa[v0].f1', 'sa[v0].f0')):
                pairs.append((ctx % a, ctx % b, 'dot-field'))
                pairs.append((ctx % a, ctx % a, 'same'))
        # trees that differ only in a constant, by as little as the type allows: neighbouring doubles, doubles whose difference is
        # far below any fixed epsilon, integers one apart
        import struct
        def nxt(x):
            return struct.unpack('<d', struct.pack('<q', struct.unpack('<q', struct.pack('<d', x))[0] + 1))[0]
        near = [('0.1', repr(nxt(0.1))), ('1.0', repr(nxt(1.0))), ('0.30000000000000004', '0.3'), ('1e-300', '2e-300'), ('5e-324', '1e-323'), ('1e-17', '2e-17'), ('1000.5', repr(nxt(1000.5))),
                ('2.2250738585072014e-308', '1.1754943508222875e-38'), ('1e+300', repr(nxt(1e300))), ('7', '8'), ('0', '1'), ('2147483646', '2147483647')]
        for k in range(6):
            x = rng.random() * 10 ** rng.randrange(-12, 3)
            near.append((repr(x), repr(nxt(x))))
        # every builtin function, the varied constant in each argument position in turn
        fctx = []
        for f in T.fns:
            nm = next((w for w in (T.sp.get(f['tok']) or []) if w[0].isalpha()), None)
            if not nm:
                continue
            for pos in range(f['arity']):
                fctx.append('%s(%s)' % (nm, ', '.join('%s' if i == pos else '1.5' for i in range(f['arity']))))
        for ctx in ['d0 + %s', 'fabs(%s)', '%s < d0', 'b0 ? %s : d0', '2.0 * %s + d0'] + fctx:
            for a, b in near:
                if (('.' in a or 'e' in a) and (ctx not in fctx or (a, b) in near[:2])) or ctx in ('d0 + %s', '%s < d0'):
                    pairs.append((ctx % a, ctx % b, 'near-constant'))
                    pairs.append((ctx % b, ctx % b, 'same'))
        nsh = 16
        shards = [vlib.Job() for _ in range(nsh)]
        for i, j in enumerate(shards):
            j.case('s%d' % i, fork=True).model('xta', exprgen.FIXTURE_XTA)
        plan = []
        for idx, txt in enumerate(texts):
            shards[idx % nsh].laws(txt)
            plan.append((idx % nsh, 'laws', txt))
        for idx, (a, b, how) in enumerate(pairs):
            shards[idx % nsh].data('PAIR', '', a.encode() + b'\0' + b.encode())
            plan.append((idx % nsh, 'pair', (a, b, how)))
        for idx, q in enumerate(QUERIES):
            shards[idx % nsh].data('QLAWS', '', q)
            plan.append((idx % nsh, 'qlaws', q))
        big = vlib.Job()
        for j in shards:
            j.end(); big.parts += j.parts; big.ids += j.ids
        res = vlib.run_jobs(big, flavour='asan', shards=nsh)
        cursor = {i: 1 for i in range(nsh)}
        model_in, model_expect = [], []
        for sh, what, payload in plan:
            cs = res['s%d' % sh]
            if cursor[sh] >= len(cs['cmds']):
                if cs['status'] != 'ok':
                    run.fail('library crashed / sanitizer report while exercising the expression laws (%s)' % cs['status'],
                             dict(input=payload, status=cs['status'], stderr=res.get('_stderr', '')[-1500:]), shape='crash:' + what)
                continue
            op, arg, lines = cs['cmds'][cursor[sh]]
            cursor[sh] += 1
            d = kv(lines)
            if what in ('laws', 'qlaws'):
                if 'tree' not in d or 'clone_equal' not in d:
                    continue           # not parsed (queries rejected by the fixture) — nothing to check
                nlaws += 1
                if what == 'qlaws':
                    nq += 1
                tree = d['tree'][0]
                bad = []
                if d['clone_equal'] != ['1']: bad.append('clone_deeper() is not equal to the original')
                if d['clone_tree_same'] != ['1']: bad.append('clone_deeper() differs structurally')
                if not d['clone_shared_nodes'][0].startswith('0 of'): bad.append('clone_deeper() shares nodes: ' + d['clone_shared_nodes'][0])
                if d['mutation_isolated'] != ['1']: bad.append('mutating the clone changed the original')
                if d['equal_refl'] != ['1']: bad.append('equal() is not reflexive')
                for x in d.get('subst_self', []):
                    if not x.endswith(' 1'): bad.append('substituting symbol %s by itself is not the identity' % x.split()[0])
                for x in d.get('clone_rename_self', []):
                    if not x.endswith(' 1'): bad.append('clone_deeper(s, s) with s = %s is not equal to the original' % x.split()[0])
                for x in d.get('clone_rename_shared', []):
                    if not x.endswith(' 0'): bad.append('clone_deeper(from, to) with %s shares %s node(s) with the original' % tuple(x.split()[:2]))
                if d.get('clone_frame_shared', ['0']) != ['0']: bad.append('clone_deeper(frame) / clone_deeper(frame, frame) share nodes with the original')
                for x in d.get('clone_rename_subst', []):
                    if not x.endswith(' 1'): bad.append('clone_deeper(%s, %s) differs from substituting the identifier' % tuple(x.split()[:2]))
                if d.get('clone_frame', ['1']) != ['1']: bad.append('clone_deeper(frame) over the frame that declares every symbol is not equal to the original')
                if d.get('clone_second_frame', ['1']) != ['1']: bad.append('clone_deeper(empty frame, frame) is not equal to the original')
                for x in d.get('subst_unchanged', []):
                    if not x.endswith(' 1'): bad.append('subst changed its receiver (%s)' % x.split()[0])
                for x in d.get('subst_tree', []):
                    name, _, st = x.partition(' ')
                    want = tree.replace('(IDENTIFIER %s)' % name, '(CONSTANT i:777)')
                    if st != want: bad.append('subst(%s := 777) gave %s' % (name, st))
                    model_in.append('S %s %s' % (name, tree)); model_expect.append(('SUBST', re.sub(r' d:[0-9a-f]{16}', ' d', st).replace(' b:', ' i:')))
                model_in.append('C ' + tree); model_expect.append(('CLONE', 'same=1 equal=1 disjoint=1 fresh=1'))
                # number of children reported vs accessible: the dump walks get(i) for i < get_size() under ASan; the
                # regenerated table must agree with the number of children in the dump for fixed-arity kinds
                for b in bad:
                    run.fail('%s on %r: %s' % (b, payload, tree), dict(input=payload, tree=tree, observed=lines[:12]), shape='law:' + b.split(':')[0].split('(')[0][:40])
                if len(samples) < 3 and not bad:
                    samples.append(dict(input=payload, tree=tree))
            else:
                a, b, how = payload
                if 'equal12' not in d:
                    continue
                npairs += 1
                t1, t2 = d['tree1'][0], d['tree2'][0]
                same = t1 == t2
                if '(FORALL ' in t1 or '(EXISTS ' in t1 or '(SUM ' in t1:
                    continue      # binder symbols are fresh in every parse: two parses are alpha-equivalent, never equal()
                only_const_type = (not same) and t1.replace(' b:', ' i:') == t2.replace(' b:', ' i:')
                e12, e21, ec, se = d['equal12'][0] == '1', d['equal21'][0] == '1', d['equal_clone2'][0] == '1', d['streq'][0] == '1'
                if e12 != e21:
                    run.fail('equal() is not symmetric on %r / %r' % (a, b), dict(a=a, b=b), shape='law:equal-sym')
                if e12 != same:
                    shape = 'law:equal-ignores-constant-type' if (e12 and only_const_type) else 'law:equal-' + ('misses-difference:' + how if e12 else 'rejects-same')
                    run.fail('equal() = %s for trees %s and %s' % (e12, t1, t2), dict(a=a, b=b, how=how), shape=shape)
                if ec != e12:
                    run.fail('equal() is not transitive through a clone on %r / %r' % (a, b), dict(a=a, b=b), shape='law:equal-trans')
                if e12 and not se and not only_const_type:
                    run.fail('equal trees print differently: %r / %r' % (a, b), dict(a=a, b=b), shape='law:equal-text')
                model_in.append('E %s | %s' % (t1, t2)); model_expect.append(('EQ', '%d %d' % (e12, e21)))
        # ---- the hand models (extracted) against the implementation on the same trees ------------------------
        out = subprocess.run([drv19], input='\n'.join(model_in) + '\n', stdout=subprocess.PIPE, universal_newlines=True).stdout.split('\n') if drv19 else []
        mism = []
        for line, (tag, want), inp in zip(out, model_expect, model_in):
            got_tag, _, got = line.partition(' ')
            if got_tag != tag or got.strip() != want.strip():
                mism.append(dict(input=inp[:300], model=line[:300], implementation=want[:300]))
        if drv19 and len(out) - 1 < len(model_in):
            mism.append(dict(note='model driver stopped early', lines=len(out), expected=len(model_in)))
        if mism:
            run.tie_broken('ExprLaws model (extracted) vs implementation', mism[:6])
        run.cov.update(evaluations=nlaws + npairs, distinct_nontrivial=len(set(texts)) + len(set(pairs)), traces_validated_against_impl=len(model_in),
                       rule='LAWS: every third (context x child) triple and seeded random typed trees, plus %d query forms (n-ary LIST / SIMULATE nodes), each through clone_deeper / mutation / subst of every occurring symbol / '
                            'child walk under ASan+UBSan; PAIR: each tree against a single-node perturbation (operator, atom, operand order), against its fully parenthesised spelling, pairs that differ only in the field a dot selects, in nine contexts, and pairs that differ only in a constant by one unit in the last place (or by less than any fixed epsilon); '
                            'the extracted Coq equal/subst/clone run on the same dumped trees and must give the implementation\'s answers' % len(QUERIES),
                       samples=samples, laws_cases=nlaws, query_trees=nq, equal_pairs=npairs, model_cases=len(model_in))
    # substitution inside types (type_t::subst, reached through the members of instantiated processes): every parameter occurrence in the bounds and sizes of plain,
    # record, array, nested and function types is replaced, nothing else (the correspondence of C07 with DotModel.v, without its process-set probes)
    from props import C07
    run.cov['type_substitution'] = C07.qualified(run, run.tier == 'thorough', process_sets=False)
    run.cov['trusted_base'] += ['hand model ExprLaws.v of clone_deeper/subst/equal (tied by running the extracted functions on the implementation\'s dumped trees)',
                                'tools/gen_prec.py reader of get_size; node identity observed through expression_t::operator== (pointer equality)',
                                'ASan/UBSan flavour of the library for out-of-range child access', 'utapdump LAWS/PAIR/QLAWS']
    return run.finish('proof', assumptions=['NaN and negative-zero constants cannot be written in the language (hypothesis `plain`)',
                                            'identity coherence (`coherent`): one heap node per identity — a property of shared_ptr, not checked'])
