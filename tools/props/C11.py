"""C11 — expressions that must be side-effect free are rejected if they can write state."""
import os, re, subprocess
import vlib, docgen, effgen as G

V = lambda i: ('v', i)
L = lambda n=1: ('lit', n)


def carriers():
    """(name, function list, call expression text, abstract call) : a writer and its twin that writes a local instead"""
    N = G.Names()
    out = []
    LID, PID = 2001, 2002
    N.add(LID, 'loc'); N.add(PID, 'par'); N.add(2003, 'loc2')

    def fam(name, mk, params=None, arg=None):
        """mk(target) -> body statements; target is a global for the writer and a local for the twin"""
        for twin in (False, True):
            tgt = V(LID) if twin else V(0)
            body = ('block', [(LID, L(0))], mk(tgt) + [('ret', L(2))])
            f = dict(params=params or [], body=body)
            out.append(dict(name=name + ('~twin' if twin else ''), funs=[f], call=('call', 0, [arg] if arg else []), twin=twin))
    asg = lambda t: ('asg', t, L(1), '=')
    fam('direct', lambda t: [('expr', asg(t))])
    for opname, op in (('plus', '+='), ('minus', '-='), ('times', '*='), ('div', '/='), ('mod', '%='), ('or', '|='), ('and', '&='), ('xor', '^='), ('shl', '<<='), ('shr', '>>='), ('colon', ':=')):
        fam('compound-' + opname, lambda t, op=op: [('expr', ('asg', t, L(1), op))])
    fam('postinc', lambda t: [('expr', ('inc', False, t, '++'))])
    fam('predec', lambda t: [('expr', ('inc', True, t, '--'))])
    fam('in-if', lambda t: [('if', L(1), ('expr', asg(t)))])
    fam('in-else', lambda t: [('ife', L(1), ('expr', L(0)), ('expr', asg(t)))])
    fam('for-init', lambda t: [('for', asg(t), L(1), L(0), ('empty',))])
    fam('for-step', lambda t: [('for', L(0), L(1), asg(t), ('empty',))])
    fam('for-body', lambda t: [('for', L(0), L(1), L(0), ('expr', asg(t)))])
    fam('while-cond', lambda t: [('while', asg(t), ('empty',))])
    fam('while-body', lambda t: [('while', L(1), ('expr', asg(t)))])
    fam('do-body', lambda t: [('do', ('expr', asg(t)), L(1))])
    fam('do-cond', lambda t: [('do', ('empty',), asg(t))])
    fam('iteration', lambda t: [('iter', ('expr', asg(t)), 1)])
    fam('nested-block', lambda t: [('block', [], [('block', [], [('expr', asg(t))])])])
    fam('return-value', lambda t: [('if', L(1), ('ret', ('inc', False, t, '++')))])
    fam('inline-if-target', lambda t: [('expr', ('asg', ('ite', L(1), t, t), L(1), '='))])
    fam('nested-assign', lambda t: [('expr', ('op', L(1), asg(t)))])
    # a conditional l-value whose other branch is a local: the written object is either branch
    fam('inline-if-else-branch', lambda t: [('expr', ('asg', ('ite', L(1), V(LID), t), L(1), '='))])
    fam('inline-if-then-branch', lambda t: [('expr', ('asg', ('ite', L(1), t, V(LID)), L(1), '='))])
    fam('inline-if-else-branch-inc', lambda t: [('expr', ('inc', False, ('ite', L(1), V(LID), t), '++'))])
    fam('inline-if-nested-else', lambda t: [('expr', ('asg', ('ite', L(1), V(LID), ('ite', L(0), V(LID), t)), L(1), '+='))])
    # array element and struct field (the twin writes nothing)
    for nm, tgt in (('array-element', ('idx', V(G.GA), L(1))), ('struct-field', ('dot', V(G.GS)))):
        for twin in (False, True):
            body = ('block', [(LID, L(0))], [('expr', asg(V(LID)) if twin else asg(tgt)), ('ret', L(2))])
            out.append(dict(name=nm + ('~twin' if twin else ''), funs=[dict(params=[], body=body)], call=('call', 0, []), twin=twin))
    # through a non-const reference parameter; the twin takes the parameter by const reference and only reads it
    for twin in (False, True):
        body = ('block', [(LID, L(0))], [('expr', asg(V(LID)) if twin else asg(V(PID))), ('ret', V(PID))])
        out.append(dict(name='ref-parameter' + ('~twin' if twin else ''), funs=[dict(params=[(PID, 'cref' if twin else 'ref')], body=body)], call=('call', 0, [V(8) if twin else V(0)]), twin=twin))
    # call chains of depth 1..3 (and through a reference parameter at the end of the chain)
    for depth in (1, 2, 3):
        for twin in (False, True):
            f0 = dict(params=[], body=('block', [(LID, L(0))], [('expr', asg(V(LID)) if twin else asg(V(0))), ('ret', L(2))]))
            funs = [f0]
            for k in range(depth):
                funs.append(dict(params=[], body=('block', [], [('if', L(1), ('expr', ('call', k, []))), ('ret', L(2))])))
            out.append(dict(name='chain-%d' % depth + ('~twin' if twin else ''), funs=funs, call=('call', depth, []), twin=twin))
    for twin in (False, True):
        f0 = dict(params=[(PID, 'cref' if twin else 'ref')], body=('block', [(LID, L(0))], [('expr', asg(V(LID)) if twin else asg(V(PID))), ('ret', L(2))]))
        f1 = dict(params=[], body=('block', [], [('ret', ('call', 0, [V(8) if twin else V(0)]))]))
        out.append(dict(name='chain-ref' + ('~twin' if twin else ''), funs=[f0, f1], call=('call', 1, []), twin=twin))
    # direct write forms in the context itself (no function)
    for nm, e in (('expr-assign', asg(V(0))), ('expr-compound', ('asg', V(0), L(1), '-=')), ('expr-postinc', ('inc', False, V(0), '++')), ('expr-preinc', ('inc', True, V(0), '++')),
                  ('expr-array', asg(('idx', V(G.GA), L(1)))), ('expr-field', asg(('dot', V(G.GS))))):
        out.append(dict(name=nm, funs=[], call=e, twin=False))
    out.append(dict(name='expr-pure~twin', funs=[], call=('op', L(1), L(1)), twin=True))
    return out, N


CONTEXTS = ['guard', 'invariant', 'sync', 'probability', 'select', 'initialiser', 'arraysize', 'range', 'instarg', 'instarg-partial', 'instarg-chain', 'forall', 'exists', 'sum', 'assert', 'query', 'localinit', 'paramrange']


def model_xml(decl, ctx, e):
    """the expression e (text, int-valued) placed in context ctx; every other context holds a neutral expression"""
    esc = lambda t: t.replace('&', '&amp;').replace('<', '&lt;').replace('>', '&gt;')
    c = {k: None for k in CONTEXTS}
    c[ctx] = e
    g = lambda k, neutral, wrap='%s': esc(wrap % c[k]) if c[k] is not None else esc(neutral)
    gdecl = decl + 'bool bq;\nint init_v = %s;\nint arr_sz[%s];\nint[0, %s] rng_v;\n' % (c['initialiser'] or '1', c['arraysize'] or '2', c['range'] or '3')
    gdecl += 'int fa() { assert(%s); return 1; }\n' % ((c['assert'] + ' >= 0') if c['assert'] else 'true')
    tdecl = 'clock x; chan c[8];\nint li = %s;\n' % (c['localinit'] or '1')
    quant = 'true'
    for q in ('forall', 'exists', 'sum'):
        if c[q] is not None:
            quant = '%s (q : int[0,1]) (%s %s)' % (q, c[q], '' if q == 'sum' else '>= 0') + (' >= 0' if q == 'sum' else '')
    xml = '''<?xml version="1.0" encoding="utf-8"?>
<nta><declaration>%s</declaration>
<template><name>T</name><parameter>int pv, int[0, %s] pr</parameter><declaration>%s</declaration>
<location id="id0"><label kind="invariant">%s</label><label kind="exponentialrate">%s</label></location><location id="id1"/><branchpoint id="id2"/><init ref="id0"/>
<transition><source ref="id0"/><target ref="id1"/><label kind="select">s : int[0, %s]</label><label kind="guard">%s</label><label kind="synchronisation">%s</label><label kind="assignment">bq = %s</label></transition>
<transition><source ref="id0"/><target ref="id2"/></transition>
<transition><source ref="id2"/><target ref="id1"/><label kind="probability">%s</label></transition>
</template>
<system>P = T(%s, 1); system P;</system></nta>''' % (
        esc(gdecl), g('paramrange', '4'), esc(tdecl), g('invariant', 'true', '%s >= 0'), '1', g('select', '3'), g('guard', 'true', '%s >= 0'),
        g('sync', 'c[0]!', 'c[%s]!'), esc(quant), g('probability', '1'), g('instarg', '1'))
    # an argument of a partial instantiation (the line declares a parameter of its own), in last position, and of the outer line of a chain
    if c['instarg-partial'] is not None:
        xml = xml.replace('<system>P = T(1, 1); system P;</system>', '<system>P(const int[0,1] kk) = T(kk, %s); system P;</system>' % esc(c['instarg-partial']))
    if c['instarg-chain'] is not None:
        xml = xml.replace('<system>P = T(1, 1); system P;</system>', '<system>Q(const int[0,1] kk, const int[0,1] mm) = T(kk, mm); P(const int[0,1] nn) = Q(nn, %s); system P;</system>' % esc(c['instarg-chain']))
    return xml


def compare_summaries(run, drv, rng, nprog, what):
    """random programs: the sets the type checker stores per function vs the extracted summaries; what in ('changes', 'depends')"""
    # ---- (1) function summaries: model vs function_t::changes / depends on random programs ---------------------------
    progs = [G.RandProg(rng, rng.randrange(2, 7)) for _ in range(nprog)]
    j = vlib.Job()
    for k, p in enumerate(progs):
        j.case('p%d' % k, fork=True).model('xta', p.text() + '\nprocess P() { state A; init A; }\nsystem P;\n').dump('errors').dump('doc').end()
    rr = vlib.run_jobs(j)
    minp = '\n'.join('\n'.join(p.sx_lines()) for p in progs) + '\n'
    mout = subprocess.run([drv], input=minp, stdout=subprocess.PIPE, universal_newlines=True).stdout.split('\n')
    mi = 0
    smism, nfun, nwriters, nreject = [], 0, 0, 0
    for k, p in enumerate(progs):
        c = rr['p%d' % k]
        msum = []
        for f in p.funs:
            m = re.match(r'F \d+ changes=(\S*) depends=(\S*)', mout[mi]); mi += 1
            msum.append((set(m.group(1).split(',')) - {''}, set(m.group(2).split(',')) - {''}))
        if c['status'] != 'ok':
            run.fail('type checker crashed on a generated program', dict(program=p.text(), status=c['status']), shape='crash')
            continue
        errs = [l for l in c['cmds'][1][2] if l.startswith('error')]
        if errs:
            nreject += 1
            continue
        real = {}
        for l in c['cmds'][2][2]:
            m = re.match(r'global fun \d+ (f\d+) : .* changes=\{(.*?)\} depends=\{(.*?)\}', l)
            if m:
                real[m.group(1)] = (set(m.group(2).split(',')) - {''}, set(m.group(3).split(',')) - {''})
        for i, f in enumerate(p.funs):
            nfun += 1
            mc = {p.N[int(x)] for x in msum[i][0]}
            md = {p.N[int(x)] for x in msum[i][1]}
            rc, rd = real.get('f%d' % i, (None, None))
            if rc is None:
                smism.append(dict(function='f%d' % i, note='function missing from the dump'))
                continue
            rd = {x for x in rd if not re.match(r'f\d+$', x) and x != 'K'}     # the callee identifiers themselves are "read" too
            if mc:
                nwriters += 1
            if (what == 'changes' and mc != rc) or (what == 'depends' and md != rd):
                smism.append(dict(function='f%d' % i, program=p.text()[:1500], model_changes=sorted(mc), impl_changes=sorted(rc), model_depends=sorted(md), impl_depends=sorted(rd)))
    if smism:
        run.tie_broken('function summaries: Effects.v model vs function_t::%s' % what, smism[:4] + [dict(total=len(smism))])
    return nfun, nwriters, nreject



PROC_DECL = ('<?xml version="1.0" encoding="utf-8"?><nta><declaration>int g; int ga[3]; void bump(int &amp;r) { r++; }</declaration><template><name>T</name><parameter>int[0,2] p</parameter>'
             '<declaration>int v; int va[2];\n%s</declaration><location id="id0"/><init ref="id0"/></template><system>P = T(1); system P, T;</system></nta>')
# (name, body of a template-local function `int f(int k)`, writes something that is not local to it)
PROC_FUNS = [('local-var', 'v++; return v;', True), ('local-array', 'va[k % 2] = 1; return 0;', True), ('global', 'g = 3; return 1;', True), ('global-array', 'ga[1] += 2; return 1;', True),
             ('through-ref', 'bump(v); return v;', True), ('through-ref-global', 'bump(g); return 0;', True), ('chain', 'return h(k);', True), ('in-loop', 'for (i : int[0,1]) { if (i == k) v = i; } return 0;', True),
             ('own-local', 'int z = k; z++; return z;', False), ('reads', 'return v + g + va[0] + p;', False), ('reads-chain', 'return r(k) + 1;', False)]


def process_calls(run):
    """functions of a template called through a process in a query (P.f(1), T(2).f(1)): the side-effect analysis has to follow the member, not the process"""
    j = vlib.Job()
    cases = []
    for name, body, writes in PROC_FUNS:
        decl = 'int h(int k) { v = k; return v; } int r(int k) { return v + k; } int f(int k) { %s }' % docgen.XESC(body)
        for q in ('E<> P.f(1) > 0', 'A[] P.f(0) >= 0 && P.v >= 0', 'E<> T(2).f(1) > 0', 'E<> forall (i : int[0,1]) P.f(i) >= 0', 'P.f(1) > 0 --> P.v > 0'):
            cases.append((name, q, writes))
            j.case('p%d' % (len(cases) - 1), fork=True).model('xml', PROC_DECL % decl).dump('errors').query(q, rt=False).end()
    rr = vlib.run_jobs(j)
    n = 0
    for k, (name, q, writes) in enumerate(cases):
        c = rr['p%d' % k]
        if c['status'] != 'ok' or len(c['cmds']) < 3:
            run.fail('type checker crashed on a query calling a function through a process', dict(form=name, query=q, status=c['status']), shape='crash:query-process-call')
            continue
        if any(l.startswith('error') for l in c['cmds'][1][2]):
            run.tie_broken('the model of the process-call block is rejected', dict(form=name, errors=[l for l in c['cmds'][1][2] if l.startswith('error')][:2]))
            continue
        n += 1
        acc = any(l.startswith('accepted 1') for l in c['cmds'][2][2])
        if writes and acc:
            run.fail('the query %r is accepted although the function it calls through the process writes a variable (%s)' % (q, name), dict(form=name, query=q), shape='accepts-write:query-process-call:' + name)
        if not writes and not acc:
            run.tie_broken('side-effect-free twin of a process call rejected', dict(form=name, query=q, answer=c['cmds'][2][2][:3]))
    return n


TL_XML = '''<?xml version="1.0" encoding="utf-8"?>
<nta><declaration>int g; int ga[2]; int gr; chan c[4];</declaration>
<template><name>T</name><parameter>int &amp;rp, int &amp;ra[2], const int k</parameter><declaration>clock x; int lv; int la[2];
int w0() { %s return 1; }
int w1() { if (k > 0) { return w0(); } return 2; }
int f() { %s }
int li2 = %s;</declaration>
<location id="id0"><label kind="invariant">%s</label></location><location id="id1"/><branchpoint id="id2"/><init ref="id0"/>
<transition><source ref="id0"/><target ref="id1"/><label kind="select">s : int[0, %s]</label><label kind="guard">%s</label><label kind="synchronisation">c[%s]!</label><label kind="assignment">lv = %s</label></transition>
<transition><source ref="id0"/><target ref="id2"/></transition>
<transition><source ref="id2"/><target ref="id1"/><label kind="probability">%s</label></transition>
</template>
<system>P = T(gr, ga, 1); system P;</system></nta>'''
# what a function declared inside a template may write besides globals: the template's own variables and, through them, whatever the template's reference
# parameters are bound to at instantiation; the twins write a local of the function and only read the others
TL_WRITES = [('ref-parameter', 'rp = 1;', True), ('ref-parameter-inc', 'rp++;', True), ('ref-array-parameter', 'ra[0] = 1;', True), ('ref-array-parameter-loop', 'for (i : int[0,1]) ra[i] = 0;', True),
             ('template-variable', 'lv = 1;', True), ('template-array', 'la[1] += 2;', True), ('global', 'g = 1;', True), ('global-array', 'ga[k] = 1;', True),
             ('local~twin', 'int l = 0; l = rp + ra[0] + lv + la[1] + g;', False), ('local-array~twin', 'int l[2]; l[0] = ra[1]; for (i : int[0,1]) l[i] = la[i];', False),
             ('local-constant~twin', 'int l = 0; l = k + 1; l++;', False), ('local-array-constant~twin', 'int l[2]; for (i : int[0,1]) l[i] = k;', False)]
TL_CONTEXTS = ['guard', 'invariant', 'sync', 'select', 'probability', 'localinit', 'quantified-update', 'query', 'query-element']


def template_local_writers(run):
    """functions declared inside a template, called (directly, and one and two calls down) from every side-effect-free context the template offers and from a query"""
    j = vlib.Job()
    cases = []
    for wname, wtext, writes in TL_WRITES:
        for depth, fbody in ((0, wtext + ' return 1;'), (1, 'return w0();'), (2, 'return w1() + 1;')):
            for ctx in TL_CONTEXTS:
                if ctx in ('select', 'localinit') and not writes and 'constant' not in wname:
                    continue          # a select range and an initialiser must also be computable at compile time (C13): their twins read the constant parameter only
                call = 'f()'
                v = dict(localinit='1', invariant='true', select='1', guard='true', sync='0', update='1', probability='1')
                if ctx == 'guard': v['guard'] = call + ' >= 0'
                elif ctx == 'invariant': v['invariant'] = call + ' >= 0'
                elif ctx == 'sync': v['sync'] = call
                elif ctx == 'select': v['select'] = call
                elif ctx == 'probability': v['probability'] = call
                elif ctx == 'localinit': v['localinit'] = call
                elif ctx == 'quantified-update': v['update'] = 'sum (q : int[0,1]) (%s + q)' % call
                xml = TL_XML % (docgen.XESC(wtext), docgen.XESC(fbody), docgen.XESC(v['localinit']), docgen.XESC(v['invariant']), docgen.XESC(v['select']), docgen.XESC(v['guard']), docgen.XESC(v['sync']),
                                docgen.XESC(v['update']), docgen.XESC(v['probability']))
                q = {'query': 'E<> P.f() > 0', 'query-element': 'A[] forall (i : int[0,1]) P.f() + i >= 0'}.get(ctx)
                cases.append((wname, depth, ctx, writes, xml, q))
                c = j.case('t%d' % (len(cases) - 1), fork=True).model('xml', xml).dump('errors')
                if q:
                    c.query(q, rt=False)
                c.end()
    rr = vlib.run_jobs(j)
    n = 0
    for k, (wname, depth, ctx, writes, xml, q) in enumerate(cases):
        c = rr['t%d' % k]
        if c['status'] != 'ok' or len(c['cmds']) < (3 if q else 2):
            run.fail('type checker crashed on a call of a template-local function', dict(write=wname, depth=depth, context=ctx, xml=xml, status=c['status']), shape='crash:template-local-function')
            continue
        errs = [l for l in c['cmds'][1][2] if l.startswith('error')]
        if q:
            if errs:
                run.tie_broken('the model of the template-local function block is rejected', dict(write=wname, errors=errs[:2]))
                continue
            rejected = not any(l.startswith('accepted 1') for l in c['cmds'][2][2])
        else:
            rejected = bool(errs)
        n += 1
        if writes and not rejected:
            run.fail('a %s that calls the template-local function f (%d call%s above the write) is accepted although f writes %s' % (ctx, depth, '' if depth == 1 else 's', wname),
                     dict(write=wname, depth=depth, context=ctx, xml=xml, query=q), shape='accepts-write:template-local:%s:%s' % (ctx, wname))
        if not writes and rejected:
            run.tie_broken('side-effect-free twin of a template-local function rejected', dict(write=wname, depth=depth, context=ctx, errors=errs[:2] or c['cmds'][2][2][:3]))
    return n


QB_DECL = 'int g; double dv; double w[3]; int iw() { g++; return g; } int ir() { return g; } double dw(int i) { g++; return w[i]; } double dr(int i) { return w[i] + dv; }\n'
# (body, value kind, writes)
QB_BODIES = [('(g = q)', 'int', True), ('g++', 'int', True), ('iw()', 'int', True), ('(q > 0 ? iw() : 0)', 'int', True), ('ir() + q', 'int', False), ('q * 2', 'int', False),
             ('(dv = w[q])', 'double', True), ('dw(q)', 'double', True), ('(dv += 1.0)', 'double', True), ('w[q] + dw(q)', 'double', True), ('(q > 0 ? dw(q) : 0.5)', 'double', True),
             ('dr(q)', 'double', False), ('w[q] * 2.0', 'double', False)]


def quantified_bodies(run):
    """the body of forall / exists / sum placed where no enclosing whole-expression check covers it (an edge update, a statement, a return value or a local initialiser
    of a function): the quantifier's own check is the only one; bodies of integer and of floating-point value"""
    j, cases = vlib.Job(), []
    for body, kind, writes in QB_BODIES:
        for q in ('forall', 'exists', 'sum'):
            if q != 'sum' and kind == 'double':
                e, res = '%s (q : int[0,2]) (%s) > 0.0' % (q, body), 'bool'
            elif q != 'sum':
                e, res = '%s (q : int[0,2]) (%s) >= 0' % (q, body), 'bool'
            else:
                e, res = 'sum (q : int[0,2]) (%s)' % body, kind
            tgt = dict(bool='bq', int='ti', double='td')[res]
            for place in ('update', 'statement', 'return', 'localinit'):
                fun = ''
                upd = 'bq = true'
                if place == 'update':
                    upd = '%s = %s' % (tgt, e)
                elif place == 'statement':
                    fun = 'void fs() { %s = %s; }' % (tgt, e)
                elif place == 'return':
                    fun = '%s fs() { return %s; }' % (res, e)
                else:
                    fun = 'void fs() { %s z = %s; }' % (res, e)
                xml = ('<?xml version="1.0" encoding="utf-8"?><nta><declaration>%s</declaration><template><name>T</name><location id="id0"/><location id="id1"/><init ref="id0"/>'
                       '<transition><source ref="id0"/><target ref="id1"/><label kind="assignment">%s</label></transition></template><system>system T;</system></nta>'
                       % (docgen.XESC(QB_DECL + 'bool bq; int ti; double td;\n' + fun), docgen.XESC(upd)))
                cases.append((q, body, kind, place, writes, xml))
                j.case('b%d' % (len(cases) - 1), fork=True).model('xml', xml).dump('errors').end()
    rr = vlib.run_jobs(j)
    n = 0
    for k, (q, body, kind, place, writes, xml) in enumerate(cases):
        c = rr['b%d' % k]
        if c['status'] != 'ok':
            run.fail('type checker crashed on a quantified body', dict(quantifier=q, body=body, place=place, xml=xml, status=c['status']), shape='crash:quantified-body')
            continue
        errs = [l.split('msg="')[1].split('"')[0] for l in c['cmds'][1][2] if l.startswith('error')]
        n += 1
        if writes and not errs:
            run.fail('the body %r of a %s (%s-valued) in a %s is accepted although it can write a variable' % (body, q, kind, place), dict(quantifier=q, body=body, place=place, xml=xml),
                     shape='accepts-write:quantified-body:%s:%s:%s' % (q, kind, place))
        if not writes and errs:
            run.tie_broken('side-effect-free quantified body rejected', dict(quantifier=q, body=body, place=place, errors=errs[:2]))
    return n


def check(run):
    thorough = run.tier == 'thorough'
    rng = run.rng
    pr = run.proofs()
    drv, err = vlib.build_extract('effects', 'Extract_Effects.v', 'drv_effects') if os.path.exists(os.path.join(vlib.COQ, 'theories', 'EffectsProofs.vo')) else (None, 'EffectsProofs.vo missing')
    if drv is None:
        run.tie_broken('extraction of the effects model', err)
        return run.finish('proof')
    nfun, nwriters, nreject = compare_summaries(run, drv, rng, 400 if thorough else 80, 'changes')
    # ---- (2) every side-effect-free context x every write form and its twin ---------------------------------------------------
    cars, N = carriers()
    cases = []
    for car in cars:
        decl = G.GLOBAL_DECL + '\n'.join(G.fun_txt(k, f, N) for k, f in enumerate(car['funs'])) + '\n'
        etxt = G.e_txt(car['call'], N)
        for ctx in CONTEXTS:
            cases.append((car, ctx, model_xml(decl, ctx, etxt), etxt))
    j = vlib.Job()
    for k, (car, ctx, xml, etxt) in enumerate(cases):
        j.case('c%d' % k, fork=True).model('xml', xml).dump('errors')
        if ctx == 'query':
            j.query('A[] %s >= 0' % etxt, rt=False)
        j.end()
    rr = vlib.run_jobs(j)
    # model verdicts
    lines = []
    for car in cars:
        lines += ['R'] + ['D ' + G.fun_sx(f) for f in car['funs']] + ['W ' + G.e_sx(car['call'])]
    mo = [l for l in subprocess.run([drv], input='\n'.join(lines) + '\n', stdout=subprocess.PIPE, universal_newlines=True).stdout.split('\n') if l.startswith('W ')]
    mw = {car['name']: (mo[i].split('|')[0].strip() != 'W') for i, car in enumerate(cars)}
    cmism, ncase, nrej, nacc = [], 0, 0, 0
    per_ctx = {}
    for k, (car, ctx, xml, etxt) in enumerate(cases):
        c = rr['c%d' % k]
        if c['status'] != 'ok':
            run.fail('type checker crashed with a write form in context %s' % ctx, dict(context=ctx, form=car['name'], xml=xml, status=c['status']), shape='crash:' + ctx)
            continue
        errs = [l.split('msg="')[1].split('"')[0] for l in c['cmds'][1][2] if l.startswith('error')]
        if ctx == 'query':
            q = c['cmds'][2][2]
            acc = any(l.startswith('accepted 1') for l in q)
            errs = errs + ([] if acc else ['query rejected'])
        rejected = len(errs) > 0
        ncase += 1
        writes = mw[car['name']]
        per_ctx.setdefault(ctx, [0, 0])[1 if rejected else 0] += 1
        if writes and not rejected:
            run.fail('context %s accepts %r although it can write a variable (%s)' % (ctx, etxt, car['name']), dict(context=ctx, form=car['name'], expr=etxt, xml=xml), shape='accepts-write:%s' % ctx)
        if not writes and rejected:
            # the twin must be accepted; a rejection for another reason would make the case meaningless
            cmism.append(dict(context=ctx, form=car['name'], expr=etxt, errors=errs[:2], note='side-effect-free twin rejected'))
        if rejected:
            nrej += 1
        else:
            nacc += 1
    if cmism:
        run.tie_broken('side-effect-free twins must be accepted (model says nothing is written)', cmism[:6] + [dict(total=len(cmism))])
    npc = process_calls(run) + quantified_bodies(run) + template_local_writers(run)
    run.cov.update(process_call_queries=npc, evaluations=nfun + ncase + npc, distinct_nontrivial=nwriters + ncase + npc, traces_validated_against_impl=nfun + ncase + npc,
                   rule='(1) seeded random programs (2-6 functions, all statement forms, value / reference / const-reference parameters, calls to earlier functions): the changes and depends sets the type checker stores per '
                        'function vs the extracted Coq summaries; (2) %d side-effect-free contexts x %d write forms (direct, in every statement form, initialiser, return value, array element, struct field, inline-if target, '
                        'reference parameter, call chains of depth 1-3) each with a twin that writes a local instead: writer rejected, twin accepted' % (len(CONTEXTS), len(cars)),
                   samples=[dict(context=c[1], form=c[0]['name'], expr=c[3]) for c in cases[:3]], functions_compared=nfun, functions_with_writes=nwriters, programs_rejected_out_of_scope=nreject,
                   context_cases=ncase, context_rejected=nrej, context_accepted=nacc, per_context_accept_reject=per_ctx)
    run.cov['trusted_base'] += ['hand model Effects.v of get_symbols / collect_possible_writes / reads / statement visitors / visitFunction (tied by comparing the stored summaries)',
                                'tools/effgen.py renderer of abstract programs', 'Coq extraction, drv_effects.ml']
    return run.finish('proof', assumptions=['the completeness theorem assumes functions call only functions declared before them (no recursion); recursion is exercised by correspondence only',
                                            'that each listed context actually consults changes_any_variable() is established per context by the writer/twin matrix, not by proof'])
