"""C17 — analysis methods are reported as supported only when the model permits them."""
import os, re, subprocess
import vlib

SIDES = {  # (fp, clock) -> expressions
    (0, 0): ['i', '3', 'j + 1', 'ci'], (1, 0): ['d', '1.5', 'fabs(d)', 'cd', 'cda[1]', 'td', 'cd', 'cda[0]'], (0, 1): ['x', 'y'], (1, 1): ['x + 1.5', 'x + cd'],     # cd: const double, cda: const double array, td: typedef'd double
}
RELS = ['<', '<=', '>=', '>', '==', '!=']


def esc(t):
    return t.replace('&', '&amp;').replace('<', '&lt;').replace('>', '&gt;')


class Gen:
    def __init__(self, rng):
        self.r = rng

    def cmp(self, want_fp=None):
        r = self.r
        while True:
            l = r.choice(list(SIDES)); rr = r.choice(list(SIDES))
            if want_fp is None or bool(l[0] or rr[0]) == want_fp:
                break
        return ('cmp', l, rr, r.choice(RELS))

    def boolish(self, d):
        """clock-free boolean (may compare doubles): usable under || ! exists"""
        r = self.r
        c = r.random()
        if d <= 0 or c < 0.4:
            if r.random() < 0.5:
                return ('leaf', r.choice([0, 0, 1]))
            l = r.choice([(0, 0), (1, 0)]); rr = r.choice([(0, 0), (1, 0)])
            return ('cmp', l, rr, r.choice(RELS))
        if c < 0.6:
            return ('and', self.boolish(d - 1), self.boolish(d - 1))
        if c < 0.8:
            return ('or', self.boolish(d - 1), self.boolish(d - 1))
        if c < 0.9:
            return ('not', self.boolish(d - 1))
        return (r.choice(['forall', 'exists']), self.boolish(d - 1))

    def guard(self, d, inv=False):
        r = self.r
        c = r.random()
        if d <= 0 or c < 0.3:
            c2 = r.random()
            if inv and c2 < 0.35:
                return ('rate', r.choice([0, 0, 1]), r.choice([('int', 0), ('int', 1), ('int', 2), ('int', 3), ('dbl', 1), ('dbl', 0), ('expr',)]))
            if c2 < 0.7:
                # a clock comparison that types as invariant/guard: clock vs int/double with < <=  (>= > == for guards only)
                clk = (0, 1)
                other = r.choice([(0, 0), (0, 0), (1, 0)])
                rel = r.choice(['<', '<='] if inv else ['<', '<=', '>=', '>', '=='])
                return ('cmp', clk, other, rel) if r.random() < 0.6 or inv else ('cmp', other, clk, {'<': '>', '<=': '>=', '>=': '<=', '>': '<', '==': '=='}[rel])
            return self.boolish(1)
        if c < 0.7:
            return ('and', self.guard(d - 1, inv), self.guard(d - 1, inv))
        if c < 0.8:
            # a quantified rate below a disjunction is left out: the type checker's rate decomposer takes any node that is not a conjunction or an
            # equation for a quantifier and conjoins the inner forall to the invariant (the stored invariant is then stronger than the text; the
            # verdict on the stored invariant stays on the safe side of the property, which is an only-if)
            def forall_rate(g, under=False):
                if g[0] == 'rate': return under
                if g[0] == 'forall': return forall_rate(g[1], True)
                if g[0] in ('and', 'or'): return forall_rate(g[1], under) or forall_rate(g[2], under)
                return False
            for _ in range(20):
                g = self.guard(d - 1, inv)
                if not forall_rate(g):
                    break
            else:
                g = self.boolish(1)
            return ('or', self.boolish(1), g) if r.random() < 0.5 else ('or', g, self.boolish(1))
        if c < 0.9:
            return ('forall', self.guard(d - 1, inv))
        return self.boolish(2)

    def upds(self):
        r = self.r
        return [r.choice([('assign', 0, 0), ('assign', 0, 0), ('assign', 1, 0, 'd'), ('assign', 1, 0, 'x'), ('assign', 1, 1), ('assign', 0, 1), ('other', 0), ('other', 1),
                          ('assign', 1, 0, 'xh'), ('assign', 1, 0, 'mixed'), ('assign', 1, 1, 'hh'), ('assign', 1, 0, 'chain'), ('assign', 1, 0, 'compound')]) for _ in range(r.randrange(0, 4))]

    def vars(self):
        r = self.r
        return [r.choice([('var', 1, 1), ('var', 1, 0), ('var', 1, 0, 'init'), ('var', 0, 1), ('var', 0, 0)]) for _ in range(r.randrange(0, 3))]

    def chans(self):
        r = self.r
        return [('chan', r.choice([0, 1, 1])) for _ in range(r.randrange(0, 3))]

    def templ(self, k):
        r = self.r
        inst = r.choice([1, 1, 0])
        # how the template reaches (or misses) the system line: 1 listed as it is; 2 listed with a free parameter (a process set); 3 a partial instantiation that leaves a
        # parameter free, listed; 4 a full instantiation, listed; 5 a chain of two instantiations, listed; 0 not mentioned; 6 instantiated but not listed (no process)
        style = r.choice([1, 1, 2, 3, 4, 5]) if inst else r.choice([0, 0, 6])
        return dict(inst=inst, style=style, vars=self.vars(), chans=self.chans(),
                    invs=[self.guard(r.choice([0, 1, 2]), inv=True) for _ in range(r.randrange(0, 3))],
                    edges=[dict(guard=self.guard(r.choice([0, 1, 2, 3])) if r.random() < 0.8 else None, upds=self.upds()) for _ in range(r.randrange(0, 4))])

    def doc(self):
        r = self.r
        return dict(dyn=r.choice([1, 2, 3]) if r.random() < 0.12 else 0, prio=1 if r.random() < 0.12 else 0, chanprio=r.randrange(1, 6) if r.random() < 0.15 else 0, vars=self.vars(), chans=self.chans(), templs=[self.templ(k) for k in range(r.randrange(1, 4))])


def side_txt(rng, s):
    return rng.choice(SIDES[tuple(s)])


def g_txt(g, rng, q=[0]):
    h = g[0]
    if h == 'leaf':
        return rng.choice(['isnan(d)', 'isinf(e)']) if g[1] else rng.choice(['b', 'c', 'true'])
    if h == 'cmp':
        return '%s %s %s' % (side_txt(rng, g[1]), g[3], side_txt(rng, g[2]))
    if h == 'rate':
        clk = 'h' if g[1] else rng.choice(['x', 'y'])
        rv = {('int', 0): '0', ('int', 1): '1', ('int', 2): '2', ('int', 3): '3', ('dbl', 1): rng.choice(['1.0', '0.0']), ('dbl', 0): rng.choice(['2.5', '0.5']), ('expr',): 'i'}[tuple(g[2])]
        return "%s' == %s" % (clk, rv) if rng.random() < 0.7 else "%s == %s'" % (rv, clk)
    if h in ('and', 'or'):
        return '(%s) %s (%s)' % (g_txt(g[1], rng), '&&' if h == 'and' else '||', g_txt(g[2], rng))
    if h == 'not':
        return '!(%s)' % g_txt(g[1], rng)
    q[0] += 1
    return '%s (q%d : int[0,1]) (%s)' % (h, q[0], g_txt(g[1], rng))


def g_sx(g):
    h = g[0]
    if h == 'leaf':
        return '(leaf %d)' % g[1]
    if h == 'cmp':
        return '(cmp %d %d %d %d)' % (g[1][0], g[1][1], g[2][0], g[2][1])
    if h == 'rate':
        r = g[2]
        return '(rate %d %s)' % (g[1], '(int %d)' % r[1] if r[0] == 'int' else '(dbl %d)' % r[1] if r[0] == 'dbl' else '(expr)')
    if h in ('and', 'or'):
        return '(%s %s %s)' % (h, g_sx(g[1]), g_sx(g[2]))
    return '(%s %s)' % (h, g_sx(g[1]))


def u_txt(u, rng):
    if u[0] == 'assign':
        fp, hy = u[1], u[2]
        if fp and hy: return rng.choice(['(i == 0 ? h : h) = 1.5', 'h = h = 1.5', 'h = 1.0 + (h = 2.5)']) if len(u) > 3 else rng.choice(['h = 1.5', 'h = d + 1.5'])
        if hy: return 'h = 1'
        if fp: return rng.choice(['d = 1.5', 'x = 1.5', 'd = e + 1']) if len(u) < 4 else {'d': 'd = 1.5', 'x': 'x = 2.5', 'xh': 'x = h + 1.5', 'mixed': rng.choice(['(i == 0 ? h : x) = 2.5', '(b ? y : h) = 1.5']), 'chain': rng.choice(['h = x = 1.5', 'h = 1.0 + (x = 1.5)', 'h = (d = 2.5)', 'i = (h = (y = 2.5)) > 1.0 ? 1 : 0']), 'compound': rng.choice(['i += fint(2.5)', 'j -= fint(d)', 'i = 1, j *= fint(e + 0.5)'])}[u[3]]
        return rng.choice(['i = 1', 'x = 0', 'j = i + 1'])
    return 'e = fabs(d), i++'.split(', ')[0] if False else ('i++' if not u[1] else 'fv(d)')


def decls(vs, cs, rng, pfx):
    out = []
    for k, v in enumerate(vs):
        clock, fp = v[1], v[2]
        n = '%sv%d' % (pfx, k)
        if clock:
            shape = rng.choice(['plain', 'plain', 'array', 'record', 'rows', 'named-record'])
            if shape == 'array': out.append('clock %s[2]%s;' % (n, ' = {1, 2.5}' if fp else (' = {1, 2}' if len(v) > 3 else '')))
            elif shape == 'rows': out.append('typedef clock %s_row[2]; %s_row %s[2]%s;' % (n, n, n, ' = {{1, 2.5}, {1, 1}}' if fp else (' = {{1, 2}, {1, 1}}' if len(v) > 3 else '')))     # an array of named clock arrays
            elif shape == 'named-record': out.append('typedef struct { int k; clock c; } %s_rec; %s_rec %s[2]%s;' % (n, n, n, ' = {{2, 1}, {2, 1.5}}' if fp else (' = {{2, 1}, {2, 1}}' if len(v) > 3 else '')))
            elif shape == 'record': out.append('struct { int k; clock c; } %s%s;' % (n, ' = {2, 1.5}' if fp else (' = {2, 1}' if len(v) > 3 else '')))
            else: out.append('clock %s%s;' % (n, ' = 1.5' if fp else (' = 1' if len(v) > 3 else '')))
        else:
            out.append(('double %s = 2.5;' if fp else 'int %s = 2;') % n)
    for k, c in enumerate(cs):
        # plain, urgent, array and two-dimensional array declarations of the same channel kind
        out.append('%s%schan %sc%d%s;' % (rng.choice(['', '', 'urgent ']), 'broadcast ' if c[1] else '', pfx, k, rng.choice(['', '', '[2]', '[2][3]'])))
    rng.shuffle(out)
    return '\n'.join(out)


def render(d, rng):
    glob = 'clock x, y; hybrid clock h; int i, j; double d, e; bool b, c;\nconst int ci = 2; const double cd = 1.5; const double cda[2] = {1.5, 2.5}; typedef double real_t; real_t td;\nvoid fv(double p) { }\n' + decls(d['vars'], d['chans'], rng, 'g')
    if d.get('chanprio'):
        # a channel priority declaration of every shape, over two broadcast channels of its own (which restrict nothing themselves): with and without '<', with default
        glob += '\nbroadcast chan pa, pb; chan priority %s;' % {1: 'pa < pb', 2: 'default < pa', 3: 'pa, pb', 4: 'pa', 5: 'pa, default'}[d['chanprio']]
    tx = []
    if d['dyn']:
        # a dynamic template: only declared (1), declared and defined (2), or declared without parameters and defined (3); nothing spawns it
        glob += '\ndynamic DT(%s);' % ('' if d['dyn'] == 3 else 'const int di')
        if d['dyn'] >= 2:
            tx.append('<template><name>DT</name>%s<location id="idd_0"/><init ref="idd_0"/></template>' % ('' if d['dyn'] == 3 else '<parameter>const int di</parameter>'))
    order = list(range(len(d['templs'])))
    rng.shuffle(order)
    for k in order:
        t = d['templs'][k]
        locs = ['<location id="id%d_0"/>' % k]
        for n, g in enumerate(t['invs']):
            # some locations carry an exponential rate next to their invariant (it restricts nothing itself)
            rate = '<label kind="exponentialrate">%s</label>' % rng.choice(['3', '1:2', 'ci', '2.5']) if rng.random() < 0.4 else ''
            locs.append('<location id="id%d_%d"><label kind="invariant">%s</label>%s</location>' % (k, n + 1, esc(g_txt(g, rng)), rate))
        eds = []
        for e in t['edges']:
            labs = ''
            if e['guard'] is not None:
                labs += '<label kind="guard">%s</label>' % esc(g_txt(e['guard'], rng))
            if e['upds']:
                labs += '<label kind="assignment">%s</label>' % esc(', '.join(u_txt(u, rng) for u in e['upds']))
            eds.append('<transition><source ref="id%d_0"/><target ref="id%d_0"/>%s</transition>' % (k, k, labs))
        params = {2: 'const int[0,2] pid%d' % k}.get(t.get('style', 1), 'const int[0,2] pid%d, int pv%d' % (k, k) if t.get('style', 1) in (3, 4, 5, 6) else '')
        tx.append('<template><name>T%d</name>%s<declaration>%s</declaration>%s<init ref="id%d_0"/>%s</template>' % (k, '<parameter>%s</parameter>' % params if params else '',
                  esc(decls(t['vars'], t['chans'], rng, 't%d' % k)), ''.join(locs), k, ''.join(eds)))
    if not any(t['inst'] for t in d['templs']):
        d['templs'][0]['inst'] = 1
        if d['templs'][0].get('style', 1) in (0, 6):
            d['templs'][0]['style'] = 4 if d['templs'][0].get('style') == 6 else 1
    inst, insts = [], ''
    for k, t in enumerate(d['templs']):
        st = t.get('style', 1)
        if st in (1, 2): name = 'T%d' % k
        elif st == 3: name = 'Q%d' % k; insts += 'Q%d(const int[0,1] j%d) = T%d(j%d, 7);\n' % (k, k, k, k)
        elif st == 4: name = 'P%d' % k; insts += 'P%d = T%d(1, 7);\n' % (k, k)
        elif st == 5: name = 'P%d' % k; insts += 'Q%d(const int[0,1] j%d) = T%d(j%d, 7);\nP%d = Q%d(1);\n' % (k, k, k, k, k, k)
        elif st == 6: name = None; insts += 'P%d = T%d(1, 7);\n' % (k, k)
        else: name = None
        if t['inst'] and name: inst.append(name)
    sysl = insts + 'system ' + (' < '.join(inst) if d['prio'] and len(inst) > 1 else ', '.join(inst)) + ';'
    if d['prio'] and len(inst) < 2:
        d['prio'] = 0
    return '<?xml version="1.0" encoding="utf-8"?>\n<nta><declaration>%s</declaration>%s<system>%s</system></nta>' % (esc(glob), ''.join(tx), esc(sysl))


def doc_sx(d):
    def vs(l): return '(vars %s)' % ' '.join('(var %d %d)' % (v[1], v[2]) for v in l)
    def cs(l): return '(chans %s)' % ' '.join('(chan %d)' % c[1] for c in l)
    def us(l): return '(upds %s)' % ' '.join('(assign %d %d)' % (u[1], u[2]) if u[0] == 'assign' else '(other %d)' % u[1] for u in l)
    ts = []
    for t in d['templs']:
        es = ' '.join('(edge %s %s)' % ('(guard %s)' % g_sx(e['guard']) if e['guard'] is not None else '(none)', us(e['upds'])) for e in t['edges'])
        ts.append('(templ %d %s %s (invs %s) (edges %s))' % (t['inst'], vs(t['vars']), cs(t['chans']), ' '.join(g_sx(g) for g in t['invs']), es))
    return '(doc %d %d %s %s (templs %s))' % (1 if d['dyn'] else 0, 1 if (d['prio'] or d.get('chanprio')) else 0, vs(d['vars']), cs(d['chans']), ' '.join(ts))


# ---- the specification, directly (mirrors Feature.v's spec_* predicates) ------------------------------------------
def spec_fp_compare(g):
    h = g[0]
    if h == 'leaf': return False
    if h == 'cmp': return bool((g[1][1] and g[2][0]) or (g[1][0] and g[2][1]))
    if h == 'rate': return g[2][0] == 'dbl'
    return any(spec_fp_compare(x) for x in g[1:] if isinstance(x, tuple))


def spec_bad_rate(g):
    h = g[0]
    if h == 'rate': return (not g[1]) and ((g[2][0] == 'int' and g[2][1] not in (0, 1)) or (g[2][0] == 'dbl' and not g[2][1]))
    if h in ('and', 'or'): return spec_bad_rate(g[1]) or spec_bad_rate(g[2])
    if h == 'forall': return spec_bad_rate(g[1])
    return False


def spec(d):
    sym = any(v[1] and v[2] for v in d['vars']) or bool(d['dyn'])
    sto = any(not c[1] for c in d['chans']) or bool(d['prio']) or bool(d.get('chanprio'))
    for t in d['templs']:
        if not t['inst']:
            continue
        sym = sym or any(v[1] and v[2] for v in t['vars']) or any(spec_bad_rate(g) or spec_fp_compare(g) for g in t['invs'])
        for e in t['edges']:
            sym = sym or any(u[0] == 'assign' and u[1] and not u[2] for u in e['upds']) or (e['guard'] is not None and spec_fp_compare(e['guard']))
        sto = sto or any(not c[1] for c in t['chans'])
    return dict(symbolic_restricted=sym, stochastic_restricted=sto, priorities=bool(d['prio']) or bool(d.get('chanprio')))


def reference_probes(run):
    """clocks reached through reference parameters: the verdict must follow the clock that is bound, not the declared type of the parameter"""
    T = ('<?xml version="1.0" encoding="utf-8"?><nta><declaration>clock x; hybrid clock h; int i;</declaration><template><name>T</name><parameter>%s</parameter><location id="id0"><label kind="invariant">%s</label></location>'
         '<location id="id1"/><init ref="id0"/><transition><source ref="id0"/><target ref="id1"/><label kind="assignment">%s</label></transition></template><system>P = T(%s); system P;</system></nta>')
    cases = [('hybrid clock &amp;hp', 'true', 'hp = 2.5', 'x', True), ('hybrid clock &amp;hp', "hp' == 2", 'i = 1', 'x', True), ('hybrid clock &amp;hp', 'true', 'hp = 2.5', 'h', False),
             ('clock &amp;cp', 'true', 'cp = 2.5', 'x', True), ('clock &amp;cp', "cp' == 2", 'i = 1', 'x', True), ('clock &amp;cp', 'true', 'cp = 2', 'x', False)]
    j = vlib.Job()
    for k, c in enumerate(cases):
        j.case('rp%d' % k, fork=True).model('xml', T % c[:4]).dump('errors').dump('supported').end()
    rr = vlib.run_jobs(j)
    for k, c in enumerate(cases):
        r = rr['rp%d' % k]
        if r['status'] != 'ok' or any(l.startswith('error') for l in r['cmds'][1][2]):
            run.tie_broken('reference-parameter probe is not accepted', dict(case=c, status=r['status'], errors=[l for l in r['cmds'][1][2] if l.startswith('error')][:2]))
            continue
        sym = 'symbolic=1' in ' '.join(r['cmds'][2][2])
        if c[4] and sym:
            run.fail('template T(%s) with invariant %r and update %r, instantiated with the clock %s: symbolic analysis is reported as supported' % (c[0].replace('&amp;', '&'), c[1], c[2], c[3]), dict(case=c, xml=T % c[:4]),
                     shape='verdict:hybrid-ref-parameter' if c[0].startswith('hybrid') else 'verdict:ref-parameter')
        if not c[4] and not sym:
            run.tie_broken('reference-parameter probe: a model that restricts nothing is reported as not symbolically analysable', dict(case=c))
    return len(cases)


def function_probes(run):
    """floating-point assignments made inside functions that an update calls (directly, and through a second function); twins assign integers"""
    T = ('<?xml version="1.0" encoding="utf-8"?><nta><declaration>clock x; hybrid clock h; int i; double d;\nvoid f0() { %s }\nvoid f1() { if (i > 0) f0(); }</declaration><template><name>T</name>'
         '<location id="id0"/><location id="id1"/><init ref="id0"/><transition><source ref="id0"/><target ref="id1"/><label kind="assignment">%s</label></transition></template><system>system T;</system></nta>')
    cases = [(body, call, restricts) for body, restricts in (('x = 1.5;', True), ('d = 2.5;', True), ('i = fint(d);', True), ('h = 1.5;', False), ('x = 1; i = 2;', False), ('int l[2]; int m; l[0] = 1; x = 1.5;', True), ('int l[2]; int m; for (q : int[0,1]) l[q] = m;', False),
                                             ('if (i > 0) { double t = 2.5; d = t; }', True), ('while (i > 0) { i--; h = 0.5; }', False)) for call in ('f0()', 'i = 1, f1()')]
    j = vlib.Job()
    for k, c in enumerate(cases):
        j.case('fp%d' % k, fork=True).model('xml', T % c[:2]).dump('errors').dump('supported').end()
    rr = vlib.run_jobs(j)
    for k, c in enumerate(cases):
        r = rr['fp%d' % k]
        if r['status'] != 'ok' or any(l.startswith('error') for l in r['cmds'][1][2]):
            run.tie_broken('function-body probe is not accepted', dict(case=c, status=r['status'], errors=[l for l in r['cmds'][1][2] if l.startswith('error')][:2]))
            continue
        sym = 'symbolic=1' in ' '.join(r['cmds'][2][2])
        if c[2] and sym:
            run.fail('the update %r calls a function whose body executes %r: symbolic analysis is reported as supported' % (c[1], c[0]), dict(case=c, xml=T % c[:2]), shape='verdict:fp-assignment-in-function')
        if not c[2] and not sym:
            run.tie_broken('function-body probe: a model that restricts nothing is reported as not symbolically analysable', dict(case=c))
    return len(cases)


def nested_updates(run, rng, n):
    """random update expressions with assignments at every depth (chained, in operands, in branches of conditionals, in comma lists; plain and compound operators;
    targets chosen by conditionals): the extracted traversal of UpdModel.v against the verdict of the library on the same update"""
    drv, err = vlib.build_extract('upd', 'Extract_Upd.v', 'drv_upd') if os.path.exists(os.path.join(vlib.COQ, 'theories', 'UpdModel.vo')) else (None, 'UpdModel.vo missing')
    if drv is None:
        run.tie_broken('extraction of the update model', err)
        return 0
    A = lambda fp, hy=0: 'A %d %d' % (fp, hy)
    CLK = [('x', A(0)), ('y', A(0)), ('h', A(0, 1)), ('h', A(0, 1)), ('h', A(0, 1))]
    def lval(kind, depth):
        if kind == 'clk':
            if depth > 0 and rng.random() < 0.3:
                (t1, s1), (t2, s2) = lval('clk', depth - 1), lval('clk', depth - 1)
                return '(b ? %s : %s)' % (t1, t2), 'I %s %s %s' % (A(0), s1, s2)
            return rng.choice(CLK)
        return ('d', A(1)) if kind == 'dbl' else (rng.choice(['i', 'j']), A(0))
    # values by type class (int, dbl, clk = the value of an assignment to a clock): operands of one operator and the branches of one conditional are of one class,
    # so that no node gets a floating-point type of its own from mixing a clock with a number (the model has fp flags on atoms only)
    def val(kind, depth):
        r = rng.random()
        if kind == 'clk':
            if depth > 0 and r < 0.3:
                (c1, s1), (c2, s2) = val('clk', depth - 1), val('clk', depth - 1)
                return '(b ? %s : %s)' % (c1, c2), 'I %s %s %s' % (A(0), s1, s2)
            t, sx = assign('clk', depth - 1)
            return '(%s)' % t, sx
        if depth <= 0 or r < 0.25:
            return rng.choice([('i', A(0)), ('2', A(0)), ('j', A(0))]) if kind == 'int' else rng.choice([('d', A(1)), ('1.5', A(1)), ('e', A(1))])
        if r < 0.5:
            t, sx = assign(kind, depth - 1)
            return '(%s)' % t, sx
        if r < 0.65:
            (c1, s1), (c2, s2) = val(kind, depth - 1), val(kind, depth - 1)
            return '(b ? %s : %s)' % (c1, c2), 'I %s %s %s' % (A(0), s1, s2)
        if r < 0.75 and kind == 'int':
            t, sx = val('dbl', depth - 1)
            return 'fint(%s)' % t, 'N %s %s' % (A(1), sx)
        (c1, s1), (c2, s2) = val(kind, depth - 1), val(kind if kind == 'int' or rng.random() < 0.6 else 'int', depth - 1)
        return '(%s + %s)' % (c1, c2), 'N %s %s' % (s1, s2)
    def assign(kind, depth):
        t, st = lval(kind, max(depth, 0))
        v, sv = val({'int': 'int', 'dbl': rng.choice(['dbl', 'dbl', 'int']), 'clk': rng.choice(['int', 'dbl', 'clk', 'clk'])}[kind], depth)
        op = rng.choice(['=', '=', '=', '+=', '-=']) if kind == 'int' else '='
        return '%s %s %s' % (t, op, v), 'S %s %s' % (st, sv)
    cases = []
    for _ in range(n):
        parts = [assign(rng.choice(['clk', 'clk', 'dbl', 'int']), rng.choice([1, 2, 2, 3])) for _ in range(rng.choice([1, 1, 2, 3]))]
        text, sx = parts[0]
        for t2, s2 in parts[1:]:
            text, sx = text + ', ' + t2, 'C %s %s' % (sx, s2)
        cases.append((text, sx))
    out = subprocess.run([drv], input='\n'.join(c[1] for c in cases) + '\n', stdout=subprocess.PIPE, universal_newlines=True).stdout.split('\n')
    T = ('<?xml version="1.0" encoding="utf-8"?><nta><declaration>clock x, y; hybrid clock h; int i, j; double d, e; bool b;</declaration><template><name>T</name><location id="id0"/><location id="id1"/><init ref="id0"/>'
         '<transition><source ref="id0"/><target ref="id1"/><label kind="assignment">%s</label></transition></template><system>system T;</system></nta>')
    j = vlib.Job()
    for k, c in enumerate(cases):
        j.case('nu%d' % k, fork=True).model('xml', T % esc(c[0])).dump('errors').dump('supported').end()
    rr = vlib.run_jobs(j)
    nacc = nres = ntop = 0
    for k, (c, line) in enumerate(zip(cases, out)):
        r = rr['nu%d' % k]
        m = re.match(r'visit (\d) top (\d) fp (\d)', line)
        if r['status'] != 'ok' or not m:
            run.fail('feature checker crashed on the update %r' % c[0], dict(update=c[0], status=r['status'], model=line), shape='crash:nested-update')
            continue
        if any(l.startswith('error') for l in r['cmds'][1][2]):
            continue          # not an accepted model (a conditional target of mixed kinds, a double where an integer is wanted ...)
        nacc += 1
        restricted = 'symbolic=0' in ' '.join(r['cmds'][2][2])
        nres += restricted
        ntop += (m.group(1) != m.group(2))
        if restricted != (m.group(1) == '1'):
            if m.group(1) == '1':
                run.fail('the update %r assigns a floating-point value to something that is not a hybrid clock (at some depth): symbolic analysis is reported as supported' % c[0], dict(update=c[0], model_term=c[1]), shape='verdict:fp-assignment-nested')
            else:
                run.tie_broken('UpdModel.visit vs FeatureChecker::visitAssignment', dict(update=c[0], model_term=c[1], model=line, implementation='symbolic=0'))
    run.cov.update(nested_updates=dict(generated=len(cases), accepted=nacc, restricting=nres, decided_below_the_top_level=ntop))
    if nacc < len(cases) // 3:
        run.tie_broken('generator of nested updates', 'only %d of %d updates are accepted by the library' % (nacc, len(cases)))
    return nacc


def rate_probes(run):
    """rates written as constant expressions rather than literals: the value is known statically"""
    T = ('<?xml version="1.0" encoding="utf-8"?><nta><declaration>clock x; hybrid clock h; int i; const int R = 2; const int Z = 0; const int U = 1;</declaration><template><name>T</name>'
         '<location id="id0"><label kind="invariant">%s</label></location><location id="id1"/><init ref="id0"/><transition><source ref="id0"/><target ref="id1"/></transition></template><system>system T;</system></nta>')
    cases = [("x' == R", True), ("x' == -1", True), ("x' == 1 + 1", True), ("x' == R - 3", True), ("x' == Z", False), ("x' == U", False), ("x' == 1 - 1", False), ("x' == +1", False), ("x' == i", False), ("h' == R", False)]
    j = vlib.Job()
    for k, c in enumerate(cases):
        j.case('rt%d' % k, fork=True).model('xml', T % c[0]).dump('errors').dump('supported').end()
    rr = vlib.run_jobs(j)
    for k, c in enumerate(cases):
        r = rr['rt%d' % k]
        if r['status'] != 'ok' or any(l.startswith('error') for l in r['cmds'][1][2]):
            run.tie_broken('rate probe is not accepted', dict(case=c, status=r['status'], errors=[l for l in r['cmds'][1][2] if l.startswith('error')][:2]))
            continue
        sym = 'symbolic=1' in ' '.join(r['cmds'][2][2])
        if c[1] and sym:
            run.fail('the invariant %r sets the rate of a non-hybrid clock to a constant other than 0 and 1: symbolic analysis is reported as supported' % c[0], dict(case=c, xml=T % c[0]), shape='verdict:rate-constant-expression')
        if not c[1] and not sym:
            run.tie_broken('rate probe: a rate of 0 / 1 (or one that is not known statically) is reported as not symbolically analysable', dict(case=c))
    return len(cases)


def check(run):
    thorough = run.tier == 'thorough'
    rng = run.rng
    pr = run.proofs()
    drv, err = vlib.build_extract('feature', 'Extract_Feature.v', 'drv_feature') if os.path.exists(os.path.join(vlib.COQ, 'theories', 'Feature.vo')) else (None, 'Feature.vo missing')
    if drv is None:
        run.tie_broken('extraction of the FeatureChecker model', err)
        return run.finish('proof')
    g = Gen(rng)
    docs = []
    # targeted placements: one restricting feature at a time in every position
    base = lambda: dict(dyn=0, prio=0, vars=[], chans=[], templs=[dict(inst=1, vars=[], chans=[], invs=[], edges=[dict(guard=None, upds=[])])])
    for l in SIDES:
        for r2 in SIDES:
            for rel in RELS:
                for wrap in range(6):
                    c = ('cmp', l, r2, rel)
                    gg = [c, ('and', ('leaf', 0), c), ('and', c, ('leaf', 0)), ('and', ('and', ('leaf', 0), c), ('cmp', (0, 1), (0, 0), '<')), ('forall', c), ('and', ('cmp', (0, 1), (0, 0), '<='), ('and', ('leaf', 0), c))][wrap]
                    d = base(); d['templs'][0]['edges'][0]['guard'] = gg; docs.append(d)
                    if rel in ('<', '<='):
                        d = base(); d['templs'][0]['invs'] = [gg]; docs.append(d)
    for hy in (0, 1):
        for rv in [('int', 0), ('int', 1), ('int', 2), ('dbl', 1), ('dbl', 0), ('expr',)]:
            for wrap in range(4):
                rt = ('rate', hy, rv)
                gg = [rt, ('and', ('cmp', (0, 1), (0, 0), '<='), rt), ('and', rt, ('cmp', (0, 1), (0, 0), '<')), ('forall', rt)][wrap]
                d = base(); d['templs'][0]['invs'] = [gg]; docs.append(d)
    # a hybrid clock's rate and a non-hybrid clock's rate in one invariant, in either order and around a comparison
    for rvh in [('int', 0), ('int', 1), ('int', 3), ('dbl', 1)]:
        for rv in [('int', 0), ('int', 1), ('int', 2), ('dbl', 0), ('dbl', 1), ('expr',)]:
            hr, nr = ('rate', 1, rvh), ('rate', 0, rv)
            for gg in (('and', hr, nr), ('and', nr, hr), ('and', ('cmp', (0, 1), (0, 0), '<='), ('and', nr, hr)), ('and', ('and', hr, ('cmp', (0, 1), (0, 0), '<')), nr)):
                d = base(); d['templs'][0]['invs'] = [gg]; docs.append(d)
    for u in [('assign', 0, 0), ('assign', 1, 0, 'd'), ('assign', 1, 0, 'x'), ('assign', 1, 1), ('assign', 0, 1), ('other', 0), ('other', 1)]:
        for pos in range(3):
            d = base(); us = [('assign', 0, 0), ('other', 0)]; us.insert(pos, u); d['templs'][0]['edges'][0]['upds'] = us; docs.append(d)
    for v in [('var', 1, 1), ('var', 1, 0), ('var', 1, 0, 'init'), ('var', 0, 1)]:
        d = base(); d['vars'] = [v]; docs.append(d)
        d = base(); d['templs'][0]['vars'] = [v]; docs.append(d)
        d = base(); d['templs'].append(dict(inst=0, vars=[v], chans=[('chan', 0)], invs=[('rate', 0, ('int', 2))], edges=[dict(guard=('cmp', (0, 1), (1, 0), '<'), upds=[('assign', 1, 0, 'x')])])); docs.append(d)
    for c in [('chan', 0), ('chan', 1)]:
        d = base(); d['chans'] = [c]; docs.append(d)
        d = base(); d['templs'][0]['chans'] = [c]; docs.append(d)
    ntarget = len(docs)
    for _ in range(6000 if thorough else 1200):
        docs.append(g.doc())
    xmls = [render(d, rng) for d in docs]
    out = subprocess.run([drv], input='\n'.join(doc_sx(d) for d in docs) + '\n', stdout=subprocess.PIPE, universal_newlines=True).stdout.split('\n')
    j = vlib.Job()
    for k, x in enumerate(xmls):
        j.case('m%d' % k).model('xml', x).dump('errors').dump('supported').end()
    rr = vlib.run_jobs(j)
    mism, naccepted, nrej = [], 0, 0
    hist = dict(symbolic0=0, stochastic0=0, concrete0=0)
    samples = []
    for k, (d, x) in enumerate(zip(docs, xmls)):
        c = rr['m%d' % k]
        if c['status'] != 'ok' or len(c['cmds']) < 3:
            run.fail('parser crashed on a generated model', dict(xml=x, status=c['status']), shape='crash')
            continue
        exc = [l for l in c['cmds'][0][2] if l.startswith('EXC')]
        errs = [l.split('msg="')[1].split('"')[0] for l in c['cmds'][1][2] if l.startswith('error')]
        if errs or exc:
            nrej += 1          # not an accepted model: outside the property (static analysis does not run)
            if k < ntarget and exc:
                run.fail('a targeted model makes the parse end in an exception: %s' % exc[0], dict(xml=x), shape='exception:' + exc[0][:40])
            continue
        naccepted += 1
        m = re.search(r'symbolic=(\d) stochastic=(\d) concrete=(\d)', c['cmds'][2][2][0])
        real = tuple(int(v) for v in m.groups())
        mv = tuple(int(v) for v in out[k].split()[1:4])
        for n, v in zip(('symbolic0', 'stochastic0', 'concrete0'), real):
            hist[n] += (1 - v)
        if real != mv:
            mism.append(dict(doc=doc_sx(d), xml=x[:1500], model=mv, implementation=real))
        s = spec(d)
        if real[0] and s['symbolic_restricted']:
            run.fail('symbolic analysis reported as supported although the model contains a restricting feature', dict(xml=x, doc=doc_sx(d)), shape='symbolic-unsound')
        if real[1] and s['stochastic_restricted']:
            run.fail('stochastic analysis reported as supported although a non-broadcast channel or priorities are declared', dict(xml=x, doc=doc_sx(d)), shape='stochastic-unsound')
        if real[2] and s['priorities']:
            run.fail('concrete simulation reported as supported although priorities are declared', dict(xml=x), shape='concrete-unsound')
        if len(samples) < 3 and k > ntarget and real != (1, 1, 1):
            samples.append(dict(doc=doc_sx(d), verdict=real))
    if mism:
        run.tie_broken('FeatureChecker model vs implementation verdicts', mism[:6] + [dict(total=len(mism))])
    nrp = reference_probes(run) + function_probes(run) + rate_probes(run) + nested_updates(run, rng, 1500 if thorough else 300)
    run.cov['reference_parameter_probes'] = nrp
    run.cov.update(evaluations=len(docs), distinct_nontrivial=len(set(doc_sx(d) for d in docs)), traces_validated_against_impl=naccepted,
                   rule='targeted: every (operand fp/clock class)^2 x 6 relational operators x 6 positions (root, either conjunct, nested conjunct, under forall) as guard and as invariant; every rate constant x hybrid x 4 positions; hybrid rate x non-hybrid rate in one invariant (4 shapes); '
                        'every update form x 3 list positions; clock/double initialisers and channels globally, locally and in a never-instantiated template; then seeded random documents with shuffled declaration and template order; '
                        'accepted models only: implementation verdict vs extracted Coq model, and verdict vs the specification predicates',
                   samples=samples, targeted=ntarget, accepted_models=naccepted, rejected_models_out_of_scope=nrej, verdict_histogram=hist)
    run.cov['trusted_base'] += ['hand model Feature.v of featurechecker.cpp (tied by verdict correspondence)', 'the renderer from abstract documents to XML in tools/props/C17.py', 'Coq extraction, drv_feature.ml']
    return run.finish('proof', assumptions=['dynamic templates are declared (with and without a definition) but never spawned', 'the abstraction of expressions to (uses_fp, uses_clock) flags is realised by a fixed set of representative expressions'])
