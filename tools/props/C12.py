"""C12 — no accepted model writes to a constant."""
import os, re, subprocess
import vlib

S_T = '(label (record (base) (base)))'
# source name -> (global decls, function-level decls/params, target expression, model lvalue of the target, is constant?, placement)
# placement: 'fun' = the write is a statement of function h(); 'update' = an edge update; 'quant' = inside a quantifier body; 'iter' = inside a for-iteration
def sources():
    out = []
    def add(name, const, gdecl='', params='', ldecl='', target='', lv='', place='fun', call_args=''):
        out.append(dict(name=name, const=const, gdecl=gdecl, params=params, ldecl=ldecl, target=target, lv=lv, place=place, call_args=call_args))
    for const in (True, False):
        c, w = ('const ', '(const %s)') if const else ('', '%s')
        tag = 'const' if const else 'mutable'
        add('global-int:' + tag, const, gdecl='%sint tv = 1;' % c, target='tv', lv='(id %s)' % (w % '(base)'))
        add('global-bounded:' + tag, const, gdecl='%sint[0,5] tv = 1;' % c, target='tv', lv='(id %s)' % (w % '(range (base))'))
        add('local:' + tag, const, ldecl='%sint tv = 1;' % c, target='tv', lv='(id %s)' % (w % '(base)'))
        add('value-param:' + tag, const, params='%sint tv' % c, target='tv', lv='(id %s)' % (w % '(base)'), call_args='1')
        add('ref-param:' + tag, const, params='%sint &tv' % c, target='tv', lv='(id %s)' % (w % '(ref (base))'), call_args='mg')
        add('struct-field:' + tag, const, gdecl='%sS tv = {1, 2};' % c, target='tv.a', lv='(dot 0 (id %s))' % (w % S_T))
        add('struct-whole:' + tag, const, gdecl='%sS tv = {1, 2};' % c, target='tv', lv='(id %s)' % (w % S_T))
        add('array-element:' + tag, const, gdecl='%sint tv[2] = {1, 2};' % c, target='tv[0]', lv='(idx (id %s))' % ('(array (const (base)))' if const else '(array (base))'))
        add('array-of-struct-field:' + tag, const, gdecl='%sS tv[2] = {{1, 2}, {3, 4}};' % c, target='tv[1].b', lv='(dot 0 (idx (id %s)))' % ('(array (const %s))' % S_T if const else '(array %s)' % S_T))
        add('typedef:' + tag, const, gdecl='typedef %sint CI;\nCI tv = 1;' % c, target='tv', lv='(id (label %s))' % (w % '(base)'))
    # a struct that mixes an array-of-const field with a mutable field (the builder rejects directly-const fields only)
    add('struct-const-array-field:const', True, gdecl='struct { const int a[2]; int b; } tv = {{1, 2}, 3};', target='tv.a[0]', lv='(idx (dot 0 (id (record (array (const (base))) (base)))))')
    add('struct-const-array-field:mutable', False, gdecl='struct { int a[2]; int b; } tv = {{1, 2}, 3};', target='tv.a[0]', lv='(idx (dot 0 (id (record (array (base)) (base)))))')
    add('nested-struct-const-array-field:const', True, gdecl='struct { struct { const int a[2]; int c; } in; int b; } tv = {{{1, 2}, 4}, 3};', target='tv.in.a[1]',
        lv='(idx (dot 0 (dot 0 (id (record (record (array (const (base))) (base)) (base))))))')
    # binders are constant by construction
    add('forall-binder', True, target='tv', lv='(id (const (range (base))))', place='quant:forall')
    add('exists-binder', True, target='tv', lv='(id (const (range (base))))', place='quant:exists')
    add('sum-binder', True, target='tv', lv='(id (const (range (base))))', place='quant:sum')
    add('select-binder', True, target='tv', lv='(id (const (range (base))))', place='update')
    add('iteration-binder', True, target='tv', lv='(id (const (range (base))))', place='iter')
    # the same binders over a scalar set and over a named range: the binder is a constant whatever it ranges over
    for place, nm in (('quant:forall', 'forall'), ('quant:exists', 'exists'), ('quant:sum', 'sum'), ('update', 'select'), ('iter', 'iteration')):
        for bt, tag in (('SS', 'scalar'), ('id_t', 'typedef')):
            add('%s-binder-%s' % (nm, tag), True, target='tv', lv='(id (const (range (base))))', place=place)
            out[-1]['btype'] = bt
    return out


FORMS = [('assign', '%s = 1', '(write %s)'), ('compound', '%s += 1', '(write %s)'), ('post-inc', '%s++', '(write %s)'), ('pre-dec', '--%s', '(write %s)'),
         ('inline-if-left', '(mb ? %s : mg) = 1', '(write (ite %s (id (base)) 1))'), ('inline-if-right', '(mb ? mg : %s) = 1', '(write (ite (id (base)) %s 1))'),
         ('nested', '(%s = 1) = 2', '(write (write %s))'), ('ref-arg', 'wr(%s)', '%s'), ('ref-arg-nested', 'wr2(%s)', '%s')]


def build(src, form, place=None):
    fname, ftxt, flv = form
    stmt = ftxt % src['target']
    bt = src.get('btype', 'int[0,1]')
    if bt == 'SS':
        # a scalar can only be assigned and passed on: the forms that make sense for it
        stmt = {'assign': '%s = gS', 'inline-if-left': '(mb ? %s : gS) = gS', 'inline-if-right': '(mb ? gS : %s) = gS', 'nested': '(%s = gS) = gS', 'ref-arg': 'wrS(%s)', 'ref-arg-nested': 'wrS2(%s)'}.get(fname)
        if stmt is None:
            return None
        stmt = stmt % src['target']
    if 'bounded' in src['name'] and (fname.startswith('inline-if') or fname.startswith('ref-arg')):
        return None        # int[0,5] and int are not equivalent types: these forms would be rejected for a typing reason
    is_struct = 'struct-whole' in src['name']
    if is_struct:
        if fname in ('compound', 'post-inc', 'pre-dec', 'inline-if-left', 'inline-if-right', 'nested', 'ref-arg', 'ref-arg-nested'):
            return None
        stmt = '%s = ms' % src['target']
    g = 'typedef struct { int a; int b; } S;\nint mg; bool mb; S ms;\nvoid wr(int &r) { r = 1; }\nvoid wr2(int &r) { wr(r); }\ntypedef scalar[3] SS; SS gS; void wrS(SS &r) { r = gS; } void wrS2(SS &r) { wrS(r); } typedef int[0,1] id_t;\n' + src['gdecl'] + '\n'
    tdecl, upd, sel, tparams, sysl = '', '', '', '', 'system T;'
    place = place or src['place']
    if place in ('before_update', 'after_update'):
        # the expression lists run around every update: declared in the global declarations
        g += '%s { %s }\n' % (place, stmt)
    elif place == 'fun':
        g += 'void h(%s) {\n %s\n %s;\n}\n' % (src['params'], src['ldecl'], stmt)
        if src['call_args']:
            upd = 'h(%s)' % src['call_args']
    elif place.startswith('quant'):
        q = place.split(':')[1]
        body = stmt if fname != 'ref-arg' and fname != 'ref-arg-nested' else stmt
        if 'wr' in stmt:
            return None          # a void call is not an operand; the binder write forms cover the case
        if bt == 'SS':
            g += 'int hq() { return %s (tv : SS) (%s)%s; }\n' % (q, '(%s) == gS' % body if q != 'sum' else '((%s) == gS ? 1 : 0)' % body, '' if q == 'sum' else ' ? 1 : 0')
        else:
            g += 'int hq() { return %s (tv : %s) (%s)%s; }\n' % (q, bt, '(%s) == 1' % body if q != 'sum' else '(%s)' % body, '' if q == 'sum' else ' ? 1 : 0')
    elif place == 'update':
        sel = 'tv : %s' % bt
        upd = stmt
    elif place == 'iter':
        g += 'void h() { for (tv : %s) %s; }\n' % (bt, stmt)
    xml = '''<?xml version="1.0" encoding="utf-8"?>
<nta><declaration>%s</declaration><template><name>T</name><parameter>%s</parameter><declaration>%s</declaration>
<location id="id0"/><location id="id1"/><init ref="id0"/>
<transition><source ref="id0"/><target ref="id1"/>%s%s</transition></template><system>%s</system></nta>''' % (
        esc(g), esc(tparams), esc(tdecl), '<label kind="select">%s</label>' % esc(sel) if sel else '', '<label kind="assignment">%s</label>' % esc(upd) if upd else '', esc(sysl))
    return xml, flv % src['lv'], stmt


def esc(t):
    return t.replace('&', '&amp;').replace('<', '&lt;').replace('>', '&gt;')


OLD_XTA = '''const N 3;
int v; int w[2];
process P(%s) { state S0; init S0; trans S0 -> S0 { assign %s; }; }
Q := P(%s);
system Q;
'''
# (name, parameter list, arguments, constant names, mutable names)
OLD_PARAMS = [('const-group', 'const a, b, c', '1, 2, 3', ['a', 'b', 'c'], []), ('const-groups', 'const a; const b, c', '1, 2, 3', ['a', 'b', 'c'], []), ('const-then-int', 'const a, b; int m, n', '1, 2, v, v', ['a', 'b'], ['m', 'n']),
              ('int-then-const', 'int m; const a, b', 'v, 1, 2', ['a', 'b'], ['m']), ('int-group', 'int m, n[2]', 'v, w', [], ['m', 'n[1]']),
              ('mixed-three', 'const a; int m; const b, c', '1, v, 2, 3', ['a', 'b', 'c'], ['m'])]
OLD_WRITES = ['%s := 1', '%s++', '%s += 2', '--%s', 'v := (%s := 2)']


def old_syntax(run):
    """the 3.x syntax has its own spelling of constants: `const N 3;` and parameter groups `const a, b` (constant integers by value) next to `int m, n` (references):
    every name of a const group, in any position, rejects every write form; the reference parameters and globals accept them"""
    j = vlib.Job()
    cases = []
    for name, params, args, consts, muts in OLD_PARAMS:
        for tgt, is_const in [(c, True) for c in consts] + [(m, False) for m in muts] + [('N', True), ('v', False)]:
            for wf in OLD_WRITES:
                stmt = wf % tgt
                cases.append((name, tgt, is_const, stmt, OLD_XTA % (params, stmt, args)))
                j.case('o%d' % (len(cases) - 1), fork=True, old=True).model('xta', cases[-1][4]).dump('errors').end()
        cases.append((name, None, False, 'v := v + 1', OLD_XTA % (params, 'v := v + ' + ' + '.join(consts + muts + ['N']), args)))     # reads are fine
        j.case('o%d' % (len(cases) - 1), fork=True, old=True).model('xta', cases[-1][4]).dump('errors').end()
    rr = vlib.run_jobs(j)
    for k, (name, tgt, is_const, stmt, xta) in enumerate(cases):
        c = rr['o%d' % k]
        if c['status'] != 'ok':
            run.fail('type checker crashed on a 3.x model (%r)' % stmt, dict(xta=xta, status=c['status']), shape='crash:old-syntax')
            continue
        errs = [l.split('msg="')[1].split('"')[0] for l in c['cmds'][1][2] if l.startswith('error')]
        if is_const and not errs:
            run.fail('3.x syntax: %r writes the constant %s (%s) and is accepted' % (stmt, tgt, name), dict(parameters=name, statement=stmt, xta=xta), shape='const-written:old-syntax:%s' % name)
        if not is_const and errs:
            run.tie_broken('3.x syntax: a write to a reference parameter / global (or a read of the constants) is rejected', dict(parameters=name, statement=stmt, errors=errs[:2], xta=xta))
    return len(cases)


DYN_XML = '''<?xml version="1.0" encoding="utf-8"?>
<nta><declaration>int g; broadcast chan c;
void bump(int &amp;r) { r++; }
dynamic Child(%s);</declaration>
<template><name>Child</name><parameter>%s</parameter><location id="idd"/><location id="ide"/><init ref="idd"/>
<transition><source ref="idd"/><target ref="ide"/><label kind="assignment">%s</label></transition></template>
<template><name>T</name><location id="id0"/><location id="id1"/><init ref="id0"/>
<transition><source ref="id0"/><target ref="id1"/><label kind="assignment">spawn Child(1)</label></transition></template>
<system>system T;</system></nta>'''
DYN_WRITES = ['n = 1', 'n += 2', 'n++', '--n', 'bump(n)', '(true ? n : n) = 4', 'g = (n = 3)']


def dynamic_templates(run):
    """the parameters of a dynamic template are declared twice (dynamic T(...); and the template's own parameter list): a write to a parameter that either place
    declares const is rejected (as a write to a constant or as an inconsistent declaration), a write to one both declare mutable is accepted"""
    j = vlib.Job()
    cases = []
    for decl, defn, const in (('const int n', 'const int n', True), ('int n', 'int n', False), ('int n', 'const int n', True), ('const int n', 'int n', True)):
        for w in DYN_WRITES + ['g = n + 1']:
            cases.append((decl, defn, const and w != 'g = n + 1' or decl != defn, w, DYN_XML % (decl, defn, esc(w))))
            j.case('dy%d' % (len(cases) - 1), fork=True).model('xml', cases[-1][4]).dump('errors').end()
    rr = vlib.run_jobs(j)
    for k, (decl, defn, must_reject, w, xml) in enumerate(cases):
        c = rr['dy%d' % k]
        if c['status'] != 'ok':
            run.fail('type checker crashed on a dynamic template (%r)' % w, dict(xml=xml, status=c['status']), shape='crash:dynamic-template')
            continue
        errs = [l.split('msg="')[1].split('"')[0] for l in c['cmds'][1][2] if l.startswith('error')]
        if must_reject and not errs:
            run.fail('dynamic template declared (%s) and defined with (%s): the update %r is accepted' % (decl, defn, w), dict(declared=decl, defined=defn, update=w, xml=xml), shape='const-written:dynamic-template:%s' % ('mismatch' if decl != defn else 'const'))
        if not must_reject and errs:
            run.tie_broken('dynamic template with a mutable parameter: a write (or a read) is rejected', dict(declared=decl, defined=defn, update=w, errors=errs[:2]))
    return len(cases)


def check(run):
    pr = run.proofs()
    drv, err = vlib.build_extract('constness', 'Extract_Constness.v', 'drv_constness') if os.path.exists(os.path.join(vlib.COQ, 'theories', 'Constness.vo')) else (None, 'Constness.vo missing')
    if drv is None:
        run.tie_broken('extraction of the constness model', err)
        return run.finish('proof')
    cases = []
    for src in sources():
        for form in FORMS:
            b = build(src, form)
            if b:
                cases.append((src, form[0], b[0], b[1], b[2]))
            if src['place'] == 'fun' and src['gdecl']:
                for place in ('before_update', 'after_update'):
                    b = build(src, form, place)
                    if b:
                        cases.append((src, form[0] + ':' + place, b[0], b[1], b[2]))
    # template instantiation with a reference parameter (global targets only)
    for src in sources():
        if src['place'] == 'fun' and src['gdecl'] and 'bounded' not in src['name'] and 'struct-whole' not in src['name'] and 'struct' not in src['name'].split(':')[0][:6] + '':
            g = 'typedef struct { int a; int b; } S;\nint mg; bool mb; S ms;\n' + src['gdecl'] + '\n'
            xml = '''<?xml version="1.0" encoding="utf-8"?>
<nta><declaration>%s</declaration><template><name>T</name><parameter>int &amp;r</parameter><location id="id0"/><init ref="id0"/></template><system>P = T(%s); system P;</system></nta>''' % (esc(g), esc(src['target']))
            cases.append((src, 'template-ref-arg', xml, src['lv'], 'P = T(%s)' % src['target']))
            # partial instantiations: the constant in the last / first position while another parameter stays open, and at the outer level of a chain
            for fname, sysl in (('template-ref-arg-partial-last', 'Q(int &y) = T2(y, %s); P = Q(mg); system P;'), ('template-ref-arg-partial-first', 'Q(int &y) = T2(%s, y); P = Q(mg); system P;'),
                                ('template-ref-arg-partial-middle', 'Q(int &y, int &z) = T3(y, %s, z); P = Q(mg, mg2); system P;'), ('template-ref-arg-chain-outer', 'Q(int &y) = T2(y, mg); P = Q(%s); system P;'),
                                ('template-ref-arg-chain-two-open', 'Q(int &y, int &z) = T3(y, z, %s); R(int &w) = Q(w, mg2); P = R(mg); system P;')):
                xml = '''<?xml version="1.0" encoding="utf-8"?>
<nta><declaration>%s int mg2;</declaration><template><name>T2</name><parameter>int &amp;a, int &amp;r</parameter><location id="id0"/><init ref="id0"/></template>
<template><name>T3</name><parameter>int &amp;a, int &amp;r, int &amp;q</parameter><location id="id1"/><init ref="id1"/></template><system>%s</system></nta>''' % (esc(g), esc(sysl % src['target']))
                cases.append((src, fname, xml, src['lv'], sysl % src['target']))
    out = subprocess.run([drv], input=''.join('M %s\n' % c[3] for c in cases), stdout=subprocess.PIPE, universal_newlines=True).stdout.split('\n')
    j = vlib.Job()
    for k, c in enumerate(cases):
        j.case('c%d' % k, fork=True).model('xml', c[2]).dump('errors').end()
    rr = vlib.run_jobs(j)
    mism, nrej, nacc = [], 0, 0
    for k, (src, fname, xml, lvs, stmt) in enumerate(cases):
        m = re.match(r'M modifiable=(\d) checked=(\d)', out[k])
        # for "(write X)" forms acceptance = writes_checked; for reference arguments acceptance = modifiable && checked
        model_ok = (m.group(2) == '1') if lvs.startswith('(write') else (m.group(1) == '1' and m.group(2) == '1')
        c = rr['c%d' % k]
        if c['status'] != 'ok':
            run.fail('type checker crashed on %r' % stmt, dict(xml=xml, status=c['status']), shape='crash')
            continue
        errs = [l.split('msg="')[1].split('"')[0] for l in c['cmds'][1][2] if l.startswith('error')]
        rejected = len(errs) > 0
        nrej += rejected
        nacc += not rejected
        if model_ok == rejected:
            mism.append(dict(source=src['name'], form=fname, stmt=stmt, model_accepts=model_ok, errors=errs[:2]))
        if src['const'] and not rejected:
            run.fail('%s on a constant (%s) is accepted: %r' % (fname, src['name'], stmt), dict(source=src['name'], form=fname, xml=xml), shape='const-written:%s:%s' % (src['name'].split(':')[0], fname))
        if not src['const'] and rejected:
            run.fail('%s on a mutable object (%s) is rejected: %r (%s)' % (fname, src['name'], stmt, errs[0] if errs else ''), dict(source=src['name'], form=fname, xml=xml, errors=errs[:2]), shape='mutable-rejected:%s:%s' % (src['name'].split(':')[0], fname))
    nold = old_syntax(run) + dynamic_templates(run)
    if mism:
        run.tie_broken('constness model / mutable twins vs type checker', mism[:8] + [dict(total=len(mism))])
    run.cov.update(old_syntax_cases=nold, evaluations=len(cases) + nold, distinct_nontrivial=len(cases), traces_validated_against_impl=len(cases), exhaustive=True,
                   rule='constness sources {global, bounded, local, value parameter, reference parameter, struct field, whole struct, array element, field of array of structs, typedef} x {const, mutable} and the binders '
                        '{forall, exists, sum, select, for-iteration} x write forms {=, op=, post ++, pre --, inline-if left/right, nested assignment, reference argument of a function (direct and through a second function), '
                        'reference argument of a template instantiation}: verdict vs the extracted isModifiableLValue model; const must be rejected, the mutable twin accepted',
                   samples=[dict(source=c[0]['name'], form=c[1], stmt=c[4], model_lvalue=c[3]) for c in cases[:3]], rejected=nrej, accepted=nacc)
    run.cov['trusted_base'] += ['hand model Constness.v of is_mutable / get_sub / isModifiableLValue (tied by the verdict matrix)', 'the abstraction of each test case to an lvalue term in tools/props/C12.py', 'drv_constness.ml']
    return run.finish('proof', assumptions=['const-qualified struct fields are outside the property (isModifiableLValue defers to the base object, see the REVISIT comment in the source)'])
