"""C07 — identifiers bind to the innermost preceding declaration in scope."""
import os, re, subprocess
import vlib, scopegen


def observe(lines, obs):
    """bindings of every use, in use order, from the document dump (BIND 1, builder stage)"""
    var, funl, inv, guard, vty = {}, {}, {}, {}, {}
    for l in lines:
        m = re.match(r'(global|t\d+) var \d+ (u\d+) : (.*?) = (.*)$', l)
        if m: var[m.group(2)] = m.group(4); vty[m.group(2)] = m.group(3); continue
        m = re.match(r'(global|t\d+) funlocal (f\d+) (u\d+) : (.*?) = (.*)$', l)
        if m: funl[m.group(3)] = m.group(5); vty[m.group(3)] = m.group(4); continue
        m = re.match(r't(\d+) loc nr=(\d+) .*? inv=(.*) exprate=', l)
        if m: inv[(int(m.group(1)), int(m.group(2)))] = m.group(3); continue
        m = re.match(r't(\d+) edge nr=(\d+) .*? guard=(.*) sync=', l)
        if m: guard[(int(m.group(1)), int(m.group(2)))] = m.group(3); continue
    out = []
    for kind, key, n in obs:
        if kind.endswith(':type'):
            # a variable declared with the type name t: the typedef it is bound to shows in the variable's type
            t = vty.get(key[1])
            mm = re.search(r'\(label t:\(range \(int\) "0" "(\d+)"\)\)', t or '')
            out.append('missing' if t is None else (str(int(mm.group(1)) - 100) if mm else '?'))
            continue
        if kind == 'funlocal': e = funl.get(key[1])
        elif kind == 'inv': e = inv.get(key)
        elif kind == 'guard': e = guard.get(key)
        else: e = var.get(key[1])
        if e is None:
            out += ['missing'] * n
            continue
        b = scopegen.bindings(e)
        out += (b + ['short'] * n)[:n] if len(b) <= n else b[:n]
    return out


def same_type(obs, exp):
    """observed type s-expression against the expected one; the number of the anonymous scalar set is not compared"""
    if isinstance(exp, list) and isinstance(obs, list):
        return len(exp) == len(obs) and all(same_type(o, e) for o, e in zip(obs, exp))
    if exp == '#':
        return isinstance(obs, str) and obs.startswith('#scalarset')
    return obs == exp


def qualified(run, thorough, process_sets=True):
    """process-qualified names: the member index and the substituted type of every P.x against the extracted model of expr_dot"""
    rng = run.rng
    stats = dict(qualified_uses=0, qualified_non_members=0, processes=0, chain_depths={})
    drv, err = vlib.build_extract('dot', 'Extract_Dot.v', 'drv_dot') if os.path.exists(os.path.join(vlib.COQ, 'theories', 'DotProofs.vo')) else (None, 'DotProofs.vo missing')
    if drv is None:
        run.tie_broken('extraction of the model of expr_dot', err)
        return stats
    n = 400 if thorough else 60
    cases, lines = [], []
    for k in range(n):
        g = scopegen.DotGen(rng)
        xml, ls, queries, ids = g.model()
        cases.append((xml, queries, g.names, len(lines), len(ls)))
        lines += ls
    out = subprocess.run([drv], input='\n'.join(lines) + '\n', stdout=subprocess.PIPE, universal_newlines=True).stdout.split('\n')
    j = vlib.Job()
    for k, (xml, queries, names, _, _) in enumerate(cases):
        c = j.case('q%d' % k, fork=True).cmd('BIND 1').model('xml', xml).dump('errors')
        for P, qs in queries:
            for m, text in qs:
                c.query(text, rt=False)
        c.end()
    rr = vlib.run_jobs(j)
    for k, (xml, queries, names, l0, nl) in enumerate(cases):
        c = rr['q%d' % k]
        if c['status'] != 'ok':
            run.fail('parser crashed on a model with qualified names (%s)' % c['status'], dict(xml=xml, status=c['status']), shape='crash')
            continue
        merrs = [l for l in c['cmds'][2][2] if l.startswith('error')]
        if merrs:
            run.tie_broken('a generated model with instantiation chains is rejected', dict(xml=xml[:3000], errors=merrs[:3]))
            continue
        qi = 3
        for pi, (P, qs) in enumerate(queries):
            res = out[l0 + pi].split(' ; ') if l0 + pi < len(out) else []
            stats['processes'] += 1
            d = len([1 for s, a in P['mapping']])
            for (m, text), r in zip(qs, res):
                cm = c['cmds'][qi][2]; qi += 1
                exp = scopegen.tparse(r)
                tree = next((l[5:] for l in cm if l.startswith('tree ')), None)
                errs = [l for l in cm if l.startswith('error')]
                if exp is None:
                    stats['qualified_non_members'] += 1
                    if not any('has_no_member_named %s' % m in l for l in errs):
                        run.fail('%s.%s: %s is not declared in the template of %s but the name is %s' % (P['name'], m, m, P['name'], 'bound: ' + str(scopegen.dot_observed(tree))[:200] if tree else 'rejected with ' + str(errs[:1])),
                                 dict(xml=xml, query=text, lines=cm[:4]), shape='qualified:non-member-bound')
                    continue
                stats['qualified_uses'] += 1
                obs = scopegen.dot_observed(tree) if tree else []
                if m in scopegen.SHAPES:
                    obs = [o for o in obs if o[1] == m]          # P.rs.f: the selection of the field f of the record is a DOT node too
                if not obs:
                    run.fail('%s.%s is a member of the template but the query is rejected: %s' % (P['name'], m, errs[:1]), dict(xml=xml, query=text, lines=cm[:4]), shape='qualified:member-rejected')
                    continue
                et = scopegen.dot_expected_type(exp[1], names, P['name'])
                for (oi, ol, ot) in obs:
                    if oi != exp[0] or ol != m:
                        run.fail('%s.%s binds to member %d (%s); the declaration of %s in the template is member %d' % (P['name'], m, oi, ol, m, exp[0]), dict(xml=xml, query=text, tree=tree[:600]), shape='qualified:wrong-member')
                    elif et is not None and not same_type(ot, et):
                        run.fail('%s.%s has type %s; with the arguments of %s substituted the declared type is %s' % (P['name'], m, ot, P['name'], et), dict(xml=xml, query=text, observed=ot, expected=et, mapping=[(names[s], scopegen.bshow(a, names)) for s, a in P['mapping']]),
                                 shape='qualified:wrong-type')
    if process_sets:
        nps = scopegen.process_set_probes(run, vlib, rng, 60 if thorough else 16)
        stats['process_set_queries'] = nps
    return stats


DYN_MODEL = ('dynamic A(int k);\ndynamic B();\ndouble y;\nprocess A(int k) { bool y; int[0,7] onlyA; state s0; init s0; }\nprocess B() { int[0,5] y; clock onlyB; state s0; init s0; }\n'
             'process Main() { state m0, m1; init m0;\n trans m0 -> m1 { guard %s; assign spawn A(1); };\n}\nsystem Main;\n')
DYN_MEMBER = {('A', 'y'): '(bool)', ('A', 'onlyA'): '(range (int) "0" "7")', ('B', 'y'): '(range (int) "0" "5")', ('B', 'onlyB'): '(clock)'}


def dynamic_binders(run, rng, n):
    """binders that range over dynamic templates (forall / exists / sum (p : T) ... p.member): nested, in sequence, with equal and with different binder names;
    every p.member must be the member of the template of the innermost enclosing binder named p (read from the type of the member in the dump)"""
    NM, TM = {'p': 0, 'q': 1}, {'A': 1, 'B': 2}
    def gen(depth, env):
        """-> (text, [member used by each p.member in text order], the expression for drv_dynscope); env is only used to pick a member the template has"""
        r = rng.random()
        if depth <= 0 or (env and r < 0.35):
            if not env:
                return 'true', [], 'N 0'
            nm = rng.choice(sorted(env))
            t = env[nm]
            mem = rng.choice([m for (tt, m) in DYN_MEMBER if tt == t])
            ty = DYN_MEMBER[(t, mem)]
            txt = {'(bool)': '%s.%s', '(clock)': '%s.%s >= 0'}.get(ty, '%s.%s > 0') % (nm, mem)
            return txt, [mem], 'M %d' % NM[nm]
        if r < 0.75:
            q, nm, t = rng.choice(['forall', 'exists']), rng.choice(['p', 'p', 'q']), rng.choice(['A', 'B'])
            body, mems, sx = gen(depth - 1, dict(env, **{nm: t}))
            return '%s (%s : %s)(%s)' % (q, nm, t, body), mems, 'Q %d %d %s' % (NM[nm], TM[t], sx)
        a, ma, sa = gen(depth - 1, env)
        b, mb, sb = gen(depth - 1, env)
        return '(%s) && (%s)' % (a, b), ma + mb, 'N 2 %s %s' % (sa, sb)
    drv, err = vlib.build_extract('dynscope', 'Extract_DynScope.v', 'drv_dynscope') if os.path.exists(os.path.join(vlib.COQ, 'theories', 'DynScope.vo')) else (None, 'DynScope.vo missing')
    if drv is None:
        run.tie_broken('extraction of the model of binders over dynamic templates', err)
        return 0
    raw = []
    for _ in range(n):
        txt, mems, sx = gen(rng.choice([2, 3, 3, 4]), {})
        if mems:
            raw.append((txt, mems, sx))
    mout = subprocess.run([drv], input='\n'.join(c[2] for c in raw) + '\n', stdout=subprocess.PIPE, universal_newlines=True).stdout.split('\n')
    cases = []
    for (txt, mems, sx), line in zip(raw, mout):
        w, _, sp = line.partition(' | ')
        if not line.startswith('W ') or w[2:].split() != sp[2:].split() or len(w[2:].split()) != len(mems) or '-' in w:
            run.tie_broken('model of binders over dynamic templates: the stack implementation and the specification disagree, or the generator is out of step', dict(guard=txt, model=line))
            continue
        # the expected type of each member: the member's type in the template the model binds its binder to
        cases.append((txt, [DYN_MEMBER[({1: 'A', 2: 'B'}[int(t)], m)] for t, m in zip(w[2:].split(), mems)]))
    j = vlib.Job()
    for k, (txt, exp) in enumerate(cases):
        j.case('d%d' % k, fork=True).cmd('BIND 1').model('xtaraw', DYN_MODEL % txt).dump('errors').dump('doc').end()
    rr = vlib.run_jobs(j)
    for k, (txt, exp) in enumerate(cases):
        c = rr['d%d' % k]
        if c['status'] != 'ok' or len(c['cmds']) < 4:
            run.fail('parser crashed on nested dynamic quantifiers (%s)' % c['status'], dict(guard=txt, status=c['status']), shape='crash:dynamic-binders')
            continue
        errs = [l for l in c['cmds'][2][2] if l.startswith('error')]
        g = next((l for l in c['cmds'][3][2] if ' edge ' in l and 'guard=' in l), '')
        got = re.findall(r'\(DYNAMIC_EVAL \(IDENTIFIER \w+@\w+:(\((?:[^()]|\([^()]*\))*\))\)', g)
        if errs or got != exp:
            run.fail('guard %r: the members selected through binders over dynamic templates have the types %s, the innermost enclosing binders give %s%s' % (txt, got, exp, '; ' + errs[0][:100] if errs else ''),
                     dict(guard=txt, observed=got, expected=exp, errors=errs[:2]), shape='binding:dynamic-binder:' + ('rejected' if errs else 'wrong-template'))
    return len(cases)


def instantiation_scopes(run, rng, n):
    """instantiation lines with parameters of their own: the names an argument uses are looked up in that line's parameters first, then among the globals; the
    parameters of one line are out of scope in every other line (before and after it)"""
    POOL = ['k', 'm', 'n', 'q']
    cases = []
    for _ in range(n):
        glob = [x for x in POOL if rng.random() < 0.4]
        np = rng.choice([1, 2, 3])
        lines, want = [], []
        for li in range(rng.choice([2, 3, 4])):
            own = [x for x in POOL if rng.random() < 0.35]
            args = [rng.choice(POOL) for _ in range(np)]
            lines.append('I%d%s = T(%s);' % (li, '(%s)' % ', '.join('const int[0,1] %s' % x for x in own) if own else '', ', '.join(args)))
            want.append((len(own), ['inner' if a in own else ('global' if a in glob else 'unknown') for a in args]))
        decl = ''.join('const int %s = 1;\n' % x for x in glob)
        xml = ('<?xml version="1.0" encoding="utf-8"?><nta><declaration>%s</declaration><template><name>T</name><parameter>%s</parameter><location id="id0"/><init ref="id0"/></template>'
               '<system>%s\nsystem %s;</system></nta>') % (decl, ', '.join('const int[0,5] a%d' % q for q in range(np)), '\n'.join(lines), ', '.join('I%d' % li for li in range(len(lines))))
        cases.append((xml, lines, want, np))
    j = vlib.Job()
    for k, c in enumerate(cases):
        j.case('is%d' % k, fork=True).cmd('BIND 1').model('xml', c[0]).dump('errors').dump('instances').end()
    rr = vlib.run_jobs(j)
    for k, (xml, lines, want, np) in enumerate(cases):
        r = rr['is%d' % k]
        if r['status'] != 'ok' or len(r['cmds']) < 4:
            run.fail('builder crashed on instantiation lines with parameters', dict(xml=xml, status=r['status']), shape='crash:instantiation-scope')
            continue
        unknown_lines = {int(m.group(1)) for l in r['cmds'][2][2] for m in [re.search(r'Unknown_identifier.*line=(\d+)\.\.', l)] if m}
        other = [l for l in r['cmds'][2][2] if l.startswith('error') and 'Unknown_identifier' not in l]
        inst = {}
        for l in r['cmds'][3][2]:
            m = re.match(r'arity=(\d+) instance \d+ name=(I\d+) .*? unbound=(\d+) arguments=\d+ mapping=\{(.*)\} nmapping', l)
            if m:
                inst[m.group(2)] = (int(m.group(1)), int(m.group(3)), m.group(4))
        for li, (nown, kinds) in enumerate(want):
            got = inst.get('I%d' % li)
            if got is None:
                run.fail('an instantiation line left no instance: %s' % lines[li], dict(xml=xml, errors=other[:3]), shape='scope:instantiation:missing')
                break
            binds = re.findall(r'a(\d+):=\((?:IDENTIFIER \w+@(\w+):|CONSTANT)', got[2])
            seen = {int(a): (w or 'unknown') for a, w in binds}
            exp = {q: kd for q, kd in enumerate(kinds)}
            if seen != exp or got[1] != nown or (('unknown' in kinds) != ((li + 1) in unknown_lines)):
                run.fail('the arguments of %r are bound to %s (unbound parameters %d, unknown identifier reported: %s); by the scope rules: %s, %d' % (lines[li], seen, got[1], (li + 1) in unknown_lines, exp, nown),
                         dict(xml=xml, line=lines[li], got=got, expected=exp, errors=r['cmds'][2][2][:4]), shape='scope:instantiation-parameters')
                break
    return len(cases)


def check(run):
    thorough = run.tier == 'thorough'
    rng = run.rng
    run.proofs()
    drv, err = vlib.build_extract('scope', 'Extract_Scope.v', 'drv_scope') if os.path.exists(os.path.join(vlib.COQ, 'theories', 'ScopeProofs.vo')) else (None, 'ScopeProofs.vo missing')
    if drv is None:
        run.tie_broken('extraction of the scope model', err)
        return run.finish('proof')
    n = 2500 if thorough else 300
    cases = []
    for k in range(n):
        g = scopegen.Gen(rng)
        tree, xml, obs = g.model()
        cases.append((tree, xml, obs, g.nd))
    out = subprocess.run([drv], input='\n'.join(c[0] for c in cases) + '\n', stdout=subprocess.PIPE, universal_newlines=True).stdout.split('\n')
    j = vlib.Job()
    for k, (tree, xml, obs, nd) in enumerate(cases):
        j.case('s%d' % k, fork=True).cmd('BIND 1').model('xmlraw', xml).dump('errors').dump('doc').end()
    rr = vlib.run_jobs(j)
    stats = dict(uses=0, unknown_uses=0, declarations=0, shadowing_uses=0, models_with_diagnostics=0)
    mism = []
    samples = []
    for k, (tree, xml, obs, nd) in enumerate(cases):
        S, W = out[2 * k][2:].split(), out[2 * k + 1][2:].split()
        if S != W:
            run.tie_broken('extracted walk and spec disagree (the theorem says they cannot)', dict(tree=tree))
        c = rr['s%d' % k]
        if c['status'] != 'ok':
            run.fail('parser crashed on a generated model (%s)' % c['status'], dict(xml=xml, status=c['status']), shape='crash')
            continue
        lines = [l for cc in c['cmds'] for l in cc[2]]
        got = observe(lines, obs)
        errs = [l for l in lines if l.startswith('error')]
        unknown = sum(1 for l in errs if 'Unknown_identifier' in l)
        other = [l for l in errs if 'Unknown_identifier' not in l and 'Duplicate_definition' not in l]
        if other:
            run.tie_broken('a generated scope model is rejected for another reason', dict(xml=xml[:2000], errors=other[:3]))
            continue
        if errs: stats['models_with_diagnostics'] += 1
        stats['uses'] += len(S); stats['unknown_uses'] += S.count('-'); stats['declarations'] += nd
        if len(got) != len(S):
            mism.append(dict(problem='number of observed uses %d, model %d' % (len(got), len(S)), xml=xml[:2500]))
            continue
        for i, (a, b) in enumerate(zip(S, got)):
            if a != b:
                run.fail('use %d binds to declaration %s, the nearest preceding declaration in scope is %s' % (i, b, a), dict(xml=xml, tree=tree, expected=S, observed=got),
                         shape='binding:%s' % ('unknown-bound' if a == '-' else ('not-found' if b == '-' else 'wrong-declaration')))
                break
        if S.count('-') != unknown:
            run.fail('%d uses have no declaration in scope but %d Unknown_identifier diagnostics were reported' % (S.count('-'), unknown), dict(xml=xml, tree=tree, expected=S, errors=errs[:5]), shape='unknown-count')
        if len(samples) < 1 and len(xml) < 1800:
            samples.append(dict(tree=tree, xml=xml, bindings=S))
    dstats = qualified(run, thorough)
    dstats['dynamic_binder_guards'] = dynamic_binders(run, rng, 400 if thorough else 60)
    dstats['instantiation_scope_models'] = instantiation_scopes(run, rng, 300 if thorough else 80)
    stats.update(dstats)
    if mism:
        run.tie_broken('scope generator / dump reader out of step', mism[:3] + [dict(total=len(mism))])
    run.cov.update(evaluations=n, distinct_nontrivial=len(set(c[1] for c in cases)), traces_validated_against_impl=n,
                   rule='seeded random models in which three names are declared at many levels (global, template parameter, template local, function parameter, function body, nested blocks, iteration binder, quantifier binder, select binder, '
                        'system declarations), each declaration d with the type int[0,100+d]; uses (as initialisers of fresh variables, invariants and guards) before and after every declaration, inside and outside every scope; '
                        'the binding of every use read from the dump (name@frame:type, builder stage) must equal the specification run on the same tree by the extracted Coq model, and the number of Unknown_identifier diagnostics the number of unbound uses',
                   samples=samples, **stats)
    run.cov['trusted_base'] += ['hand model Scope.v of frame_t (symbols, mapping, parent chain) and of the builder\'s push / pop discipline', 'tools/scopegen.py (generator, renderer, dump reader)', 'drv_scope.ml', 'utapdump BIND']
    return run.finish('proof', assumptions=['the instance mapping is a std::map ordered by symbol address; the model applies it innermost template first, which is the order observed (DotProofs.order_matters shows the other order leaves parameters unsubstituted)', 'on recovered parses a leaked frame changes bindings: known finding C16-frame-leak'])
