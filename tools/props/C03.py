"""C03 — printing an expression or query and re-parsing it reproduces the same tree."""
import os, re, subprocess
import vlib, exprgen, gen_grammar, gen_prec

ALIAS_TOKS = {'T_KW_AND', 'T_KW_OR', 'T_KW_IMPLY'}       # never produced by the builder (no such kinds)
ALIAS_PRE = {'T_PLUS', 'T_KW_NOT'}


def canonical_ops(T):
    nb = [i for i, o in enumerate(T.tab['infix']) if o['tok'] not in ALIAS_TOKS]
    nu = [i for i, o in enumerate(T.tab['prefix']) if o['tok'] not in ALIAS_PRE]
    return nb, nu


def model_print(drv, trees):
    inp = ''.join('Q %s\n' % t for t in trees)
    out = subprocess.run([drv], input=inp, stdout=subprocess.PIPE, universal_newlines=True).stdout.split('\n')
    res = []
    for i in range(0, len(trees) * 4, 4):
        b = out[i:i + 4]
        if len(b) < 4 or not b[0].startswith('PRINT '):
            raise RuntimeError('model driver out of step: %r' % b)
        res.append(dict(toks=b[0][6:].split(), covered=b[1].strip() == 'COVERED 1', pself=b[2].strip() == 'PSELF 1', norm=b[3][5:]))
    return res


def strip_ws(s):
    """comparison modulo blanks and modulo the spelling of floating literals (the model does not format doubles)"""
    s = re.sub(r'(?<![A-Za-z_0-9.])(\d+\.\d+(?:[eE][+-]?\d+)?|\d+[eE][+-]?\d+)', lambda m: repr(float(m.group(1))), s)
    return re.sub(r'\s+', '', s)


BASE_QUERIES = [
    'A[] v0 < 3', 'E<> v0 == 1 && v1 != 2', 'A<> b0', 'E[] not b0', 'v0 == 1 --> v1 == 2', 'A[] not deadlock',
    'sup: v0', 'sup{v0 > 0}: v1, v2', 'inf: x0', 'inf{b0}: v0', 'bounds: v0', 'bounds{b0}: v1',
    'E<> P.A', 'A[] P.A imply v0 >= 0', 'A[] forall (i : int[0,2]) arr[i] >= 0', 'E<> exists (i : int[0,2]) arr[i] == 1',
    'Pr[<=10](<> b0)', 'Pr[<=10]([] b0)', 'Pr[#<=10](<> b0)', 'Pr[x0<=10](<> b0)', 'Pr[<=10](<> b0) >= 0.5', 'Pr[<=10]([] b0) <= 0.25',
    'Pr[<=10](<> b0) >= Pr[<=20](<> b1)', 'E[<=10; 100](max: v0)', 'E[<=10; 100](min: v0 + v1)', 'E[#<=10; 50](max: v0)',
    'simulate [<=10] { v0, v1 }', 'simulate [<=10; 5] { v0 }', 'simulate [<=10; 5] { v0 } : 2 : b0',
    'control: A[] v0 < 3', 'control: A<> b0', 'control: A[ b0 U b1 ]', 'control: A[ b0 W b1 ]', 'E<> control: A<> b0', 'control_t*(2,1): A<> b0', 'control_t*(2): A<> b0', 'control_t*: A<> b0',
    '{v0, v1} control: A<> b0',
    'minE(v0)[<=10] {v1} -> {x0} : <> b0', 'maxE(v0)[<=10] {v1} -> {x0} : <> b0', 'minE(v0)[<=10] : <> b0', 'minE(v0)[#<=10] {v1} -> {} : <> b0',
    'minPr[<=10] : <> b0', 'maxPr[<=10] : <> b0', 'strategy S1 = control: A<> b0', 'strategy S2 = loadStrategy {v0} -> {x0} ("f.json")',
    'A[] (v0 < 3 && (v1 > 2 || b0))', 'E<> (v0 + 1) * 2 > v1', 'A[] v0 - (v1 - v2) == 0', 'E<> -(-v0) == v0', 'A[] !(b0 && b1)', 'E<> (b0 ? v0 : v1) > 0',
    'A[] arr[v0 % 4] >= arr2[1][2]', 'E<> s.f0 == s.t.g0', 'A[] fn2(v0, fn1(v1)) > 0', 'Pr[<=10](<> fabs(d0) < 1.5)', 'A[] (v0 <? v1) <= (v0 >? v1)',
    'Pr[<=10](<> d0 < 0.1234567891)', 'Pr[<=10](<> d0 == 1.0)', 'Pr[<=10; 7](<> b0)', 'Pr[<=10](b0 U b1)', 'Pr[<=10]([] b0) >= 1.0', 'E[x0<=10; 100](max: v0)', 'A[] x0 <= 5 imply v0 == 0',
]

# quantifier binders over ranges at and next to the bounds of the default integer range: the range is part of the tree
BASE_QUERIES += ['A[] forall (i : int[0,32767]) v0 < i + 1', 'A[] forall (i : int[-32768,5]) v0 > i - 1', 'A[] exists (i : int[-32768,32767]) v0 == i', 'A[] forall (i : int[1,32767]) v0 < i',
                 'A[] forall (i : int[0,32766]) v0 <= i', 'A[] forall (i : int[-32767,32767]) v0 != i', 'E<> sum (i : int[0,32767]) i > v0', 'A[] forall (i : int[0,3]) forall (j : int[-32768,3]) v0 < i + j + 40000',
                 'A[] forall (i : int) v0 != i || v0 == i']
# the optional parts of the query forms left out one at a time (the builder fills them in with defaults, which the printer then has to write in a form the grammar reads)
BASE_QUERIES += ['simulate [<=10; 5] { v0 } : b0', 'simulate [<=10] { v0, v1 } : v0 > 2', 'simulate [#<=10] { v0 }', 'simulate [x0<=10; 3] { v0 } : 1 : b0', 'E<> control: A[] b0', 'E[<=10](max: v0)', 'Pr[<=10](<> b0) >= Pr[#<=20]([] b1)', 'maxE(v0)[#<=10] : <> b0', 'maxPr[#<=10] {v1} -> {x0} : <> b0',
                 'strategy S8 = minE(v0)[<=10] : <> b0', 'strategy S9 = loadStrategy ("f.json")']
# string literals (file names of strategies): blanks, slashes, dots, backslashes written doubled and single, an escaped quote; the name of the saved strategy is
# declared by an earlier query of the session, which the one-query-per-builder harness does not have: only that diagnostic is tolerated for saveStrategy
STRING_QUERIES = ['strategy S3 = loadStrategy {v0} -> {x0} ("dir/sub dir/f.v1.json")', r'strategy S4 = loadStrategy {v0} -> {x0} ("C:\\out\\s.json")', r'strategy S5 = loadStrategy {v0} -> {x0} ("C:\out\s.json")',
                 r'strategy S6 = loadStrategy {v0} -> {x0} ("a\\\\b")', 'strategy S7 = loadStrategy {} -> {} (" ")', 'saveStrategy("plain.json", S1)', r'saveStrategy("C:\\out\\s.json", S1)', r'saveStrategy("C:\out\s.json", S1)',
                 'saveStrategy("dir/sub dir/f.json", S1)']
QUERIES = list(BASE_QUERIES)          # imported by C19 (whose tree reader splits at blanks: the string queries stay here)


def double_queries(rng, n):
    """queries around floating-point constants: the property asks for every bit of them to survive print / re-parse.  Literals whose
    shortest exact spelling needs 15, 16 and 17 significant digits, the extremes of the format, and bounds the builder rewrites
    (Pr[...] <= p keeps 1 - p)"""
    import struct
    lits = ['0.30000000000000004', '0.1', '0.95', '0.09999999999999998', '0.3333333333333333', '0.6666666666666666', '1.7976931348623157e+308', '2.2250738585072014e-308', '5e-324',
            '1e+22', '1.2345678901234568e+17', '0.7999999999999999', '4.35', '2.675', '1.0000000000000002', '9007199254740993.0', '0.05000000000000005']
    while len(lits) < n:
        bits = rng.getrandbits(64) & 0x7fffffffffffffff
        v = struct.unpack('<d', struct.pack('<Q', bits))[0]
        if v != v or v in (float('inf'),):
            continue
        if rng.random() < 0.6:
            v = rng.choice([rng.random(), rng.random() * 10 ** rng.randrange(-8, 9), rng.randrange(1, 1000) / rng.randrange(1, 1000)])
        r = repr(v)
        if 'e' not in r and '.' not in r:
            r += '.0'
        lits.append(r)
    out = []
    for i, l in enumerate(lits):
        form = i % 5
        try:
            p = float(l)
        except ValueError:
            continue
        if form == 0: out.append('Pr[<=10](<> d0 < %s)' % l)
        elif form == 1: out.append('Pr[<=10]([] d0 > %s)' % l)
        elif form == 2 and 0 < p < 1: out.append('Pr[<=10](<> x0 > 3) <= %s' % l)
        elif form == 3 and 0 < p < 1: out.append('Pr[<=10]([] b0) >= %s' % l)
        else: out.append('E[<=10; 100](max: d0 + %s)' % l)
    return out


def check(run):
    thorough = run.tier == 'thorough'
    global QUERIES
    QUERIES = BASE_QUERIES + STRING_QUERIES + double_queries(run.rng, 400 if thorough else 120)
    T = None
    try:
        T = exprgen.Table()
        gen_prec.write()
    except (gen_grammar.GrammarError, RuntimeError) as e:
        run.tie_broken('G-LR / G-PREC translation', str(e))
    pr = run.proofs()
    drv = None
    if T is not None and os.path.exists(os.path.join(vlib.COQ, 'theories', 'PrintImpl.vo')):
        drv, err = vlib.build_extract('c02', 'Extract_C02.v', 'drv_c02')
        if drv is None:
            run.tie_broken('extraction', err)
    elif T is not None:
        run.tie_broken('model', 'PrintImpl.vo did not build')
    rng = run.rng
    nsh = 16
    samples, ncorr, noracle, nuncov, ncov, ntyped, nillfail = [], 0, 0, 0, 0, 0, 0
    if T is not None and drv:
        nb, nu = canonical_ops(T)
        # ---- cases: triples over canonical operators, chains, random -----------------------------------
        cases = []
        ctxs = [c for c in exprgen.shapes(T) if not ((c[0][0] == 'B' and int(c[0][1:].split('.')[0]) not in nb) or (c[0][0] == 'U' and int(c[0][1:]) not in nu))]
        chs = [c for c in exprgen.children(T) if not ((c[0][0] == 'B' and c[0][1:].isdigit() and int(c[0][1:]) not in nb) or (c[0][0] == 'U' and int(c[0][1:]) not in nu))]
        for cn, mk, _ in ctxs:
            for hn, tree, fl in chs:
                cases.append(dict(name='triple:%s<-%s' % (cn, hn), tree=mk(tree), fields=fl))
        ntri = len(cases)
        g = exprgen.Gen(T, rng)
        # restrict the random generator to canonical operators
        class CanonTable:
            pass
        T2 = exprgen.Table.__new__(exprgen.Table)
        T2.__dict__.update(T.__dict__)
        orig_nb = T.nb
        g2 = exprgen.Gen(T, rng)
        nrand = 15000 if thorough else 2500
        k = 0
        while k < nrand:
            t, fl = g2.expr(rng.choice([2, 3, 3, 4, 5]))
            # reject trees that mention alias operators (they cannot come out of the builder)
            bad = False
            for m in re.finditer(r'\(B (\d+) ', t):
                if int(m.group(1)) not in nb:
                    bad = True
            for m in re.finditer(r'\(U (\d+) ', t):
                if int(m.group(1)) not in nu:
                    bad = True
            if bad:
                continue
            cases.append(dict(name='random:%d' % k, tree=t, fields=fl))
            k += 1
        # ---- model: minimal rendering (input text), printer output, coverage ------------------------------
        rend = exprgen.Model(drv).render_many([c['tree'] for c in cases])
        mp = model_print(drv, [c['tree'] for c in cases])
        shards = [vlib.Job() for _ in range(nsh)]
        for i, j in enumerate(shards):
            j.case('s%d' % i).model('xta', exprgen.FIXTURE_XTA)
        for idx, (c, r) in enumerate(zip(cases, rend)):
            shards[idx % nsh].rt(T.text(r['min'], fields=c['fields']))
        big = vlib.Job()
        for j in shards:
            j.end(); big.parts += j.parts; big.ids += j.ids
        res = vlib.run_jobs(big, shards=nsh)
        cursor = {i: 1 for i in range(nsh)}
        corr_mism = []
        for idx, (c, r, m) in enumerate(zip(cases, rend, mp)):
            sh = idx % nsh
            cs = res['s%d' % sh]
            if cs['status'] != 'ok' or cursor[sh] >= len(cs['cmds']):
                run.fail('library crashed during print/re-parse (shard %d: %s)' % (sh, cs['status']), dict(status=cs['status'], stderr=res.get('_stderr', '')[-600:]), shape='crash')
                break
            op, arg, lines = cs['cmds'][cursor[sh]]
            cursor[sh] += 1
            d = {}
            for l in lines:
                k2, _, v = l.partition(' ')
                d.setdefault(k2, v)
            if 'str' not in d:
                run.tie_broken('input text did not parse', dict(text=T.text(r['min'], fields=c['fields']), lines=lines[:3]))
                continue
            real_str = d['str']
            # (a) correspondence: printer model vs implementation, modulo blanks
            fields = c['fields']
            model_txt = T.text(m['toks'], fields=fields)
            ncorr += 1
            quant = re.search(r'\(U (%s) ' % '|'.join(str(q) for q in T.quant), c['tree']) is not None
            if strip_ws(model_txt) != strip_ws(real_str) and not quant:
                corr_mism.append(dict(tree=c['tree'], model=model_txt, impl=real_str))
            # (b) direct oracle on the implementation
            noracle += 1
            # binder symbols are fresh declarations in every parse: with a quantifier the trees are compared by dump (alpha-equivalence)
            ok = (d.get('reparse', '').startswith('ok=1 errors=0') and d.get('tree2') == d.get('tree') and (d.get('equal') == '1' or quant)
                  and d.get('str2') == real_str and '<str throws' not in real_str)
            well_typed = d.get('tc', '').startswith('errors=0')
            if well_typed:
                ntyped += 1
            if m['covered']:
                ncov += 1
            else:
                nuncov += 1
            if not ok and not well_typed:
                nillfail += 1         # rejected by the type checker: outside "accepted in m"; only the model comparison uses it
            if not ok and well_typed:
                shape = 'print-reparse:' + ('quantifier' if quant else c['name'].split(':')[1] if c['name'].startswith('triple') else 'random')
                run.fail('str() of %s is %r, which re-parses to %s (equal=%s, str2=%r)' % (d.get('tree'), real_str, d.get('tree2', d.get('reparse')), d.get('equal'), d.get('str2')),
                         dict(text=T.text(r['min'], fields=fields), str=real_str, tree=d.get('tree'), tree2=d.get('tree2'), reparse=d.get('reparse'),
                              model_predicts_failure=not m['pself'], covered_by_theorem=m['covered']), shape=shape)
            if d.get('str_after_tc') == '0':
                run.fail('str() changes after type checking: %r' % real_str, dict(text=T.text(r['min'], fields=fields)), shape='str-unstable')
            if not quant:
                # the model's own round trip must predict the implementation's (model faithfulness), typed or not
                if ok != m['pself']:
                    corr_mism.append(dict(tree=c['tree'], note='model round trip %s, implementation round trip %s' % (m['pself'], ok), impl=real_str, model=model_txt))
                if not ok and m['covered']:
                    run.tie_broken('a tree covered by C03_print_safe fails on the implementation', dict(tree=c['tree'], str=real_str))
            if ok and well_typed and len(samples) < 3 and c['name'].startswith('random'):
                samples.append(dict(tree=c['tree'], str=real_str, covered=m['covered']))
        if corr_mism:
            run.tie_broken('printer model vs expression_t::str()', corr_mism[:6])
        # ---- queries: direct oracle through TigaPropertyBuilder ----------------------------------------------
        qj = vlib.Job()
        qj.case('q', fork=False).cmd('BIND 1').model('xta', exprgen.FIXTURE_XTA)     # binders are dumped with their types: a printed range must re-parse to the same range
        for q in QUERIES:
            qj.query(q, rt=True)
        qj.end()
        # each query in its own forked case as well, so a crash is attributed
        qres = vlib.run_jobs(qj, shards=1)
        cs = qres['q']
        if cs['status'] != 'ok':
            qj2 = vlib.Job()
            for i, q in enumerate(QUERIES):
                qj2.case('q%d' % i, fork=True).cmd('BIND 1').model('xta', exprgen.FIXTURE_XTA).query(q, rt=True).end()
            qres2 = vlib.run_jobs(qj2)
            cmds = []
            for i, q in enumerate(QUERIES):
                c2 = qres2['q%d' % i]
                if c2['status'] != 'ok':
                    run.fail('string conversion / re-parse of query %r crashes: %s' % (q, c2['status']), dict(query=q, status=c2['status']), shape='query-crash:' + q.split()[0])
                    cmds.append(None)
                else:
                    cmds.append(c2['cmds'][2] if len(c2['cmds']) > 2 else None)
        else:
            cmds = cs['cmds'][2:]
        nq = 0
        for q, cm in zip(QUERIES, cmds):
            if cm is None:
                continue
            nq += 1
            d = {}
            for l in cm[2]:
                k2, _, v = l.partition(' ')
                d.setdefault(k2, v)
            undeclared_only = q.startswith('saveStrategy') and [l for l in cm[2] if l.startswith('error')] and all('strategy_not_declared' in l for l in cm[2] if l.startswith('error'))
            if (d.get('accepted') != '1' and not undeclared_only) or 'str' not in d:
                run.tie_broken('fixture query is not accepted by the library', dict(query=q, lines=cm[2][:3]))
                continue
            s1 = d['str']
            quant = '(FORALL ' in d.get('tree', '') or '(EXISTS ' in d.get('tree', '') or '(SUM ' in d.get('tree', '')
            ok = (d.get('reparse', '').startswith('ret=0 errors=0') and 'exc=' not in d.get('reparse', '') and d.get('tree2') == d.get('tree')
                  and (d.get('equal') == '1' or quant) and d.get('str2') == s1 and '<str throws' not in s1)
            if not ok:
                form = re.sub(r'[^A-Za-z\[\]<>#]+', '_', q)[:24]
                run.fail('query %r prints as %r; re-parse: %s equal=%s str2=%r' % (q, s1, d.get('reparse'), d.get('equal'), d.get('str2')),
                         dict(query=q, str=s1, tree=d.get('tree'), tree2=d.get('tree2'), reparse=d.get('reparse')), shape='query:' + q)
        run.cov.update(evaluations=noracle + nq, distinct_nontrivial=len({c['tree'] for c in cases}) + nq, traces_validated_against_impl=ncorr,
                       rule='every (context position x child operator) triple over the canonical operators of the regenerated table, plus seeded random typed trees: input text = minimal rendering, '
                            'then (a) implementation str() vs the Coq printer model modulo blanks, (b) parse(str(e)) equal e and str idempotent on the implementation, (c) the decidable `covered` '
                            'predicate of C03_print_safe evaluated by the extracted model; plus %d query forms through TigaPropertyBuilder (direct oracle)' % len(QUERIES),
                       samples=samples, exhaustive_triples=ntri, random_trees=nrand, covered_by_theorem=ncov, not_covered_by_theorem=nuncov, accepted_by_typechecker=ntyped, illtyped_failing_roundtrip_out_of_scope=nillfail, queries=nq)
    run.cov['trusted_base'] += ['tools/gen_prec.py (reader of get_precedence), gen_grammar/gen_optable/gen_lex', 'hand model PrintImpl.v of expression_t::print (tied by correspondence)',
                                'Coq extraction, drv_c02.ml', 'utapdump RT / QUERY commands']
    return run.finish('proof', assumptions=[
        'query forms (Pr, E, simulate, control, minE ...) are decided by the direct oracle only; the Coq printer model covers the expression fragment',
        'iostream formatting of doubles is outside the model; the oracle compares constants bitwise after re-parsing'])
