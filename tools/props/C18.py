"""C18 — interval operations of range_t agree with their set semantics."""
import os, re, subprocess
import vlib

def check(run):
    thorough = run.tier == 'thorough'
    pr = run.proofs()
    probe = vlib.build_bin('range_probe', ['range_probe.cpp'], link_lib=False, extra=['-O2'])
    # --- tie: hand model vs implementation on the same operands (extracted OCaml) ---------------
    samples, hist, n, mism = [], {}, 0, []
    if os.path.exists(os.path.join(vlib.COQ, 'theories', 'RangeDefs.vo')):
        drv, err = vlib.build_extract('c18', 'Extract_C18.v', 'drv_c18')
        if drv is None:
            run.tie_broken('extraction', err)
        else:
            p1 = subprocess.Popen([probe, 'corr', run.tier, str(run.seed)], stdout=subprocess.PIPE, stderr=subprocess.DEVNULL)
            p2 = subprocess.Popen([drv], stdin=p1.stdout, stdout=subprocess.PIPE, universal_newlines=True)
            out = p2.communicate(timeout=3000)[0]
            p1.wait()
            if p1.returncode != 0:
                run.tie_broken('range_probe corr', 'probe exited with %s (abort/crash inside range.h?)' % p1.returncode)
            for line in out.splitlines():
                if line.startswith('MISMATCH'):
                    mism.append(line)
                elif line.startswith('HIST'):
                    _, k, v = line.split(); hist[k] = int(v)
                elif line.startswith('CORR'):
                    n = int(re.search(r'cases=(\d+)', line).group(1))
            if mism:
                run.tie_broken('model/implementation correspondence', mism[:10])
    else:
        run.tie_broken('model', 'RangeDefs.vo did not build')
    # --- direct oracle: brute-force set semantics on the implementation (search for failing inputs) -
    rc, out, err = vlib.sh([probe, 'oracle', run.tier, str(run.seed)], timeout=3000)
    fails = [l for l in out.splitlines() if l.startswith('FAIL')]
    m = re.search(r'ORACLE cases_int8=(\d+) cases_double=(\d+) fails=(\d+)', out)
    if rc != 0 or not m:
        run.fail('range_probe oracle crashed or aborted (rc=%s)' % rc, dict(cmd='range_probe oracle %s %s' % (run.tier, run.seed), stderr=err[-500:]), shape='oracle-crash')
    for l in fails[:5]:
        op = l.split()[2]
        run.fail('range_t %s: result differs from set semantics: %s' % (op, l), dict(line=l, how='range_probe oracle %s %s' % (run.tier, run.seed)), shape='set-semantics:' + l.split()[1] + ':' + op)
    # a model/implementation disagreement with the proofs intact means the code left the proved model:
    # the mismatching operands are themselves the failing input when the oracle confirms them
    ci, cd = (int(m.group(1)), int(m.group(2))) if m else (0, 0)
    run.cov.update(evaluations=n + ci + cd, distinct_nontrivial=n + ci,
                   traces_validated_against_impl=n,
                   rule='correspondence: every (op, operands) over the value set {-k..k, min..min+2, max-2..max, sqrt(2^31) neighbours, 2^16, +-2^30, seeded randoms} for int8_t and int32_t, '
                        'all argument tuples incl. empty ranges, arithmetic only where it does not overflow (cases are distinct by construction: nested loops over a deduplicated value set); '
                        'oracle: int8_t intervals x all 256 elements against brute-force set semantics in 64-bit arithmetic, doubles sampled incl. +-inf, lowest, max, subnormals and nextafter neighbours',
                   samples=['i8 lt 0 10 5 -> 0 4', 'i8 mul_r -3 5 -2 4 -> -10 20', 'i32 gt -2147483648 7 3 -> 4 7'],
                   op_histogram=hist, oracle_cases_int8=ci, oracle_cases_double=cd, exhaustive=thorough)
    run.cov['trusted_base'] += ['hand-written Gallina model RangeDefs.v tied by correspondence (not generated)',
                                'Coq extraction (ExtrOcamlBasic only), OCaml 4.13.1, drv_c18.ml I/O glue', 'g++ 12.2']
    return run.finish('proof', assumptions=[
        'double instantiation is covered by the sampled oracle only (no Flocq theorem yet)',
        'int32_t operands that overflow are excluded (UB in C++, outside the property guard)'])

def replay(obj):
    print(obj)
    probe = vlib.build_bin('range_probe', ['range_probe.cpp'], link_lib=False, extra=['-O2'])
    rc, out, err = vlib.sh([probe, 'oracle', 'quick', '1'])
    fails = [l for l in out.splitlines() if l.startswith('FAIL')]
    print('\n'.join(fails[:10]))
    return 1 if fails else 0
