"""C16 — a fault in one text block does not disturb the rest of the document."""
import os, re, collections
import vlib, docgen, crashgen, gen_lr

KMAP = {'select': 'select', 'guard': 'guard', 'sync': 'sync', 'update': 'assign', 'prob': 'prob'}
FAULTS = ['forall (q:int[0,3]) +', 'exists (q : int[0,1]) q == ', 'sum (k : int[0,2]) (', 'zz == 1', 'g0 + ', '(g0 == 1', 'g0 == 1)', 'g0 == true + c', '1 +* 2', 'f(', 'g0[', 'x <= ', '{', ')', 'g0 == 1 ; g1', 'forall (q:int[0,3]) forall (r:int[0,1]) q +',
          'g0 ? 1 :', 'a . b .', '"str', 'g0 = = 1', '', 'forall (q : bool) g0 == 1', 'exists (q : clock) g0 == 1', 'sum (q : double) 1', 'forall (q : chan) true && g0 == 1', 'g0 == 1 && forall (q : bool) forall (r : int[0,1]) g1 > r',
          'g0 == 1 /* never closed', '/* only a comment', 'g0 /* closed */ ==', '1 // trailing', 'g0 == 1 /* x */ /* y']

# ill-typed instances of every expression constructor (binary, unary, conditional, index, call, member, assignment, quantifier, builtin, list, rate), over the names every
# generated model declares (integers g0 g1, clock x): the diagnostic belongs to the node of that constructor, whose position must lie in the faulted label
SEM_FAULTS = ['g0 + (x < 1) == 1', '-(x < 1) == 1', '!x', '(x ? 1 : 2) == 1', '(g0 == 1 ? (x < 1) : 2) == 1', 'g0 == 1 ? x : true', 'g0[1] == 1', 'g0(1) == 1', 'g0.a == 1', '(g0 + 1) = 2', 'g0 = (x < 1)',
              'g0 = (g1 == 1 ? x : true)', 'forall (q : int[0,1]) x', 'sum (q : int[0,1]) (x < 1)', 'abs(x < 1) == 1', 'g0 = 1, g1 = (x < 1)', 'g0++ == (x < 1)', 'x = (g0 == 1 ? x < 1 : 2)',
              '(g0 == 1 ? g1 : x < 1) = 3', 'g0 == 1 imply x', 'g0 <? (x < 1)', 'g0 % x', 'g0 << x', "x' == (x < 1)", 'g0 == "s"', '1.5 % 2', 'exists (q : int[0,1]) (q ? x : 2) == 1',
              'g1 = (true ? x : g0 == 1)', '(g0 == 1 ? x : g1) == 1', 'g0 == (g1 ? 1 : (x < 1))', 'fmax(x < 1, 2) > 1', 'g0 += (x < 1)', '(x < 1)++', 'g0 == 1 && (x ? true : false)']


# faults the parser recovers from inside the label (the error production of a bracket resynchronises): the label still delivers an expression
RECOVERED = ['( * 2 )', '2 * ( * 3 )', '( )', '( + )', '1 + ( * )', '( * 2 ) * 3', 'g0 + ( )', '( , )', '( ( * 1 ) )', '2 : ( * 3 )']

# faults the scanner itself reports (an identifier longer than the limit, characters outside the alphabet, a number outside its type): the scanner runs outside the
# grammar's exception barrier, so whatever it does about them must stay inside the per-block parse
LEX_FAULTS = ['g0 == ' + 'q' * 4001, 'q' * 4001 + ' > 0', 'g0 == 1 && ' + 'z' * 5000 + ' == 2', 'w' * 4000 + ' == 1', 'g0 @ 1', 'g0 == 1 `', 'g0 == 99999999999999999999', 'g0 # 1', 'g0 == 1 \\ 2', 'g0 == 1e999', '$g0 == 1']

_SIM = []
def leaves_stray_fragment(text):
    """the known defect of the rate label: the faulted text leaves an expression fragment behind (beyond the one a complete parse delivers), which the location then takes
    for its invariant.  Decided by replaying the parser on the regenerated tables; when the replay cannot tell (a token the scanner model rejects, a callback whose
    effect depends on its arguments) the case is left with the known finding"""
    import lrsim
    if not _SIM:
        _SIM.append(lrsim.Sim())
    try:
        n = lrsim.stray_fragments(_SIM[0], 7, text)
    except Exception:
        return True
    return n is None or n >= 1


def label_sites(M):
    """every non-declaring label of M: (description, xpath, dump line prefix, field, kind, marker)"""
    sites = []
    for ti, T in enumerate(M.templates):
        for li, l in enumerate(T['locs']):
            k = 0
            if l['inv'] is not None:
                k += 1
                sites.append(dict(what='invariant', xpath='/nta/template[%d]/location[%d]/label[%d]' % (ti + 1, li + 1, k), line='t%d loc nr=%d ' % (ti, li), field='inv', key=('inv', l['inv'])))
            if l['rate'] is not None:
                k += 1
                sites.append(dict(what='rate', xpath='/nta/template[%d]/location[%d]/label[%d]' % (ti + 1, li + 1, k), line='t%d loc nr=%d ' % (ti, li), field='exprate', key=('rate', l['rate'])))
        for ei, e in enumerate(T['edges']):
            for k, (kind, m) in enumerate(e['labels']):
                if kind == 'select':
                    continue                                           # a declaring label
                sites.append(dict(what=kind, xpath='/nta/template[%d]/transition[%d]/label[%d]' % (ti + 1, ei + 1, k + 1), line='t%d edge nr=%d ' % (ti, ei), field=KMAP[kind], key=(kind, m)))
    return sites


FIELDS = ['select', 'guard', 'sync', 'assign', 'prob', 'inv', 'exprate', 'costrate']


def mask(line, field):
    nxt = {'guard': ' sync=', 'sync': ' assign=', 'assign': ' prob=', 'prob': None, 'inv': ' exprate=', 'exprate': ' costrate=', 'costrate': None}[field]
    i = line.find(' %s=' % field)
    if i < 0:
        return line
    j = line.find(nxt, i) if nxt else len(line)
    if j < 0: j = len(line)
    return line[:i] + ' %s=#' % field + line[j:]


def doc_lines(cmds):
    return [l for cc in cmds if cc[0] == 'DUMP' and cc[1] == 'doc' for l in cc[2]]


def errors(cmds):
    out = []
    for cc in cmds:
        if cc[0] == 'DUMP' and cc[1] == 'errors':
            for l in cc[2]:
                m = re.match(r'error msg="(.*?)" ctx="(.*?)" path="(.*?)"', l)
                if m: out.append((m.group(1), m.group(3)))
    return out


XTA_SHAPES = {'empty': lambda t: '', 'drop-first': lambda t: ' '.join(crashgen.tokens(t)[1:]), 'drop-last': lambda t: ' '.join(crashgen.tokens(t)[:-1]), 'extra-token': lambda t: t + ' zz', 'double-last': lambda t: t + ' ' + crashgen.tokens(t)[-1],
              'prefix-op': lambda t: '+ ' + t, 'trailing-op': lambda t: t + ' +', 'unbalanced': lambda t: '( ' + t, 'closing': lambda t: t + ' )', 'unknown-name': lambda t: re.sub(r'\b(g\d|x|c\d+)\b', 'zz9', t, count=1)}


def xta_labels(run, thorough):
    """the same property on the textual format: one fault in one guard / sync / assign / probability section of one edge of a generated
    accepted .xta text; the document as the builder leaves it must equal the fault-free one outside that section, and every diagnostic
    must lie on the line of the faulted edge (every edge is rendered on a line of its own)"""
    rng = run.rng
    stats = dict(xta_faults=0, xta_isolated=0, xta_inert=0)
    j = vlib.Job()
    cases = []
    for n in range(1200 if thorough else 220):
        M = docgen.gen(rng, ntempl=rng.choice([1, 2]), allow_anon=False, branchpoints=False, xta_common=True)
        sites = [(T, ei, k, m) for T in M.templates for ei, e in enumerate(T['edges']) for k, m in e['labels'] if k in ('guard', 'sync', 'update', 'prob')]
        if not sites:
            continue
        base = docgen.render_xta(M)
        T, ei, k, m = rng.choice(sites)
        shape = rng.choice(sorted(XTA_SHAPES))
        good = docgen.ltext(M, k, m)
        M.text[(k, m)] = XTA_SHAPES[shape](good)
        bad = docgen.render_xta(M)
        if bad == base:
            continue
        cid = len(cases)
        cases.append((k, shape, base, bad, good, T['name'], ei))
        j.case('xb%d' % cid, fork=True).model('xtaraw', base).dump('errors').dump('doc').end()
        j.case('xf%d' % cid, fork=True).model('xtaraw', bad).dump('errors').dump('doc').end()
    rr = vlib.run_jobs(j)
    field = {'guard': 'guard', 'sync': 'sync', 'update': 'assign', 'prob': 'prob'}
    for cid, (k, shape, base, bad, good, tname, ei) in enumerate(cases):
        b, f = rr['xb%d' % cid], rr['xf%d' % cid]
        if f['status'] != 'ok' or b['status'] != 'ok' or len(f['cmds']) < 3 or len(b['cmds']) < 3:
            if f['status'] != 'ok':
                run.fail('parser crashed on an .xta text with a faulted %s section (%s)' % (k, f['status']), dict(xta=bad, status=f['status']), shape='crash')
            continue
        stats['xta_faults'] += 1
        errs = [l for l in f['cmds'][1][2] if l.startswith('error')]
        if not errs and f['cmds'][2][2] == b['cmds'][2][2]:
            stats['xta_inert'] += 1
            continue
        lines = [i + 1 for i, (x, y) in enumerate(zip(base.split('\n'), bad.split('\n'))) if x != y]
        ln = lines[0] if lines else 0
        stray = [l for l in errs if not re.search(r' line=%d\.\.%d ' % (ln, ln), l)]
        mask = lambda l: re.sub(r' %s=.*?(?= (?:sync|assign|prob)=|$)' % field[k], ' %s=<masked>' % field[k], l) if re.match(r't\d+ edge ', l) else l
        db, df = [mask(l) for l in b['cmds'][2][2]], [mask(l) for l in f['cmds'][2][2]]
        diff = next(((x, y) for x, y in zip(db + ['<end>'], df + ['<end>']) if x != y), None)
        if stray:
            run.fail('.xta text: a %s fault in the %s section of an edge (line %d) is reported elsewhere: %s' % (shape, k, ln, stray[0][:160]), dict(xta=bad, fault_free=base, label=good, stray=stray[:3]), shape='xta-label:%s:stray' % shape)
        elif diff:
            run.fail('.xta text: a %s fault in the %s section of an edge changes the document elsewhere: %r became %r' % (shape, k, diff[0][:140], diff[1][:140]), dict(xta=bad, fault_free=base, label=good), shape='xta-label:%s:spill' % shape)
        else:
            stats['xta_isolated'] += 1
    return stats


def check(run):
    thorough = run.tier == 'thorough'
    rng = run.rng
    info = gen_lr.write()
    run.proofs()
    for s, d in info['stacks'].items():
        if d['fails']:
            run.tie_broken('stack-discipline certificate for %s does not check on the regenerated automaton' % s,
                           [dict(kind=f['kind'], state=f['state'], rule='%s -> %s' % (f['lhs'], ' '.join(map(str, f['rhs'])))) for f in d['fails'][:6]])
    nm = 250 if thorough else 40
    per = 24 if thorough else 12
    j = vlib.Job()
    cases = []
    for mi in range(nm):
        M = docgen.gen(rng, ntempl=rng.choice([1, 2, 3]))
        for T in M.templates:                      # a template local that shadows a global: a leaked frame changes what later blocks bind to
            if rng.random() < 0.7: T['decl'].append('g2')
        sites = label_sites(M)
        if not sites:
            continue
        base = docgen.render_xml(M)
        j.case('m%d' % mi, fork=True).cmd('BIND 1').model('xml', base).dump('errors').dump('doc').dump('flags').end()
        j.case('r%d' % mi, fork=True).cmd('BIND 1').model('xmlraw', base).dump('doc').end()
        for fi in range(per):
            S = rng.choice(sites)
            r = rng.random()
            orig = docgen.ltext(M, S['key'][0], S['key'][1])
            if S['what'] in ('rate', 'invariant') and rng.random() < 0.4: bad = rng.choice(RECOVERED)
            elif r < 0.3: bad = rng.choice(FAULTS)
            elif r < 0.5: bad = rng.choice(SEM_FAULTS)
            elif r < 0.58: bad = rng.choice(LEX_FAULTS)
            elif r < 0.9: bad = crashgen.mutate_tokens(rng, orig, n=1)
            else: bad = orig + ' ' + rng.choice(FAULTS + ['/* never closed', '/* open\n comment'])
            if bad == orig:
                continue
            saved = dict(M.text)
            M.text[S['key']] = bad if bad else ' '
            x = docgen.render_xml(M)
            M.text.clear(); M.text.update(saved)
            cid = 'm%df%d' % (mi, fi)
            cases.append((cid, 'm%d' % mi, S, bad, x, base))
            j.case(cid, fork=True).cmd('BIND 1').model('xml', x).dump('errors').dump('doc').dump('flags').end()
            j.case('r' + cid, fork=True).cmd('BIND 1').model('xmlraw', x).dump('errors').dump('doc').end()
    # declaration blocks: a fault inside declaration i keeps declarations 0..i-1
    DECLS = ['int d0 = 1;', 'const int d1 = 2;', 'bool d2;', 'typedef int[0,3] t3;', 't3 d4;', 'int d5[2] = {1, 2};', 'int f6(int a) { return a + d0; }', 'chan d7;', 'clock d8;', 'struct { int a; bool b; } d9 = {1, true};',
             'void f10() { d0 = 2; }', 'int d11 = f6(1);']
    dcases = []
    nd = 600 if thorough else 120
    for k in range(nd):
        i = rng.randrange(1, len(DECLS))
        r = rng.random()
        if r < 0.4:
            toks = crashgen.tokens(DECLS[i]); bad = crashgen.join(toks[:rng.randrange(0, len(toks))])            # truncation
        elif r < 0.8:
            bad = crashgen.mutate_tokens(rng, DECLS[i], n=1)
        else:
            bad = rng.choice(['int +;', 'typedef ;', 'int f( {', 'const ;', 'int q[ = 1;', 'void h() { if (+) { } }', 'int w = forall (q:int[0,3]) +;'])
        text = '\n'.join(DECLS[:i] + [bad] + DECLS[i + 1:])
        x = crashgen.wrap_xml(text, tdecl='', guard='d0 == 1', assign='d0 = 1', sync='d7!', inv='d8 <= 3')
        cid = 'd%d' % k
        dcases.append((cid, i, bad, x))
        j.case(cid, fork=True).model('xmlraw', x).dump('errors').dump('doc').end()
    j.case('dbase', fork=True).model('xmlraw', crashgen.wrap_xml('\n'.join(DECLS), tdecl='', guard='d0 == 1', assign='d0 = 1', sync='d7!', inv='d8 <= 3')).dump('errors').dump('doc').end()
    rr = vlib.run_jobs(j)
    stats = dict(models=nm, label_faults=0, syntax_faults=0, semantic_faults=0, harmless=0, decl_faults=0, crashes=0, sites=collections.Counter())
    for cid, bid, S, bad, x, base in cases:
        c, b = rr[cid], rr[bid]
        if b['status'] != 'ok' or errors(b['cmds']):
            run.tie_broken('a generated model is not accepted', dict(xml=base[:1500], errors=errors(b['cmds'])[:3]))
            continue
        if c['status'] != 'ok':
            stats['crashes'] += 1
            run.fail('%s while parsing a model with one faulted %s label' % (c['status'], S['what']), dict(xml=x, label=bad, status=c['status']), shape='crash:%s' % c['status'].split()[0])
            continue
        stats['label_faults'] += 1; stats['sites'][S['what']] += 1
        errs = errors(c['cmds'])
        if not errs: stats['harmless'] += 1
        elif any(e[0].startswith('$syntax_error') for e in errs): stats['syntax_faults'] += 1
        else: stats['semantic_faults'] += 1
        # the rule that CSP and IO synchronisations are not mixed relates two labels of the model: either may be blamed
        stray = [e for e in errs + errors(rr['r' + cid]['cmds']) if e[1] != S['xpath'] and e[0] != '$CSP_and_IO_synchronisations_cannot_be_mixed']
        # the known leak: a quantifier whose body does not parse (the mid-rule action has pushed the binder's frame, the rule never completes)
        leakish = bool(re.search(r'\b(forall|exists|sum)\b', bad)) and any(e[0].startswith('$syntax_error') for e in errs)
        if stray:
            run.fail('a fault in the %s at %s is reported for another block: %s at %s' % (S['what'], S['xpath'], stray[0][0], stray[0][1]),
                     dict(xml=x, faulted_label=S['xpath'], text=bad, stray=stray[:3]), shape='frame-leak' if leakish else 'stray-diagnostic:' + S['what'])
            continue
        if rr['r' + cid]['status'] != 'ok':
            continue
        # the documents are compared as the builder leaves them (the type checker, which rewrites invariants and marks instantiated templates, does not run after a syntax error)
        lb, lc = doc_lines(rr['r' + bid[1:]]['cmds']), doc_lines(rr['r' + cid]['cmds'])
        mb = [mask(l, S['field']) if l.startswith(S['line']) else l for l in lb]
        mc = [mask(l, S['field']) if l.startswith(S['line']) else l for l in lc]
        if mb != mc:
            diff = next(((p, q) for p, q in zip(mb + ['<end>'], mc + ['<end>']) if p != q), None)
            run.fail('a fault in the %s at %s changes the document elsewhere: %r became %r' % (S['what'], S['xpath'], diff[0][:160], diff[1][:160]),
                     dict(xml=x, faulted_label=S['xpath'], text=bad, fault_free=diff[0], faulted=diff[1]),
                     shape='frame-leak' if leakish and ('@tmpl' in diff[1] or '@nested' in diff[1]) else
                           ('stray-fragment:location' if S['what'] == 'rate' and diff[0].startswith(S['line']) and leaves_stray_fragment(bad) else 'spill:' + S['what'] + ':' + re.sub(r'\d+', 'N', diff[0].split('=')[0])[:30]))
        # an ill-typed (not ill-formed) label: the type checker still runs over the whole document; what it does to the other labels (the rewriting of invariants,
        # the flags it derives from them) must be what it does in the fault-free document
        # (diagnostics the builder itself raises - unknown names, ill-typed binders - keep the type checker from running at all, as a syntax error does)
        tc_only = all('ctx="(typechecking)"' in l for cc in c['cmds'] if cc[0] == 'DUMP' and cc[1] == 'errors' for l in cc[2] if l.startswith('error'))
        if errs and tc_only and not any(e[0].startswith('$syntax_error') for e in errs) and rr[bid]['status'] == 'ok':
            keep = lambda cmds: [mask(l, S['field']) if l.startswith(S['line']) else l for l in doc_lines(cmds) if re.match(r't\d+ (loc|edge|bp) ', l)]
            tb, tc = keep(rr[bid]['cmds']), keep(c['cmds'])
            fl = lambda cmds: [l for cc in cmds if cc[0] == 'DUMP' and cc[1] == 'flags' for l in cc[2]]
            if tb != tc:
                diff = next(((p, q) for p, q in zip(tb + ['<end>'], tc + ['<end>']) if p != q), None)
                run.fail('an ill-typed %s at %s changes what the type checker leaves in another label: %r became %r' % (S['what'], S['xpath'], diff[0][:160], diff[1][:160]),
                         dict(xml=x, faulted_label=S['xpath'], text=bad, fault_free=diff[0], faulted=diff[1]), shape='typed-spill:' + S['what'] + ':' + re.sub(r'\d+', 'N', diff[0].split('=')[0])[:30])
            elif S['what'] not in ('invariant',) and fl(rr[bid]['cmds']) != fl(c['cmds']):
                run.fail('an ill-typed %s at %s changes the flags the document derives from its invariants and guards: %s became %s' % (S['what'], S['xpath'], fl(rr[bid]['cmds']), fl(c['cmds'])),
                         dict(xml=x, faulted_label=S['xpath'], text=bad), shape='typed-spill:flags:' + S['what'])
    stats.update(xta_labels(run, thorough))
    bd = rr['dbase']
    base_lines = [l for l in doc_lines(bd['cmds']) if l.startswith('global ')]
    def named(lines, names):
        return [re.sub(r'^global (var|fun) \d+ ', r'global \1 ', l) for l in lines if re.match(r'global (var|fun) \d+ (\w+) ', l) and re.match(r'global (var|fun) \d+ (\w+) ', l).group(2) in names
                or re.match(r'global typedef (\w+) ', l) and re.match(r'global typedef (\w+) ', l).group(1) in names]
    NAMES = ['d0', 'd1', 'd2', 't3', 'd4', 'd5', 'f6', 'd7', 'd8', 'd9', 'f10', 'd11']
    for cid, i, bad, x in dcases:
        c = rr[cid]
        if c['status'] != 'ok':
            stats['crashes'] += 1
            run.fail('%s while parsing a declaration block with one faulted declaration' % c['status'], dict(xml=x, declaration=bad, status=c['status']), shape='crash:%s' % c['status'].split()[0])
            continue
        stats['decl_faults'] += 1
        want = named(base_lines, set(NAMES[:i]))
        got = named([l for l in doc_lines(c['cmds']) if l.startswith('global ')], set(NAMES[:i]))
        it = iter(got)
        if not all(any(w == g for g in it) for w in want):         # the earlier declarations, unchanged and in order (the faulted text may add a declaration that reuses one of their names)
            diff = [w for w in want if w not in got][:2]
            run.fail('a fault in declaration %d (%r) loses or changes an earlier declaration: %s' % (i, bad[:60], diff[0][:120] if diff else 'order changed'),
                     dict(xml=x, declaration_index=i, text=bad, missing_or_changed=diff), shape='decl-prefix:' + (re.sub(r'\d+', 'N', diff[0].split(':')[0]) if diff else 'order'))
    stats['sites'] = dict(stats['sites'])
    run.cov.update(evaluations=len(cases) + len(dcases) + nm + 1, distinct_nontrivial=len(set(c[4] for c in cases)) + len(set(d[3] for d in dcases)), traces_validated_against_impl=len(cases) + len(dcases),
                   rule='accepted models of the C04 generator (templates with a local that shadows a global); one fault per run in one invariant / rate / guard / synchronisation / update / probability label: a token deleted, inserted, replaced or duplicated at a random position, '
                        'or a fault from a list aimed at the parser\'s mid-rule actions (unfinished forall / exists / sum, unbalanced brackets, calls, array and dot expressions, unknown identifiers, type errors, empty label) or an ill-typed instance of one expression constructor (34 forms); '
                        'with symbol bindings dumped (name@frame:type), everything but the faulted field must equal the fault-free dump line by line and every diagnostic must carry the faulted label\'s path; '
                        'declaration blocks of 12 declarations (variables, constants, typedefs, arrays, structs, functions) with one declaration truncated or token-mutated: all earlier declarations must be present and unchanged',
                   **stats)
    run.cov['trusted_base'] += ['LRStack.v / gen_lr.py (see C01)', 'hand models DocModel.v (builder callbacks) and DeclModel.v (append-only declarations)', 'tools/docgen.py, tools/crashgen.py', 'utapdump BIND / DUMP doc']
    return run.finish('proof', assumptions=['the upper half of block isolation (a block leaves no frame, fragment or type behind) is refuted on the pinned tree for unfinished quantifiers (known finding C16-frame-leak); the theorems cover the lower half and the edge / declaration models',
                                            'select labels declare names and are excluded by the statement'])
