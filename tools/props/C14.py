"""C14 — typing of commutative operators and inline-if is symmetric in its operands."""
import os, re
import vlib, typingfix as tf

COMM = ['PLUS', 'MULT', 'EQ', 'NEQ', 'AND', 'OR', 'BIT_AND', 'BIT_OR', 'BIT_XOR', 'MIN', 'MAX']


def check(run):
    thorough = run.tier == 'thorough'
    pr = run.proofs()
    drv, err = vlib.build_extract('typing', 'Extract_Typing.v', 'drv_typing') if os.path.exists(os.path.join(vlib.COQ, 'theories', 'TypeSym.vo')) else (None, 'TypeSym.vo missing')
    if drv is None:
        run.tie_broken('extraction of the typing model', err)
        return run.finish('proof')
    T = tf.model_tables(drv)
    classes = list(tf.REPS)
    # ---- exhaustive class-table correspondence: every operator x every ordered pair of realised classes ----
    cases = []
    for op, sym in tf.OPS.items():
        for a in classes:
            for b in classes:
                ra, rb = tf.REPS[a][0], tf.REPS[b][-1] if a == b and len(tf.REPS[b]) > 1 else tf.REPS[b][0]
                cases.append(('B', op, a, b, '(%s) %s (%s)' % (ra, sym, rb)))
                if thorough or run.rng.random() < 0.25:
                    for ra2 in tf.REPS[a][1:2]:
                        cases.append(('B', op, a, b, '(%s) %s (%s)' % (ra2, sym, tf.REPS[b][0])))
    for cnd in ['CBool', 'CInt', 'CGuard', 'CConstraint', 'CDouble']:
        for a in classes:
            for b in classes:
                rb = tf.REPS[b][-1] if a == b and len(tf.REPS[b]) > 1 else tf.REPS[b][0]
                cases.append(('I', cnd, a, b, '(%s) ? (%s) : (%s)' % (tf.REPS[cnd][0], tf.REPS[a][0], rb)))
    real = tf.texpr_all([c[4] for c in cases])
    mism, nsym, asym = [], 0, {}
    verdict = {}
    for (kind, op, a, b, txt), (rcls, errs) in zip(cases, real):
        if rcls and rcls.startswith('CRASH'):
            run.fail('type checker crashed on %r (%s)' % (txt, rcls), dict(expr=txt), shape='crash')
            continue
        m = T.get((kind, op, a, b))
        mb = tf.base(m) if m != 'None' else None
        verdict.setdefault((kind, op, a, b), (rcls, txt))
        if mb != rcls:
            mism.append(dict(expr=txt, op=op, a=a, b=b, model=m, implementation=rcls, errors=errs[:2]))
    if mism:
        run.tie_broken('class-level typing model vs TypeChecker::checkExpression', mism[:8] + [dict(total=len(mism))])
    # ---- direct oracle on the implementation: both operand orders ------------------------------------------------
    for (kind, op, a, b), (rcls, txt) in sorted(verdict.items()):
        if kind == 'B' and op not in COMM:
            continue
        other = verdict.get((kind, op, b, a))
        if other is None:
            continue
        nsym += 1
        r2, txt2 = other
        if (rcls is None) != (r2 is None):
            run.fail('%s accepted in one operand order only: %r -> %s, %r -> %s' % (op, txt, rcls, txt2, r2), dict(a=txt, b=txt2),
                     shape='asym-accept:%s:%s' % (op if kind == 'B' else 'INLINE_IF', '/'.join(sorted([tf.base(a), tf.base(b)]))))
        elif rcls != r2:
            run.fail('%s: result type kind depends on operand order: %r -> %s, %r -> %s' % (op if kind == 'B' else 'inline-if', txt, rcls, txt2, r2), dict(a=txt, b=txt2),
                     shape='asym-kind:%s:%s' % (op if kind == 'B' else 'INLINE_IF', '/'.join(sorted([tf.base(a), tf.base(b)]))))
    # ---- reference / const wrappers on either side of a parameter ------------------------------------------------------
    ref_models = []
    decl = tf.FIXTURE.split('process P')[0]
    types = [('int', 'i', 'j'), ('bool', 'b', 'c'), ('double', 'd', 'e'), ('clock', 'x', 'y'), ('S0', 's0', 's0b'), ('S1', 's1', 's1'), ('Sc0', 'sc0', 'sc0b'), ('Sc1', 'sc1', 'sc1'),
             ('int[0,5]', 'ri', 'ri')]
    refcases = []
    for pt, _, _ in types:
        for at, v1, v2 in types:
            for wrap in ('%s &p', 'const %s &p', '%s p'):
                param = wrap % pt
                refcases.append((pt, at, wrap, decl + 'void g(%s) { }\nvoid h() { g(%s); }\nprocess P() { state A; init A; }\nsystem P;\n' % (param, v1)))
    j = vlib.Job()
    for k, (pt, at, wrap, model) in enumerate(refcases):
        j.case('r%d' % k, fork=True).model('xta', model).dump('errors').end()
    rr = vlib.run_jobs(j)
    acc = {}
    for k, (pt, at, wrap, model) in enumerate(refcases):
        c = rr['r%d' % k]
        errs = [l for l in c['cmds'][1][2] if l.startswith('error')] if len(c['cmds']) > 1 else ['?']
        incompat = [e for e in errs if 'Incompatible_argument' in e]
        other = [e for e in errs if 'Incompatible_argument' not in e]
        if other:
            continue          # the parameter declaration itself is not allowed (e.g. a const clock): no verdict on the argument
        acc[(pt, at, wrap)] = (len(incompat) == 0, incompat[:1])
    nref = 0
    for (pt, at, wrap), (ok, errs) in acc.items():
        if wrap == '%s p':
            continue
        nref += 1
        # a reference parameter accepts an argument exactly when the types are equivalent; equivalence is symmetric
        back = acc.get((at, pt, wrap))
        if back is not None and back[0] != ok and 'int' not in pt + at:
            run.fail('reference parameter compatibility is not symmetric: %s for parameter "%s" / argument of type %s, but %s the other way round'
                     % ('accepted' if ok else 'rejected', wrap % pt, at, 'accepted' if back[0] else 'rejected'), dict(param=wrap % pt, arg_type=at, errors=errs),
                     shape='ref-asym:%s/%s' % tuple(sorted([pt, at])))
        if pt == at and not ok:
            run.fail('argument of type %s rejected for parameter "%s" of the same type' % (at, wrap % pt), dict(param=wrap % pt, arg_type=at, errors=errs), shape='ref-same-rejected:' + pt)
    # ---- the same type spelled in two ways (range bounds as literals or through constants): equivalence must not depend on the side ----
    spell = [('int[0,5]', 'int[N0,5]'), ('int[0,5]', 'int[0,N5]'), ('int[N0,5]', 'int[Z0,5]'), ('int[1,5]', 'int[N1,5]'), ('int[0,5]', 'int[0,5]'), ('int[N0,N5]', 'int[N0,N5]'), ('int[-1,5]', 'int[M1,5]')]
    sdecl = 'const int N0 = 0; const int Z0 = 0; const int N1 = 1; const int N5 = 5; const int M1 = -1; bool cnd;\n'
    smodels = []
    for ta, tb in spell:
        for form in ('array-eq', 'array-neq', 'struct-iif', 'ref-param', 'array-iif', 'struct-eq'):
            for order in (0, 1):
                a, b = (ta, tb) if order == 0 else (tb, ta)
                if form in ('array-eq', 'array-neq', 'array-iif'):
                    d = '%s va[2]; %s vb[2];\n' % (a, b)
                    body = {'array-eq': 'cnd = va == vb;', 'array-neq': 'cnd = va != vb;', 'array-iif': 'va = cnd ? va : vb;'}[form]
                elif form in ('struct-iif', 'struct-eq'):
                    d = 'struct { %s f; } va; struct { %s f; } vb;\n' % (a, b)
                    body = 'va = cnd ? va : vb;' if form == 'struct-iif' else 'cnd = va == vb;'
                else:
                    d = '%s va; %s vb;\nvoid g(%s &p) { }\n' % (a, b, a)
                    body = 'g(vb);'
                smodels.append((ta, tb, form, order, sdecl + d + 'void h() { %s }\nprocess P() { state A; init A; }\nsystem P;\n' % body))
    j = vlib.Job()
    for k, m in enumerate(smodels):
        j.case('e%d' % k, fork=True).model('xta', m[4]).dump('errors').end()
    rr = vlib.run_jobs(j)
    sacc = {}
    for k, (ta, tb, form, order, model) in enumerate(smodels):
        c = rr['e%d' % k]
        errs = [l.split('msg="')[1].split('"')[0] for l in c['cmds'][1][2] if l.startswith('error')] if len(c['cmds']) > 1 else ['?']
        sacc[(ta, tb, form, order)] = (not errs, errs[:1], model)
    nspell = 0
    for (ta, tb, form, order), (ok, errs, model) in sacc.items():
        if order == 1:
            continue
        nspell += 1
        ok2, errs2, model2 = sacc[(ta, tb, form, 1)]
        if ok != ok2:
            run.fail('%s over the types %s and %s is %s in one order and %s in the other (%s)' % (form, ta, tb, 'accepted' if ok else 'rejected', 'accepted' if ok2 else 'rejected', (errs or errs2)[0] if (errs or errs2) else ''),
                     dict(form=form, types=[ta, tb], model=model, model_swapped=model2), shape='asym-spelling:%s' % form)
    run.cov['spelling_pairs_checked'] = nspell
    # ---- arrays whose index types differ in kind (integer range, scalar set, another scalar set of the same size) or in bounds ----
    idx = ['[3]', '[int[0,2]]', '[S]', '[S2]', '[int[1,3]]', '[4]', '[N3]']
    idecl = 'typedef scalar[3] S; typedef scalar[3] S2; const int N3 = 3; bool cnd;\n'
    imodels = []
    for a in idx:
        for b in idx:
            for form in ('array-eq', 'array-neq', 'array-iif', 'ref-param', 'array-2d-eq'):
                if form == 'ref-param':
                    d = 'int va%s; int vb%s;\nvoid g(int &p%s) { }\n' % (a, b, a); body = 'g(vb);'
                elif form == 'array-2d-eq':
                    d = 'int va[2]%s; int vb[2]%s;\n' % (a, b); body = 'cnd = va == vb;'
                else:
                    d = 'int va%s; int vb%s;\n' % (a, b)
                    body = {'array-eq': 'cnd = va == vb;', 'array-neq': 'cnd = va != vb;', 'array-iif': 'va = cnd ? va : vb;'}[form]
                imodels.append((a, b, form, idecl + d + 'void h() { %s }\nprocess P() { state A; init A; }\nsystem P;\n' % body))
    j = vlib.Job()
    for k, m in enumerate(imodels):
        j.case('i%d' % k, fork=True).model('xta', m[3]).dump('errors').end()
    rr = vlib.run_jobs(j)
    iacc = {}
    for k, (a, b, form, model) in enumerate(imodels):
        c = rr['i%d' % k]
        errs = [l.split('msg="')[1].split('"')[0] for l in c['cmds'][1][2] if l.startswith('error')] if len(c['cmds']) > 1 else ['?']
        iacc[(a, b, form)] = (not errs, errs[:1], model)
    nidx = 0
    for (a, b, form), (ok, errs, model) in iacc.items():
        ok2, errs2, model2 = iacc[(b, a, form)]
        nidx += 1
        if ok != ok2 and a < b:
            run.fail('%s over arrays indexed by %s and %s is %s in one order and %s in the other (%s)' % (form, a, b, 'accepted' if ok else 'rejected', 'accepted' if ok2 else 'rejected', (errs or errs2)[0] if (errs or errs2) else ''),
                     dict(form=form, index_types=[a, b], model=model, model_swapped=model2), shape='asym-index:%s' % form)
        if a == b and not ok:
            run.fail('%s over two arrays with the same index type %s is rejected (%s)' % (form, a, errs[0] if errs else ''), dict(form=form, index_type=a, model=model), shape='same-index-rejected:%s' % form)
    run.cov['index_type_pairs_checked'] = nidx
    # ---- inline-if where a modifiable l-value is needed: the verdict must not depend on which branch stands first ----
    ldecl = ('typedef struct { int a; int b; } LS; int li, li2; const int lc = 1, lc2 = 2; int la[2]; const int lca[2] = {1, 2}; LS ls, ls2; const LS lcs = {1, 2}; bool cnd;\n'
             'void wr(int &r) { r = 1; }\nvoid wrs(LS &r) { r.a = 1; }\n')
    lpairs = [('li', 'lc', 'int'), ('li', 'li2', 'int'), ('lc', 'lc2', 'int'), ('la[0]', 'lca[0]', 'int'), ('la[1]', 'li', 'int'), ('lca[1]', 'li', 'int'), ('ls', 'lcs', 'LS'), ('ls', 'ls2', 'LS'),
              ('ls.a', 'lcs.a', 'int'), ('ls.b', 'lc', 'int')]
    lmodels = []
    for x, y, ty in lpairs:
        for form in ('assign', 'compound', 'ref-arg', 'increment'):
            if ty == 'LS' and form in ('compound', 'increment'):
                continue
            for order in (0, 1):
                tgt = '(cnd ? %s : %s)' % (x, y) if order == 0 else '(!cnd ? %s : %s)' % (y, x)
                body = {'assign': '%s = %s;' % (tgt, 'ls2' if ty == 'LS' else '7'), 'compound': '%s += 1;' % tgt, 'increment': '%s++;' % tgt, 'ref-arg': '%s(%s);' % ('wrs' if ty == 'LS' else 'wr', tgt)}[form]
                lmodels.append((x, y, form, order, ldecl + 'void h() { %s }\nprocess P() { state A; init A; }\nsystem P;\n' % body))
    j = vlib.Job()
    for k, m in enumerate(lmodels):
        j.case('l%d' % k, fork=True).model('xta', m[4]).dump('errors').end()
    rr = vlib.run_jobs(j)
    lacc = {}
    for k, (x, y, form, order, model) in enumerate(lmodels):
        c = rr['l%d' % k]
        errs = [l.split('msg="')[1].split('"')[0] for l in c['cmds'][1][2] if l.startswith('error')] if len(c['cmds']) > 1 else ['?']
        lacc[(x, y, form, order)] = (not errs, errs[:1], model)
    nlv = 0
    for (x, y, form, order), (ok, errs, model) in lacc.items():
        if order == 1:
            continue
        nlv += 1
        ok2, errs2, model2 = lacc[(x, y, form, 1)]
        if ok != ok2:
            run.fail('%s through a conditional over %s and %s is %s with %s first and %s with %s first (%s)' % (form, x, y, 'accepted' if ok else 'rejected', x, 'accepted' if ok2 else 'rejected', y, (errs or errs2)[0] if (errs or errs2) else ''),
                     dict(form=form, operands=[x, y], model=model, model_swapped=model2), shape='asym-lvalue:%s' % form)
    # ... and where the written object decides whether a caller is side-effect free: one branch a local or a value parameter of the function, the other a global;
    # the function is called from a guard and from an invariant
    fmodels = []
    for x, y in (('l', 'li'), ('p', 'li'), ('l', 'la[0]'), ('p', 'ls.a'), ('l', 'p')):
        for form in ('assign', 'compound', 'ref-arg', 'increment'):
            for place in ('guard', 'invariant'):
                for order in (0, 1):
                    tgt = '(p > 0 ? %s : %s)' % (x, y) if order == 0 else '(!(p > 0) ? %s : %s)' % (y, x)
                    body = {'assign': '%s = 7;' % tgt, 'compound': '%s += 1;' % tgt, 'increment': '%s++;' % tgt, 'ref-arg': 'wr(%s);' % tgt}[form]
                    call = 'hf(1) == 1'
                    fmodels.append((x, y, form + ':' + place, order, ldecl + 'int hf(int p) { int l = 0; %s return p; }\nprocess P() { clock z; state A { %s }, B; init A; trans A -> B { guard %s; }; }\nsystem P;\n'
                                    % (body, call if place == 'invariant' else 'true', call if place == 'guard' else 'true')))
    j = vlib.Job()
    for k, m in enumerate(fmodels):
        j.case('f%d' % k, fork=True).model('xta', m[4]).dump('errors').end()
    rr = vlib.run_jobs(j)
    facc = {}
    for k, (x, y, form, order, model) in enumerate(fmodels):
        c = rr['f%d' % k]
        errs = [l.split('msg="')[1].split('"')[0] for l in c['cmds'][1][2] if l.startswith('error')] if len(c['cmds']) > 1 else ['?']
        facc[(x, y, form, order)] = (not errs, errs[:1], model)
    for (x, y, form, order), (ok, errs, model) in facc.items():
        if order == 1:
            continue
        nlv += 1
        ok2, errs2, model2 = facc[(x, y, form, 1)]
        if ok != ok2:
            run.fail('a function that writes through a conditional over %s and %s (%s) is %s with %s first and %s with %s first (%s)' % (x, y, form, 'accepted' if ok else 'rejected', x, 'accepted' if ok2 else 'rejected', y, (errs or errs2)[0] if (errs or errs2) else ''),
                     dict(form=form, operands=[x, y], model=model, model_swapped=model2), shape='asym-lvalue-effect:%s' % form)
    run.cov['lvalue_conditional_pairs_checked'] = nlv
    # ---- the same swaps where the checker applies further rules to the expression: guard, invariant, update, query, observation list ----
    # (every pair of operand classes for which the operator types in at least one order)
    XTA = ('int i, j; int[0,5] ri; bool b, c, bq; double d, e; clock x, y;\nprocess P() { state A { %(inv)s }, B; init A; trans A -> B { guard %(guard)s; assign %(assign)s; }; }\nsystem P;\n')
    places = {'guard': lambda e: (XTA % dict(inv='true', guard=e, assign='bq = true'), None), 'invariant': lambda e: (XTA % dict(inv=e, guard='true', assign='bq = true'), None),
              'update': lambda e: (XTA % dict(inv='true', guard='true', assign='bq = (%s)' % e), None), 'query': lambda e: (XTA % dict(inv='true', guard='true', assign='bq = true'), 'E<> (%s)' % e),
              'observation': lambda e: (XTA % dict(inv='true', guard='true', assign='bq = true'), '{ %s } control: A<> P.B' % e),
              'leadsto': lambda e: (XTA % dict(inv='true', guard='true', assign='bq = true'), '(%s) --> P.B' % e)}
    plain = ['CInt', 'CBool', 'CDouble', 'CClock', 'CDiff', 'CInvariant', 'CGuard', 'CConstraint']
    pcases = []
    for op in COMM:
        for ia, a in enumerate(plain):
            for b in plain[ia:]:
                if verdict.get(('B', op, a, b), (None,))[0] is None and verdict.get(('B', op, b, a), (None,))[0] is None:
                    continue
                for ra in tf.REPS[a][:2]:
                    rb = tf.REPS[b][-1] if a == b and len(tf.REPS[b]) > 1 else tf.REPS[b][0]
                    if ra == rb:
                        continue
                    for pl in places:
                        pcases.append((op, a, b, pl, '(%s) %s (%s)' % (ra, tf.OPS[op], rb), '(%s) %s (%s)' % (rb, tf.OPS[op], ra)))
    # operands that contain a dynamic construct (spawn), directly and nested: where such constructs are not allowed the refusal must not depend on the operand order
    XTD = ('int i, j; bool b, bq; double d; clock x;\ndynamic DT();\nprocess DT() { state S0; init S0; }\n%(glob)s\nprocess P() { state A, B; init A; trans A -> B { guard %(guard)s; assign %(assign)s; }; }\nsystem P;\n')
    places['function-body'] = lambda e: (XTD % dict(glob='void fb() { i = (%s) ? 1 : 0; }' % e if ('==' in e or '!=' in e or '&&' in e or '||' in e) else 'void fb() { i = %s; }' % e, guard='true', assign='bq = true'), None)
    places['dyn-update'] = lambda e: (XTD % dict(glob='', guard='true', assign='i = ((%s) ? 1 : 0)' % e if ('==' in e or '!=' in e or '&&' in e or '||' in e) else 'i = %s' % e), None)
    places['dyn-guard'] = lambda e: (XTD % dict(glob='', guard='(%s) == 1' % e if not ('==' in e or '!=' in e or '&&' in e or '||' in e) else e, assign='bq = true'), None)
    for op in COMM:
        for dyn in ('spawn DT()', '(spawn DT() + 1)', '((spawn DT() + 1) * 2)'):
            for other in ('i', '(j + 1)'):
                for pl in ('function-body', 'dyn-update', 'dyn-guard'):
                    pcases.append((op, 'CDyn', 'CInt', pl, '%s %s %s' % (dyn, tf.OPS[op], other), '%s %s %s' % (other, tf.OPS[op], dyn)))
    for dyn in ('spawn DT()', '(spawn DT() + 1)'):
        for pl in ('function-body', 'dyn-update'):
            pcases.append(('INLINE_IF', 'CDyn', 'CInt', pl, 'b ? %s : i' % dyn, '!b ? i : %s' % dyn))
    j = vlib.Job()
    for k, (op, a, b, pl, e1, e2) in enumerate(pcases):
        for o, e in enumerate((e1, e2)):
            m, q = places[pl](e)
            j.case('pl%d_%d' % (k, o), fork=True).model('xta', m).dump('errors')
            if q:
                j.query(q, rt=False)
            j.end()
    rr = vlib.run_jobs(j)
    nplaced = 0
    for k, (op, a, b, pl, e1, e2) in enumerate(pcases):
        res = []
        for o in (0, 1):
            c = rr['pl%d_%d' % (k, o)]
            if c['status'] != 'ok':
                run.fail('type checker crashed on %r as %s' % ((e1, e2)[o], pl), dict(expr=(e1, e2)[o], place=pl, status=c['status']), shape='crash:placed')
                res = None
                break
            errs = sorted(l.split('msg="')[1].split('"')[0] for l in c['cmds'][1][2] if l.startswith('error'))
            if len(c['cmds']) > 2:
                errs += sorted(l.split('msg="')[1].split('"')[0] for l in c['cmds'][2][2] if l.startswith('error'))
                if not any(l.startswith('accepted 1') for l in c['cmds'][2][2]) and not errs:
                    errs = ['query rejected']
            res.append(errs)
        if res is None:
            continue
        nplaced += 1
        if (not res[0]) != (not res[1]) or res[0] != res[1]:
            run.fail('as %s, %r gives %s and %r gives %s' % (pl, e1, res[0][:2] or 'no diagnostic', e2, res[1][:2] or 'no diagnostic'), dict(place=pl, a=e1, b=e2, diagnostics=res),
                     shape='asym-placed:%s:%s:%s' % (pl, op, '/'.join(sorted([a, b]))))
    run.cov['placed_pairs_checked'] = nplaced
    run.cov.update(evaluations=len(cases) + len(refcases) + len(smodels) + len(imodels) + len(lmodels) + 2 * len(pcases), distinct_nontrivial=len(verdict), traces_validated_against_impl=len(cases), exhaustive=True,
                   rule='exhaustive: every binary operator of the typing table x every ordered pair of the %d realised operand classes (int, bounded int, bool, double, clock, clock difference, rate, invariant, guard, '
                        'constraint, two struct types, two array types, two scalar sets, three channel kinds, void), and inline-if over 5 condition classes x all branch pairs: '
                        'implementation class vs extracted Coq table; then both operand orders compared on the implementation; plus reference/const parameter x argument type matrix' % len(classes),
                   samples=[dict(expr=c[4], model=T.get((c[0], c[1], c[2], c[3])), implementation=r[0]) for c, r in list(zip(cases, real))[:3]],
                   symmetric_pairs_checked=nsym, ref_parameter_cases=nref, classes_not_realised=tf.NOT_REALISED)
    run.cov['trusted_base'] += ['hand model Typing.v of the operator clauses of checkExpression (tied by the exhaustive table correspondence)', 'Coq extraction, drv_typing.ml', 'utapdump TEXPR']
    return run.finish('proof', assumptions=['classes CCost, CFormula, CString are in the model but not realisable as operands in a declaration fixture',
                                            'range-sensitive equivalence of bounded integers is modelled structurally (TypeSym.equiv) but compared at class level only'])
