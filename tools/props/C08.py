"""C08 — parsed documents satisfy the structural invariants clients rely on."""
import os, re, subprocess
import vlib, docgen


# ---------------------------------------------------------------- instances: scenario generator ----------------------
def gen_scenario(rng):
    """templates, a chain of (partial) instantiations — some rejected — and a system line"""
    S = dict(templates=[], insts=[], system=[])
    mk = [1000]
    def marker():
        mk[0] += 1
        return mk[0]
    nt = rng.randrange(1, 4)
    for t in range(nt):
        S['templates'].append(dict(name='T%d' % t, params=['a%d_%d' % (t, k) for k in range(rng.randrange(0, 4))]))
    # model bookkeeping: entries of the model's instance list (templates first, in order)
    entries = [dict(name=T['name'], arity=len(T['params'])) for T in S['templates']]
    ni = rng.randrange(0, 7)
    for k in range(ni):
        name = 'I%d' % k
        newp = ['q%d_%d' % (k, j) for j in range(rng.randrange(0, 3))]
        r = rng.random()
        if r < 0.08:
            src, srcname, want = 999, 'Nope', rng.randrange(0, 3)
        else:
            src = rng.randrange(len(entries)); srcname = entries[src]['name']; want = entries[src]['arity']
        nargs = want
        if r > 0.85:
            nargs = max(0, want + rng.choice([-1, 1, 2]))
        args = []
        for j in range(nargs):
            if newp and rng.random() < 0.5:
                args.append(('p', rng.randrange(len(newp))))
            else:
                args.append(('c', marker()))
        S['insts'].append(dict(name=name, params=newp, src=src, srcname=srcname, args=args))
        if src != 999 and nargs == want:
            entries.append(dict(name=name, arity=len(newp)))
    for k, e in enumerate(entries):
        if rng.random() < 0.6:
            S['system'].append((k, e['name']))
    if not S['system']:
        S['system'].append((0, entries[0]['name']))
    rng.shuffle(S['system'])
    return S


def scenario_ops(S):
    ops = ['t%d' % len(T['params']) for T in S['templates']]
    for I in S['insts']:
        ops.append('i%d,%d%s' % (I['src'], len(I['params']), ''.join(',%d' % (a[1] if a[0] == 'c' else 100000 + a[1]) for a in I['args'])))
    ops += ['p%d' % k for k, _ in S['system']]
    return ' '.join(ops)


def scenario_names(S):
    """symbol id -> parameter name, replaying the model's allocation (every instantiation consumes its fresh symbols)"""
    names = []
    for T in S['templates']:
        names += T['params']
    for I in S['insts']:
        names += I['params']
    return names


def scenario_text(S):
    decl = 'int g0;\n'
    sysl = ''
    for I in S['insts']:
        ps = ', '.join('int[0,30000] %s' % p for p in I['params'])
        args = ', '.join(str(a[1]) if a[0] == 'c' else I['params'][a[1]] for a in I['args'])
        sysl += '%s%s = %s(%s);\n' % (I['name'], '(%s)' % ps if I['params'] else ('()' if sum(map(ord, I['name'])) % 2 else ''), I['srcname'], args)
    sysl += 'system %s;\n' % ', '.join(n for _, n in S['system'])
    return decl, sysl


def scenario_xml(S):
    decl, sysl = scenario_text(S)
    out = ['<?xml version="1.0" encoding="utf-8"?>\n<nta>\n<declaration>%s</declaration>\n' % decl]
    for T in S['templates']:
        out.append('<template><name>%s</name><parameter>%s</parameter><location id="id%s"><name>L</name></location><init ref="id%s"/></template>\n'
                   % (T['name'], ', '.join('int[0,30000] %s' % p for p in T['params']), T['name'], T['name']))
    out.append('<system>%s</system>\n</nta>\n' % docgen.XESC(sysl))
    return ''.join(out)


def scenario_xta(S):
    decl, sysl = scenario_text(S)
    out = [decl]
    for T in S['templates']:
        out.append('process %s(%s) { state L; init L; }\n' % (T['name'], ', '.join('int[0,30000] %s' % p for p in T['params'])))
    return ''.join(out) + sysl


def model_instances(line, names, insts):
    """drv_inst output -> comparable records (instances, processes)"""
    m = re.match(r'I (.*?) ?P ?(.*)$', line)
    def rec(w):
        mm = re.match(r'(\d+)/(\d+)/(\d+)/(\d)\[(.*?)\]\[(.*?)\]$', w)
        ps = [names[int(x)] for x in mm.group(5).split(',') if x]
        mp = {}
        for kv in [x for x in mm.group(6).split(',') if x]:
            k, v = kv.split('=')
            mp[names[int(k)]] = int(v)
        return dict(unbound=int(mm.group(1)), arity=int(mm.group(2)), templ=int(mm.group(3)), ok=mm.group(4) == '1', params=ps, mapping=mp)
    return [rec(w) for w in m.group(1).split()], [rec(w) for w in m.group(2).split()]


def real_instances(lines):
    I, P = [], []
    for l in lines:
        m = re.match(r'(?:arity=(\d+) )?(instance|process) \d+ name=(\S+) templ=(\S+) params=\[(.*?)\] unbound=(\d+) arguments=(\d+) mapping=\{(.*?)\} nmapping=(\d+)', l)
        if not m:
            continue
        ps = [x.strip().split(' ')[-1] for x in m.group(5).split(';') if x.strip()]
        mp = {}
        for item in m.group(8).split('; '):
            if ':=' in item:
                pn, ex = item.split(':=', 1)
                c = re.search(r'i:(\d+)', ex)
                idm = re.search(r'\(IDENTIFIER (\w+)\)', ex)
                mp[pn.strip()] = int(c.group(1)) if c else ('id:' + idm.group(1) if idm else ex)
        r = dict(name=m.group(3), templ=m.group(4), params=ps, unbound=int(m.group(6)), mapping=mp, nmapping=int(m.group(9)), arity=int(m.group(1)) if m.group(1) else None)
        (I if m.group(2) == 'instance' else P).append(r)
    return I, P


def compare_instances(S, mi, mp, ri, rp):
    def same(m, r, what):
        if m['unbound'] != r['unbound']: return '%s %s: unbound expected %d, got %d' % (what, r['name'], m['unbound'], r['unbound'])
        if m['params'] != r['params']: return '%s %s: parameters expected %r, got %r' % (what, r['name'], m['params'], r['params'])
        if r['arity'] is not None and m['arity'] != r['arity']: return '%s %s: type arity expected %d, got %d' % (what, r['name'], m['arity'], r['arity'])
        exp = {}
        for k, v in m['mapping'].items():
            exp[k] = v
        got = dict(r['mapping'])
        if set(exp) != set(got) or r['nmapping'] != len(exp): return '%s %s: mapped parameters expected %r, got %r (size %d)' % (what, r['name'], sorted(exp), sorted(got), r['nmapping'])
        for k in exp:
            if exp[k] >= 100000:
                if not str(got[k]).startswith('id:'): return '%s %s: parameter %s expected a parameter reference, got %r' % (what, r['name'], k, got[k])
            elif exp[k] != got[k]:
                return '%s %s: parameter %s bound to %r, expected %r' % (what, r['name'], k, got[k], exp[k])
        return None
    if len(mi) != len(ri): return 'expected %d instances, document has %d' % (len(mi), len(ri))
    if len(mp) != len(rp): return 'expected %d processes, document has %d' % (len(mp), len(rp))
    for m, r in zip(mi, ri):
        d = same(m, r, 'instance')
        if d: return d
    for m, r in zip(mp, rp):
        d = same(m, r, 'process')
        if d: return d
    return None


# ---------------------------------------------------------------- faulty inputs for the invariant traversal -----------
def mutate_text(rng, text, xml):
    """one or two structure-level faults: duplicated / deleted / swapped lines, renamed references, dropped tokens"""
    lines = text.split('\n')
    if rng.random() < 0.12:
        # an init that names something other than a location of the template: a branchpoint, a variable, a location of another template
        if xml:
            ids = re.findall(r'<(?:branchpoint|location)[^>]*\bid="(\w+)"', text)
            bps = re.findall(r'<branchpoint[^>]*\bid="(\w+)"', text)
            ks = [k for k, l in enumerate(lines) if '<init ' in l]
            if ids and ks:
                k = rng.choice(ks)
                o = rng.choice(bps if bps and rng.random() < 0.7 else ids)
                lines[k] = re.sub(r'(<init\s+ref=")\w+(")', lambda m: m.group(1) + o + m.group(2), lines[k], count=1)
                return '\n'.join(lines)
        else:
            bps = re.findall(r'\bbranchpoint\s+(\w+)', text)
            others = bps if bps and rng.random() < 0.7 else re.findall(r'\b(?:int|clock|bool|chan|process|void|branchpoint)\b(?:\s*\[[^\]]*\])?\s+(\w+)', text)
            ks = [k for k, l in enumerate(lines) if re.search(r'\binit\s+\w+\s*;', l)]
            if others and ks:
                k = rng.choice(ks)
                o = rng.choice(others)
                lines[k] = re.sub(r'\binit\s+\w+\s*;', 'init %s;' % o, lines[k], count=1)
                return '\n'.join(lines)
    if not xml and rng.random() < 0.25:
        # an edge end that names something other than a location: a variable, a clock, a parameter, a template, a function
        others = re.findall(r'\b(?:int|clock|bool|chan|process|void)\b(?:\s*\[[^\]]*\])?\s+(\w+)', text)
        ks = [k for k, l in enumerate(lines) if re.search(r'\w+\s*->\s*\w+', l)]
        if others and ks:
            k = rng.choice(ks)
            o = rng.choice(others)
            lines[k] = re.sub(r'(\w+)(\s*->\s*)(\w+)', (lambda m: m.group(1) + m.group(2) + o) if rng.random() < 0.6 else (lambda m: o + m.group(2) + m.group(3)), lines[k], count=1)
            return '\n'.join(lines)
    for _ in range(rng.choice([1, 1, 2])):
        k = rng.randrange(len(lines))
        r = rng.random()
        if r < 0.25:
            lines.insert(k, lines[k])                                     # duplicate (duplicate ids / names / declarations)
        elif r < 0.45:
            del lines[k]                                                  # missing init / location / declaration / closing brace
        elif r < 0.6:
            lines[k] = re.sub(r'id(\d+)', lambda m: 'id%d' % (int(m.group(1)) + rng.choice([1, 7, 50])), lines[k], count=1)   # dangling reference
        elif r < 0.7:
            lines[k] = re.sub(r'\b([LTPgvcs])(\d\w*)', lambda m: m.group(1) + str(rng.randrange(0, 3)) + '_9', lines[k], count=1)  # unknown / clashing name
        elif r < 0.85:
            toks = re.findall(r'\w+|\s+|[^\w\s]', lines[k])
            if toks:
                del toks[rng.randrange(len(toks))]
            lines[k] = ''.join(toks)                                      # token deletion (syntax error, unbalanced tag)
        else:
            j = rng.randrange(len(lines))
            lines[k], lines[j] = lines[j], lines[k]                       # reordering (use before declaration, init before state)
        if not lines:
            lines = ['']
    return '\n'.join(lines)


def dynamic_scenarios(run, rng, n):
    """declarations of dynamic templates (with and without parameters, defined later or only declared) between ordinary parameterised templates and
    instantiations: the traversal covers them as INSTANCE symbols of the global frame; the number of parameters of each is compared with its declaration"""
    cases = []
    for _ in range(n):
        items, decls, procs, insts = [], [], [], []
        for k in range(rng.randrange(2, 7)):
            r = rng.random()
            if r < 0.45:
                np = rng.choice([0, 0, 1, 2])
                items.append(('dyn', 'D%d' % k, np, rng.random() < 0.5))
            elif r < 0.8:
                items.append(('proc', 'B%d' % k, rng.choice([0, 1, 2, 3])))
            else:
                items.append(('inst', 'I%d' % k))
        text, later, want = '', '', {}
        plist = lambda np, pfx: ', '.join('%sint %s%d' % ('const ' if rng.random() < 0.5 else '', pfx, q) for q in range(np))
        templs = []
        for it in items:
            if it[0] == 'dyn':
                pl = plist(it[2], 'a')
                text += 'dynamic %s(%s);\n' % (it[1], pl)
                want[it[1]] = it[2]
                if it[3]:
                    later += 'process %s(%s) { state s; init s; }\n' % (it[1], pl)
            elif it[0] == 'proc':
                text += 'process %s(%s) { state s; init s; }\n' % (it[1], ', '.join('const int n%d' % q for q in range(it[2])))
                templs.append((it[1], it[2]))
                want[it[1]] = it[2]
            elif templs:
                tn, np = rng.choice(templs)
                text += '%s = %s(%s);\n' % (it[1], tn, ', '.join(str(q + 1) for q in range(np)))
                insts.append(it[1])
        text += later
        sysl = insts or [tn for tn, np in templs if np == 0]
        if not sysl:
            text += 'process Z() { state s; init s; }\n'
            sysl = ['Z']
        cases.append((text + 'system %s;\n' % ', '.join(sysl), want))
    j = vlib.Job()
    for k, (text, want) in enumerate(cases):
        j.case('y%d' % k, fork=True).model('xta', text).dump('errors').dump('instances').dump('inv').end()
    rr = vlib.run_jobs(j)
    for k, (text, want) in enumerate(cases):
        c = rr['y%d' % k]
        if c['status'] != 'ok' or len(c['cmds']) < 4:
            run.fail('parser crashed on declarations of dynamic templates (%s)' % c['status'], dict(text=text, status=c['status']), shape='crash:dynamic-declarations')
            continue
        errs = [l for l in c['cmds'][1][2] if l.startswith('error')]
        if errs:
            run.fail('a model that declares dynamic templates is rejected: %s' % errs[0][:160], dict(text=text, errors=errs[:3]), shape='dynamic-declarations:rejected')
            continue
        fails = [l for l in c['cmds'][3][2] if l.startswith('INVFAIL')]
        if fails:
            run.fail('structural invariant broken after declarations of dynamic templates: ' + fails[0], dict(text=text, fails=fails[:3]), shape='inv:dynamic:' + re.sub(r'\b[DBI]\d+\b', 'N', re.sub(r'\d+', 'N', fails[0]))[:50])
            continue
        for l in c['cmds'][2][2]:
            m = re.match(r'(?:arity=\d+ )?instance \d+ name=(\S+) templ=\S+ params=\[(.*?)\] unbound=(\d+)', l)
            if m and m.group(1) in want:
                np = len([x for x in m.group(2).split(';') if x.strip()])
                if np != want[m.group(1)]:
                    run.fail('%s is declared with %d parameters, the document gives it %d (%s)' % (m.group(1), want[m.group(1)], np, m.group(2)), dict(text=text, line=l), shape='dynamic-declarations:parameter-count')
    return len(cases)


def check(run):
    thorough = run.tier == 'thorough'
    rng = run.rng
    run.proofs()
    drv, err = vlib.build_extract('inst', 'Extract_Inst.v', 'drv_inst') if os.path.exists(os.path.join(vlib.COQ, 'theories', 'InstProofs.vo')) else (None, 'InstProofs.vo missing')
    if drv is None:
        run.tie_broken('extraction of the instance model', err)
        return run.finish('proof')
    # ---- A: instance bookkeeping, model vs implementation, both front ends
    n = 1500 if thorough else 250
    scen = [gen_scenario(rng) for _ in range(n)]
    out = subprocess.run([drv], input='\n'.join(scenario_ops(S) for S in scen) + '\n', stdout=subprocess.PIPE, universal_newlines=True).stdout.split('\n')
    j = vlib.Job()
    for k, S in enumerate(scen):
        j.case('x%d' % k, fork=True).model('xml', scenario_xml(S)).dump('errors').dump('instances').dump('inv').end()
        j.case('t%d' % k, fork=True).model('xta', scenario_xta(S)).dump('errors').dump('instances').dump('inv').end()
    rr = vlib.run_jobs(j)
    mism = []
    stats = dict(instances=0, partial=0, rejected_instantiations=0, processes=0, faulty_inputs=0, faulty_with_errors=0, faulty_exceptions=0, faulty_crashes=0, inv_traversals=0)
    for k, S in enumerate(scen):
        names = scenario_names(S)
        mi, mp = model_instances(out[k], names, S)
        if not all(m['ok'] for m in mi + mp):
            run.tie_broken('inst_okb false on a model state (the theorem says it cannot be)', dict(ops=scenario_ops(S)))
        for fmt in 'xt':
            c = rr['%s%d' % (fmt, k)]
            src = scenario_xml(S) if fmt == 'x' else scenario_xta(S)
            if len(c['cmds']) < 4:
                continue                                                  # the system line named a rejected instance: NoSuchProcessError, or a crash (C01)
            ri, rp = real_instances(c['cmds'][2][2])
            invf = [l for l in c['cmds'][3][2] if l.startswith('INVFAIL')]
            stats['inv_traversals'] += 1
            if invf:
                run.fail('structural invariant broken: ' + invf[0], dict(input=src, fails=invf[:4], format=fmt), shape='inv:' + re.sub(r'[0-9]+', 'N', re.sub(r'(instance|process|template) \S+', r'\1', invf[0]))[:60])
                continue
            # a system-line entry that does not exist ends the parse with an exception: processes then stop early
            d = compare_instances(S, mi, mp[:len(rp)] if len(rp) < len(mp) and any('NoSuch' in l or 'EXC' in l for cc in c['cmds'] for l in cc[2]) else mp, ri, rp)
            if d:
                mism.append(dict(difference=d, format=fmt, input=src[:1500], ops=scenario_ops(S), model=out[k][:600]))
        stats['instances'] += len(mi); stats['partial'] += sum(1 for m in mi if m['unbound'] and m['mapping']); stats['processes'] += len(mp)
        stats['rejected_instantiations'] += len(S['templates']) + len(S['insts']) - len(mi)
    if mism:
        # a disagreement between InstModel and the document: search whether the real document also breaks the stated invariant
        run.tie_broken('InstModel vs Document::add_instance / add_process', mism[:3] + [dict(total=len(mism))])
    # ---- B: the invariant traversal after faulty, recovered and throwing parses
    nb = 3000 if thorough else 500
    j = vlib.Job()
    srcs = {}
    for k in range(nb):
        xta = rng.random() < 0.4
        M = docgen.gen(rng, ntempl=rng.choice([1, 2, 3]), allow_anon=not xta, branchpoints=not xta, xta_common=xta)
        text = docgen.render_xta(M) if xta else docgen.render_xml(M)
        if rng.random() < 0.9:
            text = mutate_text(rng, text, not xta)
        srcs['f%d' % k] = (text, xta)
        j.case('f%d' % k, fork=True).model('xta' if xta else 'xml', text).dump('errors').dump('inv').end()
    rr = vlib.run_jobs(j)
    for cid, (text, xta) in srcs.items():
        c = rr[cid]
        stats['faulty_inputs'] += 1
        if c['status'] != 'ok':
            stats['faulty_crashes'] += 1                                 # C01's business; nothing to traverse
            continue
        flat = [l for cc in c['cmds'] for l in cc[2]]
        if any(l.startswith('EXC') for l in flat): stats['faulty_exceptions'] += 1
        if any(l.startswith('error') for l in flat): stats['faulty_with_errors'] += 1
        invl = [cc for cc in c['cmds'] if cc[0] == 'DUMP' and cc[1] == 'inv']
        if not invl:
            continue
        stats['inv_traversals'] += 1
        invf = [l for l in invl[0][2] if l.startswith('INVFAIL')]
        if invf:
            run.fail('structural invariant broken after a faulty parse: ' + invf[0], dict(input=text, xta=xta, fails=invf[:4]),
                     shape='inv:' + re.sub(r'[0-9]+', 'N', re.sub(r'(instance|process|template) \S+', r'\1', invf[0]))[:60])
    stats['dynamic_template_scenarios'] = dynamic_scenarios(run, rng, 400 if thorough else 80)
    run.cov.update(evaluations=2 * len(scen) + nb, distinct_nontrivial=len(set(scenario_ops(S) for S in scen)) + len(set(t for t, _ in srcs.values())),
                   traces_validated_against_impl=2 * len(scen),
                   rule='(A) seeded random declaration scenarios: 1-3 templates with 0-3 parameters, chains of up to 6 full / partial instantiations (arguments: constants or the new parameters), '
                        'instantiations rejected for too few / too many arguments or an unknown template, system lines over templates and instances, in XML and in XTA; the document\'s instances and processes '
                        '(parameter order, unbound count, type arity, mapped parameters and their arguments) must equal the extracted Coq model. '
                        '(B) generated models in XML and XTA with structure-level faults (duplicated / deleted / swapped lines, dangling references, unknown or clashing names, deleted tokens); '
                        'after every parse — normal, with diagnostics, or ended by an exception — the full invariant traversal (user objects, edge end points, dense numbering, instances, init when error-free) must report nothing',
                   **stats)
    run.cov['trusted_base'] += ['hand models InstModel.v (add_template / add_instance / add_process, numbering, back pointers) and DocModel.v (builder callbacks)',
                                'utapdump check_inv (the executable form of the invariant) and DUMP instances', 'drv_inst.ml', 'tools/docgen.py']
    return run.finish('proof', assumptions=['pointer stability of std::list / std::deque is runtime behaviour the model cannot exhibit: back pointers are modelled as (container, index)',
                                            'crashing inputs are C01\'s subject and are only counted here'])
