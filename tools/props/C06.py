"""C06 — every diagnostic points into the element, line and columns that caused it."""
import os, re, subprocess
import xml.etree.ElementTree as ET
import vlib, crashgen

IDENT = re.compile(r'^[A-Za-z_][A-Za-z0-9_]*$')
KEYWORDS = {'int', 'bool', 'clock', 'chan', 'const', 'void', 'return', 'true', 'false', 'system', 'forall', 'if', 'else', 'for', 'while', 'broadcast', 'urgent', 'struct', 'typedef', 'double'}

# blocks of the base model as token lists (an accepted model)
SYSTEM_LISTS = ['P , Q , R', 'P < Q < R', 'P , Q < R', 'R < P , Q', 'Q , R']


def base_blocks(rng, sysl=None):
    return [
        ('gdecl', 'declaration', 'decl', 'int i , j ; bool b ; clock x , y ; chan c ; const int N = 3 ; int arr [ N ] ; int f ( int p ) { return p + N ; }'.split()),
        ('t1param', 'template[1]/parameter', 'decl', 'const int id , int [ 0 , 3 ] r'.split()),
        ('t1decl', 'template[1]/declaration', 'decl', 'int k = 2 ; clock z ; void g ( ) { k = k + id ; }'.split()),
        ('t1inv', 'template[1]/location[1]/label[1]', 'invariant', 'z <= N + k && x <= 10'.split()),
        ('t1select', 'template[1]/transition[1]/label[1]', 'select', 's : int [ 0 , N ]'.split()),
        ('t1guard', 'template[1]/transition[1]/label[2]', 'guard', 'i == s && z >= 1 && f ( k ) > 0'.split()),
        ('t1sync', 'template[1]/transition[1]/label[3]', 'sync', 'c !'.split()),
        ('t1assign', 'template[1]/transition[1]/label[4]', 'assign', 'i = s , z = 0 , g ( ) , arr [ 1 ] = j + r'.split()),
        ('t1guard2', 'template[1]/transition[2]/label[1]', 'guard', 'j > 0 && b'.split()),
        ('t1assign2', 'template[1]/transition[2]/label[2]', 'assign', 'j = f ( j ) , b = false'.split()),
        ('t2decl', 'template[2]/declaration', 'decl', 'int m ;'.split()),
        ('t2guard', 'template[2]/transition[1]/label[1]', 'guard', 'm < N || b'.split()),
        ('t2sync', 'template[2]/transition[1]/label[2]', 'sync', 'c ?'.split()),
        # the process list with and without priorities (each separator is a production of its own)
        ('system', 'system', 'decl', ('P = T1 ( 1 , 2 ) ; Q = T2 ( ) ; R = T2 ( ) ; system %s ;' % (sysl or rng.choice(SYSTEM_LISTS))).split()),
    ]


def layout(tokens, rng, style):
    """join tokens with separators in the given style; returns text"""
    seps = {'plain': [' '], 'lines': [' ', ' ', '\n', '\n\n'], 'comments': [' ', ' /* note */ ', ' // rest of line\n', ' /* two\nlines */ ', '\n'],
            'continuation': [' ', ' \\\n', '\n'], 'crlf': [' ', '\r\n', '\r\n\r\n', ' \r\n', '\n'], 'mixed': [' ', '  ', '\n', '\n\n', ' /* c */ ', ' // c\n', ' \\\n', '\t', ' /* a\nb\nc */ ']}[style]
    lead = rng.choice(['', '', '\n', '\n\n\n', '  ', '// head\n']) if style != 'plain' else ''
    out = lead
    for k, t in enumerate(tokens):
        out += t
        if k + 1 < len(tokens):
            out += rng.choice(seps)
    return out + rng.choice(['', '\n', ' '])


def esc(t):
    return t.replace('&', '&amp;').replace('<', '&lt;').replace('>', '&gt;').replace('\r', '&#13;')      # a literal CR would be normalised away by the XML parser


NOSHAPE = (0, 0, 0, 0)


def pick_shape(rng):
    """empty siblings in front of the text-bearing elements: 0 none, 1 self-closing (<x/>), 2 open/close (<x></x>) — for template, location, label, transition"""
    return tuple(rng.choice([0, 0, 1, 2]) for _ in range(4))


def empty(tag, attrs, kids, how):
    if how == 0: return ''
    if how == 1 and not kids: return '<%s%s/>' % (tag, attrs)
    return '<%s%s>%s</%s>' % (tag, attrs, kids, tag)


def adjust(path, shape):
    """the XPath of a block of the base layout when the empty siblings of `shape` precede it"""
    pt, pl, pb, ptr = (1 if x else 0 for x in shape)
    m = re.match(r'^template\[(\d)\](.*)$', path)
    if not m:
        return path
    k, rest = int(m.group(1)), m.group(2)
    if k == 1:
        rest = re.sub(r'^/location\[1\]', '/location[%d]' % (1 + pl), rest)
        mt = re.match(r'^/transition\[(\d)\]/label\[(\d)\]$', rest)
        if mt:
            tr, lb = int(mt.group(1)), int(mt.group(2))
            rest = '/transition[%d]/label[%d]' % (tr + ptr, lb + (pb if tr == 1 else 0))
    return 'template[%d]%s' % (k + pt, rest)


def render(texts, shape=NOSHAPE):
    g = lambda n: esc(texts[n])
    st, sl, sb, str_ = shape
    return '''<?xml version="1.0" encoding="utf-8"?>
<nta><declaration>%s</declaration>
''' % g('gdecl') + empty('template', '', '<name>T0</name>' + empty('location', ' id="id8"', '', 1) + '<init ref="id8"/>', 2 if st else 0) + '''
<template><name>T1</name><parameter>%s</parameter><declaration>%s</declaration>
''' % (g('t1param'), g('t1decl')) + empty('location', ' id="id7"', '', sl) + '''<location id="id0"><label kind="invariant">%s</label></location><location id="id1"/><init ref="id0"/>
''' % g('t1inv') + empty('transition', '', '<source ref="id1"/><target ref="id1"/>', 2 if str_ else 0) + '''<transition><source ref="id0"/><target ref="id1"/>''' + empty('label', ' kind="comments"', '', sb) + '''<label kind="select">%s</label><label kind="guard">%s</label><label kind="synchronisation">%s</label><label kind="assignment">%s</label></transition>
<transition><source ref="id1"/><target ref="id0"/><label kind="guard">%s</label><label kind="assignment">%s</label></transition>
</template>
<template><name>T2</name><declaration>%s</declaration><location id="id2"/><init ref="id2"/>
<transition><source ref="id2"/><target ref="id2"/><label kind="guard">%s</label><label kind="synchronisation">%s</label></transition></template>
<system>%s</system></nta>''' % tuple(g(n) for n in ['t1select', 't1guard', 't1sync', 't1assign', 't1guard2', 't1assign2', 't2decl', 't2guard', 't2sync', 'system'])


LEX = re.compile(r'(?P<cont>\\[\t ]*\n)|(?P<sl>//[^\n]*)|(?P<ws>[ \t]+)|(?P<co>/\*)|(?P<nl>\n+)|(?P<crlf>(?:\r\n)+)|(?P<str>"[^"]+")|(?P<id>[A-Za-z_][A-Za-z0-9_$#]*)|(?P<num>[0-9]+(?:\.[0-9]+)?)|(?P<op><<=|>>=|-->|<=|>=|==|!=|&&|\|\||\+\+|--|\+=|-=|\*=|/=|%=|:=|<\?|>\?|<<|>>|->)|(?P<other>.)', re.S)


def lexemes(text):
    """(len, newlines) per lexeme as src/lexer.l produces them, plus the offsets of the real tokens"""
    out, toks, i, n = [], [], 0, len(text)
    while i < n:
        m = LEX.match(text, i)
        k = m.lastgroup
        if k == 'co':
            out.append((2, 0)); i += 2
            while i < n and not text.startswith('*/', i):
                out.append((1, 1 if text[i] == '\n' else 0)); i += 1
            if i < n:
                out.append((2, 0)); i += 2
            continue
        ln = m.end() - i
        if k == 'cont': out.append((ln, 1))
        elif k == 'nl': out.append((ln, ln))
        elif k == 'crlf': out.append((ln, ln // 2))
        else:
            out.append((ln, 0))
            if k in ('id', 'num', 'op', 'other', 'str'):
                toks.append((i, m.end(), text[i:m.end()]))
        i = m.end()
    return out, toks


FAULTS = ['undeclared', 'dropped-operand', 'unbalanced', 'stray', 'type-error', 'side-effect', 'unterminated-comment', 'free-parameter']


BAD_DECLS = ['urgent broadcast int ub ;', 'urgent int ui ;', 'broadcast int bi ;', 'urgent broadcast bool ubb ;', 'typedef urgent broadcast int ubi_t ; ubi_t wub ;', 'typedef int pl_t ; urgent broadcast pl_t wpl ;',
             'const clock cc ;', 'meta clock mc ;', 'urgent clock uc ;', 'broadcast clock bc ;', 'const chan cch ;', 'urgent broadcast double ud ;', 'void fz ( ) { for ( c : clock ) { } }',
             'void fy ( ) { for ( c : chan ) { } }', 'void fx ( ) { for ( c : double ) { } }', 'int [ 0.5 , 2 ] rr ;', 'scalar [ 2.5 ] sc ;', 'struct { clock c ; chan d ; } const sx ;', 'const struct { urgent int a ; } sy ;',
             'int aa [ 1.5 ] ;', 'int ab [ clock ] ;', 'void & vr ;', 'urgent broadcast void fv ( ) { }', 'int fi ( urgent int p ) { return 0 ; }', 'int fj ( broadcast int & p ) { return 0 ; }']


def inject(tokens, kind, fault, pos, rng):
    """returns the faulted token list or None if the fault does not apply at pos"""
    t = list(tokens)
    tok = t[pos]
    is_id = bool(IDENT.match(tok)) and tok not in KEYWORDS
    if fault == 'undeclared':
        if not is_id or (pos > 0 and t[pos - 1] in ('int', 'bool', 'clock', 'chan', 'void', ']', ',') and kind == 'decl') or (kind == 'select' and pos == 0):
            return None
        if kind == 'decl' and pos + 1 < len(t) and t[pos + 1] in ('=', ';', ',', '[', '(') and (pos == 0 or t[pos - 1] in ('int', 'bool', 'clock', 'chan', 'void', 'const', ',', ']')):
            return None     # a declared name, not a use
        t[pos] = 'zz9'
        return t
    if fault == 'dropped-operand':
        if not (is_id or tok.isdigit()) or len(t) < 3:
            return None
        del t[pos]
        return t
    if fault == 'unbalanced':
        if tok == ')' or tok == ']':
            del t[pos]
            return t
        t.insert(pos, '(')
        return t
    if fault == 'stray':
        t.insert(pos, rng.choice([']', ')', '}', '?']))
        return t
    if fault == 'type-error':
        if not is_id or kind == 'select' or kind == 'sync' or kind == 'decl':
            return None
        t[pos] = 'arr'      # an array where a scalar is expected (or vice versa)
        return t
    if fault == 'side-effect':
        if kind not in ('guard', 'invariant') or not is_id:
            return None
        t[pos:pos + 1] = ['(', 'i', '=', '1', ')']
        return t
    if fault == 'unterminated-comment':
        t.insert(pos, '/*')
        return t
    if fault == 'free-parameter':
        # the system line lists a template whose parameters cannot be enumerated (an unbounded integer): a type error of the system block
        if 'system' not in t or pos <= t.index('system') or not is_id:
            return None
        t[pos] = 'T1'
        return t
    return None


PLAIN_XTA = '''clock x; int g0 = 1; chan c;
const int N = 3;
int f(int a) {
  return a + g0;
}
process P(const int k) {
  int lv;
  state A { x <= 5 }, B;
  init A;
  trans A -> B {
    select s : int[0,3];
    guard g0 == 1 && s < k;
    sync c!;
    assign lv = f(s), x = 0;
  }, B -> A { guard lv > N; };
}
Q = P(2);
system Q;
'''


def plain_text(run, rng, n):
    """plain-text (XTA) input: every diagnostic carries the empty path, a line of the text, columns inside that line with start not after end; a fault put on one
    line is reported on that line, and an undeclared identifier by exactly its own range.  Layout varies: extra blank lines, indentation, comments before the fault."""
    cases = []
    base = PLAIN_XTA.split('\n')
    uses = [(li, m.start(), m.group(0)) for li, l in enumerate(base) for m in re.finditer(r'\b(g0|lv|k|s|N|x|a)\b', l)
            if not re.match(r'\s*(clock|const|int|process|select)\b', l) or (l.strip().startswith('int f') is False and '=' in l and m.start() > l.index('='))]
    for k in range(n):
        lines = list(base)
        li, col, name = rng.choice(uses)
        kind = rng.choice(['undeclared', 'undeclared', 'stray', 'dropped'])
        pad = rng.choice(['', '', '  ', '\t', '/* c */ '])
        if kind == 'undeclared':
            lines[li] = pad + lines[li][:col] + 'zz9' + lines[li][col + len(name):]
            want = (col + len(pad), col + len(pad) + 3)
        elif kind == 'stray':
            lines[li] = pad + lines[li][:col] + ') ' + lines[li][col:]
            want = None
        else:
            lines[li] = pad + lines[li][:col] + lines[li][col + len(name):]
            want = None
        shift = 0
        if rng.random() < 0.5:                      # blank and comment lines before the fault move it down
            extra = rng.choice([[''], ['// a comment line', ''], ['/* a comment', '   over two lines */']])
            at = rng.randrange(0, li + 1)
            lines[at:at] = extra
            shift = len(extra)
        cases.append(dict(kind=kind, line=li + 1 + shift, want=want, text='\n'.join(lines), name=name))
    j = vlib.Job()
    j.case('clean', fork=True).model('xta', PLAIN_XTA).dump('errors').end()
    for k, c in enumerate(cases):
        j.case('x%d' % k, fork=True).model('xta', c['text']).dump('errors').end()
    rr = vlib.run_jobs(j)
    if any(l.startswith('error') for l in rr['clean']['cmds'][1][2]):
        run.tie_broken('the fault-free plain-text model is not accepted', rr['clean']['cmds'][1][2][:3])
        return 0
    for k, c in enumerate(cases):
        r = rr['x%d' % k]
        if r['status'] != 'ok':
            run.fail('parser crashed on a faulted plain-text model', dict(text=c['text'], status=r['status']), shape='crash:plain-text')
            continue
        tl = c['text'].split('\n')
        errs = []
        for l in r['cmds'][1][2]:
            m = re.match(r'(error|warning) msg="(.*?)" ctx="(.*?)" path="(.*?)" line=(\d+)\.\.(\d+) col=(\d+)\.\.(\d+) abs=(\d+)\.\.(\d+)', l)
            if m:
                errs.append(dict(kind=m.group(1), msg=m.group(2), path=m.group(4), l1=int(m.group(5)), l2=int(m.group(6)), c1=int(m.group(7)), c2=int(m.group(8)), a1=int(m.group(9))))
        for e in errs:
            what = None
            if e['a1'] >= 2147483647: what = 'has no position'
            elif e['path'] != '': what = 'carries the path %r for plain-text input' % e['path']
            elif not (1 <= e['l1'] <= e['l2'] <= len(tl)): what = 'line %d..%d outside the text (%d lines)' % (e['l1'], e['l2'], len(tl))
            elif e['l1'] == e['l2'] and e['c1'] > e['c2']: what = 'range starts after it ends'
            elif e['c1'] > len(tl[e['l1'] - 1]) or e['c2'] > len(tl[e['l2'] - 1]): what = 'column %d..%d outside line %r' % (e['c1'], e['c2'], tl[e['l1'] - 1][:40])
            if what:
                run.fail('plain-text input: diagnostic %r %s' % (e['msg'], what), dict(text=c['text'], error=e, fault=c['kind']), shape='plain-text:bad-position:' + re.sub(r'\d+', 'N', what)[:30])
        real = [e for e in errs if e['kind'] == 'error']
        if not real:
            continue           # the edit left a valid model
        if not any(e['l1'] <= c['line'] <= e['l2'] for e in real):
            run.fail('plain-text input: a fault (%s of %s) on line %d is reported on line(s) %s only' % (c['kind'], c['name'], c['line'], sorted({e['l1'] for e in real})),
                     dict(text=c['text'], errors=real[:3], line=c['line']), shape='plain-text:wrong-line:' + c['kind'])
        if c['want']:
            ue = [e for e in real if 'zz9' in e['msg']]
            if ue and not any((e['l1'], e['l2'], e['c1'], e['c2']) == (c['line'], c['line'], c['want'][0], c['want'][1]) for e in ue):
                run.fail('plain-text input: the undeclared identifier on line %d, columns %d..%d is reported at %d:%d..%d:%d' % (c['line'], c['want'][0], c['want'][1], ue[0]['l1'], ue[0]['c1'], ue[0]['l2'], ue[0]['c2']),
                         dict(text=c['text'], error=ue[0]), shape='plain-text:identifier-range')
    return len(cases)


def check(run):
    thorough = run.tier == 'thorough'
    rng = run.rng
    pr = run.proofs()
    drv, err = vlib.build_extract('position', 'Extract_Position.v', 'drv_position') if os.path.exists(os.path.join(vlib.COQ, 'theories', 'Position.vo')) else (None, 'Position.vo missing')
    if drv is None:
        run.tie_broken('extraction of the position model', err)
        return run.finish('proof')
    styles = ['plain', 'lines', 'comments', 'continuation', 'mixed', 'crlf']
    cases = []
    nmodels = 40 if thorough else 8
    for mi in range(nmodels):
        blocks = base_blocks(rng)
        style = styles[mi % len(styles)]
        for bi, (bname, bpath, kind, toks) in enumerate(blocks):
            for fault in FAULTS:
                positions = list(range(len(toks)))
                if not thorough:
                    rng.shuffle(positions)
                    positions = positions[:4]
                for pos in positions:
                    ft = inject(toks, kind, fault, pos, rng)
                    if ft is None:
                        continue
                    texts = {}
                    for (n2, p2, k2, t2) in blocks:
                        texts[n2] = layout(ft if n2 == bname else t2, rng, ('lines' if (fault == 'unterminated-comment' and n2 == bname and style in ('comments', 'mixed')) else style))
                    shape = pick_shape(rng)
                    cases.append(dict(block=bname, path='/nta/' + adjust(bpath, shape), kind=kind, fault=fault, pos=pos, texts=texts, style=style, xml=render(texts, shape), tokens=ft))
    # a fault at the very end of the last label of each template and of the last block before the templates: a range that ends where the block ends sits on the
    # boundary between two entries of the position index
    for bname in ('t1assign2', 't2sync', 't2guard', 'gdecl', 't1inv'):
        for fault in ('type-error', 'undeclared', 'side-effect', 'dropped-operand'):
            blocks = base_blocks(rng)
            bl = next(b for b in blocks if b[0] == bname)
            toks = bl[3]
            for pos in range(len(toks) - 1, max(len(toks) - 4, -1), -1):
                ft = inject(toks, bl[2], fault, pos, rng)
                if ft is None:
                    continue
                texts = {n2: ' '.join(ft if n2 == bname else t2) for (n2, p2, k2, t2) in blocks}
                cases.append(dict(block=bname, path='/nta/' + bl[1], kind=bl[2], fault=fault, pos=pos, texts=texts, style='plain', xml=render(texts), tokens=ft))
                break
    # every name of the process list, behind each kind of separator, replaced by an undeclared one
    for sysl in SYSTEM_LISTS:
        blocks = base_blocks(rng, sysl)
        toks = blocks[-1][3]
        for pos in range(toks.index('system') + 1, len(toks)):
            ft = inject(toks, 'decl', 'undeclared', pos, rng)
            if ft is None:
                continue
            style = rng.choice(styles)
            texts = {n2: layout(ft if n2 == 'system' else t2, rng, style) for (n2, p2, k2, t2) in blocks}
            cases.append(dict(block='system', path='/nta/system', kind='decl', fault='undeclared', pos=pos, texts=texts, style=style, xml=render(texts), tokens=ft))
    # string literals: the one lexeme that may contain line ends without being a line-end rule
    for lit, nm in (('"ab"', 'string'), ('"a\nb"', 'string-multiline'), ('"a\nb\nc"', 'string-multiline')):
        blocks = base_blocks(rng)
        texts = {n: ' '.join(t) for n, _, _, t in blocks}
        texts['gdecl'] = 'const string s = %s ;\nint i , j ; bool b ; clock x , y ; chan c ; const int N = 3 ; int arr [ N ] ;\nint f ( int p ) { return p + zz9 ; }' % lit
        cases.append(dict(block='gdecl', path='/nta/declaration', kind='decl', fault='undeclared', pos=0, texts=texts, style=nm, xml=render(texts), tokens=[]))
    # accepted models that draw warnings (a strict invariant, a local that shadows a global, a comparison that is always true ...), laid out over
    # several lines: the range of a warning may span lines, and both of its ends must lie inside the element's text
    for k in range(40 if thorough else 12):
        blocks = base_blocks(rng)
        style = styles[1 + k % (len(styles) - 1)]
        texts = {}
        for (n2, p2, k2, t2) in blocks:
            t3 = list(t2)
            if n2 == 't1inv': t3 = 'z < N + k'.split()                                    # $Strict_invariant, over the whole expression
            if n2 == 'gdecl': t3 = [('urgent chan' if w == 'chan' else w) for w in t2]       # an urgent channel: clock guards and strict bounds on its edges draw warnings
            if n2 == 't1guard': t3 = 'i == s && z > 1 && f ( k ) > 0'.split()
            texts[n2] = layout(t3, rng, style)
        cases.append(dict(block='t1inv', path='/nta/template[1]/location[1]/label[1]', kind='warning-model', fault='warnings', pos=0, texts=texts, style=style, xml=render(texts), tokens=[]))
    # a reference to a type that cannot be referenced, in the parameter list of a global and of a template-local function: a diagnostic on a type prefix
    for bname, bpath, extra in (('gdecl', 'declaration', ' void fq ( void & q ) { }'), ('t2decl', 'template[2]/declaration', ' void fw ( int k , void & w ) { }')):
        blocks = base_blocks(rng)
        texts = {n: ' '.join(t) + (extra if n == bname else '') for n, _, _, t in blocks}
        cases.append(dict(block=bname, path='/nta/' + bpath, kind='decl', fault='void-reference', pos=0, texts=texts, style='plain', xml=render(texts), tokens=[]))
    # declarations the type checker rejects because of a prefix or a type in a place that does not take it: the diagnostic is on the type (a prefix node, the
    # type of a loop variable ...), whose position has to be the one of the text that wrote it
    for bname, bpath in (('gdecl', 'declaration'), ('t2decl', 'template[2]/declaration')):
        for q, extra in enumerate(BAD_DECLS):
            blocks = base_blocks(rng)
            texts = {n: ' '.join(t) + (' ' + extra if n == bname else '') for n, _, _, t in blocks}
            cases.append(dict(block=bname, path='/nta/' + bpath, kind='decl', fault='bad-declaration:%d' % q, pos=0, texts=texts, style='plain', xml=render(texts), tokens=[]))
    # scenario charts (<lsc> elements): an undeclared identifier in each of their text blocks
    for bname, bpath, old, new in (('lsc-parameter', 'lsc[1]/parameter', '<parameter>int a</parameter>', '<parameter>int a, zz9 q</parameter>'), ('lsc-declaration', 'lsc[1]/declaration', '<declaration>int v;</declaration>', '<declaration>int v = zz9;</declaration>'),
                                   ('lsc-condition', 'lsc[1]/condition[1]/label[1]', 'x &gt;= a', 'zz9 &gt;=\n a'), ('lsc-update', 'lsc[1]/update[1]/label[1]', 'g = 1', 'g =\n zz9'),
                                   ('lsc-message', 'lsc[1]/message[1]/label[1]', '>m1</label></message>', '>zz9</label></message>')):
        if old in crashgen.LSC_DOC:
            cases.append(dict(block=bname, path='/nta/' + bpath, kind='lsc', fault='lsc-undeclared', pos=0, texts={}, style='plain', xml=crashgen.LSC_DOC.replace(old, new, 1), tokens=[]))
    # the fault-free model must be accepted (otherwise the generator is wrong)
    blocks = base_blocks(rng)
    clean = render({n: ' '.join(t) for n, _, _, t in blocks})
    j = vlib.Job()
    j.case('clean', fork=True).model('xml', clean).dump('errors').end()
    for k, c in enumerate(cases):
        j.case('c%d' % k, fork=True).model('xml', c['xml']).dump('errors').end()
    rr = vlib.run_jobs(j)
    cerrs = [l for l in rr['clean']['cmds'][1][2] if l.startswith('error')]
    if cerrs:
        run.tie_broken('the fault-free base model is not accepted', cerrs[:3])
    queries, qmeta = [], []
    ninert = 0
    nerr = 0
    hist = {}
    samples = []
    for k, c in enumerate(cases):
        r = rr['c%d' % k]
        if r['status'] != 'ok':
            run.fail('parser crashed on a faulted model (%s in %s)' % (c['fault'], c['block']), dict(xml=c['xml'], status=r['status']), shape='crash:' + c['fault'])
            continue
        root = ET.fromstring(c['xml'])
        errs = []
        for l in r['cmds'][1][2]:
            m = re.match(r'(error|warning) msg="(.*?)" ctx="(.*?)" path="(.*?)" line=(\d+)\.\.(\d+) col=(\d+)\.\.(\d+) abs=(\d+)\.\.(\d+)', l)
            if m:
                errs.append(dict(kind=m.group(1), msg=m.group(2), path=m.group(4), l1=int(m.group(5)), l2=int(m.group(6)), c1=int(m.group(7)), c2=int(m.group(8)), a1=int(m.group(9)), a2=int(m.group(10))))
        real_errs = [e for e in errs if e['kind'] == 'error']
        hist[c['fault']] = hist.get(c['fault'], 0) + 1
        in_block = 0
        if any('/lscTemplate[' in e['path'] for e in errs):
            run.fail('diagnostics of a scenario chart carry the path %s: the element is <lsc>, the path selects nothing in the input' % next(e['path'] for e in errs if '/lscTemplate[' in e['path']),
                     dict(xml=c['xml'], block=c['block'], errors=[e['path'] for e in errs][:3]), shape='lsc-path:' + c['block'])
            for e in errs:
                e['path'] = e['path'].replace('/lscTemplate[', '/lsc[')          # the remaining checks go on against the element that is meant
        for e in errs:
            nerr += 1
            what = None
            if e['a1'] >= 2147483647 or e['a2'] >= 2147483647:
                what = 'has no position'
            else:
                if not e['path'].startswith('/nta'):
                    what = 'path %r is not an XPath into the document' % e['path']
                else:
                    sel = root.findall('.' + e['path'][4:]) if e['path'] != '/nta' else [root]
                    if len(sel) != 1:
                        what = 'XPath %s selects %d elements' % (e['path'], len(sel))
                    else:
                        text = sel[0].text or ''
                        lines = text.split('\n')
                        if not (1 <= e['l1'] <= len(lines) and 1 <= e['l2'] <= len(lines)):
                            what = 'line %d..%d outside the element text (%d lines)' % (e['l1'], e['l2'], len(lines))
                        elif e['l1'] > e['l2'] or (e['l1'] == e['l2'] and e['c1'] > e['c2']):
                            what = 'range starts after it ends (%d:%d .. %d:%d)' % (e['l1'], e['c1'], e['l2'], e['c2'])
                        elif e['c1'] > len(lines[e['l1'] - 1]) or e['c2'] > len(lines[e['l2'] - 1]):
                            what = 'column %d..%d outside line %r' % (e['c1'], e['c2'], lines[e['l1'] - 1][:40])
            if what:
                run.fail('diagnostic %r %s (fault %s in %s)' % (e['msg'], what, c['fault'], c['block']), dict(xml=c['xml'], error=e, fault=c['fault'], block=c['block']),
                         shape='string-literal-line-shift' if c['style'] == 'string-multiline' else 'bad-position:' + re.sub(r'\d+', 'N', what)[:40])
            if e['path'] == c['path']:
                in_block += 1
            elif e['kind'] == 'error' and c['kind'] not in ('select', 'decl'):
                run.fail('fault in %s (%s) is reported in another block: %r at %s' % (c['block'], c['fault'], e['msg'], e['path']), dict(xml=c['xml'], error=e, fault=c['fault'], block=c['block']),
                         shape='misattributed:%s:%s' % (c['kind'], c['fault']))
        if not real_errs:
            ninert = ninert + 1          # the mutation happened to leave a valid model (e.g. the comment is closed by a later one): no fault was injected
            continue
        if not [e for e in real_errs if e['path'] == c['path']]:
            run.fail('fault %s in %s produces no error inside that block (errors: %s)' % (c['fault'], c['block'], [e['msg'] + '@' + e['path'] for e in real_errs][:3]),
                     dict(xml=c['xml'], fault=c['fault'], block=c['block']), shape='not-reported-in-block:%s:%s' % (c['kind'], c['fault']))
        # undeclared identifier: the range must be exactly the identifier; position predicted by the Coq model
        if c['fault'] == 'undeclared':
            text = c['texts'][c['block']]
            lx, toks = lexemes(text)
            zz = [t for t in toks if t[2] == 'zz9']
            ue = [e for e in real_errs if 'nknown_identifier' in e['msg'] or 'zz9' in e['msg']] or [e for e in real_errs if 'Not_a_template' in e['msg'] and e['path'] == c['path']]
            if zz and ue:
                queries.append('%d %d | %s' % (zz[0][0], zz[0][1], ' '.join('%d:%d' % l for l in lx)))
                qmeta.append((c, ue[0], text))
            elif zz and real_errs:
                pass        # reported as another kind of error (e.g. syntax): the generic checks above apply
        if len(samples) < 3 and real_errs and c['style'] == 'mixed':
            samples.append(dict(block=c['block'], fault=c['fault'], text=c['texts'][c['block']][:120], error=real_errs[0]))
    out = subprocess.run([drv], input='\n'.join(queries) + '\n', stdout=subprocess.PIPE, universal_newlines=True).stdout.split('\n')
    pmism = []
    for line, (c, e, text) in zip(out, qmeta):
        p = line.split()
        if len(p) < 7 or p[3] != 'same' or p[6] != 'same':
            run.tie_broken('resolve vs tracker+find inside the model (should be impossible: theorem)', line)
            continue
        ml1, mc1, ml2, mc2 = int(p[1]), int(p[2]), int(p[4]), int(p[5])
        if (e['l1'], e['c1'], e['l2'], e['c2']) != (ml1, mc1, ml2, mc2):
            if '"' in text:
                shape = 'string-literal-line-shift'
            elif 'Not_a_template' in e['msg']:
                shape = 'undeclared-range:not-a-template'
            else:
                shape = 'undeclared-range'
            run.fail('undeclared identifier in %s: reported %d:%d..%d:%d, the identifier is at %d:%d..%d:%d' % (c['block'], e['l1'], e['c1'], e['l2'], e['c2'], ml1, mc1, ml2, mc2),
                     dict(xml=c['xml'], error=e, expected=[ml1, mc1, ml2, mc2], text=text), shape=shape)
            if shape == 'undeclared-range':
                pmism.append(dict(block=c['block'], text=text[:200], model=[ml1, mc1, ml2, mc2], implementation=[e['l1'], e['c1'], e['l2'], e['c2']]))
    if pmism:
        run.tie_broken('line/column model vs implementation on undeclared-identifier faults', pmism[:5] + [dict(total=len(pmism))])
    npt = plain_text(run, rng, 400 if thorough else 120)
    run.cov.update(plain_text_cases=npt, evaluations=len(cases) + npt, distinct_nontrivial=len({c['xml'] for c in cases}), traces_validated_against_impl=len(qmeta),
                   rule='%d base models x 14 text blocks x 7 fault kinds at token positions (all positions in the thorough tier, 4 per block otherwise), laid out in 6 styles (plain, blank lines, comments incl. multi-line, CRLF line ends (as character references, which survive XML line-end normalisation), '
                        'continuations, mixed); every diagnostic: XPath selects exactly one element of an independent DOM (xml.etree), line inside the element text, columns inside the line, start <= end; at least one error in the '
                        'faulted block and none elsewhere for non-declaring labels; undeclared identifiers: range predicted by the extracted Coq position model from the block\'s lexemes' % nmodels,
                   samples=samples, inert_mutations_skipped=ninert, diagnostics_checked=nerr, faults=hist, undeclared_ranges_compared=len(qmeta))
    run.cov['trusted_base'] += ['hand model Position.v of position_index_t / PositionTracker / the lexer\'s newline rules (tied on undeclared-identifier ranges)',
                                'the Python re-implementation of the lexer\'s lexeme boundaries in tools/props/C06.py', 'xml.etree as independent DOM', 'drv_position.ml']
    return run.finish('proof', assumptions=['the XPath construction (sibling counting) is checked by the DOM oracle only', 'positions are assumed below 2^32 (wrap-around is C15)'])
