"""C15 — a parse result depends only on its input, not on earlier parses in the process."""
import os, re, glob
import vlib, gen_grammar

MODELS = os.path.join(vlib.REPO, 'test', 'models')
XTA_OK = 'int i; clock x; chan c;\nprocess P() { state A, B; init A; trans A -> B { guard i == 0; sync c!; assign i = 1; }; }\nsystem P;\n'
XML_TMPL = '''<?xml version="1.0" encoding="utf-8"?>
<nta><declaration>%s</declaration>
<template><name>T</name><declaration>%s</declaration><location id="id0"><label kind="invariant">%s</label></location><location%s/><init ref="id0"/>
<transition><source ref="id0"/><target ref="id1"/><label kind="guard">%s</label><label kind="assignment">%s</label></transition></template>
<system>system T;</system></nta>'''


def calls(rng):
    """a pool of single calls: (name, builder(job) -> adds the commands of one call to the case)"""
    pool = []
    def xml(name, g='int i; clock x;', l='', inv='x <= 3', idattr=' id="id1"', guard='i == 0', upd='i = 1'):
        text = XML_TMPL % (g, l, inv.replace('<', '&lt;'), idattr, guard.replace('<', '&lt;').replace('&&', '&amp;&amp;'), upd)
        pool.append((name, lambda j, t=text: j.model('xml', t).dump('errors').dump('doc').dump('supported')))
    xml('xml-ok')
    xml('xml-ok-large', g='int i; clock x;\n' + '\n'.join('int v%d = %d; // filler line %d' % (k, k, k) for k in range(300)))
    xml('xml-type-error', guard='i == x + c0')
    xml('xml-syntax-error', guard='i == ( 0')
    xml('xml-unterminated-comment', guard='i == 0 /* open')
    xml('xml-unterminated-comment-decl', g='int i; clock x; /* open')
    xml('xml-missing-id', idattr='')                       # std::logic_error from the reader
    xml('xml-default-stmt', g='int i; clock x; void f() { default: i = 1; }')    # NotSupportedException from inside the grammar
    xml('xml-array-decl', g='int i; clock x; int a[2][3]; int b[int[0,1]][2];')   # exercises the static `types` counter
    xml('xml-expect-comment', g='int i; clock x; /* EXPECT:foo */ int k;')
    for f in ('simpleSystem.xml', 'simpleSMCSystem.xml', 'powers.xml', 'if_statement.xml'):
        t = open(os.path.join(MODELS, f)).read()
        pool.append(('xml-file:' + f, lambda j, t=t: j.model('xml', t).dump('errors').dump('supported')))
    pool.append(('xta-ok', lambda j: j.model('xta', XTA_OK).dump('errors').dump('doc')))
    pool.append(('xta-translist', lambda j: j.model('xta', 'int i;\nprocess P() { state A, B, C; init A; trans A -> B { guard i == 0; }, -> C { guard i == 1; }; }\nsystem P;\n').dump('errors').dump('doc')))
    # the grammar remembers the source of a full transition in a static buffer for the chained form: a longer name seen earlier must not show through
    pool.append(('xta-long-source', lambda j: j.model('xta', 'int i;\nprocess P() { state WaitingForTheOthers, Done; init WaitingForTheOthers; trans WaitingForTheOthers -> Done { guard i == 0; }; }\nsystem P;\n').dump('errors').dump('doc')))
    pool.append(('xta-translist-short', lambda j: j.model('xta', 'int i;\nprocess P() { state S1, S2, S3, S1iting; init S1; trans S1 -> S2 { }, -> S3 { guard i == 1; }; }\nsystem P;\n').dump('errors').dump('doc')))
    pool.append(('xta-old-translist', lambda j: j.model('xta', 'int i;\nprocess P { state B1, B2, B3; init B1; trans B1 -> B2 { guard i == 0; }, -> B3 { }; }\nsystem P;\n').dump('errors').dump('doc')))
    pool.append(('xta-error', lambda j: j.model('xta', 'int i; clock x;\nprocess P() { state A; init A; trans A -> Z { guard j == 0; }; }\nsystem P;\n').dump('errors')))
    pool.append(('xta-old', lambda j: j.model('xta', 'int i; clock x;\nprocess P { state A, B; init A; trans A -> B { guard i == 0, x >= 1; assign i := 1; }; }\nsystem P;\n').dump('errors').dump('doc')))
    pool.append(('xta-array-abort', lambda j: j.model('xta', 'int a[2][int[0,1]][ ;\nprocess P() { state A; init A; }\nsystem P;\n').dump('errors')))
    # ... and one that ends at the end of input inside the declarator: bison aborts without recovery, the counter of open type-indexed dimensions stays where it was
    pool.append(('xta-array-abort-eof', lambda j: j.model('xta', 'int a[int[0,3]][int[0,1]][').dump('errors')))
    xml('xml-array-abort-eof', g='int i; clock x; int a[int[0,3]][int[0,1]][int[0,2]][')
    pool.append(('xta-transition-abort-eof', lambda j: j.model('xta', 'int i;\nprocess P() { state LongSourceName, B; init LongSourceName; trans LongSourceName -> B { guard i == 0; }, -> ').dump('errors')))
    # scalar sets get generated names (#scalarsetN): the numbering belongs to the parse, not to the process
    xml('xml-scalar-sets', g='int i; clock x; typedef scalar[3] sid_t; scalar[2] ss; sid_t owner; int per[sid_t];')
    xml('xml-scalar-sets-2', g='int i; clock x; scalar[4] sa; scalar[4] sb;', l='scalar[2] sl;')
    pool.append(('xta-scalar-sets', lambda j: j.model('xta', 'typedef scalar[2] u_t; u_t a; scalar[3] b; int i;\nprocess P(u_t me) { state A; init A; }\nsystem P;\n').dump('errors').dump('doc')))
    pool.append(('xta-scalar-error', lambda j: j.model('xta', 'scalar[2] a; scalar[3] b; int i = a;\nprocess P() { state A; init A; }\nsystem P;\n').dump('errors').dump('doc')))
    # literals outside the range of their type leave errno (ERANGE) behind in the C library: process-global state a later call must not read
    xml('xml-huge-double', g='int i; clock x; double d = 1e999;')
    xml('xml-huge-int', g='int i; clock x; int k = 99999999999999999999;')
    for e in ('1e999 > 1.0', '99999999999999999999 + 1', '1e-999 < 1.0', '2147483648', '4294967296 * 2'):
        pool.append(('expr:' + e, lambda j, e=e: j.expr(e)))
    for e in ('1 + 2 * 3', '(1 + ', 'zz + 1', '/* open', 'forall (i : int[0,3]) i > 0', '1 + /* c */ 2 // tail'):
        pool.append(('expr:' + e, lambda j, e=e: j.expr(e)))
    for q in ('A[] not deadlock', 'E<> 1 > ', 'Pr[<=10](<> true)', 'A[] forall (i : int[0,3]) i >= 0', 'E<> zz == 1'):
        pool.append(('query:' + q, lambda j, q=q: j.model('xta', XTA_OK).query(q, rt=False)))
    for part, txt in ((9, 'i == 0 && x >= 1'), (11, 'i = 1, x = 0'), (6, 'x <= 3'), (1, 'int k; clock y;'), (9, 'i == ( '), (10, 'c!')):
        pool.append(('part%d:%s' % (part, txt), lambda j, part=part, txt=txt: j.model('xta', XTA_OK).part(part, txt).dump('errors')))
    # every xta_part_t, also as the first parse on a fresh document (no enclosing template / edge / instance line: the callbacks report that, and the
    # position of the report must not depend on what was parsed before) and with an empty text
    PARTS = {1: 'int k; clock y;', 2: 'int m = 2;', 3: 'Q = P();', 4: 'system P;', 5: 'int a, const int b', 6: 'x <= 3', 7: '2', 8: 'i : int[0,3]', 9: 'i == 0', 10: 'c!', 11: 'i = 1', 12: 'i + 1',
             13: 'i + 1, 2', 14: 'A[] i >= 0', 15: 'process R() { state A; init A; }', 16: '3', 17: 'P', 18: 'msg', 19: 'i = 2', 20: 'i > 0'}
    for part, txt in sorted(PARTS.items()):
        pool.append(('fresh-part%d:%s' % (part, txt), lambda j, part=part, txt=txt: j.part(part, txt).dump('errors')))
        if part not in (9, 11, 6, 1, 10):
            pool.append(('part%d:%s' % (part, txt), lambda j, part=part, txt=txt: j.model('xta', XTA_OK).part(part, txt).dump('errors')))
    for part in (6, 9, 12, 16):
        pool.append(('fresh-part%d:empty' % part, lambda j, part=part: j.part(part, '').dump('errors')))
    return pool


def interleaved(run, rng, n):
    """two documents alive at once: a model parsed into document A, then a whole other model (shorter, equal, longer; XTA or XML; accepted or faulty) parsed into a
    document of its own, then a query, an expression and a per-block text parsed on document A: the later calls on A must give what they give without the other
    document in between"""
    import docgen
    A_MODELS = [('xta', XTA_OK), ('xta', XTA_OK.replace('int i;', 'int i; const int N = 3;\n' + ''.join('int w%d = %d; // filler %d\n' % (k, k, k) for k in range(40)))),
                ('xml', XML_TMPL % ('int i; clock x; const int N = 3;', '', 'x &lt;= 3', ' id="id1"', 'i == 0', 'i = 1'))]
    OTHERS = [('xta', 'int q;\nprocess Q() { state S; init S; }\nsystem Q;\n'), ('xta', XTA_OK), ('xta', 'int q; process Q( { }\n'), ('xml', XML_TMPL % ('int i; clock x;', '', 'x &lt;= 3', ' id="id1"', 'i == 0', 'i = 1')),
              ('xta', XTA_OK + ''.join('int z%d;\n' % k for k in range(300))), ('xml', '<nta><declaration>int q;</declaration><template><name>Q</name><location id="id0"/><init ref="id0"/></template><system>system Q;</system></nta>')]
    LATER = [('query', 'A[] i <= 3\nE<> P.nowhere'), ('query', 'E<> i == 1'), ('expr', 'i + zz'), ('part9', 'i == ( 0'), ('part11', 'i = 2, x = 0'), ('query', 'E<> P.A && x > 1\n\nA[] undefined_name > 0')]
    def later(j, kind, text):
        if kind == 'query': j.query(text, rt=False)
        elif kind == 'expr': j.expr(text)
        else: j.part(int(kind[4:]), text).dump('errors')
    j = vlib.Job()
    plan = []
    for k in range(n):
        a, o = rng.choice(A_MODELS), rng.choice(OTHERS)
        ls = [rng.choice(LATER) for _ in range(rng.choice([1, 2, 3]))]
        for tag, mid in (('s', False), ('i', True)):
            c = j.case('il%s%d' % (tag, k), fork=True).model(a[0], a[1]).dump('errors')
            if mid:
                c.other(o[0], o[1])
            for kind, text in ls:
                later(c, kind, text)
            c.end()
        plan.append((a, o, ls))
    rr = vlib.run_jobs(j)
    for k, (a, o, ls) in enumerate(plan):
        s_, i_ = rr['ils%d' % k], rr['ili%d' % k]
        rec = lambda c: (c['status'], [strip(cmd[2]) for cmd in c['cmds'] if cmd[0] != 'OTHER'])
        if rec(s_) != rec(i_):
            fa, fb = sum(rec(i_)[1], []), sum(rec(s_)[1], [])
            first = next(((x, y) for x, y in zip(fa, fb) if x != y), (rec(i_)[0] + ' / %d lines' % len(fa), rec(s_)[0] + ' / %d lines' % len(fb)))
            run.fail('calls on a document differ when another model was parsed into another document in between: %r vs %r' % (first[0][:160], first[1][:160]),
                     dict(model=a[1], other_model=o[1], later_calls=ls, with_other=rec(i_)[1][-2:], alone=rec(s_)[1][-2:]), shape='history-dependence:interleaved-documents')
    return len(plan)


def strip(lines):
    """observable record of a call: everything but absolute positions"""
    out = []
    for l in lines:
        l = re.sub(r' abs=\d+\.\.\d+', '', l)
        if l.startswith('seeded') or l.startswith('pos '):
            continue
        out.append(l)
    return out


def check(run):
    thorough = run.tier == 'thorough'
    rng = run.rng
    try:
        import gen_lex
        gen_lex.startcond_table()            # regenerates coq/theories/gen/Gen_StartCond.v from lexer.l
    except Exception as e:
        run.tie_broken('G-LEX: start conditions of lexer.l', str(e))
    pr = run.proofs()
    # ---- tie of the grammar facts State.v relies on ---------------------------------------------------------------------
    try:
        G = gen_grammar.load()
        users = {}
        for r in G['rules']:
            code = r.get('action', '') + ''.join(r.get('mid', {}).values())
            pass
        # the file-static variables of the grammar file, by role rather than by name: the counter ArrayDecl resets (`types = 0`-style reset in a mid-rule
        # action) and the buffer a full transition copies its source into
        resets = {m.group(1) for r in G['rules'] for code in (r.get('mid') or {}).values() for m in re.finditer(r'\b(\w+)\s*=\s*0\s*;', code) if r['lhs'] == 'ArrayDecl'}
        copies = {m.group(1) for r in G['rules'] if r['lhs'] in ('Transition', 'OldTransition') for m in [re.search(r'\bstrn?cpy\s*\(\s*(\w+)\s*,\s*\$1\b', r.get('action') or '')] if m}
        TYPES = resets.pop() if len(resets) == 1 else 'types'
        ROOT = copies.pop() if len(copies) == 1 else 'rootTransId'
        for r in G['rules']:
            code = r.get('action', '') + ''.join(r.get('mid', {}).values())
            for var in (TYPES, ROOT):
                if re.search(r'\b%s\b' % var, code):
                    users.setdefault(var, []).append(r)
        # `types` is used only by ArrayDecl / ArrayDecl2 and ArrayDecl2 is entered only behind the action "types = 0"
        bad = []
        for r in users.get(TYPES, []):
            if r['lhs'] not in ('ArrayDecl', 'ArrayDecl2') and not re.match(r'^[$@]+\d+$', r['lhs']):
                bad.append('types used in %s' % r['lhs'])
        for r in G['rules']:
            if 'ArrayDecl2' in r['rhs'] and r['lhs'] not in ('ArrayDecl', 'ArrayDecl2'):
                bad.append('ArrayDecl2 reachable from %s' % r['lhs'])
            if r['lhs'] == 'ArrayDecl' and 'ArrayDecl2' in r['rhs']:
                k = r['rhs'].index('ArrayDecl2')
                pre = [x for x in r['rhs'][:k] if re.match(r'^[$@]+\d+$', x)]
                if not pre or not re.search(r'\b%s\s*=\s*0' % TYPES, r['mid'].get(pre[-1], '')):
                    bad.append('ArrayDecl enters ArrayDecl2 without resetting types')
        # rootTransId: it is read only by the continuation form "-> target { ... }" (XOpt), which occurs only as
        # "XList ',' XOpt", and every XList starts with a full transition X whose action copies the source name
        writers = {r['lhs'] for r in users.get(ROOT, []) if re.search((r'str n?cpy\s*\(\s*' + ROOT).replace(' ', ''), r.get('action', '') + ''.join(r.get('mid', {}).values()))}
        readers = {r['lhs'] for r in users.get(ROOT, []) if re.search(r'\(\s*' + ROOT, re.sub((r'str n?cpy\s*\(\s*' + ROOT).replace(' ', ''), '', r.get('action', '') + ''.join(r.get('mid', {}).values())))}
        readers = {x for x in readers if not re.match(r'^[$@]+\d+$', x)} | {rr['lhs'] for rr in G['rules'] for m in rr.get('mid', {}) if re.search(r'\(\s*' + ROOT, rr['mid'][m]) and 'strcpy' not in rr['mid'][m]}
        for rd in readers:
            if rd in writers and rd not in ('TransitionOpt', 'OldTransitionOpt'):
                continue
            for rr in G['rules']:
                if rd in rr['rhs']:
                    k = rr['rhs'].index(rd)
                    lst = rr['rhs'][0] if k == 2 and rr['rhs'][1] == "','" else None
                    if lst is None or lst != rr['lhs']:
                        bad.append('%s (reads rootTransId) occurs outside "List , Opt": %s -> %s' % (rd, rr['lhs'], ' '.join(rr['rhs'])))
                        continue
                    firsts = [r2 for r2 in G['rules'] if r2['lhs'] == lst and len(r2['rhs']) == 1]
                    if not firsts or not all(f['rhs'][0] in writers for f in firsts):
                        bad.append('%s does not start with an element that sets rootTransId' % lst)
        if bad:
            run.tie_broken('grammar facts assumed by State.v (types / rootTransId written before read)', bad)
    except gen_grammar.GrammarError as e:
        run.tie_broken('G-LR translation', str(e))
    # ---- histories ---------------------------------------------------------------------------------------------------------
    pool = calls(rng)
    nh = 250 if thorough else 40
    seeds = [0, 2147483000, 2147483647, 2147480000, 3000000000, 4294000000]
    wrap_seeds = [4294967000, 4294960000, 4294967290]
    histories = []
    for h in range(nh):
        n = rng.randrange(2, 9)
        hist = [rng.randrange(len(pool)) for _ in range(n)]
        seed = rng.choice(seeds) if rng.random() < 0.6 else None
        histories.append((hist, seed, None))
    for ws in wrap_seeds:
        histories.append(([rng.randrange(len(pool)) for _ in range(3)], None, ws))
    # every call alone in a fresh process
    fresh = vlib.Job()
    for k, (name, add) in enumerate(pool):
        fresh.case('f%d' % k, fork=True)
        add(fresh)
        fresh.end()
    fr = vlib.run_jobs(fresh)
    base = {}
    for k, (name, add) in enumerate(pool):
        c = fr['f%d' % k]
        base[k] = (c['status'], [strip(cmd[2]) for cmd in c['cmds']])
    # each history in one process (one shard, no fork); a crash ends the process and is reported
    results = []
    for hi, (hist, seed, wseed) in enumerate(histories):
        j = vlib.Job()
        for pos, k in enumerate(hist):
            j.case('h%d_%d' % (hi, pos))
            if pos == 0 and seed is not None:
                j.cmd('SEEDPOS %d' % seed)
            if wseed is not None and pos == len(hist) - 1:
                j.cmd('SEEDPOS %d' % wseed)
            pool[k][1](j)
            j.end()
        results.append(j)
    # every ordered pair of calls: one process per first call a; after a, each second call b runs in a forked child, which starts from the
    # state a left behind (whatever it is: lexer start condition, static buffers and counters of the grammar, errno, the position counter)
    pairjobs = []
    for a in range(len(pool)):
        j = vlib.Job()
        j.case('pa%d' % a)
        pool[a][1](j)
        j.end()
        for b in range(len(pool)):
            j.case('pb%d_%d' % (a, b), fork=True)
            pool[b][1](j)
            j.end()
        pairjobs.append(j)
    # run the histories in parallel processes (one process per history)
    import concurrent.futures
    def runh(j):
        return vlib.run_jobs(j, shards=1)
    with concurrent.futures.ThreadPoolExecutor(max_workers=16) as ex:
        outs = list(ex.map(runh, results))
        pouts = list(ex.map(runh, pairjobs))
    npairs = 0
    for a, r in enumerate(pouts):
        for b in range(len(pool)):
            c = r.get('pb%d_%d' % (a, b))
            if c is None:
                continue
            npairs += 1
            got = (c['status'], [strip(cmd[2]) for cmd in c['cmds']])
            if got != base[b]:
                first = next(((x, y) for x, y in zip(sum(got[1], []), sum(base[b][1], [])) if x != y), (got[0], base[b][0]))
                run.fail('%s after %s differs from the same call in a fresh process: %r vs %r' % (pool[b][0], pool[a][0], first[0][:160], first[1][:160]),
                         dict(history=[pool[a][0], pool[b][0]], got=got[1][:2], fresh=base[b][1][:2]), shape='history-dependence:' + pool[b][0].split(':')[0])
    ncalls, ndiff = 0, 0
    samples = []
    kinds = {}
    for hi, ((hist, seed, wseed), r) in enumerate(zip(histories, outs)):
        for pos, k in enumerate(hist):
            c = r['h%d_%d' % (hi, pos)]
            ncalls += 1
            kinds[pool[k][0].split(':')[0]] = kinds.get(pool[k][0].split(':')[0], 0) + 1
            got = (c['status'], [strip(cmd[2]) for cmd in c['cmds'] if cmd[0] not in ('SEEDPOS',)])
            want = base[k]
            if got != want:
                ndiff += 1
                wrapped = any('Positions must be monotonically increasing' in l for cmd in c['cmds'] for l in cmd[2])
                first = next(((a, b) for a, b in zip(sum(got[1], []), sum(want[1], [])) if a != b), (got[0], want[0]))
                run.fail('call %d of history %s (%s%s) differs from the same call in a fresh process: %r vs %r'
                         % (pos, [pool[x][0] for x in hist], pool[k][0], ', counter seeded to %s' % (wseed or seed) if (seed is not None or wseed is not None) else '', first[0][:160], first[1][:160]),
                         dict(history=[pool[x][0] for x in hist], position=pos, seed=seed, wrap_seed=wseed, got=got[1][:2], fresh=want[1][:2]),
                         shape='position-wrap' if wrapped else 'history-dependence:' + pool[k][0].split(':')[0])
            elif len(samples) < 3 and pos > 0:
                samples.append(dict(history=[pool[x][0] for x in hist[:pos + 1]], seed=seed, call=pool[k][0], status=got[0]))
    nint = interleaved(run, rng, 60 if thorough else 20)
    run.cov.update(interleaved_documents=nint, evaluations=ncalls + npairs + nint, distinct_nontrivial=len(histories), traces_validated_against_impl=ncalls,
                   rule='every ordered pair of calls and seeded random histories of 2-8 calls drawn from %d calls (XML buffers incl. ones that end in std::logic_error / NotSupportedException / unterminated comments, XTA new and old syntax, expression, '
                        'query and per-block parses), in one process, optionally with the global position counter carried to values around 2^31 and near 2^32; each call\'s record (return value or exception, messages with path/line/'
                        'column, document dump, supported methods) must equal the record of the same call alone in a fresh process; absolute positions are erased' % len(pool),
                   samples=samples, histories=len(histories), ordered_pairs=npairs, calls=ncalls + npairs, differing=ndiff, call_kinds=kinds)
    run.cov['trusted_base'] += ['hand model State.v of the global variables and their access order (tied by the grammar checks on `types`/`rootTransId` and by the histories)', 'utapdump SEEDPOS hook-free seeding of UTAP::tracker']
    return run.finish('proof', assumptions=['the flex start condition is modelled as exposed state; no input was found that leaves it in the comment state (the <<EOF>> rule resets it)',
                                            'bison\'s parser stack is local to utap_parse and not part of the model'])
