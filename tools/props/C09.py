"""C09 — accept / reject verdicts are invariant under meaning-preserving rewrites."""
import os, re, collections, subprocess
import vlib, docgen, crashgen, exprgen

SEPS = [' ', ' ', '  ', '\n', '\t', ' /* c */ ', ' // c\n', '\n\n', ' /* a\n b */ ',
        # every way a block comment can be spelled around its delimiters: stars and slashes next to them, nothing inside, doc / banner style, text that looks like code
        ' /** doc **/ ', '/**/', ' /***/ ', ' /*********/ ', ' /* a * b */ ', ' /* a / b */ ', ' /*/ x */ ', ' /* x /*/ ', ' /* // */ ', ' /* int z9 ; */ ', ' /* E X P */ ', ' /*\n*\n*/ ',
        ' // /* c\n', ' //\n', ' \\\n ', '\r\n']
BLOCK = re.compile(r'(<(declaration|parameter|instantiation|system|label[^>]*)>)(.*?)(</(?:declaration|parameter|instantiation|system|label)>)', re.S)
UNESC = lambda t: t.replace('&lt;', '<').replace('&gt;', '>').replace('&amp;', '&')
ESC = docgen.XESC
KEYWORDS = set('''int bool clock chan const urgent broadcast meta hybrid void struct typedef return if else while do for true false forall exists sum and or not imply system process state init trans select guard
sync assign commit branchpoint priority progress default double string scalar deadlock probability import gantt'''.split())
SOFT = ['A', 'U', 'W', 'R', 'E', 'M', 'sup', 'inf', 'bounds', 'simulate', 'control', 'Pr', 'strategy', 'minE', 'maxE']


def blocks(xml):
    """text blocks of an XML model: (start, end, kind, text)"""
    out = []
    for m in BLOCK.finditer(xml):
        out.append((m.start(3), m.end(3), m.group(2).split()[0] + (':' + re.search(r'kind="(\w+)"', m.group(2)).group(1) if 'kind=' in m.group(2) else ''), UNESC(m.group(3))))
    return out


def rebuild(xml, newtexts):
    out, pos = [], 0
    for (a, b, kind, old), new in zip(blocks(xml), newtexts):
        out.append(xml[pos:a]); out.append(ESC(new)); pos = b
    out.append(xml[pos:])
    return ''.join(out)


def respace(rng, toks):
    return ''.join(t + rng.choice(SEPS) for t in toks).rstrip(' \t') + ' '


def rw_space(rng, xml):
    """the same tokens, separated by single blanks (reference) or by blanks / tabs / line breaks / comments"""
    bs = blocks(xml)
    toks = [crashgen.tokens(t) for _, _, _, t in bs]
    return rebuild(xml, [' '.join(t) for t in toks]), rebuild(xml, [respace(rng, t) for t in toks])


def rw_parens(rng, xml):
    """redundant parentheses around number literals and around whole guard / invariant / update-right-hand-side expressions"""
    new = []
    for _, _, kind, t in blocks(xml):
        if kind in ('label:guard', 'label:invariant') and t.strip():
            t2 = re.sub(r'(?<![\w.\[])(\d+)(?![\w.\]])', lambda m: '(%s)' % m.group(1) if rng.random() < 0.6 else m.group(1), t)
            if rng.random() < 0.6: t2 = '(' + t2 + ')'
            if rng.random() < 0.3: t2 = '((' + t2 + '))'
            new.append(t2)
        elif kind == 'label:assignment' and '=' in t and ',' not in t:
            l, r = t.split('=', 1)
            new.append('%s= (%s)' % (l, r) if rng.random() < 0.7 else t)
        else:
            new.append(t)
    return xml, rebuild(xml, new)


def rw_alias(rng, xml):
    """keyword operators for their symbolic forms (and / or / not) wherever the symbolic form is used"""
    new = []
    for _, _, kind, t in blocks(xml):
        toks = crashgen.tokens(t)
        out = []
        for i, x in enumerate(toks):
            prev = toks[i - 1] if i else ''
            if x == '&&': out.append('and')
            elif x == '||': out.append('or')
            elif x == '!' and not re.match(r'^[\w\)\]]', prev or ' ') and i + 1 < len(toks) and kind != 'label:synchronisation': out.append('not')
            else: out.append(x)
        new.append(' '.join(out))
    return rebuild(xml, [' '.join(crashgen.tokens(t)) for _, _, _, t in blocks(xml)]), rebuild(xml, new)


def user_names(xml):
    names = set()
    for _, _, kind, t in blocks(xml):
        for x in re.findall(r'\b[A-Za-z_]\w*\b', t):
            if x not in KEYWORDS and not re.match(r'^(int\d+_t|uint\d+_t|INT\d+_M\w+|UINT\d+_MAX|M_\w+|FLT_\w+|DBL_\w+|id\d+)$', x):
                names.add(x)
    for x in re.findall(r'<name[^>]*>(\w+)</name>', xml):
        names.add(x)
    return names


def rw_rename(rng, xml, targets=None):
    """every user-chosen identifier consistently replaced by a fresh one; returns the map as well"""
    names = sorted(user_names(xml))
    mp = {}
    for k, n in enumerate(names):
        mp[n] = (targets or {}).get(n) or rng.choice(['zq%d_%s', 'N%d%s_', '_%d%s', 'Qx%dy%s']) % (k, n[::-1] if rng.random() < 0.3 else n)
    # inside text blocks a reserved word is the keyword, whatever a location happens to be called (a location named `default` next to
    # `chan priority a < default`): only the <name> elements are renamed for such names
    import gen_lex
    reserved = KEYWORDS | {w for w, _, _ in gen_lex.load()['keywords']}
    mpb = {k: v for k, v in mp.items() if k not in reserved or (targets and k in targets)}
    sub = lambda t: re.sub(r'"[^"]*"|\b[A-Za-z_]\w*\b', lambda m: mpb.get(m.group(0), m.group(0)), t)        # string literals are left alone
    new = [sub(t) for _, _, _, t in blocks(xml)]
    x2 = rebuild(xml, new)
    x2 = re.sub(r'(<name[^>]*>)(\w+)(</name>)', lambda m: m.group(1) + mp.get(m.group(2), m.group(2)) + m.group(3), x2)
    return xml, x2, mp


def observe(c):
    # a syntax error names the unexpected token, which a rewrite may legitimately change (a closing parenthesis instead of the end of the text)
    errs = sorted(re.sub(r'(\$syntax_error).*$', r'\1', re.sub(r'^(error|warning) msg="(.*?)" ctx=.*$', r'\1 \2', l)) for cc in c['cmds'] if cc[0] == 'DUMP' and cc[1] == 'errors' for l in cc[2] if l.startswith('error'))
    sup = [l for cc in c['cmds'] if cc[0] == 'DUMP' and cc[1] == 'supported' for l in cc[2]]
    doc = [l for cc in c['cmds'] if cc[0] == 'DUMP' and cc[1] == 'doc' for l in cc[2]]
    return errs, sup, doc


def comment_texts(rng, n):
    """declarations int a0; int a1; ... with block comments between them whose bodies are drawn from the characters the comment
    rules care about (stars, slashes, the EXPECT: marker, blanks, line breaks): closed early, closed late, swallowed, never closed"""
    atoms = ['*', '*', '/', '/', 'E', 'X', 'EXPECT:', 'EXPECT:a', 'a', ' ', '\n', '\t', '**', '*/', '/*', ':', 'x y']
    out = []
    for _ in range(n):
        parts, k = [], 0
        for _ in range(rng.randrange(2, 6)):
            parts.append('int a%d;' % k); k += 1
            r = rng.random()
            if r < 0.75:
                body = ''.join(rng.choice(atoms) for _ in range(rng.randrange(0, 7)))
                parts.append('/*' + body + ('*/' if rng.random() < 0.9 else ''))
            elif r < 0.85:
                parts.append(' ')
        parts.append('int a%d;' % k)
        out.append((' ' if rng.random() < 0.5 else '').join(parts))
    return out


def comments_at_character_level(run, thorough):
    """the extracted scanner of CommentLex.v against the real lexer: which declarations survive, and whether the comment is reported unclosed"""
    rng = run.rng
    stats = dict(comment_texts=0, comment_unclosed=0, comment_clean=0, comment_garbage=0)
    drv, err = vlib.build_extract('comment', 'Extract_Comment.v', 'drv_comment') if os.path.exists(os.path.join(vlib.COQ, 'theories', 'CommentLexProofs.vo')) else (None, 'CommentLexProofs.vo missing')
    if drv is None:
        run.tie_broken('extraction of the comment scanner', err)
        return stats
    texts = comment_texts(rng, 1500 if thorough else 300)
    out = subprocess.run([drv], input=''.join(t.encode().hex() + '\n' for t in texts), stdout=subprocess.PIPE, universal_newlines=True).stdout.split('\n')
    j = vlib.Job()
    for k, t in enumerate(texts):
        j.case('k%d' % k, fork=True).model('xta', t + '\nprocess P() { state A; init A; }\nsystem P;\n').dump('errors').dump('doc').end()
    rr = vlib.run_jobs(j)
    for k, t in enumerate(texts):
        c = rr['k%d' % k]
        stats['comment_texts'] += 1
        if c['status'] != 'ok':
            run.fail('lexer crashed on a comment (%s)' % c['status'], dict(text=t, status=c['status']), shape='crash')
            continue
        lines = [l for cc in c['cmds'] for l in cc[2]]
        errs = [l for l in lines if l.startswith('error')]
        declared = [m.group(1) for l in lines for m in [re.match(r'global var \d+ (a\d+) ', l)] if m]
        # the suffix "process ... system P;" is appended after the text: an unclosed comment swallows it
        full = t + '\nprocess P() { state A; init A; }\nsystem P;\n'
        mo = subprocess.run([drv], input=full.encode().hex() + '\n', stdout=subprocess.PIPE, universal_newlines=True).stdout.strip() if out[k] == 'UNCLOSED' else out[k]
        if mo == 'UNCLOSED':
            stats['comment_unclosed'] += 1
            if not any('Comment_not_closed' in l for l in errs):
                run.fail('a comment without terminator is not reported: %r' % t, dict(text=t, errors=errs[:3]), shape='comment:unclosed-not-reported')
            continue
        stripped = bytes.fromhex(mo[3:]).decode()
        if '//' in stripped or '"' in stripped or '\\' in stripped:
            continue                                               # line comments, strings and continuations are outside the model
        if re.fullmatch(r'(\s*int a\d+;)*\s*', stripped):
            stats['comment_clean'] += 1
            want = re.findall(r'int (a\d+);', stripped)
            if errs or declared != want:
                run.fail('comments in %r: the declarations outside comments are %s, the parser %s' % (t, want, 'reports ' + errs[0][:120] if errs else 'declares %s' % declared),
                         dict(text=t, expected=want, declared=declared, errors=errs[:3]), shape='comment:wrong-extent')
        else:
            stats['comment_garbage'] += 1
            if not errs:
                run.fail('comments in %r end early and leave %r outside, but the text is accepted' % (t, stripped), dict(text=t, stripped=stripped, declared=declared), shape='comment:garbage-accepted')
    return stats


def blanks_at_token_ends(run, thorough):
    """LexStable.v against the real parser: expression, update and query texts squeezed (no blank except between two words, as long as the extracted scanner still
    finds the same tokens); a blank (or tab) written at a position the extracted `ends` lists must leave the real parse tree unchanged - and so must the squeezing itself"""
    rng = run.rng
    st = collections.Counter()
    dl, e1 = vlib.build_extract('lex', 'Extract_Lex.v', 'drv_lex')
    de, e2 = vlib.build_extract('ends', 'Extract_Ends.v', 'drv_ends') if os.path.exists(os.path.join(vlib.COQ, 'theories', 'LexStable.vo')) else (None, 'LexStable.vo missing')
    if dl is None or de is None:
        run.tie_broken('extraction of the scanner / token-end model', e1 or e2)
        return st
    texts = list(dict.fromkeys(crashgen.EXPR + ['g<=3&&x-y<2', 'a[g]+f(1,g,2)*2', 'b?g:1', 'g=1,b=false', '1.5e3+g', 'g/*c*/+/**/1', 'g//tail', 'x<=3 /* c */ && g>0', 'g<?1>?2', 'g<<1>>2', 'g--+--g', 'g- -1', 'g&&!b||b']))
    hx = lambda t: t.encode().hex()
    run_drv = lambda d, ts: subprocess.run([d], input='\n'.join(hx(t) for t in ts) + '\n', stdout=subprocess.PIPE, universal_newlines=True).stdout.split('\n')
    squeezed = []
    for t in texts:
        toks, out = crashgen.tokens(t), ''
        for tk in toks:
            out += (' ' if out and (out[-1].isalnum() or out[-1] in "_'") and (tk[0].isalnum() or tk[0] == '_') else '') + tk
        squeezed.append(out)
    lo, ls = run_drv(dl, texts), run_drv(dl, squeezed)
    kinds = lambda line: [w.split(':')[0] + ':' + w.split(':')[1] for w in line.split()]
    base = [q if kinds(a) == kinds(b_) and a != 'UNCLOSED' else t for t, q, a, b_ in zip(texts, squeezed, lo, ls)]
    st['squeezed'] = sum(1 for t, q in zip(texts, base) if t != q)
    ends = run_drv(de, base)
    FIX = ('int g; bool b; clock x, y; int a[3]; int f(int p, int q, int r) { return p; } struct { int a; bool b; } s; chan c; chan d[3]; typedef int[0,3] id_t; typedef scalar[2] S;\n'
           'process P() { int v; state L; init L; }\nsystem P;\n')
    j, plan = vlib.Job(), []
    for k, (t, q, en) in enumerate(zip(texts, base, ends)):
        ps = [int(x) for x in en.split()]
        c = j.case('e%d' % k, fork=True).model('xta', FIX).expr(t).expr(q)
        chosen = ps if thorough else rng.sample(ps, min(len(ps), 4))
        for p_ in chosen:
            c.expr(q[:p_] + rng.choice([' ', '\t', '  ']) + q[p_:])
        c.end()
        plan.append((k, t, q, chosen))
    rr = vlib.run_jobs(j)
    for k, t, q, chosen in plan:
        c = rr['e%d' % k]
        if c['status'] != 'ok':
            run.fail('parser crashed on %r' % q, dict(text=q, status=c['status']), shape='crash')
            continue
        tree = lambda cm: [re.sub(r' ctx=.*$', '', l) for l in cm[2] if l.startswith('tree ') or l.startswith('error')]
        t0 = tree(c['cmds'][1])
        if tree(c['cmds'][2]) != t0:
            run.fail('%r and %r have the same tokens by the scanner model but parse differently' % (t, q), dict(original=t, squeezed=q, a=t0[:2], b=tree(c['cmds'][2])[:2]), shape='blank:squeeze')
            continue
        for i, p_ in enumerate(chosen):
            st['insertions'] += 1
            if tree(c['cmds'][3 + i]) != t0:
                run.fail('a blank written at position %d of %r (the end of a token by the scanner model) changes the parse' % (p_, q), dict(text=q, position=p_, before=t0[:2], after=tree(c['cmds'][3 + i])[:2]), shape='blank:token-end')
    st['texts'] = len(plan)
    return st


ALIASES = [('T_BOOL_AND', 'T_KW_AND', '&&', 'and'), ('T_BOOL_OR', 'T_KW_OR', '||', 'or'), ('T_EXCLAM', 'T_KW_NOT', '!', 'not')]


def alias_twins(run):
    """every production of the regenerated grammar that mentions an alias token has a twin with the other spelling (directly or through a nonterminal that derives both):
    the aliases are interchangeable wherever the grammar allows one of them.  The one exception is the send marker of a synchronisation (c!), which is not a negation"""
    import gen_grammar
    G = gen_grammar.load()
    rules = [(r['lhs'], tuple(r['rhs'])) for r in G['rules']]
    S = set(rules)
    missing = []
    for a, b_, _, _ in ALIASES:
        for lhs, rhs in rules:
            for x, y in ((a, b_), (b_, a)):
                if x in rhs and not (lhs == 'SyncExpr' and x == 'T_EXCLAM'):
                    if (lhs, tuple(y if t == x else t for t in rhs)) not in S:
                        missing.append(dict(production='%s -> %s' % (lhs, ' '.join(rhs)), token=x, missing_twin_with=y))
    if missing:
        run.tie_broken('a production accepts one spelling of an operator alias only', missing[:6])
    return len(rules)


QUERY_ALIAS = ['control: A[] (b0 && A<> b1)', 'control: A[] (b0 && !b1 && A<> (b1 || b0))', 'E<> !b0 && (b1 || !b0)', 'A[] b0 && !b1 || b0', 'A[] !(b0 && b1) || !b0', 'E<> v0 > 1 && !(v1 < 2 || b0)', 'b0 && !b1 --> b1 || b0',
               'Pr[<=10](<> b0 && !b1)', 'Pr[<=10](b0 || b1 U !b0 && b1)', 'E[<=10; 100](max: v0 * (b0 && !b1))', 'sup{b0 && !b1}: v0', 'inf{!b0 || b1}: v0', 'A[] forall (i : int[0,2]) arr[i] >= 0 && !b0',
               'E<> exists (i : int[0,2]) !(arr[i] == 1) || b0', 'control: A[ b0 && !b1 U b1 || b0 ]', 'control: A[ !b0 W b1 && b0 ]', '{v0, v1} control: A<> b0 && !b1', 'minE(v0)[<=10] : <> b0 && !b1',
               'simulate [<=10] { v0, b0 && !b1 }', 'simulate [<=10; 5] { v0 } : 2 : b0 || !b1', 'E<> P.A && !b0', 'A[] P.A imply !b0 || b1', 'strategy S1 = control: A<> b0 && !b1', 'A[] not deadlock || !b0']


def query_aliases(run, rng):
    """the alias rewrite on queries: every query of the list with its operators spelled symbolically, by keyword, and mixed at random; the verdict and the tree must agree"""
    import exprgen
    def respell(q, how):
        toks = re.findall(r'&&|\|\||!=|!|[A-Za-z_]\w*|\d+(?:\.\d+)?|\s+|.', q)
        out = []
        for t in toks:
            w = {'&&': 'and', '||': 'or', '!': 'not'}.get(t)
            if w and (how == 'kw' or (how == 'mix' and rng.random() < 0.5)):
                out.append(' ' + w + ' ')
            else:
                out.append(t)
        return ''.join(out)
    j, plan = vlib.Job(), []
    for k, q in enumerate(QUERY_ALIAS):
        c = j.case('qa%d' % k, fork=True).model('xta', exprgen.FIXTURE_XTA)
        vs = [q, respell(q, 'kw'), respell(q, 'mix'), respell(q, 'mix')]
        # block comments between two tokens of the query, on one line and running over line ends (a line end outside a comment ends the query; inside one it is comment text)
        sp = [m.start() for m in re.finditer(' ', q)]
        for cm in ('/* c */', '/* the guard,\n   then the target */', '/*\n*/', '/* a\r\n b */'):
            if sp:
                i = rng.choice(sp)
                vs.append(q[:i] + ' ' + cm + ' ' + q[i + 1:])
        for v in vs:
            c.query(v, rt=False)
        c.end()
        plan.append((k, vs))
    rr = vlib.run_jobs(j)
    n = 0
    for k, vs in plan:
        c = rr['qa%d' % k]
        if c['status'] != 'ok':
            run.fail('parser crashed on a query (%s)' % c['status'], dict(queries=vs, status=c['status']), shape='crash:query-alias')
            continue
        obs = []
        for i in range(len(vs)):
            cm = c['cmds'][1 + i][2]
            strip = (lambda l: re.sub(r' ctx=.*$', '', l)) if i < 4 else (lambda l: re.sub(r'" ctx=.*$', '', l))          # a comment moves the columns
            obs.append((next((l for l in cm if l.startswith('accepted')), ''), sorted(strip(l) for l in cm if l.startswith('error')), next((l for l in cm if l.startswith('tree ')), '')))
        for i in range(1, len(vs)):
            n += 1
            if obs[i] != obs[0] and (i < 4 or (obs[i][0], obs[i][2]) != (obs[0][0], obs[0][2]) or bool(obs[i][1]) != bool(obs[0][1])):
                run.fail('the query %r and its respelling %r differ: %s vs %s' % (vs[0], vs[i], obs[0][:2], obs[i][:2]), dict(original=vs[0], rewritten=vs[i], a=obs[0], b=obs[i]), shape='query-alias:' + re.sub(r'[^A-Za-z\[\]<>]+', '_', vs[0])[:30])
                break
    return n


def reference_parens(run, thorough):
    """parentheses the language's precedence table makes redundant: every (context position x child operator) pair of the operator table and random trees, written
    with only the parentheses the REFERENCE table requires and with every operand parenthesised; the library must read the same tree from both (a grouping that
    changes when redundant parentheses are inserted is a violation whichever of the two texts the implementation reads wrongly)"""
    import exprgen, gen_grammar
    from props import C02
    try:
        T = exprgen.Table()
    except (gen_grammar.GrammarError, RuntimeError) as e:
        run.tie_broken('G-LR/G-LEX translation of parser.y / lexer.l', str(e))
        return 0
    drv, err = vlib.build_extract('c02', 'Extract_C02.v', 'drv_c02') if os.path.exists(os.path.join(vlib.COQ, 'theories', 'ExprSyntax.vo')) else (None, 'ExprSyntax.vo missing')
    if drv is None:
        run.tie_broken('extraction of the expression syntax model', err)
        return 0
    cases, ntri, nchain, nrand = C02.build_cases(T, run, False)
    pick = cases[:ntri] + run.rng.sample(cases[ntri:], min(len(cases) - ntri, 1500 if thorough else 500))
    rend = exprgen.Model(drv).render_many([c['tree'] for c in pick])
    nsh = 8
    shards = [vlib.Job() for _ in range(nsh)]
    for k, j in enumerate(shards):
        j.case('rp%d' % k).model('xta', exprgen.FIXTURE_XTA)
    plan = []
    for idx, (c, r) in enumerate(zip(pick, rend)):
        a, b = T.text(r['refmin'], fields=c['fields']), T.text(r['full'], fields=c['fields'])
        if a == b:
            continue
        shards[idx % nsh].expr(a)
        shards[idx % nsh].expr(b)
        plan.append((idx % nsh, c, a, b))
    big = vlib.Job()
    for j in shards:
        j.end(); big.parts += j.parts; big.ids += j.ids
    res = vlib.run_jobs(big, shards=nsh)
    cursor = {k: 1 for k in range(nsh)}
    for sh, c, a, b in plan:
        cs = res['rp%d' % sh]
        if cs['status'] != 'ok' or cursor[sh] + 1 >= len(cs['cmds']):
            run.fail('parser crashed or stopped while parsing expressions (%s)' % cs['status'], dict(text=a, status=cs['status']), shape='crash')
            break
        la, lb = cs['cmds'][cursor[sh]][2], cs['cmds'][cursor[sh] + 1][2]
        cursor[sh] += 2
        ta, tb = next((l for l in la if l.startswith('tree ')), None), next((l for l in lb if l.startswith('tree ')), None)
        ea, eb = [l for l in la if l.startswith('error')], [l for l in lb if l.startswith('error')]
        if ta != tb or bool(ea) != bool(eb):
            run.fail('redundant parentheses change the expression: %r reads as %s, %r as %s' % (a, (ta or ea[:1]), b, (tb or eb[:1])), dict(minimal=a, parenthesised=b, tree_minimal=ta, tree_parenthesised=tb, errors=(ea + eb)[:2]),
                     shape='parens:reference-grouping:' + c['name'].split(':')[0])
    return len(plan)


def check(run):
    thorough = run.tier == 'thorough'
    rng = run.rng
    try:
        import gen_lex
        gen_lex.comment_rules()
    except Exception as e:
        run.tie_broken('reader of the <comment> rules of lexer.l', str(e))
    run.proofs()
    cstats = comments_at_character_level(run, thorough)
    cstats['alias_twin_productions'] = alias_twins(run)
    cstats['query_alias_rewrites'] = query_aliases(run, rng)
    cstats['reference_parenthesis_pairs'] = reference_parens(run, thorough)
    cstats.update({'blank_' + k: v for k, v in blanks_at_token_ends(run, thorough).items()})
    n = 2500 if thorough else 320
    j = vlib.Job()
    plan = []
    for k in range(n):
        r = rng.random()
        if r < 0.55:
            M = docgen.gen(rng, ntempl=rng.choice([1, 2, 3]))
            if rng.random() < 0.3:
                sites = [(kind, m) for T in M.templates for e in T['edges'] for kind, m in e['labels'] if kind in ('guard', 'update')]
                if sites:
                    kind, m = rng.choice(sites)
                    M.text[(kind, m)] = rng.choice(['zz%d == 1', 'g0 == c', 'x', 'g0 == 1 && !(g1 < 2) || g2 > 3', '!(g0 == %d) && (g1 > 0 || g2 < 5)', 'g0 == 1 || g1 < 2 && g2 > 3', 'g0 == %d || !(g1 < 2) && g2 > 3 || g1 == 0 && g0 > 1',
                                                    'x < 5 || g0 == 1 && x < 3', '!(g0 == 1) || g1 < 2 && !(g2 > 3)', 'g0 == 1 && g1 < 2 || g2 > 3 && g0 < %d']).replace('%d', str(m)) if kind == 'guard' else rng.choice(['g1 = zz%d', 'g1 = (g0 > 1 && g2 < 3) ? 1 : 0']).replace('%d', str(m))
            if rng.random() < 0.3:
                # location names that are ordinary words to the XML reader although the declaration language reserves them
                # (names the reader refuses as keywords - init, guard, int, ... - are not user-chosen identifiers and are left out)
                odd = ['exit', 'default', 'select', 'progress', 'query', 'spawn', 'meta', 'assert', 'return', 'for', 'do', 'if', 'else', 'while', 'typedef', 'struct', 'string', 'hybrid', 'switch', 'case',
                       'continue', 'break', 'enum', 'gantt', 'import', 'dynamic', 'refinement', 'consistency', 'specification', 'implementation', 'scenario', 'min', 'max', 'instance', 'template']
                rng.shuffle(odd)
                for T in M.templates:
                    for l in T['locs']:
                        if l['name'] and odd and rng.random() < 0.5:
                            l['name'] = odd.pop()
            base = docgen.render_xml(M)
        else:
            base = crashgen.wrap_xml(rng.choice(crashgen.DECL) + ' ' + rng.choice(crashgen.DECL), guard=rng.choice(crashgen.EXPR), assign=rng.choice(['g = 1', 'g = 1, b = false', 'g++']),
                                     inv=rng.choice(['x <= 3', 'x <= 3 && g >= 0', 'true']), system=rng.choice(['system P;', 'P1 = P(); system P1;']))
        kind = rng.choice(['space', 'space', 'parens', 'alias', 'rename', 'rename'])
        mp = None
        try:
            if kind == 'space': a, b = rw_space(rng, base)
            elif kind == 'parens': a, b = rw_parens(rng, base)
            elif kind == 'alias': a, b = rw_alias(rng, base)
            else: a, b, mp = rw_rename(rng, base)
        except Exception:
            continue
        if a == b:
            continue
        plan.append((k, kind, a, b, mp))
        j.case('a%d' % k, fork=True).model('xml', a).dump('errors').dump('supported').dump('doc').end()
        j.case('b%d' % k, fork=True).model('xml', b).dump('errors').dump('supported').dump('doc').end()
    # the soft-keyword probe of the property text: a type name that equals a token of the query language
    probes = []
    for sk in SOFT:
        base = crashgen.wrap_xml('typedef int[0,3] tname; tname v; int g;', tdecl='', guard='v == 1', assign='g = 1', sync='', inv='true', select='i : tname')
        a, b, mp = rw_rename(rng, base, targets={'tname': sk})
        probes.append((sk, a, b, mp))
        j.case('pa' + sk, fork=True).model('xml', a).dump('errors').dump('supported').dump('doc').end()
        j.case('pb' + sk, fork=True).model('xml', b).dump('errors').dump('supported').dump('doc').end()
    # renaming ONE declared entity and the uses bound to it (which removes or creates no shadowing when the new name is fresh): scope-generator models, bindings by the extracted scope model
    import scopegen
    ones = []
    drv_scope, err = vlib.build_extract('scope', 'Extract_Scope.v', 'drv_scope') if os.path.exists(os.path.join(vlib.COQ, 'theories', 'ScopeProofs.vo')) else (None, 'ScopeProofs.vo missing')
    if drv_scope is None:
        run.tie_broken('extraction of the scope model (rename-one family)', err)
    else:
        gens = []
        for k in range(1200 if thorough else 160):
            g = scopegen.Gen(rng, mark=True)
            tree, xml, obs = g.model()
            gens.append((tree, xml))
        sout = subprocess.run([drv_scope], input='\n'.join(t for t, _ in gens) + '\n', stdout=subprocess.PIPE, universal_newlines=True).stdout.split('\n')
        for k, (tree, xml) in enumerate(gens):
            S = sout[2 * k][2:].split()
            local = scopegen.scope_local_names(tree)
            # a declaration whose name is declared once in its own scope (renaming one of two declarations of a scope removes a duplicate: not meaning preserving)
            cands = [d for d, (n, dup) in local.items() if not dup]
            if not cands:
                continue
            shadowing = [d for d in cands if sum(1 for d2, (n2, _) in local.items() if n2 == local[d][0]) > 1]
            d = rng.choice(shadowing or cands)
            fresh = 'zq%d%s' % (d, scopegen.NAMES[local[d][0]])
            uses = {i for i, b in enumerate(S) if b == str(d)}
            a, b = scopegen.instantiate(xml), scopegen.instantiate(xml, decl=d, uses=uses, fresh=fresh)
            ones.append((k, a, b, {scopegen.NAMES[local[d][0]]: fresh}))
            j.case('oa%d' % k, fork=True).model('xml', a).dump('errors').dump('supported').dump('doc').end()
            j.case('ob%d' % k, fork=True).model('xml', b).dump('errors').dump('supported').dump('doc').end()
    rr = vlib.run_jobs(j)
    stats = collections.Counter()

    def compare(ca, cb, kind, a, b, mp, shape_prefix):
        if ca['status'] != 'ok' or cb['status'] != 'ok':
            if ca['status'] != cb['status']:
                run.fail('%s rewrite: one spelling crashes or throws where the other does not (%s vs %s)' % (kind, ca['status'], cb['status']), dict(rewrite=kind, original=a, rewritten=b), shape=shape_prefix + 'crash-asym:' + kind)
            return
        ea, sa, da = observe(ca)
        eb, sb, db = observe(cb)
        if shape_prefix:
            # probe: only acceptance is compared (the new name is a short word that also occurs in the dump's own vocabulary)
            if bool(ea) != bool(eb):
                run.fail('%s turns an %s model into an %s one: %r' % (kind, 'accepted' if not ea else 'rejected', 'accepted' if not eb else 'rejected', (eb or ea)[:2]), dict(rewrite=kind, original=a, rewritten=b),
                         shape=shape_prefix.rstrip(':'))
            return
        if mp:
            # the fresh names are unique strings: map them back in what the rewritten model produced
            back = sorted(((v, k) for k, v in mp.items()), key=lambda p: -len(p[0]))
            def sub(t):
                for v, k in back:
                    t = t.replace(v, k)
                return t
            # name sets are printed sorted by name: sort them again after mapping the names back
            canon = lambda t: re.sub(r'\b(changes|depends|restricted)=\{([^}]*)\}', lambda m: '%s={%s}' % (m.group(1), ','.join(sorted(m.group(2).split(',')))), t)
            eb, db = sorted(sub(x) for x in eb), [canon(sub(x)) for x in db]
            da = [canon(x) for x in da]
        stats['accepted' if not ea else 'rejected'] += 1
        if ea != eb:
            only_a, only_b = [x for x in ea if x not in eb], [x for x in eb if x not in ea]
            run.fail('%s rewrite changes the diagnostics: only before %r, only after %r' % (kind, only_a[:2], only_b[:2]), dict(rewrite=kind, original=a, rewritten=b, diagnostics_original=ea, diagnostics_rewritten=eb),
                     shape=shape_prefix.rstrip(':') if shape_prefix else 'diag:%s:%s' % (kind, re.sub(r'[0-9]+', 'N', (only_a + only_b + ['order'])[0])[:50]))
        elif any('syntax_error' in x for x in ea):
            return                    # after a syntax error the recovered tree depends on which error production applies, e.g. '(' error ')'
        elif sa != sb:
            run.fail('%s rewrite changes the supported-analysis verdict: %r vs %r' % (kind, sa, sb), dict(rewrite=kind, original=a, rewritten=b), shape=shape_prefix + 'supported:' + kind)
        elif da != db:
            diff = next(((p, q) for p, q in zip(da + ['<end>'], db + ['<end>']) if p != q), ('', ''))
            run.fail('%s rewrite changes the document: %r became %r' % (kind, diff[0][:140], diff[1][:140]), dict(rewrite=kind, original=a, rewritten=b, line_original=diff[0], line_rewritten=diff[1]),
                     shape=shape_prefix + 'doc:%s:%s' % (kind, re.sub(r'[0-9]+', 'N', diff[0].split('=')[0])[:30]))

    for k, kind, a, b, mp in plan:
        stats[kind] += 1
        compare(rr['a%d' % k], rr['b%d' % k], kind, a, b, mp, '')
    for k, a, b, mp in ones:
        stats['rename-one'] += 1
        compare(rr['oa%d' % k], rr['ob%d' % k], 'rename-one', a, b, mp, '')
    for sk, a, b, mp in probes:
        stats['soft-keyword-probes'] += 1
        compare(rr['pa' + sk], rr['pb' + sk], 'rename type to %s' % sk, a, b, mp, 'soft-keyword-type:%s:' % sk)
    run.cov.update(evaluations=2 * len(plan) + 2 * len(probes) + cstats['comment_texts'], distinct_nontrivial=len(set(p[3] for p in plan)), traces_validated_against_impl=len(plan) + cstats['comment_texts'], **stats, **cstats,
                   rule='generated models (C04 generator, a third with a semantic fault in a label; declaration seeds with functions, structs, typedefs, quantifiers, channel priorities) rewritten by one family: '
                        '(space) the same tokens separated by blanks / tabs / line breaks / block and line comments instead of single blanks; (parens) redundant parentheses around literals and whole guard / invariant / update expressions; '
                        '(alias) and / or / not for && / || / !; (rename) every user identifier consistently replaced by a fresh one; (rename-one) in models of the scope generator (names declared at many levels, shadowing each other, type names included) one declaration and exactly the uses the extracted scope model binds to it renamed to a fresh name. Compared: the multiset of diagnostic messages (renamed, positions dropped), the supported-analysis verdict, '
                        'and the document dump line by line (renamed). Plus one probe per soft keyword of the query language used as a type name.')
    run.cov['trusted_base'] += ['the rewriters of tools/props/C09.py (token-level; the reference spelling is re-joined from the same token list)', 'tools/docgen.py, tools/crashgen.py', 'SR.v / ExprSyntax.v / Scope.v models (see C02, C07)']
    return run.finish('proof', assumptions=['block comments are modelled at character level (CommentLex.v: the five <comment> rules, regenerated from lexer.l and compared with the modelled ones); blanks, line comments, continuations and the token rules of the INITIAL condition are not: their invariance is decided by the relational oracle only',
                                            'the type checker\'s equivariance under renaming is proved for name resolution (Scope.v), not for the whole checker'])
