"""C20 — the XML writer's template graph mirrors the document it was given."""
import os, re, subprocess, urllib.parse
import xml.etree.ElementTree as ET
import vlib, docgen

# label text variants: (source text, text the writer must carry or None when the label is trivially true)
VARIANTS = {
    'guard': [('g0 == %d', 'g0 == %d'), ('true', 'true'), ('1', None), ('1 && g0 == %d', 'g0 == %d'), ('g0 < %d && x >= 1', 'g0 < %d && x >= 1'),
              ('g0 > 2 && g1 < %d', 'g0 > 2 && g1 < %d')],
    'select': [('s%d : int[0,1]', 's%d : int[0,1]'), ('s%d : int[0,1], t%d : int[1,2]', 's%d : int[0,1], t%d : int[1,2]'),
               ('s%d : int[0,1], t%d : int[1,2], u%d : int[0,3]', 's%d : int[0,1], t%d : int[1,2], u%d : int[0,3]'),
               ('s%d : int[0,32767]', 's%d : int[0,32767]'), ('s%d : int[-32768,5]', 's%d : int[-32768,5]'), ('s%d : int[1,32766], t%d : int[0,32767]', 's%d : int[1,32766], t%d : int[0,32767]')],
    'prob': [('%d', '%d'), ('1', None), ('%d', '%d')],
    'update': [('g1 = %d', 'g1 = %d'), ('g1 = %d, g2 = 0', 'g1 = %d, g2 = 0'), ('g2++', 'g2++')],
    'inv': [('x <= %d', 'x <= %d'), ('x <= %d && g0 < 5', '(x <= %d && g0 < 5)'), ('1', '1'), ('true', 'true')],
    'rate': [('%d', '%d'), ('1', '1'), ('%d', '%d')],
    'sync': [('c%d!', 'c%d!'), ('c%d?', 'c%d?')],
}


def fill(t, m):
    return t.replace('%d', str(m)) if t is not None else None


def vary(M, rng, expect):
    """choose a text variant for every label of M; expect[(kind, marker)] = text the written file must carry (None: nothing)"""
    def pick(kind, m):
        src, out = rng.choice(VARIANTS[kind]) if rng.random() < 0.6 else VARIANTS[kind][0]
        M.text[(kind, m)] = fill(src, m)
        expect[(kind, m)] = fill(out, m)
    for T in M.templates:
        for l in T['locs']:
            if l['inv'] is not None: pick('inv', l['inv'])
            if l['rate'] is not None: pick('rate', l['rate'])
        for e in T['edges']:
            for k, m in e['labels']:
                pick(k, m)


def expected_graph(M, T, expect):
    """the graph the written template must have, from the abstract model alone"""
    ids = [l['id'] for l in T['locs']]
    def end(i):
        return ('B', T['bps'].index(i)) if i in T['bps'] else ('L', ids.index(i))
    locs = []
    for l in T['locs']:
        locs.append((l['name'], expect.get(('inv', l['inv'])) if l['inv'] is not None else None,
                     expect.get(('rate', l['rate'])) if l['rate'] is not None else None, bool(l['committed']), bool(l['urgent']) and not l['committed']))
    edges = []
    for e in T['edges']:
        lab = {}
        for k, m in e['labels']:
            lab[k] = expect[(k, m)]
        edges.append((end(e['src']), end(e['dst']), bool(e['control']), lab.get('select'), lab.get('guard'), lab.get('sync'), lab.get('update'), lab.get('prob')))
    return dict(name=T['name'], locs=locs, nbps=len(T['bps']), init=ids.index(T['init']), edges=edges)


class Malformed(Exception):
    pass


def read_graph(t):
    """independent reader of a <template> element (ElementTree over expat), written against the DTD"""
    def label(el, kind):
        ls = [x for x in el.findall('label') if x.get('kind') == kind]
        if len(ls) > 1: raise Malformed('%d labels of kind %s in one element' % (len(ls), kind))
        return (ls[0].text or '') if ls else None
    names = t.findall('name')
    if len(names) != 1: raise Malformed('template has %d name elements' % len(names))
    lids, locs = [], []
    for l in t.findall('location'):
        if l.get('id') is None: raise Malformed('location without id')
        lids.append(l.get('id'))
        nm = l.findall('name')
        if len(nm) != 1: raise Malformed('location %s has %d name elements' % (l.get('id'), len(nm)))
        locs.append((nm[0].text or '', label(l, 'invariant'), label(l, 'exponentialrate'), l.find('committed') is not None, l.find('urgent') is not None))
    bids = []
    for b in t.findall('branchpoint'):
        if b.get('id') is None: raise Malformed('branchpoint without id')
        bids.append(b.get('id'))
    if len(set(lids + bids)) != len(lids + bids): raise Malformed('identifiers are not unique: %r' % (lids + bids))
    inits = t.findall('init')
    if len(inits) != 1: raise Malformed('%d init elements' % len(inits))
    if inits[0].get('ref') not in lids: raise Malformed('init refers to %r, not a location' % inits[0].get('ref'))
    def resolve(e, what):
        r = e.findall(what)
        if len(r) != 1: raise Malformed('transition with %d %s elements' % (len(r), what))
        ref = r[0].get('ref')
        if ref in lids: return ('L', lids.index(ref))
        if ref in bids: return ('B', bids.index(ref))
        raise Malformed('%s refers to unknown id %r' % (what, ref))
    edges = []
    for e in t.findall('transition'):
        edges.append((resolve(e, 'source'), resolve(e, 'target'), e.get('controllable', 'true') != 'false', label(e, 'select'), label(e, 'guard'),
                      label(e, 'synchronisation'), label(e, 'assignment'), label(e, 'probability')))
    return dict(name=names[0].text or '', locs=locs, nbps=len(bids), init=lids.index(inits[0].get('ref')), edges=edges)


def enc(s):
    return '~' + ''.join(c if (c.isalnum() and ord(c) < 128) or c in '_.' else ''.join('%%%02X' % b for b in c.encode()) for c in s)


def tree_sx(el):
    """element tree -> the s-expression drv_writer prints, with the layout (x, y, color attributes, nail elements) removed"""
    attrs = ' '.join('(%s %s)' % (k, enc(v)) for k, v in el.attrib.items() if k not in ('x', 'y', 'color'))
    kids = ''
    if el.text and (len(el) == 0 or el.text.strip()):
        kids += ' (T %s)' % enc(el.text)
    for c in el:
        if c.tag == 'nail':
            continue
        kids += ' ' + tree_sx(c)
    return '(E %s (%s)%s)' % (el.tag, attrs, kids)


def graph_diff(exp, got):
    if exp['name'] != got['name']: return 'template name: expected %r, written %r' % (exp['name'], got['name'])
    if len(exp['locs']) != len(got['locs']): return 'expected %d location elements, written %d' % (len(exp['locs']), len(got['locs']))
    for k, (a, b) in enumerate(zip(exp['locs'], got['locs'])):
        if a[0] is None:
            a = (b[0],) + a[1:]                               # anonymous location: any name
        if a != b: return 'location %d (name, invariant, rate, committed, urgent): expected %r, written %r' % (k, a, b)
    if exp['nbps'] != got['nbps']: return 'expected %d branchpoints, written %d' % (exp['nbps'], got['nbps'])
    if exp['init'] != got['init']: return 'init: expected location %d, written %d' % (exp['init'], got['init'])
    if len(exp['edges']) != len(got['edges']): return 'expected %d transitions, written %d' % (len(exp['edges']), len(got['edges']))
    for k, (a, b) in enumerate(zip(exp['edges'], got['edges'])):
        if a != b:
            names = ('source', 'target', 'controllable', 'select', 'guard', 'synchronisation', 'assignment', 'probability')
            f = [n for n, x, y in zip(names, a, b) if x != y]
            return 'transition %d: %s expected %r, written %r' % (k, '/'.join(f), a, b)
    return None


def select_types(run):
    """select labels over every kind of type a select may range over: the written label carries the text of the select (modulo blanks)"""
    import tempfile, glob, shutil
    X = ('<?xml version="1.0" encoding="utf-8"?><nta><declaration>int g; typedef scalar[3] sid_t; typedef int[0,3] r_t; const int N = 2;</declaration><template><name>P</name><location id="id0"/><location id="id1"/>'
         '<init ref="id0"/><transition><source ref="id0"/><target ref="id1"/><label kind="select">%s</label><label kind="assignment">g = 1</label></transition></template><system>system P;</system></nta>')
    sels = ['k : int[0,2]', 'q : r_t', 'n : sid_t', 'm : scalar[2]', 'k : int[0,N]', 'k : int[0,2], q : r_t', 'm : scalar[2], n : sid_t', 'k : int[N - 1, N + 1]']
    tmp = tempfile.mkdtemp(prefix='c20sel', dir=vlib.WORK)
    j = vlib.Job()
    for k, sel in enumerate(sels):
        j.case('s%d' % k, fork=True).model('xml', X % sel).dump('errors').cmd('WRITE %s/s%d' % (tmp, k)).end()
    rr = vlib.run_jobs(j)
    for k, sel in enumerate(sels):
        c = rr['s%d' % k]
        written = next((l[4:] for cc in c['cmds'] for l in cc[2] if l.startswith('xml ')), None)
        if c['status'] != 'ok' or not written:
            run.fail('the writer crashed or wrote nothing for a select over %r (%s)' % (sel, c['status']), dict(select=sel, status=c['status']), shape='crash:select-type')
            continue
        m = re.search(r'<label kind="select"[^>]*>(.*?)</label>', written.replace('\\n', '\n'), flags=re.S)
        got = m.group(1) if m else None
        norm = lambda t: re.sub(r'\s+', '', t or '')
        if norm(got) != norm(sel):
            run.fail('the select %r is written as %r' % (sel, got), dict(select=sel, written=got, xml=X % sel),
                     shape='select-text:' + ('anonymous-scalar' if 'scalar[' in sel else re.sub(r'[^a-z_]+', '-', sel)[:20]))
    shutil.rmtree(tmp, ignore_errors=True)
    return len(sels)


def check(run):
    thorough = run.tier == 'thorough'
    rng = run.rng
    run.proofs()
    drv, err = vlib.build_extract('writer', 'Extract_Writer.v', 'drv_writer') if os.path.exists(os.path.join(vlib.COQ, 'theories', 'WriterProofs.vo')) else (None, 'WriterProofs.vo missing')
    if drv is None:
        run.tie_broken('extraction of the writer model', err)
        return run.finish('proof')
    tmp = os.path.join(vlib.WORK, 'tmp')
    os.makedirs(tmp, exist_ok=True)
    n = 3000 if thorough else 350
    models, expects = [], []
    for _ in range(n):
        M = docgen.gen(rng, ntempl=rng.choice([1, 1, 2, 3] + ([4, 6] if thorough else [])))
        M.globals = ['g0', 'g1', 'g2']
        ex = {}
        vary(M, rng, ex)
        models.append(M); expects.append(ex)
    xmls = [docgen.render_xml(M) for M in models]
    j = vlib.Job()
    for k, x in enumerate(xmls):
        j.case('w%d' % k, fork=True).model('xml', x).dump('errors').dump('wdoc').cmd('WRITE %s/w' % tmp).end()
    rr = vlib.run_jobs(j)
    wlines, owner = [], []
    stats = dict(templates=0, locations=0, edges=0, branchpoint_edges=0, self_loops=0, trivial_labels=0, multi_selects=0, uncontrollable=0)
    trees = {}
    samples = []
    for k, (M, x) in enumerate(zip(models, xmls)):
        c = rr['w%d' % k]
        if len(c['cmds']) >= 2 and [l for l in c['cmds'][1][2] if l.startswith('error')]:
            run.tie_broken('a generated well-formed model is rejected', dict(xml=x[:1500], errors=c['cmds'][1][2][:3]))
            continue
        if c['status'] != 'ok' or len(c['cmds']) < 4:
            run.fail('write_XML_file crashed on an accepted model (%s)' % c['status'], dict(xml=x, status=c['status']), shape='crash')
            continue
        wl = c['cmds'][3][2]
        exc = [l for l in wl if l.startswith('EXC')]
        if exc:
            run.fail('write_XML_file threw on an accepted model: ' + exc[0], dict(xml=x), shape='throw')
            continue
        text = [l[4:] for l in wl if l.startswith('xml ')]
        data = re.sub(r'\\x([0-9a-f]{2})', lambda m: chr(int(m.group(1), 16)), text[0].replace('\\\\', '\0').replace('\\n', '\n').replace('\\r', '\r')).replace('\0', '\\') if text else ''
        try:
            root = ET.fromstring(data.encode('latin-1'))
        except Exception as ex:
            run.fail('the written file is not well-formed XML: %s' % ex, dict(xml=x, written=data[:3000]), shape='malformed')
            continue
        ts = root.findall('template')
        if len(ts) != len(M.templates):
            run.fail('expected %d template elements, written %d' % (len(M.templates), len(ts)), dict(xml=x, written=data[:3000]), shape='templates')
            continue
        wd = [l[3:] for l in c['cmds'][2][2] if l.startswith('wt ')]
        dang = [l for l in c['cmds'][2][2] if l.startswith('wt-dangling')]
        if dang or len(wd) != len(ts):
            run.tie_broken('document of an accepted model has dangling edges or missing templates', dict(xml=x[:1500], dump=c['cmds'][2][2][:5]))
            continue
        for ti, (T, el) in enumerate(zip(M.templates, ts)):
            try:
                got = read_graph(el)
            except Malformed as ex:
                run.fail('written template cannot be read: %s' % ex, dict(xml=x, written=ET.tostring(el).decode()[:3000]), shape='unreadable:' + re.sub(r'[0-9]+', 'N', str(ex))[:40])
                continue
            d = graph_diff(expected_graph(M, T, expects[k]), got)
            if d:
                run.fail('written template differs from the model: ' + d, dict(xml=x, written=ET.tostring(el).decode()[:3000], difference=d),
                         shape='graph:' + re.sub(r"[0-9]+", 'N', re.sub(r"expected.*", '', d))[:50])
            wlines.append('T ' + wd[ti]); owner.append((k, ti)); trees[(k, ti)] = tree_sx(el)
            stats['templates'] += 1; stats['locations'] += len(T['locs']); stats['edges'] += len(T['edges'])
            stats['branchpoint_edges'] += sum(1 for e in T['edges'] if e['src'] in T['bps'] or e['dst'] in T['bps'])
            stats['self_loops'] += sum(1 for e in T['edges'] if e['src'] == e['dst'])
            stats['uncontrollable'] += sum(1 for e in T['edges'] if not e['control'])
            for e in T['edges']:
                for kk, m in e['labels']:
                    if expects[k][(kk, m)] is None: stats['trivial_labels'] += 1
                    if kk == 'select' and ',' in (M.text.get((kk, m)) or '').replace('[0,', '[0;').replace('[1,', '[1;'): stats['multi_selects'] += 1
        if len(samples) < 1 and len(M.templates) == 1 and len(data) < 6000:
            samples.append(dict(xml=x, written_template=ET.tostring(ts[0]).decode()))
    # the model: writer tree equality, reader-on-writer equals graph_of, wf_templ holds of real documents
    out = subprocess.run([drv], input='\n'.join(wlines) + '\n', stdout=subprocess.PIPE, universal_newlines=True).stdout.split('\n')
    mism = []
    for q, key in enumerate(owner):
        W, X, G, S = out[4 * q:4 * q + 4] if len(out) >= 4 * q + 4 else ('', '', '', '')
        if W != 'W 1':
            mism.append(dict(kind='wf_templ false on a built document (the theorem does not apply)', templ=wlines[q][:800]))
        elif X[2:] != trees[key]:
            mism.append(dict(kind='write_templ tree differs from the written file', model=X[2:][:1500], real=trees[key][:1500]))
        elif G[2:] != S[2:]:
            mism.append(dict(kind='read_templ (write_templ t) <> graph_of t', G=G[:800], S=S[:800]))
    if mism:
        run.tie_broken('WriterModel vs write_XML_file', mism[:3] + [dict(total=len(mism))])
    nsel = select_types(run)
    run.cov.update(select_type_probes=nsel, evaluations=len(models) + nsel, distinct_nontrivial=len(set(xmls)), traces_validated_against_impl=len(owner),
                   rule='seeded random accepted models from the C04 generator (1-3 templates, up to 6 thorough; named and anonymous locations, urgent / committed, branchpoints, self loops, parallel edges, '
                        'uncontrollable edges) with label text variants: trivially true guards (1, true), guards starting with "1 && ", XML-special characters (<, >, &&), one to three selects, '
                        'probability 1, exponential rate 1, multi-assignment; write_XML_file output parsed by ElementTree/expat and compared (a) as a graph with the abstract model and '
                        '(b) as a tree, layout removed, with the extracted Coq writer run on the document dump',
                   samples=samples, **stats)
    run.cov['trusted_base'] += ['hand model WriterModel.v of XMLWriter::taTempl/location/branchpoint/init/transition/labels/label (tied by tree equality on every written template)',
                                'libxml2 xmlTextWriter (serialisation, escaping) and Python ElementTree/expat (the independent parser)', 'tools/docgen.py', 'drv_writer.ml', 'utapdump DUMP wdoc / WRITE']
    return run.finish('proof', assumptions=['layout attributes and nails, the global declaration and system elements are not modelled',
                                            'LSC templates are not generated; expression text is expression_t::str() (C03)'])
