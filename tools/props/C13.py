"""C13 — sizes, bounds, initialisers and value arguments must be compile-time computable."""
import os, re, subprocess, itertools
import vlib, effgen as G

V = lambda i: ('v', i)
L = lambda n=1: ('lit', n)
M_ID, K_ID = 0, 8            # g0 is the mutable base, K the constant base

LINKS = ['const', 'fun-return', 'fun-local', 'fun-const-local', 'fun-if', 'fun-while', 'fun-arg', 'fun-chain', 'fun-void-out']
CONTEXTS = ['arraysize', 'range', 'scalarsize', 'global-init', 'const-init', 'template-init', 'value-arg', 'constref-arg', 'typedef-range', 'struct-array', 'select-range',
            'template-array', 'param-range', 'fun-param-array', 'fun-param-range', 'fun-param-ref-array', 'fun-local-array', 'fun-local-range', 'fun-return-range',
            'template-fun-param-array', 'block-local-array', 'iteration-range', 'quantifier-range', 'fun-param-2d-array', 'struct-field-range',
            'named-struct-array-init', 'named-struct-array-size', 'named-struct-array-field-range', 'template-named-struct-array-init', 'const-named-struct-array-init', 'typedef-array-of-array-size']


class Chain:
    """a dependence chain base <- link_1 <- ... <- link_k; yields declarations (text), abstract functions, constants with initialisers, and the final expression"""
    def __init__(self, base, links):
        self.N = G.Names()
        self.funs, self.decls, self.consts = [], [], {}      # consts: id -> init exp
        self.text_items = []                                  # ('const', id, exp) | ('fun', index)
        nid = 3000
        if base == 'mutable':
            cur = V(M_ID)
        elif base == 'const':
            cur = V(K_ID)
        else:
            cur = L(2)
        self.mutable = base == 'mutable'
        for ln in links:
            nid += 1
            if ln == 'const':
                self.N.add(nid, 'c%d' % nid)
                self.consts[nid] = cur
                self.text_items.append(('const', nid, cur))
                cur = V(nid)
                continue
            k = len(self.funs)
            lid = nid + 500
            self.N.add(lid, 'l%d' % lid)
            if ln == 'fun-return':
                body = ('block', [], [('ret', cur)])
            elif ln == 'fun-local':
                body = ('block', [(lid, cur)], [('ret', V(lid))])
            elif ln == 'fun-const-local':
                self.N.add(lid, 'kc%d' % lid)                     # rendered as "const int kc.. = <previous link>;"
                body = ('block', [(lid, cur)], [('ret', V(lid))])
            elif ln == 'fun-if':
                body = ('block', [], [('if', cur, ('ret', L(1))), ('ret', L(2))])
            elif ln == 'fun-while':
                body = ('block', [(lid, L(0))], [('while', ('op', cur, V(lid)), ('expr', ('inc', False, V(lid), '++'))), ('ret', L(2))])
            elif ln == 'fun-arg':
                # an identity function applied to the previous link
                pid = nid + 700
                self.N.add(pid, 'p%d' % pid)
                self.funs.append(dict(params=[(pid, 'val')], body=('block', [], [('ret', V(pid))])))
                self.text_items.append(('fun', k))
                cur = ('call', k, [cur])
                continue
            elif ln == 'fun-void-out':
                # a void function hands the previous link out through a reference parameter; the next function calls it as a statement
                pid = nid + 700
                self.N.add(pid, 'p%d' % pid)
                self.funs.append(dict(params=[(pid, 'ref')], void=True, body=('block', [], [('expr', ('asg', V(pid), cur, '='))])))
                self.text_items.append(('fun', k))
                body = ('block', [(lid, L(0))], [('expr', ('call', k, [V(lid)])), ('ret', V(lid))])
                k += 1
            elif ln == 'fun-chain':
                self.funs.append(dict(params=[], body=('block', [], [('ret', cur)])))
                self.text_items.append(('fun', k))
                body = ('block', [], [('ret', ('call', k, []))])
                k += 1
            self.funs.append(dict(params=[], body=body))
            self.text_items.append(('fun', k))
            cur = ('call', k, [])
        self.expr = cur

    def decl_text(self):
        out = [G.GLOBAL_DECL]
        for it in self.text_items:
            if it[0] == 'const':
                out.append('const int %s = %s;' % (self.N[it[1]], G.e_txt(it[2], self.N)))
            else:
                out.append(G.fun_txt(it[1], self.funs[it[1]], self.N))
        return '\n'.join(out) + '\n'

    def checked_exprs(self):
        return list(self.consts.values()) + [self.expr]


def esc(t):
    return t.replace('&', '&amp;').replace('<', '&lt;').replace('>', '&gt;')


def model_xml(ch, ctx, free_param=False):
    e = G.e_txt(ch.expr, ch.N)
    g, tdecl, tparams, sysl, sel = ch.decl_text(), '', '', 'P = T(); system P;', 's : int[0,1]'
    if ctx == 'arraysize': g += 'int ctx_a[%s];\n' % e
    elif ctx == 'range': g += 'int[0, %s] ctx_v;\n' % e
    elif ctx == 'scalarsize': g += 'typedef scalar[%s] ctx_S;\nctx_S ctx_s;\n' % e
    elif ctx == 'global-init': g += 'int ctx_v = %s;\n' % e
    elif ctx == 'const-init': g += 'const int ctx_c = %s;\n' % e
    elif ctx == 'template-init': tdecl = 'int ctx_v = %s;\n' % e
    elif ctx == 'value-arg': tparams, sysl = 'int pv', 'P = T(%s); system P;' % e
    elif ctx == 'constref-arg': tparams, sysl = 'const int &pv', 'P = T(%s); system P;' % e
    elif ctx == 'typedef-range': g += 'typedef int[0, %s] ctx_R;\nctx_R ctx_v;\n' % e
    elif ctx == 'struct-array': g += 'struct { int a[%s]; } ctx_s;\n' % e
    elif ctx == 'select-range': sel = 's : int[0, %s]' % e
    elif ctx == 'template-array': tdecl = 'int ctx_a[%s];\n' % e
    elif ctx == 'param-range': tparams, sysl = 'int[0, %s] pr' % e, 'P = T(1); system P;'
    elif ctx == 'fun-param-array': g += 'void ctx_f(int pa[%s]) { }\n' % e
    elif ctx == 'fun-param-range': g += 'void ctx_f(int[0, %s] pp) { }\n' % e
    elif ctx == 'fun-param-ref-array': g += 'void ctx_f(int &pa[%s]) { pa[0] = 1; }\n' % e
    elif ctx == 'fun-param-2d-array': g += 'int ctx_f(const int pa[2][%s]) { return pa[0][0]; }\n' % e
    elif ctx == 'fun-local-array': g += 'void ctx_f() { int la[%s]; }\n' % e
    elif ctx == 'fun-local-range': g += 'void ctx_f() { int[0, %s] lv; }\n' % e
    elif ctx == 'fun-return-range': g += 'int[0, %s] ctx_f() { return 0; }\n' % e
    elif ctx == 'template-fun-param-array': tdecl = 'void ctx_f(int pa[%s]) { }\n' % e
    elif ctx == 'block-local-array': g += 'void ctx_f() { { int la[%s]; } }\n' % e
    elif ctx == 'iteration-range': g += 'void ctx_f() { int z = 0; for (it : int[0, %s]) z += it; }\n' % e
    elif ctx == 'quantifier-range': g += 'bool ctx_f() { return forall (qi : int[0, %s]) qi >= 0; }\n' % e
    elif ctx == 'struct-field-range': g += 'struct { int[0, %s] fa; int fb; } ctx_s;\n' % e
    # arrays whose element type is a named (typedef'd) or const-prefixed record or array: the element type has to be looked through to find what the variable is
    elif ctx == 'named-struct-array-init': g += 'typedef struct { int a; int b; } ctx_S;\nctx_S ctx_s[2] = {{%s, 1}, {1, 2}};\n' % e
    elif ctx == 'named-struct-array-size': g += 'typedef struct { int a; int b; } ctx_S;\nctx_S ctx_s[%s];\n' % e
    elif ctx == 'named-struct-array-field-range': g += 'typedef struct { int[0, %s] fa; int fb; } ctx_S;\nctx_S ctx_s[2];\n' % e
    elif ctx == 'template-named-struct-array-init': tdecl = 'typedef struct { int a; int b; } ctx_S;\nctx_S ctx_s[2] = {{1, 2}, {%s, 1}};\n' % e
    elif ctx == 'const-named-struct-array-init': g += 'typedef struct { int a; int b; } ctx_S;\nconst ctx_S ctx_s[2] = {{%s, 1}, {1, 2}};\n' % e
    elif ctx == 'typedef-array-of-array-size': g += 'typedef int ctx_row[%s];\nctx_row ctx_m[2];\n' % e
    return '''<?xml version="1.0" encoding="utf-8"?>
<nta><declaration>%s</declaration>
<template><name>T</name><parameter>%s</parameter><declaration>%s</declaration>
<location id="id0"/><location id="id1"/><init ref="id0"/>
<transition><source ref="id0"/><target ref="id1"/><label kind="select">%s</label></transition></template>
<system>%s</system></nta>''' % (esc(g), esc(tparams), esc(tdecl), esc(sel), esc(sysl))


def restricted_chains(run, thorough):
    """free process parameters through instantiation chains: the `restricted` sets of the instances against the extracted propagation model,
    and the verdict on the process against the specification (a free parameter occurs in the substituted array size)"""
    rng = run.rng
    stats = dict(chains=0, chain_levels=0, chains_rejected=0, chains_accepted=0)
    drv, err = vlib.build_extract('restrict', 'Extract_Restrict.v', 'drv_restrict') if os.path.exists(os.path.join(vlib.COQ, 'theories', 'RestrictModel.vo')) else (None, 'RestrictModel.vo missing')
    if drv is None:
        run.tie_broken('extraction of the restricted-parameter model', err)
        return stats
    OPS = {0: '+', 1: '*'}
    def show(b, names):
        if b[0] == 'L': return str(b[1])
        if b[0] == 'V': return names[b[1]]
        return '(%s %s %s)' % (show(b[2][0], names), OPS[b[1]], show(b[2][1], names))
    def tok(b):
        if b[0] == 'L': return 'L %d' % b[1]
        if b[0] == 'V': return 'V %d' % b[1]
        return '( %d 2 %s %s' % (b[1], tok(b[2][0]), tok(b[2][1]))
    def fvs(b):
        return {b[1]} if b[0] == 'V' else (set() if b[0] == 'L' else fvs(b[2][0]) | fvs(b[2][1]))
    def expr(syms, depth=0):
        r = rng.random()
        if not syms or r < 0.2 or depth > 1: return ('L', rng.randrange(1, 3))
        if r < 0.65: return ('V', rng.choice(syms))
        return ('O', rng.choice([0, 0, 1]), [expr(syms, depth + 1), expr(syms, depth + 1)])
    cases, lines = [], []
    for k in range(300 if thorough else 60):
        names, nsym = {}, [0]
        def sym(nm):
            nsym[0] += 1; names[nsym[0]] = nm; return nsym[0]
        tparams = [sym('p%d' % i) for i in range(rng.randrange(1, 4))]
        size = expr(tparams)
        if not fvs(size) and rng.random() < 0.7:
            size = ('O', 0, [('V', rng.choice(tparams)), size])
        other = expr(tparams)                                   # a second use of the parameters that restricts nothing
        sysd, lvs, cur_name, cur = [], [], 'T', tparams
        for lv in range(rng.randrange(1, 4)):
            new = [sym('q%d_%d' % (lv, i)) for i in range(rng.randrange(1, 3))]
            args = [expr(new) for _ in cur]
            nm = 'Q%d' % lv
            sysd.append('%s(%s) = %s(%s);' % (nm, ', '.join('const int[1,2] %s' % names[q] for q in new), cur_name, ', '.join(show(a, names) for a in args)))
            lvs.append(list(zip(cur, args)))
            cur_name, cur = nm, new
        closed = rng.random() < 0.2
        if closed:
            sysd.append('P = %s(%s);' % (cur_name, ', '.join('1' for _ in cur))); sysd.append('system P;')
        else:
            sysd.append('system %s;' % cur_name)
        xml = ('<?xml version="1.0" encoding="utf-8"?><nta><declaration>int g;</declaration><template><name>T</name><parameter>%s</parameter><declaration>int ctx_a[%s]; int ctx_v = %s;</declaration>'
               '<location id="id0"/><init ref="id0"/></template><system>%s</system></nta>') % (', '.join('const int[1,2] %s' % names[p] for p in tparams), show(size, names), show(other, names), esc('\n'.join(sysd)))
        cases.append(dict(xml=xml, names=names, lvs=lvs, free=[] if closed else cur, size=size))
        lines.append('B %s R %d %s L %d %s' % (tok(size), len(fvs(size)), ' '.join(str(x) for x in sorted(fvs(size))), len(lvs), ' '.join('%d %s' % (len(l), ' '.join('%d %s' % (p, tok(a)) for p, a in l)) for l in lvs)))
    out = subprocess.run([drv], input='\n'.join(lines) + '\n', stdout=subprocess.PIPE, universal_newlines=True).stdout.split('\n')
    j = vlib.Job()
    for k, c in enumerate(cases):
        j.case('r%d' % k, fork=True).model('xml', c['xml']).dump('errors').dump('instances').end()
    rr = vlib.run_jobs(j)
    for k, c in enumerate(cases):
        r = rr['r%d' % k]
        if r['status'] != 'ok' or len(r['cmds']) < 3:
            run.fail('type checker crashed on an instantiation chain (%s)' % r['status'], dict(xml=c['xml'], status=r['status']), shape='crash:chain')
            continue
        stats['chains'] += 1; stats['chain_levels'] += len(c['lvs'])
        errs = [l.split('msg="')[1].split('"')[0] for l in r['cmds'][1][2] if l.startswith('error')]
        other = [e for e in errs if 'Free_process_parameters' not in e]
        if other:
            run.tie_broken('a generated instantiation chain is rejected for another reason', dict(xml=c['xml'], errors=other[:2]))
            continue
        per = out[k].split(' ; ')
        names = c['names']
        real = {}
        for l in r['cmds'][2][2]:
            m = re.match(r'instance \d+ name=(\S+) .*restricted=\{(.*?)\}', l)
            if m: real[m.group(1)] = set(x for x in m.group(2).split(',') if x)
        for lv, rec in enumerate(per):
            mR = set(names[int(x)] for x in rec.split('|')[0].split()[1:])
            got = real.get('Q%d' % lv)
            if got is not None and got != mR:
                run.fail('instance Q%d: restricted parameters %s, the propagation model gives %s' % (lv, sorted(got), sorted(mR)), dict(xml=c['xml'], level=lv), shape='restricted-set')
                break
        F = set(int(x) for x in per[-1].split('|')[1].split()[1:])
        must_reject = bool(F & set(c['free']))
        rejected = bool(errs)
        stats['chains_rejected' if rejected else 'chains_accepted'] += 1
        if must_reject and not rejected:
            run.fail('the array size of T depends on the free parameter %s of the process, and the model is accepted' % sorted(names[x] for x in F & set(c['free'])), dict(xml=c['xml']), shape='free-parameter-in-size:chain%d' % len(c['lvs']))
        if rejected and not must_reject:
            run.fail('no array size depends on a free parameter of the process, and the model is rejected: %s' % errs[0], dict(xml=c['xml'], errors=errs[:2]), shape='free-parameter-overrejected:chain%d' % len(c['lvs']))
    return stats


def check(run):
    thorough = run.tier == 'thorough'
    rng = run.rng
    pr = run.proofs()
    rstats = restricted_chains(run, run.tier == 'thorough')
    drv, err = vlib.build_extract('effects', 'Extract_Effects.v', 'drv_effects') if os.path.exists(os.path.join(vlib.COQ, 'theories', 'Compute.vo')) else (None, 'Compute.vo missing')
    if drv is None:
        run.tie_broken('extraction of the effects model', err)
        return run.finish('proof')
    from props.C11 import compare_summaries
    nfun, _, _ = compare_summaries(run, drv, rng, 300 if thorough else 60, 'depends')
    chains = []
    for base in ('mutable', 'const', 'literal'):
        chains.append((base, []))
        for ln in LINKS:
            chains.append((base, [ln]))
        for a in LINKS:
            for b in LINKS:
                if thorough or rng.random() < 0.35:
                    chains.append((base, [a, b]))
        for _ in range(60 if thorough else 15):
            chains.append((base, [rng.choice(LINKS) for _ in range(rng.choice([3, 4]))]))
    cases = []
    for base, links in chains:
        ch = Chain(base, links)
        ctxs = CONTEXTS if (thorough or len(links) <= 1) else rng.sample(CONTEXTS, 5)
        for ctx in ctxs:
            cases.append((base, links, ch, ctx))
    # model verdict: every checked expression (initialisers of the chain's constants, then the context expression) must read only computable symbols
    lines = []
    for base, links, ch, ctx in cases:
        lines += ['R'] + ['D ' + G.fun_sx(f) for f in ch.funs] + ['W ' + G.e_sx(x) for x in ch.checked_exprs()]
    mo = iter([l for l in subprocess.run([drv], input='\n'.join(lines) + '\n', stdout=subprocess.PIPE, universal_newlines=True).stdout.split('\n') if l.startswith('W ')])
    j = vlib.Job()
    for k, (base, links, ch, ctx) in enumerate(cases):
        j.case('c%d' % k, fork=True).model('xml', model_xml(ch, ctx)).dump('errors').end()
    # free process parameters must never be accepted inside an array size (directly or through a partial instantiation)
    extra = [('free-param-array', 'int[0,3] fp', 'int ctx_a[fp + 1];', 'system T;', True), ('free-param-plain', 'int[0,3] fp', 'int ctx_v;', 'system T;', False),
             ('free-param-select', 'int[0,3] fp', '', 'system T;', 'select'), ('bound-param-array', 'const int fp', 'int ctx_a[fp + 1];', 'P = T(2); system P;', False),
             ('partial-inst-array', 'const int a, int[0,3] fp', 'int ctx_a[a + 1];', 'Q(const int[0,3] z) = T(z, z); system Q;', True),
             ('partial-inst-plain', 'const int a, int[0,3] fp', 'int ctx_v;', 'Q(const int[0,3] z) = T(2, z); system Q;', False),
             # every place of an array's index type: size expression, lower and upper bound of an index range, through a local constant, a typedef, a scalar set, a second dimension
             ('free-param-index-upper', 'const int[0,3] fp', 'int ctx_a[int[0,fp]];', 'system T;', True), ('free-param-index-lower', 'const int[0,3] fp', 'int ctx_a[int[fp,5]];', 'system T;', True),
             ('free-param-lower-via-const', 'const int[0,3] fp', 'const int lo = fp; int ctx_a[int[lo,5]];', 'system T;', True), ('free-param-upper-via-const', 'const int[0,3] fp', 'const int hi = fp; int ctx_a[int[0,hi]];', 'system T;', True),
             ('free-param-second-dim', 'const int[0,3] fp', 'int ctx_a[2][fp + 1];', 'system T;', True), ('free-param-typedef-lower', 'const int[0,3] fp', 'typedef int[fp,5] R; int ctx_a[R];', 'system T;', True),
             ('free-param-index-plain', 'const int[0,3] fp', 'int ctx_a[int[1,5]]; int ctx_v = fp;', 'system T;', False),
             # arrays declared inside the body of a function of the template (locals of the function, of a nested block, of a loop body), sized by the parameter
             # directly, through a template constant and through a partial instantiation; bound parameters and parameter-free sizes stay accepted
             ('free-param-function-local', 'const int[1,3] fp', 'int ctx_v; void fl() { int a[fp]; a[0] = 1; ctx_v = a[0]; }', 'system T;', True),
             ('free-param-function-block', 'const int[1,3] fp', 'int ctx_v; void fl() { if (ctx_v > 0) { int a[2][fp]; ctx_v = a[0][0]; } }', 'system T;', True),
             ('free-param-function-loop', 'const int[1,3] fp', 'int ctx_v; void fl() { for (i : int[0,1]) { int a[int[0,fp]]; ctx_v = a[0]; } }', 'system T;', True),
             ('free-param-function-via-const', 'const int[1,3] fp', 'const int cc = fp + 1; int ctx_v; int fl() { int a[cc]; return a[0]; }', 'system T;', True),
             ('free-param-function-partial', 'const int a, const int[1,3] fp', 'int ctx_v; void fl() { int b[fp]; ctx_v = b[0]; }', 'Q(const int[1,2] z) = T(1, z + 1); system Q;', True),
             ('free-param-function-parameter', 'const int[1,3] fp', 'int ctx_v; void fl(int a[fp]) { ctx_v = a[0]; }', 'system T;', True),
             ('bound-param-function-local', 'const int[1,3] fp', 'int ctx_v; void fl() { int a[fp]; ctx_v = a[0]; }', 'P = T(2); system P;', False),
             ('free-param-function-plain', 'const int[1,3] fp', 'int ctx_v; void fl() { int a[3]; a[0] = fp; ctx_v = a[0]; }', 'system T;', False),
             # the restriction must survive chains of partial instantiations of any depth, and vanish once the chain is closed
             ('partial-chain2-array', 'const int[1,3] fp', 'int ctx_a[fp];', 'Q(const int[1,3] m) = T(m); R(const int[1,3] k) = Q(k); system R;', True),
             ('partial-chain2-offset', 'const int[1,4] fp', 'int ctx_a[fp];', 'Q(const int[1,3] m) = T(m + 1); R(const int[1,2] k) = Q(k + 1); system R;', True),
             ('partial-chain3-array', 'const int[1,3] fp', 'int ctx_a[fp];', 'Q(const int[1,3] m) = T(m); R(const int[1,3] k) = Q(k); S(const int[1,3] j) = R(j); system S;', True),
             ('partial-chain3-mixed', 'const int a, const int[1,3] fp', 'int ctx_a[fp];', 'Q(const int[1,3] m) = T(1, m); R(const int[1,3] k) = Q(k); S(const int[1,3] j) = R(j); system S;', True),
             ('partial-chain2-other-param', 'const int a, const int[1,3] fp', 'int ctx_a[a];', 'Q(const int[1,3] m) = T(2, m); R(const int[1,3] k) = Q(k); system R;', False),
             ('partial-chain2-closed', 'const int[1,3] fp', 'int ctx_a[fp];', 'Q(const int[1,3] m) = T(m); R(const int[1,3] k) = Q(k); P = R(2); system P;', False),
             ('partial-chain2-plain', 'const int[1,3] fp', 'int ctx_v = fp;', 'Q(const int[1,3] m) = T(m); R(const int[1,3] k) = Q(k); system R;', False)]
    for name, params, tdecl, sysl, _ in extra:
        sel = 's : int[0, fp]' if name == 'free-param-select' else 's : int[0,1]'
        xml = '''<?xml version="1.0" encoding="utf-8"?>
<nta><declaration>%s</declaration><template><name>T</name><parameter>%s</parameter><declaration>%s</declaration>
<location id="id0"/><location id="id1"/><init ref="id0"/><transition><source ref="id0"/><target ref="id1"/><label kind="select">%s</label></transition></template>
<system>%s</system></nta>''' % (esc(G.GLOBAL_DECL), esc(params), esc(tdecl), esc(sel), esc(sysl))
        j.case('x' + name, fork=True).model('xml', xml).dump('errors').end()
    rr = vlib.run_jobs(j)
    mism, nrej, nacc = [], 0, 0
    per_ctx = {}
    for k, (base, links, ch, ctx) in enumerate(cases):
        comp = set(ch.consts) | {K_ID}
        model_ok = True
        for x in ch.checked_exprs():
            reads = next(mo).split('|')[1].strip()
            ids = {int(v) for v in reads.split(',') if v}
            if not ids <= comp:
                model_ok = False
        c = rr['c%d' % k]
        if c['status'] != 'ok':
            run.fail('type checker crashed (%s in %s)' % ('/'.join(links), ctx), dict(xml=model_xml(ch, ctx), status=c['status']), shape='crash:' + ctx)
            continue
        errs = [l.split('msg="')[1].split('"')[0] for l in c['cmds'][1][2] if l.startswith('error')]
        rejected = len(errs) > 0
        per_ctx.setdefault(ctx, [0, 0])[1 if rejected else 0] += 1
        nrej += rejected
        nacc += (not rejected)
        if model_ok == rejected:
            mism.append(dict(context=ctx, base=base, links=links, expr=G.e_txt(ch.expr, ch.N), model_accepts=model_ok, errors=errs[:2]))
        if ch.mutable and not rejected:
            run.fail('%s accepts %r, whose value depends on the non-constant variable g0 through %s' % (ctx, G.e_txt(ch.expr, ch.N), '/'.join(links) or 'nothing'),
                     dict(context=ctx, links=links, xml=model_xml(ch, ctx)), shape='accepts-mutable:%s:%s' % (ctx, '/'.join(sorted(set(links)))))
        if not ch.mutable and rejected:
            mism.append(dict(context=ctx, base=base, links=links, note='computable twin rejected', errors=errs[:2]))
    for name, params, tdecl, sysl, must_reject in extra:
        c = rr['x' + name]
        errs = [l.split('msg="')[1].split('"')[0] for l in c['cmds'][1][2] if l.startswith('error')] if c['status'] == 'ok' else ['crash']
        if must_reject and not errs:
            run.fail('a free process parameter is accepted inside an array size / select range (%s)' % name, dict(case=name, params=params, decl=tdecl, system=sysl), shape='free-param:' + name)
        if must_reject is False and errs:
            mism.append(dict(case=name, note='twin without restricted use rejected', errors=errs[:2]))
    if mism:
        run.tie_broken('computability: model verdict / twins vs type checker', mism[:6] + [dict(total=len(mism))])
    run.cov.update(functions_depends_compared=nfun, **rstats, evaluations=len(cases) + len(extra) + nfun + rstats['chains'], distinct_nontrivial=len(cases), traces_validated_against_impl=len(cases),
                   rule='%d compile-time contexts x dependence chains of length 0..4 over {const initialiser, function return, function local, const function local, if condition, while condition, function argument, call chain} ending in a '
                        'mutable variable (must be rejected), a constant or a literal (must be accepted); verdict vs the extracted reads/ctc model; plus free / bound / partially instantiated process parameters in array sizes' % len(CONTEXTS),
                   samples=[dict(context=c[3], chain=c[1], base=c[0], expr=G.e_txt(c[2].expr, c[2].N)) for c in cases[5:8]], rejected=nrej, accepted=nacc, per_context_accept_reject=per_ctx)
    run.cov['trusted_base'] += ['hand model Effects.v / Compute.v (reads over function summaries; tied by C11\'s summary correspondence and by this verdict matrix)', 'abstract chain renderer', 'drv_effects.ml']
    return run.finish('proof', assumptions=['the restricted-parameter propagation (free process parameters in array sizes) is decided by the direct oracle only',
                                            'the set of computable symbols (constants, constant value parameters, binders) is a parameter of the theorem'])
