"""C05 — XML and XTA renderings of the same model yield equivalent documents."""
import os, re, collections
import vlib, docgen, gen_grammar

# what XtaXml.v assumes of the grammar: the order of the sections of a process body and the callback of each production
GRAMMAR_FACTS = {
    'ProcBody': [(['ProcLocalDeclList', 'States', 'LocFlags', 'Init', 'Transitions'], []),
                 (['ProcLocalDeclList', 'States', 'Branchpoints', 'LocFlags', 'Init', 'Transitions'], []),
                 ([], [])],
    'StateDecl': [(['NonTypeId'], ['proc_location']), (['NonTypeId', "'{'", "';'", 'ExpRate', "'}'"], ['proc_location']),
                  (['NonTypeId', "'{'", 'Expression', "'}'"], ['proc_location']), (['NonTypeId', "'{'", 'Expression', "';'", 'ExpRate', "'}'"], ['proc_location']),
                  (['NonTypeId', "'{'", 'error', "'}'"], ['proc_location'])],
    'BranchpointDecl': [(['NonTypeId'], ['proc_branchpoint'])],
    'LocFlags': [([], []), (['LocFlags', 'Commit'], []), (['LocFlags', 'Urgent'], [])],
    'CStateList': [(['NonTypeId'], ['proc_location_commit']), (['CStateList', "','", 'NonTypeId'], ['proc_location_commit'])],
    'UStateList': [(['NonTypeId'], ['proc_location_urgent']), (['UStateList', "','", 'NonTypeId'], ['proc_location_urgent'])],
    'Init': [(['T_INIT', 'NonTypeId', "';'"], ['proc_location_init']), (['error', "';'"], [])],
    'Select': [([], []), (['T_SELECT', 'SelectList', "';'"], [])],
    'SelectList': [(['Id', "':'", 'Type'], ['proc_select']), (['SelectList', "','", 'Id', "':'", 'Type'], ['proc_select'])],
    'Guard': [([], []), (['T_GUARD', 'Expression', "';'"], ['proc_guard']), (['T_GUARD', 'Expression', 'error', "';'"], ['proc_guard']), (['T_GUARD', 'error', "';'"], [])],
    'Assign': [([], []), (['T_ASSIGN', 'ExprList', "';'"], ['proc_update']), (['T_ASSIGN', 'error', "';'"], [])],
    'Probability': [([], []), (['T_PROBABILITY', 'Expression', "';'"], ['proc_prob']), (['T_PROBABILITY', 'error', "';'"], [])],
    # the section wrappers: every section is optional or ends at its own ';', with an error alternative that resynchronises there
    'Sync': [([], []), (['T_SYNC', 'SyncExpr', "';'"], []), (['T_SYNC', 'error', "';'"], [])],
    'Commit': [(['T_COMMIT', 'CStateList', "';'"], []), (['T_COMMIT', 'error', "';'"], [])],
    'Urgent': [(['T_URGENT', 'UStateList', "';'"], []), (['T_URGENT', 'error', "';'"], [])],
    'States': [(['T_STATE', 'StateDeclList', "';'"], []), (['T_STATE', 'error', "';'"], [])],
    'StateDeclList': [(['StateDecl'], []), (['StateDeclList', "','", 'StateDecl'], [])],
    'Branchpoints': [(['T_BRANCHPOINT', 'BranchpointDeclList', "';'"], []), (['T_BRANCHPOINT', 'error', "';'"], [])],
    'BranchpointDeclList': [(['BranchpointDecl'], []), (['BranchpointDeclList', "','", 'BranchpointDecl'], [])],
    'Transitions': [([], []), (['T_TRANS', 'TransitionList', "';'"], []), (['T_TRANS', 'error', "';'"], [])],
    'TransitionList': [(['Transition'], []), (['TransitionList', "','", 'TransitionOpt'], [])],
    # the old (3.x) process body: the same section order without branchpoints; invariants and guards are comma-separated conjunctions
    'OldProcBody': [(['OldVarDeclList', 'OldStates', 'LocFlags', 'Init', 'OldTransitions'], [])],
    'OldStates': [(['T_STATE', 'OldStateDeclList', "';'"], []), (['error', "';'"], [])],
    'OldStateDeclList': [(['OldStateDecl'], []), (['OldStateDeclList', "','", 'OldStateDecl'], [])],
    'OldStateDecl': [(['NonTypeId'], ['proc_location']), (['NonTypeId', "'{'", 'OldInvariant', "'}'"], ['proc_location'])],
    'OldInvariant': [(['Expression'], []), (['Expression', 'error', "','"], []), (['OldInvariant', "','", 'Expression'], ['expr_binary'])],
    'OldTransitions': [([], []), (['T_TRANS', 'OldTransitionList', "';'"], []), (['T_TRANS', 'error', "';'"], [])],
    'OldTransitionList': [(['OldTransition'], []), (['OldTransitionList', "','", 'OldTransitionOpt'], [])],
    'OldGuard': [([], []), (['T_GUARD', 'OldGuardList', "';'"], ['proc_guard']), (['T_GUARD', 'OldGuardList', 'error', "';'"], ['proc_guard'])],
    'OldGuardList': [(['Expression'], []), (['OldGuardList', "','", 'Expression'], ['expr_binary'])],
    'ExpRate': [(['Expression'], []), (['Expression', "':'", 'Expression'], ['expr_binary'])],
    'SyncExpr': [(['Expression'], ['proc_sync']), (['Expression', 'T_EXCLAM'], ['proc_sync']), (['Expression', 'error', 'T_EXCLAM'], ['proc_sync']),
                 (['Expression', "'?'"], ['proc_sync']), (['Expression', 'error', "'?'"], ['proc_sync'])],
}
# each text block of an XML model is parsed from a start token; the nonterminal behind the token is the one the corresponding section of the
# textual format uses (Guard: T_GUARD Expression ';' / OldGuard: T_GUARD OldGuardList ';' ...), so a label means the same in both formats
ROOT = [(['T_NEW', 'XTA'], ['done']), (['T_NEW_DECLARATION', 'Declarations'], []), (['T_NEW_LOCAL_DECL', 'ProcLocalDeclList'], []), (['T_NEW_INST', 'Declarations'], []), (['T_NEW_SYSTEM', 'XTA'], []),
        (['T_NEW_PARAMETERS', 'ParameterList'], []), (['T_NEW_INVARIANT', 'Expression'], []), (['T_NEW_SELECT', 'SelectList'], []), (['T_NEW_GUARD', 'Expression'], ['proc_guard']), (['T_NEW_SYNC', 'SyncExpr'], []),
        (['T_NEW_ASSIGN', 'ExprList'], ['proc_update']), (['T_PROBABILITY', 'Expression'], ['proc_prob']), (['T_OLD', 'OldXTA'], ['done']), (['T_OLD_DECLARATION', 'OldDeclaration'], []),
        (['T_OLD_LOCAL_DECL', 'OldVarDeclList'], []), (['T_OLD_INST', 'Instantiations'], []), (['T_OLD_PARAMETERS', 'OldProcParamList'], []), (['T_OLD_INVARIANT', 'OldInvariant'], []),
        (['T_OLD_GUARD', 'OldGuardList'], ['proc_guard']), (['T_OLD_ASSIGN', 'ExprList'], ['proc_update']), (['T_PROPERTY', 'PropertyList'], []), (['T_EXPRESSION', 'Expression'], []),
        (['T_EXPRESSION_LIST', 'ExprList'], []), (['T_XTA_PROCESS', 'ProcDecl'], []), (['T_EXPONENTIAL_RATE', 'ExpRate'], []), (['T_MESSAGE', 'MessExpr'], []), (['T_UPDATE', 'ExprList'], ['proc_LSC_update']),
        (['T_CONDITION', 'Expression'], ['proc_condition']), (['T_INSTANCE_LINE', 'InstanceLineExpression'], [])]
START_TOKENS = {'S_XTA': ('T_NEW', 'T_OLD'), 'S_DECLARATION': ('T_NEW_DECLARATION', 'T_OLD_DECLARATION'), 'S_LOCAL_DECL': ('T_NEW_LOCAL_DECL', 'T_OLD_LOCAL_DECL'), 'S_INST': ('T_NEW_INST', 'T_OLD_INST'),
                'S_SYSTEM': ('T_NEW_SYSTEM',) * 2, 'S_PARAMETERS': ('T_NEW_PARAMETERS', 'T_OLD_PARAMETERS'), 'S_INVARIANT': ('T_NEW_INVARIANT', 'T_OLD_INVARIANT'), 'S_EXPONENTIAL_RATE': ('T_EXPONENTIAL_RATE',) * 2,
                'S_SELECT': ('T_NEW_SELECT',) * 2, 'S_GUARD': ('T_NEW_GUARD', 'T_OLD_GUARD'), 'S_SYNC': ('T_NEW_SYNC',) * 2, 'S_ASSIGN': ('T_NEW_ASSIGN', 'T_OLD_ASSIGN'), 'S_EXPRESSION': ('T_EXPRESSION',) * 2,
                'S_EXPRESSION_LIST': ('T_EXPRESSION_LIST',) * 2, 'S_PROPERTY': ('T_PROPERTY',) * 2, 'S_XTA_PROCESS': ('T_XTA_PROCESS',) * 2, 'S_PROBABILITY': ('T_PROBABILITY',) * 2,
                'S_INSTANCE_LINE': ('T_INSTANCE_LINE',) * 2, 'S_MESSAGE': ('T_MESSAGE',) * 2, 'S_UPDATE': ('T_UPDATE',) * 2, 'S_CONDITION': ('T_CONDITION',) * 2}


def start_tokens():
    """part -> (token when newxta, token otherwise), read from src/parser.y: the switch over the xta_part_t that selects the start token, wherever it stands and
    whether its cases assign the token (syntax_token = ..; break;) or return it"""
    src = open(os.path.join(vlib.REPO, 'src', 'parser.y')).read()
    src = src[src.rfind('%%'):] if src.count('%%') >= 2 else src
    src = re.sub(r'//[^\n]*|/\*.*?\*/', ' ', src, flags=re.S)
    out, part = {}, []
    for cm in re.finditer(r'case\s+(S_\w+)\s*:|(?:\w+\s*=|return)\s*([^;{}]+);', src):
        if cm.group(1):
            part.append(cm.group(1))
        elif part:
            e = re.sub(r'\s+', '', cm.group(2))
            t = re.match(r'^\(?newxta\)?\?(T_\w+):(T_\w+)$', e)
            v = (t.group(1), t.group(2)) if t else ((e, e) if re.fullmatch(r'T_\w+', e) else None)
            if v:
                for q in part:
                    out.setdefault(q, v)
            part = []
    return out or None


TRANSITION_SECTIONS = ['Select', 'Guard', 'Sync', 'Assign', 'Probability']


def grammar_facts(run):
    G = gen_grammar.load()
    by = collections.defaultdict(list)
    for r in G['rules']:
        by[r['lhs']].append((r['rhs'], [c[0] for c in (r.get('calls') or [])]))
    bad = []
    for lhs, exp in GRAMMAR_FACTS.items():
        if by.get(lhs) != exp:
            bad.append(dict(nonterminal=lhs, expected=exp, found=by.get(lhs)))
    for rhs, calls in by.get('Transition', []):
        secs = [s for s in rhs if s in TRANSITION_SECTIONS]
        if secs != TRANSITION_SECTIONS or calls != ['proc_edge_end'] or rhs[1] not in ('T_ARROW', 'T_UNCONTROL_ARROW'):
            bad.append(dict(nonterminal='Transition', found=(rhs, calls)))
    for rhs, calls in by.get('TransitionOpt', []):
        if rhs == ['Transition']:
            continue
        secs = [s for s in rhs if s in TRANSITION_SECTIONS]
        if secs != TRANSITION_SECTIONS[:4] or calls != ['proc_edge_end'] or rhs[0] not in ('T_ARROW', 'T_UNCONTROL_ARROW'):
            bad.append(dict(nonterminal='TransitionOpt', found=(rhs, calls)))
    # the mid-rule action of a transition is proc_edge_begin with the arrow's controllable flag (and, chained, the remembered source)
    mids = {}
    for r in G['rules']:
        for x in r['rhs']:
            if x.startswith('$@'):
                mids[x] = (r['lhs'], r['rhs'])
    # the buffer a full transition copies its source name into (whatever it is called): strcpy / strncpy (X, $1 ...) in the action of Transition
    copies = {m.group(1) for r in G['rules'] if r['lhs'] == 'Transition' for m in [re.search(r'\bstrn?cpy\s*\(\s*(\w+)\s*,\s*\$1\b', r.get('action') or '')] if m}
    src_buffer = copies.pop() if len(copies) == 1 else None
    if src_buffer is None:
        bad.append(dict(nonterminal='Transition', problem='no single buffer receives the source name ($1) of a full transition', found=sorted(copies)))
    for r in G['rules']:
        if r['lhs'].startswith('$@') and r['lhs'] in mids and mids[r['lhs']][0] in ('Transition', 'TransitionOpt'):
            owner, orhs = mids[r['lhs']]
            arrow = orhs[1] if owner == 'Transition' else orhs[0]
            want_ctl = 'true' if arrow == 'T_ARROW' else 'false'
            begins = [c for c in (r.get('calls') or []) if c[0] == 'proc_edge_begin']
            args = [a.strip() for a in begins[0][1].split(',')] if begins else []
            want_src = '$1' if owner == 'Transition' else src_buffer
            if len(begins) != 1 or len(args) != 3 or args[2] != want_ctl or args[0] != want_src:
                bad.append(dict(nonterminal=owner, arrow=arrow, found=begins))
    if by.get('Uppaal') != ROOT:
        bad.append(dict(nonterminal='Uppaal (start tokens and the nonterminal behind each)', expected=[x for x in ROOT if x not in (by.get('Uppaal') or [])], found=[x for x in (by.get('Uppaal') or []) if x not in ROOT]))
    st = start_tokens()
    if st != START_TOKENS:
        bad.append(dict(nonterminal='setStartToken', differing={k: (START_TOKENS.get(k), (st or {}).get(k)) for k in set(START_TOKENS) | set(st or {}) if START_TOKENS.get(k) != (st or {}).get(k)}))
    if bad:
        run.tie_broken('parser.y no longer has the process-body structure XtaXml.v models', bad[:4])
    return len(GRAMMAR_FACTS) + 1


FAULTS = [('guard', 'zz%d == 1'), ('guard', 'g0 == c'), ('update', 'g1 = zz%d'), ('inv', 'x <= zz%d'), ('guard', 'x'), ('update', 'x = true + g0 +'), ('sync', 'g0!')]


def check(run):
    thorough = run.tier == 'thorough'
    rng = run.rng
    run.proofs()
    nfacts = grammar_facts(run)
    n = 3000 if thorough else 400
    j = vlib.Job()
    models = []
    for k in range(n):
        oldsyn = rng.random() < 0.15
        # branchpoints (declared between the locations and their flags in the textual format; the 3.x syntax has none)
        M = docgen.gen(rng, ntempl=rng.choice([1, 1, 2, 3] + ([4, 5] if thorough else [])), allow_anon=False, branchpoints=not oldsyn and rng.random() < 0.5, xta_common=True)
        if oldsyn:
            docgen.oldify(M, rng)
            if rng.random() < 0.5:
                docgen.old_params(M, rng)          # grouped parameters the 3.x way: `process T(const lo, hi; int a)` against <parameter>const lo, hi; int a</parameter>
        elif M.inst_layout or rng.random() < 0.2:
            # declarations among the instantiation lines (variables, constants, a typedef, a function): in the XML rendering they stand in the <instantiation> element
            M.inst_decl = rng.choice(['const int NI = 2;\n', 'int vi;\nconst int NI = 3;\n', 'typedef int[0,3] ti_t;\nti_t wi;\n', 'int fi(int a) { return a + 1; }\nconst int NI = fi(1);\n', 'broadcast chan bi;\n'])
        faulty = rng.random() < 0.25 and not oldsyn
        if faulty:
            # the same semantic or syntactic fault in the same label of both renderings
            sites = [(kind, m) for T in M.templates for e in T['edges'] for kind, m in e['labels']] + [('inv', l['inv']) for T in M.templates for l in T['locs'] if l['inv'] is not None]
            fk, ft = rng.choice(FAULTS)
            sites = [s for s in sites if s[0] == fk]
            if sites:
                kind, m = rng.choice(sites)
                M.text[(kind, m)] = ft.replace('%d', str(m))
            else:
                faulty = False
        models.append((M, faulty))
        j.case('x%d' % k, fork=True, old=oldsyn).model('xml', docgen.render_xml(M)).dump('errors').dump('doc').dump('supported').dump('inv').end()
        j.case('t%d' % k, fork=True, old=oldsyn).model('xta', docgen.render_xta(M)).dump('errors').dump('doc').dump('supported').dump('inv').end()
    rr = vlib.run_jobs(j)
    stats = dict(pairs=0, accepted=0, rejected=0, templates=0, locations=0, edges=0, flagged_locations=0)
    samples = []
    for k, (M, faulty) in enumerate(models):
        cx, ct = rr['x%d' % k], rr['t%d' % k]
        xml, xta = docgen.render_xml(M), docgen.render_xta(M)
        if cx['status'] != 'ok' or ct['status'] != 'ok' or len(cx['cmds']) < 5 or len(ct['cmds']) < 5:
            if cx['status'] != ct['status'] or len(cx['cmds']) != len(ct['cmds']):
                run.fail('one front end crashes or throws where the other does not (xml: %s/%d commands, xta: %s/%d commands)' % (cx['status'], len(cx['cmds']), ct['status'], len(ct['cmds'])),
                         dict(xml=xml, xta=xta), shape='crash-asym')
            continue
        # a syntax error names the unexpected token, which is the end of the text in an XML label and the ';' after it in XTA
        msg = lambda c: sorted(re.sub(r'^\$syntax_error: .*$', '$syntax_error', re.sub(r'^error msg="(.*?)" ctx=.*$', r'\1', l)) for l in c['cmds'][1][2] if l.startswith('error'))
        ex, et = msg(cx), msg(ct)
        stats['pairs'] += 1
        if ex != et:
            run.fail('diagnostics differ between the formats: xml %r, xta %r' % (ex[:3], et[:3]), dict(xml=xml, xta=xta, xml_errors=ex, xta_errors=et),
                     shape='diag:' + re.sub(r'[0-9]+', 'N', '%s|%s' % (ex[:1], et[:1]))[:60])
            continue
        if ex:
            stats['rejected'] += 1
        else:
            stats['accepted'] += 1
        dx, dt = docgen.parse_dump(cx['cmds'][2][2]), docgen.parse_dump(ct['cmds'][2][2])
        d = docgen.diff(dx, dt)
        if d:
            run.fail('documents differ between the formats (xml first): ' + d, dict(xml=xml, xta=xta, difference=d), shape='doc:' + re.sub(r'[0-9]+', 'N', d)[:60])
            continue
        ax, at = [a for t in dx['templates'] for a in t.get('acts', [])], [a for t in dt['templates'] for a in t.get('acts', [])]
        if ax != at:
            only_default = all((a, b) in (('SKIP', ''), (a, a)) for a, b in zip(ax, at))
            run.fail('edge_t::actname differs between the formats: xml %r, xta %r' % (sorted(set(ax)), sorted(set(at))), dict(xml=xml, xta=xta),
                     shape='actname-default' if only_default else 'actname')
        if not ex and not faulty:
            d = docgen.diff(docgen.expected(M), dt)
            if d:
                run.fail('XTA document differs from the model: ' + d, dict(xta=xta, difference=d), shape='xta-mirror:' + re.sub(r'[0-9]+', 'N', d)[:60])
        if cx['cmds'][3][2] != ct['cmds'][3][2]:
            run.fail('supported-analysis verdict differs: xml %r, xta %r' % (cx['cmds'][3][2], ct['cmds'][3][2]), dict(xml=xml, xta=xta), shape='supported')
        for c, fmt in ((cx, 'xml'), (ct, 'xta')):
            invf = [l for l in c['cmds'][4][2] if l.startswith('INVFAIL')]
            if invf:
                run.fail('structural invariant broken (%s): %s' % (fmt, invf[0]), dict(xml=xml, xta=xta), shape='inv:' + re.sub(r'[0-9]+', 'N', invf[0])[:50])
        stats['templates'] += len(M.templates)
        for T in M.templates:
            stats['locations'] += len(T['locs']); stats['edges'] += len(T['edges']); stats['flagged_locations'] += sum(1 for l in T['locs'] if l['urgent'] or l['committed'])
        if len(samples) < 1 and len(M.templates) == 1 and len(xta) < 1200 and T['edges']:
            samples.append(dict(xml=xml, xta=xta))
    run.cov.update(evaluations=2 * n, distinct_nontrivial=len(set(docgen.render_xta(M) for M, _ in models)), traces_validated_against_impl=stats['pairs'], grammar_facts=nfacts,
                   rule='seeded random models of the common subset (1-3 templates, up to 5 thorough; value / reference parameters, local declarations, named locations with invariants, urgent / committed flags, '
                        'self loops, parallel edges, controllable and uncontrollable edges, select / guard / sync / assign / probability sections, instantiations, system lines with priorities; one in seven in the old 3.x syntax with comma-separated guards and invariants and := updates), a quarter of them with the same '
                        'semantic or syntactic fault in the same label of both renderings; both renderings are parsed and the diagnostics (messages), the document dump, the supported-analysis verdict and the invariant traversal are compared; '
                        'the process-body productions of the regenerated grammar are compared with the structure XtaXml.v models',
                   samples=samples, **stats)
    run.cov['trusted_base'] += ['hand models DocModel.v / XtaXml.v (reader order vs grammar order), tied to parser.y by the production table and to both front ends by the document dumps',
                                'tools/docgen.py (both renderers)', 'tools/gen_grammar.py (bison --xml + parser.y action reader)']
    return run.finish('proof', assumptions=['positions of diagnostics are compared by C06, not here',
                                            'the old (3.x) syntax is generated without parameters and instantiations'])
