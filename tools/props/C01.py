"""C01 — no input crashes, corrupts memory or hangs any parsing entry point."""
import os, re, json, collections
import vlib, docgen, crashgen, gen_lr

BASE_DECL = 'int g; bool b; clock x, y; chan c, d[2]; int a[3]; typedef int[0,3] id_t; typedef struct { int a; bool b; } S; S s; typedef scalar[3] sc; int f(int p, int &q, const int k) { return p; }'
PARTS = {1: 'decl', 2: 'decl', 3: 'system', 4: 'system', 5: 'params', 6: 'expr', 7: 'expr', 8: 'select', 9: 'expr', 10: 'expr', 11: 'expr', 12: 'expr', 13: 'expr', 14: 'query', 15: 'xta', 16: 'expr',
         17: 'expr', 18: 'expr', 19: 'expr', 20: 'expr'}
SEEDS = dict(decl=crashgen.DECL, expr=crashgen.EXPR, system=crashgen.SYSTEM, params=crashgen.PARAMS, select=crashgen.SELECT, query=crashgen.QUERY, xta=crashgen.XTA)
TLINE = re.compile(r'^T (\w+) (\d+) (\d+) (\d+) (\d) (\d)((?: a\d+=-?\d+)*) \| (\d+) (\d+) (\d+) (\d) (\d) (\d)$')


def effect_of(name, argvals):
    """(need, lo, hi) per stack for one observed call; argvals: {index: value}"""
    class A(list):
        pass
    # the table is written against the textual arguments of the grammar actions: rebuild them from the observed values
    args = [str(argvals.get(i, 'x')) for i in range(6)]
    if name in ('return_statement', 'decl_progress'):
        args[0] = 'true' if argvals.get(0) else 'false'
    if name == 'proc_location':
        args[1] = 'true' if argvals.get(1) else 'false'; args[2] = 'true' if argvals.get(2) else 'false'
    if name == 'expr_simulate':
        args[1] = 'true' if argvals.get(1) else 'false'
    if name == 'expr_optimize_exp':
        args[1] = 'EXPRPRICE' if argvals.get(1) == 1 else 'TIMEPRICE'
    eff = gen_lr.special(name, args) or gen_lr.EFFECTS.get(name)
    if eff is None:
        return None
    out = {}
    for s in gen_lr.STACKS:
        vals = []
        for x in eff[s]:
            if isinstance(x, int): vals.append(x)
            else:
                _, idx, add, mul = x
                vals.append(add + mul * argvals.get(idx, 0))
        out[s] = tuple(vals)
    return out


def validate_trace(lines, viol, seen):
    n = 0
    for l in lines:
        m = TLINE.match(l)
        if not m:
            continue
        n += 1
        name = m.group(1)
        before = tuple(int(m.group(k)) for k in (2, 3, 4, 5, 6))
        after = tuple(int(m.group(k)) for k in (8, 9, 10, 11, 12))
        exc = m.group(13) == '1'
        argv = {int(k): int(v) for k, v in re.findall(r'a(\d+)=(-?\d+)', m.group(7))}
        eff = effect_of(name, argv)
        seen[name] += 1
        if eff is None:
            viol.append(dict(callback=name, problem='no effect entry', line=l)); continue
        for k, s in enumerate(gen_lr.STACKS):
            need, lo, hi = eff[s]
            net = after[k] - before[k]
            if before[k] < need:
                viol.append(dict(callback=name, stack=s, problem='ran with %d entries, the table says it reads %d' % (before[k], need), line=l))
            if s in gen_lr.FLAG_STACKS:
                continue            # a pointer is a flag, not a counter (a stale function pointer is overwritten by the next decl_func_begin): only the need side is compared
            if net < lo:
                viol.append(dict(callback=name, stack=s, problem='height changed by %d, below the table\'s lower bound %d%s' % (net, lo, ' (threw)' if exc else ''), line=l))
            if net > hi and not exc:
                viol.append(dict(callback=name, stack=s, problem='height changed by %d, above the table\'s upper bound %d' % (net, hi), line=l))
    return n


HISTORY_TEXTS = [
    'int a[int[0,3]][int[0,1]][2][int[0,2]] = { 1 };\nint f(int p[int[0,1]][int[0,1]], int &q[2]) { int l[int[0,1]][int[0,2]][3]; return l[0][0][0]; }\ntypedef struct { int m[int[0,1]][int[0,1]][2]; } s_t;\n',
    'typedef int[0,3] t_t;\nint b[t_t][t_t][t_t];\nchan c[int[0,1]][t_t];\nprocess P(int &r[int[0,1]][int[0,1]], const int k) { clock x[int[0,1]][t_t]; state A { x[0][0] <= 3 }, B, C; init A;\n'
    'trans A -> B { select i : int[0,1], j : t_t; guard b[i][j][0] == 0; sync c[i][j]!; assign b[i][j][0] = 1; }, -> C { guard k > 0; }, -> A { }; }\nsystem P;\n',
    'int g;\nvoid h() { for (i : int[0,3]) { for (j : int[0,1]) { while (g < 3) { if (g == 1) g++; else { do { g--; } while (g > 0); } } } } }\nint v[2][3] = { { 1, 2, 3 }, { 4, 5, 6 } };\n'
    'struct { int a; struct { int b[2]; } c[int[0,1]][int[0,1]]; } w;\n',
]
HISTORY_AFTER_XTA = ('int i; int b[3]; int c[2][2]; int d[int[0,1]]; int e[int[0,1]][3][int[0,2]];\nprocess Q() { state S1, S2, S3; init S1; trans S1 -> S2 { guard b[0] == 0; }, -> S3 { guard c[1][1] == 1; }; }\nsystem Q;\n')
HISTORY_AFTER_XML = ('<?xml version="1.0" encoding="utf-8"?><nta><declaration>int i; int b[3]; int d[int[0,1]][2];</declaration><template><name>T</name><parameter>int &amp;p[3], const int k</parameter>'
                     '<declaration>clock x[2];</declaration><location id="id0"><label kind="invariant">x[0] &lt;= 3</label></location><location id="id1"/><init ref="id0"/>'
                     '<transition><source ref="id0"/><target ref="id1"/><label kind="select">s : int[0,1]</label><label kind="guard">b[s] == 0</label><label kind="assignment">b[s] = d[s][1]</label></transition></template>'
                     '<system>R = T(b, 1);\nsystem R;</system></nta>')


def history_block(run, thorough):
    """every token-boundary prefix of texts rich in nested constructs, each as a parse that ends at the end of input, followed in the same process by a legal XTA
    model, a legal XML model and a query: none of these may crash, and the legal ones must be accepted as they are in a fresh process"""
    rng = run.rng
    prefixes = []
    for t in HISTORY_TEXTS:
        cuts = [m.end() for m in re.finditer(r'\w+|[^\w\s]', t)]
        if not thorough:
            cuts = sorted(rng.sample(cuts, min(len(cuts), 110)))
        prefixes += [('xta', t[:c]) for c in cuts]
        prefixes += [('xmldecl', t[:c]) for c in cuts[::3]]
    chains = [prefixes[i::16] for i in range(16)]
    jobs = []
    for ci, ch in enumerate(chains):
        j = vlib.Job()
        for k, (kind, pre) in enumerate(ch):
            if kind == 'xta':
                j.case('hp%d_%d' % (ci, k)).model('xta', pre).end()
            else:
                j.case('hp%d_%d' % (ci, k)).model('xml', crashgen.wrap_xml(pre)).end()
            j.case('ha%d_%d' % (ci, k)).model('xta', HISTORY_AFTER_XTA).dump('errors').end()
            j.case('hb%d_%d' % (ci, k)).model('xml', HISTORY_AFTER_XML).dump('errors').query('E<> b[0] == 1 && d[1][0] >= 0', rt=False).end()
        jobs.append(j)
    import concurrent.futures
    with concurrent.futures.ThreadPoolExecutor(max_workers=16) as ex:
        outs = list(ex.map(lambda j: vlib.run_jobs(j, flavour='asan', shards=1), jobs))
    for ci, (ch, r) in enumerate(zip(chains, outs)):
        for k, (kind, pre) in enumerate(ch):
            st = [(c, r.get('%s%d_%d' % (c, ci, k), dict(status='MISSING', cmds=[]))) for c in ('hp', 'ha', 'hb')]
            dead = next(((c, x) for c, x in st if x['status'] != 'ok'), None)
            if dead:
                what = {'hp': 'the aborted parse itself', 'ha': 'a legal XTA model parsed after it', 'hb': 'a legal XML model and query parsed after it'}[dead[0]]
                run.fail('%s in %s: a %s text that ends at the end of input inside a construct, then legal models in the same process' % (dead[1]['status'], what, kind),
                         dict(history=[dict(entry=kk, text=pp) for kk, pp in ch[max(0, k - 2):k + 1]], then_xta=HISTORY_AFTER_XTA, then_xml=HISTORY_AFTER_XML, status=dead[1]['status'], stderr=(r.get('_stderr') or '')[-1200:]),
                         shape='crash:history:%s:%s' % (dead[0], dead[1]['status'].split()[0]))
                break      # the process is gone: the rest of the chain did not run
            for c, x in st[1:]:
                errs = [l for cc in x['cmds'] for l in cc[2] if l.startswith('error')]
                if errs:
                    run.fail('a legal model is rejected when it is parsed after an aborted parse in the same process: ' + errs[0][:150],
                             dict(history=[dict(entry=kind, text=pre)], model=HISTORY_AFTER_XTA if c == 'ha' else HISTORY_AFTER_XML, errors=errs[:3]), shape='history:legal-model-rejected')
    return len(prefixes)


def check(run):
    thorough = run.tier == 'thorough'
    rng = run.rng
    info = gen_lr.write()
    run.proofs()
    for s, d in info['stacks'].items():
        if d['fails']:
            run.tie_broken('stack-discipline certificate for %s does not check on the regenerated automaton' % s,
                           [dict(kind=f['kind'], state=f['state'], rule='%s -> %s' % (f['lhs'], ' '.join(map(str, f['rhs'])))) for f in d['fails'][:6]] + [dict(total=len(d['fails']))])
    if info['problems']:
        run.tie_broken('grammar actions the effect table cannot interpret', info['problems'][:6])
    base = crashgen.wrap_xml(BASE_DECL)
    # ---------------- B: callback traces against the effect table (release build) ----------------
    nt = 6000 if thorough else 900
    j = vlib.Job()
    srcs = {}
    for k in range(nt):
        r = rng.random()
        cid = 'b%d' % k
        if r < 0.2:
            M = docgen.gen(rng, ntempl=rng.choice([1, 2]))
            text = docgen.render_xml(M)
            if rng.random() < 0.6: text = crashgen.mutate_xml(rng, text)
            srcs[cid] = ('xml', text)
            j.case(cid, fork=True).trace('xml', text).end()
        elif r < 0.3:
            text = rng.choice(crashgen.XTA + [docgen.render_xta(docgen.gen(rng, ntempl=2, allow_anon=False, branchpoints=False, xta_common=True))])
            if rng.random() < 0.7: text = crashgen.mutate_tokens(rng, text)
            srcs[cid] = ('xta', text)
            j.case(cid, fork=True, old=rng.random() < 0.15).trace('xta', text).end()
        elif r < 0.42:
            text = rng.choice(crashgen.QUERY)
            if rng.random() < 0.6: text = crashgen.mutate_tokens(rng, text)
            srcs[cid] = ('parseProperty (PropertyBuilder)', text)
            j.case(cid, fork=True).model('xml', base).trace('prop', text).end()
        else:
            part = rng.choice([p for p in PARTS if PARTS[p] != 'query'])
            text = rng.choice(SEEDS[PARTS[part]])
            if rng.random() < 0.75: text = crashgen.mutate_tokens(rng, text)
            srcs[cid] = ('part %d' % part, text)
            j.case(cid, fork=True, old=rng.random() < 0.1).model('xml', base).trace(part, text).end()
    rr = vlib.run_jobs(j)
    viol, seen = [], collections.Counter()
    ncalls = 0
    # the deterministic replay of bison's skeleton on the regenerated tables must issue the callbacks the real parser issues
    import lrsim
    sim = lrsim.Sim()
    TYPEWORDS = re.compile(r'\b(typedef|id_t|S|sc|int8_t|uint8_t|int16_t|uint16_t|int32_t)\b')
    replayed, replay_mism, replay_recov = 0, [], 0
    jb = j.bytes()
    lexed = {}
    want = [(cid, text, b'CASE %s fork old' % cid.encode() in jb) for cid, (kind, text) in srcs.items() if (kind.startswith('part ') or kind == 'xta') and rr[cid]['status'] == 'ok' and not TYPEWORDS.search(text)]
    for (cid, text, old), toks in zip(want, sim.lex_many([(text, not old, False) for cid, text, old in want])):
        lexed[cid] = (old, toks)
    if want and getattr(sim, 'drv', None) is None:
        run.tie_broken('extraction of the scanner model (LexModel.v)', getattr(sim, 'drv_err', ''))
    prelude_calls = []
    try:
        ptoks = sim.lex_many([(lrsim.prelude_text(), True, False)])[0]
        prelude_calls, pout = sim.run(lrsim.START[1][0], ptoks) if ptoks else ([], 'none')
        if pout != 'accept':
            run.tie_broken('replay of the built-in declarations of parser.y', dict(outcome=pout))
    except RuntimeError as e:
        run.tie_broken('reader of utap_builtin_declarations()', str(e))
    for cid, (kind, text) in srcs.items():
        c = rr[cid]
        for cc in c['cmds']:
            ncalls += validate_trace(cc[2], viol, seen)
        if cid in lexed:
            part = int(kind.split()[1]) if kind.startswith('part ') else 0
            old, toks = lexed[cid]
            if toks is None or any(t[0] == 'T_ERROR' for t in toks):
                continue
            model_calls, outcome = sim.run(lrsim.START[part][1 if old else 0], toks)
            if kind == 'xta' and not old:
                model_calls = prelude_calls + model_calls            # parse_XTA parses the built-in declarations first
            real_calls = [l.split()[1] for cc in c['cmds'] if cc[0] == 'TRACE' for l in cc[2] if l.startswith('T ')]
            threw = any(l.split()[-1] == '1' for cc in c['cmds'] if cc[0] == 'TRACE' for l in cc[2] if l.startswith('T ')) or any(l.startswith('EXC') for cc in c['cmds'] for l in cc[2])
            replayed += 1
            if outcome != 'accept' or len(model_calls) != len(set(range(len(model_calls)))): replay_recov += 1
            if threw:
                if real_calls != model_calls[:len(real_calls)]:
                    replay_mism.append(dict(part=part, old=old, text=text, note='the parse ended by an exception: the real callbacks must be a prefix of the replay', real=real_calls[-6:], model=model_calls[max(0, len(real_calls) - 6):len(real_calls)]))
            elif real_calls != model_calls:
                k = next((i for i, (a, b) in enumerate(zip(real_calls + ['<end>'], model_calls + ['<end>'])) if a != b), 0)
                replay_mism.append(dict(part=part, old=old, text=text, first_difference=k, real=real_calls[max(0, k - 3):k + 3], model=model_calls[max(0, k - 3):k + 3]))
    if replay_mism:
        run.tie_broken('replay of the LR tables (gen_grammar + yacc.c skeleton with error recovery) vs the callbacks of the real parser', replay_mism[:4] + [dict(total=len(replay_mism), replayed=replayed)])
    for cid, (kind, text) in srcs.items():
        c = rr[cid]
        if c['status'] != 'ok':
            run.fail('%s: parsing entry point %s crashed or hung' % (c['status'], kind), dict(entry=kind, input=text, status=c['status'], builder='DocumentBuilder (traced)'),
                     shape='crash:%s:%s' % (kind.split()[0], c['status'].split()[0]))
    if viol:
        by = collections.OrderedDict()
        for v in viol:
            by.setdefault((v['callback'], v.get('stack'), re.sub(r'-?\d+', 'N', v['problem'])), v)
        run.tie_broken('effect table vs the callbacks\' observed stack heights', list(by.values())[:6] + [dict(total=len(viol), distinct=len(by))])
    # ---------------- C: sanitizer stream over every entry point and back end ----------------
    ns = 8000 if thorough else 1200
    j = vlib.Job()
    ssrc = {}
    for k in range(ns):
        cid = 's%d' % k
        r = rng.random()
        old = rng.random() < 0.12
        if r < 0.22:
            M = docgen.gen(rng, ntempl=rng.choice([1, 2]))
            text = docgen.render_xml(M) if rng.random() < 0.5 else crashgen.wrap_xml(rng.choice(crashgen.DECL), guard=rng.choice(crashgen.EXPR), extra=crashgen.XML_EXTRA if rng.random() < 0.6 else '')
            q = rng.random()
            if q < 0.45: text = crashgen.mutate_xml(rng, text)
            elif q < 0.75: text = crashgen.mutate_bytes(rng, text)
            elif q < 0.8: text = crashgen.wrap_xml(crashgen.long_token(rng, rng.choice(crashgen.DECL)), guard=crashgen.long_token(rng, rng.choice(crashgen.EXPR)))
            elif q < 0.92: text = crashgen.wrap_xml(crashgen.init_lists(rng), guard='true', assign='', sync='', inv='true')     # error-free up to the type checker: initialiser lists of every length
            ssrc[cid] = ('parse_XML_buffer', text)
            j.case(cid, fork=True, old=old).model('xml', text).dump('errors').dump('inv').end()
        elif r < 0.32:
            q = rng.random()
            text = crashgen.long_token(rng, rng.choice(crashgen.XTA)) if q < 0.1 else (crashgen.mutate_tokens(rng, rng.choice(crashgen.XTA)) if q < 0.7 else crashgen.mutate_bytes(rng, rng.choice(crashgen.XTA)))
            ssrc[cid] = ('parse_XTA', text)
            j.case(cid, fork=True, old=old).model('xta', text).dump('errors').dump('inv').end()
        elif r < 0.62:
            part = rng.choice(list(PARTS))
            text = rng.choice(SEEDS[PARTS[part]])
            q = rng.random()
            text = crashgen.long_token(rng, text) if q < 0.06 else (crashgen.mutate_tokens(rng, text) if q < 0.8 else crashgen.mutate_bytes(rng, text))
            ssrc[cid] = ('parse_XTA part %d (DocumentBuilder)' % part, text)
            j.case(cid, fork=True, old=old).model('xml', base).part(part, text).dump('errors').end()
        elif r < 0.8:
            part = rng.choice(list(PARTS))
            text = rng.choice(SEEDS[PARTS[part]])
            if rng.random() < 0.6: text = crashgen.mutate_tokens(rng, text)
            ssrc[cid] = ('parse_XTA part %d (PrettyPrinter)' % part, text)
            j.case(cid, fork=True, old=old).pretty(part, text).end()
        elif r < 0.9:
            text = rng.choice(crashgen.QUERY)
            if rng.random() < 0.6: text = crashgen.mutate_tokens(rng, text)
            ssrc[cid] = ('parseProperty (PrettyPrinter)', text)
            j.case(cid, fork=True).prettyq(text).end()
        else:
            text = rng.choice(crashgen.QUERY)
            if rng.random() < 0.7: text = crashgen.mutate_tokens(rng, text)
            ssrc[cid] = ('parseProperty (TigaPropertyBuilder)', text)
            j.case(cid, fork=True).model('xml', base).query(text, rt=False).end()
    # the reader's attribute / element discipline, systematically: every single structural fault of two documents that between them
    # contain every element the reader knows (templates, LSC charts, queries)
    sweep = crashgen.structural_sweep(crashgen.wrap_xml(BASE_DECL, extra=crashgen.XML_EXTRA)) + crashgen.structural_sweep(crashgen.LSC_DOC)
    if not thorough:
        sweep = [x for i, x in enumerate(sweep) if 'attribute' in x[0] or i % 2 == run.seed % 2]
    for k, (what, text) in enumerate(sweep):
        cid = 'w%d' % k
        ssrc[cid] = ('parse_XML_buffer', text)
        j.case(cid, fork=True).model('xml', text).dump('errors').dump('inv').end()
    # every declaration seed on top of declarations that make the rest of the document error-free: only then does the type checker (and the feature
    # checker behind it) run over the declaration
    for k, d in enumerate(crashgen.DECL[1:]):
        cid = 'd%d' % k
        text = crashgen.wrap_xml(crashgen.DECL[0] + '\n' + d)
        ssrc[cid] = ('parse_XML_buffer', text)
        j.case(cid, fork=True).model('xml', text).dump('errors').dump('inv').end()
    # objects whose types differ in a const prefix, a range or the element type, compared / assigned / passed by reference / joined by a conditional
    tp = crashgen.type_pairs()
    for k, d in enumerate(tp if thorough else [x for i, x in enumerate(tp) if i % 2 == run.seed % 2 or i % 11 < 4]):
        cid = 'tp%d' % k
        text = crashgen.wrap_xml(BASE_DECL + '\n' + d)
        ssrc[cid] = ('parse_XML_buffer', text)
        j.case(cid, fork=True).model('xml', text).dump('errors').end()
    # queries whose construction reports a diagnostic, or that are ill-typed: the property builders type-check them all the same
    ps_model = crashgen.wrap_xml(BASE_DECL).replace('</template><system>', '</template><template><name>PS</name><parameter>const int[0,1] i, const int[0,2] j</parameter><location id="id9"><name>L</name></location><init ref="id9"/></template><system>').replace('system P;', 'system P, PS;')
    for k, q in enumerate(crashgen.QUERY_SEM):
        cid = 'qs%d' % k
        ssrc[cid] = ('parseProperty (TigaPropertyBuilder)', q)
        j.case(cid, fork=True).model('xml', ps_model).dump('errors').query(q, rt=False).end()
    for k, q in enumerate(crashgen.QUERY_OK):
        cid = 'qo%d' % k
        ssrc[cid] = ('parseProperty (TigaPropertyBuilder), well-typed query', q)
        # statistical queries need a model whose channels are all broadcast
        j.case(cid, fork=True).model('xml', ps_model.replace('chan c, d[2];', 'broadcast chan c, d[2];') if re.match(r'(strategy \w+ = )?(Pr|E\[|simulate|minE|maxE|minPr|maxPr)', q) else ps_model).dump('errors').query(q, rt=False).end()
    for k, q in enumerate(crashgen.DYN_QUERIES):
        cid = 'qd%d' % k
        ssrc[cid] = ('parseProperty (TigaPropertyBuilder), query over a dynamic template', q)
        j.case(cid, fork=True).model('xml', crashgen.DYN_MODEL).dump('errors').query(q, rt=False).end()
    # size and depth: every recursive structure of the language at 300 / 3000 elements under the sanitizers (their stack frames are several times larger)
    for kind in crashgen.SCALE_KINDS:
        for n in (300, 3000):
            part, text = crashgen.scale(kind, n)
            cid = 'z%s%d' % (kind, n)
            ssrc[cid] = ('parse_XTA part %d (DocumentBuilder), %s x %d' % (part, kind, n), text[:300] + (' ... (%d characters)' % len(text) if len(text) > 300 else ''))
            j.case(cid, fork=True).model('xml', crashgen.wrap_xml(crashgen.SCALE_DECL)).part(part, text).dump('errors').end()
    rr = vlib.run_jobs(j, flavour='asan')
    # ... and at 30000 / 100000 (300000 for the operator chain) in the plain build; time is CPU time per case, limited by the harness
    jb = vlib.Job()
    big = {}
    for kind in crashgen.SCALE_KINDS:
        for n in ((30000, 100000, 300000) if kind == 'plus' else (30000, 100000)):
            part, text = crashgen.scale(kind, n)
            cid = 'Z%s%d' % (kind, n)
            big[cid] = (kind, n, part, len(text))
            jb.case(cid, fork=True).model('xml', crashgen.wrap_xml(crashgen.SCALE_DECL)).part(part, text).dump('errors').end()
    rb = vlib.run_jobs(jb)
    for cid, (kind, n, part, ln) in big.items():
        c = rb[cid]
        if c['status'] != 'ok':
            run.fail('%s on a %s structure of %d elements (%d characters) through parse_XTA part %d' % (c['status'], kind, n, ln, part), dict(structure=kind, elements=n, part=part, status=c['status'], generator='crashgen.scale(%r, %d)' % (kind, n)),
                     shape='deep-recursion:%s:%d' % (kind, n))
    # ---------------- histories: a parse that ends in the middle of a construct (end of input: bison aborts without recovery, so whatever the grammar's
    # actions keep in file-static variables stays as it was), then ordinary models through the same entry points in the same process ----------------
    nh = history_block(run, thorough)
    entries = collections.Counter()
    outcomes = collections.Counter()
    for cid, (entry, text) in ssrc.items():
        c = rr[cid]
        entries[re.sub(r' part \d+', ' part', entry)] += 1
        flat = [l for cc in c['cmds'] for l in cc[2]]
        outcomes['threw std::exception' if any(l.startswith('EXC') for l in flat) else ('diagnostics' if any(l.startswith('error') for l in flat) else 'clean')] += 1
        if c['status'] != 'ok':
            outcomes['crash'] += 1
            run.fail('%s in %s' % (c['status'], entry), dict(entry=entry, input=text, status=c['status'], stderr=(c.get('stderr') or '')[-1500:]),
                     shape='crash:%s:%s' % (re.sub(r'[^A-Za-z_]+', '_', entry)[:40], c['status'].split()[0]))
        nonstd = [l for l in flat if l.startswith('EXC') and 'what=' not in l]
        if nonstd:
            run.fail('an exception that is not a std::exception escaped %s' % entry, dict(entry=entry, input=text, line=nonstd[0]), shape='nonstd-exception')
    run.cov.update(histories_after_aborted_parses=nh, evaluations=nh + nt + ns + len(sweep) + len(big) + 2 * len(crashgen.SCALE_KINDS) + len(crashgen.DECL) - 1, declaration_seeds_type_checked=len(crashgen.DECL) - 1, reader_structural_faults=len(sweep), scaled_structures=len(big) + 2 * len(crashgen.SCALE_KINDS), distinct_nontrivial=len(set(t for _, t in srcs.values())) + len(set(t for _, t in ssrc.values())), traces_validated_against_impl=nt,
                   callbacks_observed=ncalls, lr_replays=replayed, distinct_callbacks_observed=len(seen), callbacks_in_table=len(gen_lr.EFFECTS), automaton_states=info['states'], grammar_rules=info['rules'],
                   counting_symbols=info['stacks'][gen_lr.F]['counting_symbols'], entry_points=dict(entries), outcomes=dict(outcomes),
                   rule='(A) Coq: check_all on the LR(0) item automaton, rule actions and effect table regenerated from parser.y (bison --xml), for the expression, type and frame stacks. '
                        '(B) every builder callback of generated and token-mutated inputs (whole XML, whole XTA in both syntaxes, every xta_part_t with DocumentBuilder, queries with PropertyBuilder) is traced with the three stack heights before and after and compared with the effect table. '
                        '(C) ASan+UBSan build: generated, token-, byte- and element-mutated inputs through parse_XML_buffer, parse_XTA, parse_XTA(part) with DocumentBuilder and PrettyPrinter, parseProperty with PrettyPrinter and TigaPropertyBuilder, both syntax switches; '
                        'very long identifiers, numbers and string literals (3999 .. 70000 characters) are spliced in; declarations with struct / array initialiser lists of every length (too few, exact, too many, nested, named) reach the type checker; (D) the attribute and element discipline of the XML reader, systematically: every single structural fault (each attribute removed / empty / blank; each element removed, duplicated, emptied, given stray text) of two documents that between them contain every element the reader knows (templates, LSC charts, queries). any signal, sanitizer report, abort, timeout or non-std exception is a failing input')
    run.cov['trusted_base'] += ['LRStack.v machine as a model of the bison skeleton (shift / reduce by any listed rule / recovery to the first state shifting error from a state without default reduction)',
                                'tools/gen_lr.py + tools/gen_grammar.py (translator: bison --xml, parser.y action reader, effect composition)', 'the per-callback effect table in gen_lr.py (checked by the traces of B)',
                                'harness/trace_gen.h (generated wrappers), hook TypeFragments::size()', 'ASan / UBSan runtime']
    return run.finish('proof', assumptions=['partial: the theorems cover the stack discipline of grammar-driven callbacks; callbacks issued directly by the XML reader, null attributes, libxml2, flex, memory safety of the C++ runtime and running time are observed by the sanitizer stream only',
                                            'the statement-block, field and label stacks of StatementBuilder are not modelled'])
