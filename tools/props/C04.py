"""C04 — the document built from an XML model mirrors the XML's structure exactly."""
import os, re, subprocess
import vlib, docgen


def model_sx(M):
    """abstract model -> input of drv_doc (names and ids as numbers)"""
    out = []
    for T in M.templates:
        idn = lambda i: str(int(i[2:]))
        locs = ' '.join('(l %s %s %s %s %d %d)' % (idn(l['id']), (('9' if l['name'].startswith('_') else '') + l['name'].lstrip('_')[1:].replace('_', '0')) if l['name'] else '-', l['inv'] or '-', l['rate'] or '-', l['urgent'], l['committed']) for l in T['locs'])
        bps = ' '.join(idn(b) for b in T['bps'])
        edges = ' '.join('(e %s %s %d%s)' % (idn(e['src']), idn(e['dst']), e['control'], ''.join(' (%s %d)' % ({'select': 's', 'guard': 'g', 'sync': 'y', 'update': 'u', 'prob': 'p'}[k], m) for k, m in e['labels'])) for e in T['edges'])
        out.append('(t %s (locs %s) (bps %s) (init %s) (edges %s))' % (T['name'][1:], locs, bps, idn(T['init']), edges))
    return 'M ' + ' '.join(out)


def model_expected(M):
    """what drv_doc must print for M (names in its N<number>/A<id> spelling)"""
    res = []
    for T in M.templates:
        def nm(i):
            for l in T['locs']:
                if l['id'] == i:
                    return ('N' + str(int(('9' if l['name'].startswith('_') else '') + l['name'].lstrip('_')[1:].replace('_', '0')))) if l['name'] else 'A' + str(int(i[2:]))
            return 'A' + str(int(i[2:]))
        locs = ''.join(' (%s %s %s %d %d)' % (nm(l['id']), l['inv'] or '-', l['rate'] or '-', l['urgent'], l['committed']) for l in T['locs'])
        bps = ''.join(' A%d' % int(b[2:]) for b in T['bps'])
        es = ''
        for e in T['edges']:
            lab = {k: '-' for k in ('guard', 'sync', 'update', 'prob')}
            sel = []
            for k, m in e['labels']:
                if k == 'select': sel.append(str(m))
                else: lab[k] = str(m)
            es += ' (%s %s %d [%s] %s %s %s %s)' % (nm(e['src']), nm(e['dst']), e['control'], ','.join(sel), lab['guard'], lab['sync'], lab['update'], lab['prob'])
        res.append('(t %d (locs%s) (bps%s) (init %s) (edges%s))' % (int(T['name'][1:]), locs, bps, nm(T['init']), es))
    return 'DOC wf=1 ' + ' '.join(res)


INVARIANTS = ['x <= 5', 'x <= 5 && y <= 3', "x' == 0", "x <= 5 && x' == 0", "x' == 1 && y' == 0 && x <= 2", '(x <= 5 && y <= 2) && x\' == 0', 'x <= 5 && (y <= 2 && i == 1)',
              "forall (k : int[0,1]) c[k]' == 0", "x <= 3 && forall (k : int[0,1]) c[k]' == 0", 'forall (k : int[0,1]) c[k] <= 4', "forall (k : int[0,1]) (c[k] <= 4 && c[k]' == 1)",
              "forall (k : int[0,1]) forall (j : int[0,1]) d[k][j]' == 0", "forall (k : int[0,1]) c[k]' == 0 && forall (j : int[0,1]) c[j] <= 7", "i == 1 && x <= i", 'true',
              "true || forall (k : int[0,1]) c[k]' == 0", "i == 1 || x' == 0"]


OLD_PARAM_FACTS = {
    # nonterminal -> per alternative: (symbols of the right-hand side without mid-rule markers, callbacks with the arguments that matter); ParamModel.cbs_group
    'OldProcParam': [(['Type', 'NonTypeId', 'ArrayDecl'], [('type_duplicate', ''), ('decl_parameter', 'true')]),
                     (['OldProcParam', "','", 'NonTypeId', 'ArrayDecl'], [('type_duplicate', ''), ('decl_parameter', 'true')])],
    'OldProcConstParam': [(['T_OLDCONST', 'NonTypeId', 'ArrayDecl'], [('type_int', 'ParserBuilder::PREFIX_CONST'), ('decl_parameter', 'false')]),
                          (['OldProcConstParam', "','", 'NonTypeId', 'ArrayDecl'], [('type_int', 'ParserBuilder::PREFIX_CONST'), ('decl_parameter', 'false')])],
    'OldProcParamList': [(['OldProcParam'], [('type_pop', '')]), (['OldProcConstParam'], []), (['OldProcParamList', "';'", 'OldProcParam'], [('type_pop', '')]), (['OldProcParamList', "';'", 'OldProcConstParam'], [])],
}


def old_parameter_facts(run):
    """the four productions ParamModel.cbs_group transcribes, read from the grammar of this run: symbols, callbacks in order (mid-rule actions first) and the
    reference flag each decl_parameter passes"""
    import gen_grammar
    try:
        G = gen_grammar.load()
    except gen_grammar.GrammarError as e:
        run.tie_broken('G-LR translation of parser.y', str(e))
        return 0
    mid = {r['lhs']: r for r in G['rules'] if re.match(r'^[$@]+\d+$', r['lhs'])}
    found = {}
    for r in G['rules']:
        if r['lhs'] in OLD_PARAM_FACTS:
            calls = []
            for x in r['rhs']:
                if x in mid:
                    calls += mid[x].get('calls') or []
            calls += r.get('calls') or []
            norm = []
            for name, args in calls:
                a = [q.strip() for q in args.split(',')] if args.strip() else []
                norm.append((name, a[-1] if name in ('decl_parameter', 'type_int') and a else ''))
            found.setdefault(r['lhs'], []).append(([x for x in r['rhs'] if x not in mid], norm))
    bad = [dict(nonterminal=k, expected=v, found=found.get(k)) for k, v in OLD_PARAM_FACTS.items() if found.get(k) != v]
    if bad:
        run.tie_broken('parser.y no longer issues the callbacks ParamModel.v transcribes for 3.x parameter lists', bad[:3])
    return len(OLD_PARAM_FACTS)


def old_parameter_model(run, models):
    """the parameters ParamModel's callbacks build for the groups of each 3.x model: what the document must show"""
    drv, err = vlib.build_extract('params', 'Extract_Params.v', 'drv_params') if os.path.exists(os.path.join(vlib.COQ, 'theories', 'ParamModel.vo')) else (None, 'ParamModel.vo missing')
    if drv is None:
        run.tie_broken('extraction of the 3.x parameter model', err)
        return {}
    Ts = [T for M in models if getattr(M, 'old', False) for T in M.templates if T.get('old_groups')]
    names = {}
    def num(n):
        return names.setdefault(n, len(names) + 1)
    lines = [' ; '.join('%s %s' % ('r' if kind == 'ref' else 'c', ' '.join(str(num(n)) for n in ns)) for kind, ns in T['old_groups']) for T in Ts]
    out = subprocess.run([drv], input='\n'.join(lines) + '\n', stdout=subprocess.PIPE, universal_newlines=True).stdout.split('\n')
    back = {v: k for k, v in names.items()}
    res = {}
    for T, line in zip(Ts, out):
        built, _, rest = line.partition(' | ')
        res[id(T)] = [(back[int(p.split(':')[0])], p.split(':')[1] == '1', p.split(':')[2] == '1') for p in built.split()] if 'underflow 0' in rest and 'depth 0' in rest else None
    return res


def invariant_shapes(run):
    """the stored invariant of a location against its label: the type checker rebuilds invariants that mention clock rates conjunct by conjunct
    (RateDecomposer); whatever it does, the conjuncts stored must be those of the label, in order, after the constant 1 it starts from"""
    import scopegen
    def conjuncts(node):
        if isinstance(node, list) and node and node[0] == 'AND':
            kids = [x for x in node[1:] if isinstance(x, list)]
            return conjuncts(kids[0]) + conjuncts(kids[1]) if len(kids) == 2 else [node]
        return [node]
    j = vlib.Job()
    T = ('<?xml version="1.0" encoding="utf-8"?><nta><declaration>clock x, y; clock c[2]; clock d[2][2]; int i;</declaration><template><name>T</name><location id="id0"><label kind="invariant">%s</label></location>'
         '<init ref="id0"/></template><system>system T;</system></nta>')
    for k, inv in enumerate(INVARIANTS):
        j.case('i%d' % k, fork=True).model('xml', T % docgen.XESC(inv)).dump('errors').dump('doc').expr(inv).end()
    rr = vlib.run_jobs(j)
    n = 0
    for k, inv in enumerate(INVARIANTS):
        c = rr['i%d' % k]
        if c['status'] != 'ok' or len(c['cmds']) < 4:
            run.fail('type checker crashed on the invariant %r (%s)' % (inv, c['status']), dict(invariant=inv, status=c['status']), shape='crash:invariant')
            continue
        if any(l.startswith('error') for l in c['cmds'][1][2]):
            run.tie_broken('an invariant of the shape list is rejected', dict(invariant=inv, errors=[l for l in c['cmds'][1][2] if l.startswith('error')][:2]))
            continue
        stored = next((re.match(r't0 loc nr=0 .*? inv=(.*) exprate=', l).group(1) for l in c['cmds'][2][2] if l.startswith('t0 loc nr=0 ')), None)
        label = next((l[5:] for l in c['cmds'][3][2] if l.startswith('tree ')), None)
        if stored is None or label is None:
            run.tie_broken('invariant shape: dump not found', dict(invariant=inv, lines=c['cmds'][3][2][:3]))
            continue
        n += 1
        cs, cl = conjuncts(scopegen.sexpr(stored)), conjuncts(scopegen.sexpr(label))
        if cs and cs[0] == ['CONSTANT', 'i:1']:
            cs = cs[1:]
        if cs != cl:
            extra = [x for x in cs if x not in cl]
            run.fail('the invariant label %r is stored as %d conjuncts where the label has %d: %s' % (inv, len(cs), len(cl), stored[:300]), dict(invariant=inv, stored=stored, label=label),
                     shape='invariant-conjuncts:' + ('or-over-quantified-rate' if inv.startswith('true || forall') else re.sub(r'[^a-z]+', '-', inv)[:30]))
    return n


def rate_decomposer(run, rng, n):
    """RateModel.v against visitLocation: for generated invariant labels (conjunctions, disjunctions, quantifiers, rates on either side, plain atoms of
    several classes) the extracted decomposer and the type checker must agree on acceptance, on the exact tree stored (1 && c1 && .. && cn, left-nested, each ci
    the subtree of the label the model names), on the stop-watch and strict-invariant flags of the document and on the $Strict_invariant warning"""
    import scopegen, rategen
    drv, err = vlib.build_extract('rate', 'Extract_Rate.v', 'drv_rate') if os.path.exists(os.path.join(vlib.COQ, 'theories', 'RateProofs.vo')) else (None, 'RateProofs.vo missing')
    if drv is None:
        run.tie_broken('extraction of the rate-decomposer model', err)
        return dict(cases=0)
    labels = [rategen.gen(rng, rng.choice([1, 2, 2, 3, 3, 4]), odd=0.0 if k % 4 else 0.15) for k in range(n)]
    out = subprocess.run([drv], input='\n'.join(rategen.prefix(e) for e in labels) + '\n', stdout=subprocess.PIPE, universal_newlines=True).stdout.split('\n')
    T = ('<?xml version="1.0" encoding="utf-8"?><nta><declaration>' + rategen.DECLS + '</declaration><template><name>T</name><location id="id0"><label kind="invariant">%s</label></location>'
         '<init ref="id0"/></template><system>system T;</system></nta>')
    j = vlib.Job()
    for k, e in enumerate(labels):
        j.case('r%d' % k, fork=True).model('xml', T % docgen.XESC(rategen.text(e))).dump('errors').dump('doc').dump('flags').expr(rategen.text(e)).end()
    rr = vlib.run_jobs(j)
    st = dict(cases=0, accepted=0, rejected=0, with_rates=0, with_quantifier=0, with_disjunction=0, stored_conjuncts=0)
    for k, e in enumerate(labels):
        txt = rategen.text(e)
        c = rr['r%d' % k]
        m = dict(f.split('=', 1) for f in out[k].split('\t')) if out[k].startswith('acc=') else None
        if m is None:
            run.tie_broken('rate model: no answer from the extracted model', dict(label=txt, line=out[k][:200]))
            continue
        if c['status'] != 'ok' or len(c['cmds']) < 5:
            run.fail('type checker crashed on the invariant %r (%s)' % (txt, c['status']), dict(invariant=txt, status=c['status']), shape='crash:invariant')
            continue
        st['cases'] += 1
        errs = [l for l in c['cmds'][1][2] if l.startswith('error')]
        warns = [l for l in c['cmds'][1][2] if l.startswith('warning')]
        if (m['acc'] == '1') != (not errs):
            # which side is right is the property's business only for labels the model accepts and the checker refuses or mangles: report as tie
            run.tie_broken('rate model and type checker disagree on whether an invariant label is accepted', dict(label=txt, model_accepts=m['acc'], errors=errs[:2]))
            continue
        if errs:
            st['rejected'] += 1
            continue
        st['accepted'] += 1
        stored = next((re.match(r't0 loc nr=0 .*? inv=(.*) exprate=', l).group(1) for l in c['cmds'][2][2] if l.startswith('t0 loc nr=0 ')), None)
        flags = next((l for l in c['cmds'][3][2] if l.startswith('flags ')), '')
        label = next((l[5:] for l in c['cmds'][4][2] if l.startswith('tree ')), None)
        if stored is None or label is None or not flags:
            run.tie_broken('rate model: dump not found', dict(label=txt))
            continue
        try:
            tab = rategen.table(e, scopegen.sexpr(label))
        except ValueError as ex:
            run.tie_broken('rate model: the parse tree of a generated label has another shape than the generator thinks', dict(label=txt, tree=label[:400], why=str(ex)))
            continue
        want = [rategen.parse_prefix(x.split(' ')) for x in m['inv'].split(',')] if m['inv'] else []
        st['stored_conjuncts'] += len(want)
        st['with_rates'] += 'R ' in out[k]
        st['with_quantifier'] += 'Q' in rategen.prefix(e).split(' ')
        st['with_disjunction'] += 'O' in rategen.prefix(e).split(' ')
        node, got = scopegen.sexpr(stored), []
        for _ in want:
            kids = [x for x in node[1:] if isinstance(x, list)] if isinstance(node, list) else []
            if not (isinstance(node, list) and node[0] == 'AND' and len(kids) == 2):
                break
            got.insert(0, kids[1])
            node = kids[0]
        exp = [tab.get(w) for w in want]
        if node != ['CONSTANT', 'i:1'] or got != exp:
            extra = [x for x in got if x not in exp]
            run.fail('the invariant label %r is stored as %s where the model of the decomposer keeps the conjuncts %s' % (txt, stored[:300], m['inv']),
                     dict(invariant=txt, stored=stored, label=label, model=out[k]), shape='invariant-conjuncts:' + re.sub(r'[^a-z]+', '-', txt)[:30])
            continue
        fl = dict(f.split('=') for f in flags.split(' ')[1:])
        if fl.get('stopwatch') != m['clock'] or fl.get('strictinv') != m['strict'] or (m['strict'] == '1') != any('Strict_invariant' in w for w in warns):
            run.fail('the label %r: document flags %s / warnings %s, the model of the decomposer says clock rates=%s strict bound=%s' % (txt, flags, [w[:60] for w in warns][:2], m['clock'], m['strict']),
                     dict(invariant=txt, flags=flags, warnings=warns[:3], model=out[k]), shape='invariant-flags:' + re.sub(r'[^a-z]+', '-', txt)[:30])
    return st


def check(run):
    thorough = run.tier == 'thorough'
    rng = run.rng
    pr = run.proofs()
    drv, err = vlib.build_extract('doc', 'Extract_Doc.v', 'drv_doc') if os.path.exists(os.path.join(vlib.COQ, 'theories', 'DocProofs.vo')) else (None, 'DocProofs.vo missing')
    if drv is None:
        run.tie_broken('extraction of the document model', err)
        return run.finish('proof')
    n = 4000 if thorough else 400
    models = [docgen.gen(rng, ntempl=rng.choice([0, 1, 1, 2, 3, 4] + ([5, 6, 8] if thorough else []))) for _ in range(n)]
    for M in models[3::5]:
        M.pad_names = True          # white space around the text of <name> elements is not part of the name
    for M in models[::7]:
        # the order of a location's two labels is free in the XML: sometimes the rate comes first
        for T in M.templates:
            for l in T['locs']:
                if l['inv'] is not None and l['rate'] is not None:
                    l['rate_first'] = True
    # models in the 3.x syntax (parse_XML_buffer with newxta = false): labels spelled the old way, parameters in `;`-separated groups with several names each
    nold = max(1, n // 12)
    for k in range(nold):
        M = docgen.old_params(docgen.oldify(docgen.gen(rng, ntempl=rng.choice([1, 2, 3, 4]), allow_anon=True, branchpoints=False, xta_common=True), rng), rng)
        models.append(M)
    nfacts = old_parameter_facts(run)
    oldp = old_parameter_model(run, models)
    out = subprocess.run([drv], input='\n'.join(model_sx(M) for M in models) + '\n', stdout=subprocess.PIPE, universal_newlines=True).stdout.split('\n')
    j = vlib.Job()
    xmls = [docgen.render_xml(M) for M in models]
    for k, x in enumerate(xmls):
        j.case('m%d' % k, fork=True, old=getattr(models[k], 'old', False)).model('xml', x).dump('errors').dump('doc').dump('inv').end()
    rr = vlib.run_jobs(j)
    mmism, stats = [], dict(templates=0, locations=0, edges=0, labels=0, processes=0, branchpoint_edges=0)
    samples = []
    for k, (M, x) in enumerate(zip(models, xmls)):
        exp = docgen.expected(M)
        for T, t in zip(M.templates, exp['templates']):
            if T.get('old_groups'):
                if oldp.get(id(T)) != t['pkinds']:
                    run.tie_broken('ParamModel (extracted) vs the generator\'s reading of a 3.x parameter list', dict(groups=T['old_groups'], model=oldp.get(id(T)), generator=t['pkinds']))
                t['pkinds'] = oldp.get(id(T)) or t['pkinds']
        if out[k].strip() != model_expected(M).strip():
            mmism.append(dict(model=model_sx(M)[:600], coq_model=out[k][:600], expected=model_expected(M)[:600]))
        c = rr['m%d' % k]
        if c['status'] != 'ok' or len(c['cmds']) < 4:
            run.fail('parser crashed on a generated well-formed model (%s)' % c['status'], dict(xml=x, status=c['status']), shape='crash')
            continue
        errs = [l for l in c['cmds'][1][2] if l.startswith('error')]
        if errs:
            if any(l.get('rate_first') for T in M.templates for l in T['locs']) and all('location' in e for e in errs):
                run.fail('a location whose rate label precedes its invariant label is built with the two swapped (and then rejected by the type checker): ' + errs[0][:120],
                         dict(xml=x, errors=errs[:3]), shape='mirror:location-label-order')
            elif getattr(M, 'pad_names', False):
                run.fail('a model whose <name> elements carry white space around the name is rejected (the white space is taken for part of the name): ' + errs[0][:120],
                         dict(xml=x, errors=errs[:3]), shape='mirror:name-white-space')
            else:
                run.tie_broken('a generated well-formed model is rejected', dict(xml=x[:1500], errors=errs[:3]))
            continue
        got = docgen.parse_dump(c['cmds'][2][2])
        d = docgen.diff(exp, got)
        if d:
            swapped = 'location (name' in d and any(l.get('rate_first') for T in M.templates for l in T['locs'])
            run.fail('document differs from the XML: ' + d, dict(xml=x, difference=d), shape='mirror:location-label-order' if swapped else 'mirror:' + re.sub(r'[0-9]+', 'N', d)[:60])
        invf = [l for l in c['cmds'][3][2] if l.startswith('INVFAIL')]
        if invf:
            run.fail('structural invariant broken after parsing a well-formed model: ' + invf[0], dict(xml=x, fails=invf[:3]), shape='inv:' + re.sub(r'[0-9]+', 'N', invf[0])[:50])
        for t in got['templates']:
            if t.get('locnrs', []) != list(range(len(t['locs']))) or t.get('edgenrs', []) != list(range(len(t['edges']))):
                run.fail('location / edge numbers are not dense and in source order', dict(xml=x), shape='numbering')
        stats['templates'] += len(M.templates)
        for T in M.templates:
            stats['locations'] += len(T['locs']); stats['edges'] += len(T['edges']); stats['labels'] += sum(len(e['labels']) for e in T['edges'])
            stats['branchpoint_edges'] += sum(1 for e in T['edges'] if e['src'] in T['bps'] or e['dst'] in T['bps'])
        stats['processes'] += len(M.system)
        if len(samples) < 2 and len(M.templates) == 1 and len(x) < 2500:
            samples.append(dict(xml=x, document=exp))
    if mmism:
        run.tie_broken('DocModel (extracted reader+builder) vs the generator\'s own model', mmism[:3] + [dict(total=len(mmism))])
    ninv = invariant_shapes(run)
    rst = rate_decomposer(run, rng, 3000 if thorough else 500)
    run.cov.update(invariant_shapes=ninv, rate_decomposer=rst, evaluations=len(models) + ninv, distinct_nontrivial=len(set(xmls)), traces_validated_against_impl=len(models),
                   rule='seeded random well-formed models: 0-4 templates (up to 8 in the thorough tier), value / reference parameters, local declarations, named and anonymous locations with invariant / exponential rate / urgent / committed, '
                        'branchpoints, self loops, parallel edges, edges through branchpoints, every subset and order of select / guard / synchronisation / assignment / probability labels (each with a unique marker), full instantiations, '
                        'system line with and without priorities; the real document dump must equal the generated model, and the extracted Coq reader+builder must produce the same document',
                   samples=samples, **stats)
    run.cov['trusted_base'] += ['hand model DocModel.v of XMLReader::templ/location/transition/label and DocumentBuilder::proc_* (tied through the common expected document)',
                                'tools/docgen.py generator / renderer / dump parser', 'drv_doc.ml',
                                'hand model RateModel.v of RateDecomposer::decompose over the class clauses of Typing.v (tied by tools/rategen.py labels: acceptance, exact stored tree, document flags); drv_rate.ml']
    return run.finish('proof', assumptions=['the libxml2 event level (begin/end/read skipping) and the text of declarations are outside the Coq model; label contents are identified by unique markers',
                                            'LSC templates are not generated',
                                            'cost variables cannot be declared in this build (ENABLE_CORA is off): the cost-equation branch of the decomposer is modelled and proved about, but no input reaches it'])
