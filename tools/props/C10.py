"""C10 — only convex clock constraints are accepted as guards and invariants."""
import os, re, subprocess, itertools
import vlib, typingfix as tf

XML = '''<?xml version="1.0" encoding="utf-8"?>
<nta><declaration>clock x, y; int i, j; double d, e; bool b, c; dynamic DT(const int di);</declaration>
<template><name>DT</name><parameter>const int di</parameter><location id="idd"/><init ref="idd"/></template>
<template><name>T</name><location id="id0"><label kind="invariant">%s</label></location><location id="id1"/><init ref="id0"/>
<transition><source ref="id0"/><target ref="id1"/><label kind="guard">%s</label></transition></template>
<system>system T;</system></nta>'''
XML_OLD = XML.replace(' dynamic DT(const int di);', '').replace('<template><name>DT</name><parameter>const int di</parameter><location id="idd"/><init ref="idd"/></template>\n', '')      # the 3.x syntax has no dynamic templates
# the same guard on the other kinds of edges: one that leaves a branchpoint, and an uncontrollable edge with a select and a synchronisation
XML_B = '''<?xml version="1.0" encoding="utf-8"?>
<nta><declaration>clock x, y; int i, j; double d, e; bool b, c; chan ch; dynamic DT(const int di);</declaration>
<template><name>DT</name><parameter>const int di</parameter><location id="idd"/><init ref="idd"/></template>
<template><name>T</name><location id="id0"/><location id="id1"/><branchpoint id="id2"/><init ref="id0"/>
<transition><source ref="id0"/><target ref="id2"/></transition>
<transition><source ref="id2"/><target ref="id1"/><label kind="guard">%s</label><label kind="probability">2</label></transition>
<transition controllable="false"><source ref="id1"/><target ref="id0"/><label kind="select">s : int[0,1]</label><label kind="guard">%s</label><label kind="synchronisation">ch!</label></transition></template>
<system>system T;</system></nta>'''
# ... and as the invariant of an urgent and of a committed location
XML_F = '''<?xml version="1.0" encoding="utf-8"?>
<nta><declaration>clock x, y; int i, j; double d, e; bool b, c; dynamic DT(const int di);</declaration>
<template><name>DT</name><parameter>const int di</parameter><location id="idd"/><init ref="idd"/></template>
<template><name>T</name><location id="id0"><label kind="invariant">%s</label>%s</location><location id="id1"/><init ref="id0"/>
<transition><source ref="id0"/><target ref="id1"/></transition></template>
<system>system T;</system></nta>'''
RELS = {'lt': '<', 'le': '<=', 'ge': '>=', 'gt': '>', 'eq': '==', 'neq': '!='}
OPND = {'i': ['i', '3', 'j + 1'], 'd': ['d', '1.5'], 'x': ['x', 'y'], 'xy': ['x - y', 'y - x']}


# the language's precedence of the connectives (the operator table of the documentation; OpTableRef.v): quantifiers bind weakest, then || or xor imply (one
# level, left), then && and, then == !=, then the relations, and ! / not strongest
LEVEL = {'forall': 1, 'exists': 1, 'dforall': 1, 'dexists': 1, 'or': 2, 'xor': 2, 'imply': 2, 'and': 3, 'eq': 4, 'neq': 4, 'not': 9}


def render_min(f, rng):
    """the formula with only the parentheses that table requires -> (text, level)"""
    h = f[0]
    if h == 'bool':
        return rng.choice([('b', 10), ('c', 10), ('i == 1', 4), ('i < j', 5), ('true', 10)])
    if h == 'cmp':
        return '%s %s %s' % (rng.choice(OPND[f[2]]), RELS[f[1]], rng.choice(OPND[f[3]])), (4 if f[1] in ('eq', 'neq') else 5)
    if h in ('and', 'or', 'xor', 'eq', 'neq', 'imply'):
        sym = {'and': rng.choice(['&&', 'and']), 'or': rng.choice(['||', 'or']), 'xor': 'xor', 'eq': '==', 'neq': '!=', 'imply': 'imply'}[h]
        L = LEVEL[h]
        (a, la), (b, lb) = render_min(f[1], rng), render_min(f[2], rng)
        return '%s %s %s' % (a if la >= L and la != 1 else '(%s)' % a, sym, b if lb > L else '(%s)' % b), L
    if h == 'not':
        a, la = render_min(f[1], rng)
        return '%s%s' % (rng.choice(['!', 'not ']), a if la >= 9 else '(%s)' % a), 9
    if h in ('dforall', 'dexists'):
        return '%s (p : DT) (%s)' % (h[1:], render_min(f[1], rng)[0]), 1
    return '%s (q : int[0,1]) %s' % (h, render_min(f[1], rng)[0]), 1


def render(f, rng):
    if rng.random() < 0.4:
        return render_min(f, rng)[0]
    h = f[0]
    if h == 'bool':
        return rng.choice(['b', 'c', 'i == 1', 'i < j', 'true'])
    if h == 'cmp':
        return '%s %s %s' % (rng.choice(OPND[f[2]]), RELS[f[1]], rng.choice(OPND[f[3]]))
    if h in ('and', 'or', 'xor', 'eq', 'neq', 'imply'):
        sym = {'and': rng.choice(['&&', 'and']), 'or': rng.choice(['||', 'or']), 'xor': 'xor', 'eq': '==', 'neq': '!=', 'imply': 'imply'}[h]
        return '(%s) %s (%s)' % (render(f[1], rng), sym, render(f[2], rng))
    if h == 'not':
        return '%s(%s)' % (rng.choice(['!', 'not ']), render(f[1], rng))
    if h in ('dforall', 'dexists'):
        return '%s (p : DT) (%s)' % (h[1:], render(f[1], rng))
    return '%s (q : int[0,1]) (%s)' % (h, render(f[1], rng))


def sx(f):
    return '(' + ' '.join(sx(x) if isinstance(x, tuple) else {'dforall': 'forall', 'dexists': 'exists'}.get(x, x) for x in f) + ')'


OPCLS = {'i': 'CInt', 'd': 'CDouble', 'x': 'CClock', 'xy': 'CDiff'}
RELK = {'lt': 'LT', 'le': 'LE', 'ge': 'GE', 'gt': 'GT', 'eq': 'EQ', 'neq': 'NEQ'}
TABLE = {}


def bad_atoms(f):
    """atoms that involve a clock but are typed as a plain boolean (atom_ok = false) — names the known-finding family"""
    if f[0] == 'cmp':
        bad = ('x' in f[2] or 'x' in f[3]) and TABLE.get(('B', RELK[f[1]], OPCLS[f[2]], OPCLS[f[3]])) in ('CBool', 'CInt')
        return [f] if bad else []
    return [a for x in f[1:] if isinstance(x, tuple) for a in bad_atoms(x)]


def esc(t):
    return t.replace('&', '&amp;').replace('<', '&lt;').replace('>', '&gt;')


def check(run):
    thorough = run.tier == 'thorough'
    rng = run.rng
    pr = run.proofs()
    drv, err = vlib.build_extract('typing', 'Extract_Typing.v', 'drv_typing') if os.path.exists(os.path.join(vlib.COQ, 'theories', 'Convex.vo')) else (None, 'Convex.vo missing')
    if drv is None:
        run.tie_broken('extraction of the typing model', err)
        return run.finish('proof')
    T = tf.model_tables(drv)
    TABLE.update(T)
    # ---- class tables used by the formula theory: exhaustive correspondence -------------------------------------------
    classes = list(tf.REPS)
    cases = []
    for op in ('AND', 'OR', 'XOR', 'LT', 'LE', 'GE', 'GT', 'EQ', 'NEQ'):
        for a in classes:
            for b in classes:
                rb = tf.REPS[b][-1] if a == b and len(tf.REPS[b]) > 1 else tf.REPS[b][0]
                cases.append((('B', op, a, b), '(%s) %s (%s)' % (tf.REPS[a][0], tf.OPS[op], rb)))
    for a in classes:
        cases.append((('N', a), '!(%s)' % tf.REPS[a][0]))
        cases.append((('A', a), 'forall (q : int[0,1]) (%s)' % tf.REPS[a][0]))
        cases.append((('X', a), 'exists (q : int[0,1]) (%s)' % tf.REPS[a][0]))
    real = tf.texpr_all([c[1] for c in cases])
    mism = []
    for (key, txt), (rcls, errs) in zip(cases, real):
        m = T.get(key)
        mb = tf.base(m) if m != 'None' else None
        if rcls and rcls.startswith('CRASH'):
            run.fail('type checker crashed on %r' % txt, dict(expr=txt), shape='crash')
        elif mb != rcls:
            mism.append(dict(expr=txt, key=key, model=m, implementation=rcls, errors=errs[:2]))
    if mism:
        run.tie_broken('class-level typing model vs TypeChecker::checkExpression', mism[:8] + [dict(total=len(mism))])
    # ---- formulas ----------------------------------------------------------------------------------------------------------
    leaves = [('bool',)] + [('cmp', r, a, b) for r in RELS for a in OPND for b in OPND]
    binc, unc = ['and', 'or', 'xor', 'eq', 'neq', 'imply'], ['not', 'forall', 'exists']
    forms = list(leaves)
    # depth 2: every connective over a spread of leaves (all leaves on one side, representatives on the other)
    reps = [('bool',), ('cmp', 'lt', 'x', 'i'), ('cmp', 'ge', 'i', 'x'), ('cmp', 'eq', 'x', 'i'), ('cmp', 'neq', 'x', 'i'), ('cmp', 'lt', 'xy', 'i'),
            ('cmp', 'gt', 'x', 'd'), ('cmp', 'lt', 'i', 'i'), ('cmp', 'neq', 'x', 'x'), ('cmp', 'ge', 'xy', 'd'), ('cmp', 'le', 'x', 'x')]
    for c in binc:
        for a in leaves:
            for b in reps:
                forms.append((c, a, b))
                forms.append((c, b, a))
    for c in unc:
        for a in leaves:
            forms.append((c, a))
    d2 = [f for f in forms if f[0] in binc + unc]

    def rnd(d):
        if d <= 0 or rng.random() < 0.2:
            return rng.choice(leaves if rng.random() < 0.5 else reps)
        if rng.random() < 0.3:
            return (rng.choice(unc), rnd(d - 1))
        return (rng.choice(binc), rnd(d - 1), rnd(d - 1))
    for _ in range(12000 if thorough else 2500):
        forms.append(rnd(rng.choice([2, 3, 3, 4])))
    # conjunctions of accepted atoms (conj_complete)
    for _ in range(300):
        k = rng.randrange(2, 6)
        atoms = [rng.choice(leaves) for _ in range(k)]
        f = atoms[-1]
        for a in reversed(atoms[:-1]):
            f = ('and', a, f)
        forms.append(f)
    forms = list(dict.fromkeys(forms))
    # every pair of connectives nested to the left and to the right over clock / clock-free atoms, written with only the parentheses the language's
    # precedence table requires (x < 5 || b xor c is (x < 5 || b) xor c): the text decides the tree, the tree decides acceptance
    for u in ('dforall', 'dexists'):
        for a in reps:
            forms.append((u, a))
        for c1 in ('and', 'or', 'imply'):
            for a in reps[:4]:
                for b in reps[:4]:
                    forms.append((u, (c1, a, b)))
                    forms.append((c1, (u, a), b))
    forms = list(dict.fromkeys(forms))
    nplain = len(forms)
    A3 = [('bool',), ('cmp', 'lt', 'x', 'i')]
    for c1 in binc:
        for c2 in binc:
            for a in A3:
                for b in A3:
                    for c in A3:
                        forms.append((c2, (c1, a, b), c))
                        forms.append((c1, a, (c2, b, c)))
    for u in unc:
        for c1 in binc:
            for a in A3:
                for b in A3:
                    forms.append((u, (c1, a, b)))
                    forms.append((c1, (u, a), b))
                    forms.append((c1, a, (u, b)))
    out = subprocess.run([drv], input=''.join('F %s\n' % sx(f) for f in forms), stdout=subprocess.PIPE, universal_newlines=True).stdout.split('\n')
    model = []
    for line in out[:len(forms)]:
        p = line.split()
        model.append(dict(ty=p[1], acc=p[3] == '1', guard=p[5] == '1', inv=p[7] == '1', convex=p[9] == '1', atoms_ok=p[11] == '1', clockfree=p[13] == '1'))
    if len(model) != len(forms):
        run.tie_broken('model driver', 'stopped early')
        return run.finish('proof')
    texts = [render(f, rng) if k < nplain else render_min(f, rng)[0] for k, f in enumerate(forms)]
    j = vlib.Job()
    for k, t in enumerate(texts):
        j.case('g%d' % k).model('xml', XML % ('true', esc(t))).dump('errors').end()
        j.case('i%d' % k).model('xml', XML % (esc(t), 'true')).dump('errors').end()
        j.case('b%d' % k).model('xml', XML_B % (esc(t), 'true')).dump('errors').end()
        j.case('u%d' % k).model('xml', XML_B % ('true', esc(t))).dump('errors').end()
        if k % 2 == 0 or k >= nplain:
            j.case('v%d' % k).model('xml', XML_F % (esc(t), '<urgent/>')).dump('errors').end()
            j.case('w%d' % k).model('xml', XML_F % (esc(t), '<committed/>')).dump('errors').end()
    # the same formulas read in the 3.x syntax (no quantifiers, no xor there), their top-level conjunction written as the comma-separated list of that syntax
    def has(f, heads):
        return f[0] in heads or any(has(x, heads) for x in f[1:] if isinstance(x, tuple))
    def conjs(f):
        return conjs(f[1]) + conjs(f[2]) if f[0] == 'and' else [f]
    oldtexts = {}
    for k, f in enumerate(forms):
        if not has(f, ('xor', 'forall', 'exists', 'dforall', 'dexists')) and (k % 3 == 0 or k >= nplain):
            oldtexts[k] = ', '.join(render_min(c, rng)[0] for c in conjs(f))
            j.case('o%d' % k, old=True).model('xml', XML_OLD % ('true', esc(oldtexts[k]))).dump('errors').end()
            j.case('p%d' % k, old=True).model('xml', XML_OLD % (esc(oldtexts[k]), 'true')).dump('errors').end()
    rr = vlib.run_jobs(j)
    fmism, nacc, nrej, nknown = [], 0, 0, 0
    samples = []
    for k, (f, t, m) in enumerate(zip(forms, texts, model)):
        res = {}
        for pos in 'gibu' + ('op' if k in oldtexts else '') + ('vw' if (k % 2 == 0 or k >= nplain) else ''):
            c = rr['%s%d' % (pos, k)]
            if c['status'] != 'ok' or len(c['cmds']) < 2:
                run.fail('parser/type checker crashed on %s %r' % ('invariant' if pos == 'i' else 'guard', t), dict(text=t, status=c['status']), shape='crash')
                res[pos] = None
                continue
            errs = [l.split('msg="')[1].split('"')[0] for l in c['cmds'][1][2] if l.startswith('error')]
            res[pos] = (len(errs) == 0, errs)
        for pos, flag, what in (('g', m['guard'], 'guard'), ('i', m['inv'], 'invariant'), ('b', m['guard'], 'guard of an edge leaving a branchpoint'), ('u', m['guard'], 'guard of an uncontrollable edge'),
                                ('o', m['guard'], 'guard in the 3.x syntax'), ('p', m['inv'], 'invariant in the 3.x syntax'),
                                ('v', m['inv'], 'invariant of an urgent location'), ('w', m['inv'], 'invariant of a committed location')):
            if res.get(pos) is None:
                continue
            if pos in 'op':
                t = oldtexts[k]
            ok, errs = res[pos]
            if ok != flag:
                fmism.append(dict(formula=sx(f), text=t, position=what, model_type=m['ty'], model_accepts=flag, implementation_accepts=ok, errors=errs[:2]))
            if ok:
                nacc += 1
                if not m['convex']:
                    # accepted although a clock comparison sits under a disjunction / negation / ...: failing input
                    fam = sorted({('neq' if a[1] == 'neq' else 'rel-diff') for a in bad_atoms(f)}) if not m['atoms_ok'] else []
                    shape = 'nonconvex-accepted:' + ('+'.join(fam) if fam else 'unexplained')
                    if fam:
                        nknown += 1
                    run.fail('%s %r is accepted but is not a convex clock constraint' % (what, t), dict(text=t, formula=sx(f), position=what, model_type=m['ty']), shape=shape)
                elif len(samples) < 3 and not m['clockfree'] and f[0] in binc:
                    samples.append(dict(formula=sx(f), text=t, accepted_as=what, type=m['ty']))
            else:
                nrej += 1
                # completeness half of the property: a plain conjunction of accepted atoms is accepted
                if f[0] in ('and', 'cmp', 'bool') and all_conj_of_accepted(f, forms, model) and flag:
                    run.fail('conjunction of accepted atoms rejected as %s: %r' % (what, t), dict(text=t, errors=errs), shape='conj-rejected')
    if fmism:
        run.tie_broken('formula typing model vs visitEdge/visitLocation verdicts', fmism[:8] + [dict(total=len(fmism))])
    run.cov.update(evaluations=2 * len(forms) + len(cases), distinct_nontrivial=len(forms), traces_validated_against_impl=2 * len(forms) + len(cases),
                   rule='class tables (9 relational/logical operators x %d^2 operand classes, NOT/forall/exists x %d classes) exhaustively against checkExpression; formulas: all %d atoms, every connective over '
                        '(every atom x 11 representative atoms) in both orders, every unary connective over every atom, seeded random trees to depth 4 and random conjunctions; each placed as guard and as invariant '
                        'of a real model: verdict vs model, and accepted => convex on the implementation' % (len(classes), len(classes), len(leaves)),
                   samples=samples, formulas=len(forms), depth2_formulas=len(d2), accepted=nacc, rejected=nrej, accepted_nonconvex_known=nknown, exhaustive=False)
    run.cov['trusted_base'] += ['hand models Typing.v / Convex.v (tied by exhaustive class tables and formula verdict correspondence)', 'Coq extraction, drv_typing.ml', 'utapdump']
    return run.finish('proof', assumptions=['the soundness theorem excludes the atoms of the two known findings (hypothesis atoms_ok); rate and cost atoms are not part of the formula language'])


def all_conj_of_accepted(f, forms, model):
    return False     # completeness is covered through model correspondence (conj_complete) — no separate oracle needed
