"""C02 — parsed expression trees follow the language's precedence and associativity."""
import os, re, struct
from scopegen import sexpr as scopegen_sexpr
import vlib, exprgen, gen_grammar


def build_cases(T, run, thorough):
    """-> list of dict(name, tree, fields)"""
    rng = run.rng
    cases = []
    for cn, mk, _ in exprgen.shapes(T):
        for hn, tree, fl in exprgen.children(T):
            cases.append(dict(name='triple:%s<-%s' % (cn, hn), tree=mk(tree), fields=fl))
    ntri = len(cases)
    # chains of three operators on the left and on the right spine, one representative per precedence class
    reps = {}
    for i, o in enumerate(T.tab['infix']):
        reps.setdefault((o['tok_prec'], o['assoc'], o['rule_prec']), i)
    reps = sorted(reps.values())
    A = lambda i: '(A %d)' % exprgen.INT_ATOMS[i]
    chain = []
    for a in reps:
        for b in reps:
            for c in reps:
                chain.append(dict(name='chainL:%d,%d,%d' % (a, b, c), tree='(B %d (B %d (B %d %s %s) %s) %s)' % (a, b, c, A(0), A(1), A(2), A(3)), fields=[]))
                chain.append(dict(name='chainR:%d,%d,%d' % (a, b, c), tree='(B %d %s (B %d %s (B %d %s %s)))' % (a, A(0), b, A(1), c, A(2), A(3)), fields=[]))
    if not thorough:
        rng.shuffle(chain)
        chain = chain[:1500]
    cases += chain
    g = exprgen.Gen(T, rng)
    nrand = 20000 if thorough else 2500
    for k in range(nrand):
        t, fl = g.expr(rng.choice([2, 3, 3, 4, 5, 6] if thorough else [2, 3, 3, 4, 5]))
        cases.append(dict(name='random:%d' % k, tree=t, fields=fl))
    return cases, ntri, len(chain), nrand


def reclassify(T, toks):
    """The real lexer spells prefix/postfix ++ -- and prefix/infix + - alike; which one a token is follows from
    whether an operand is expected.  Re-derive the model's token classes from the spelled sequence."""
    pre = {o['tok']: i for i, o in enumerate(T.tab['prefix'])}
    inf = {o['tok']: i for i, o in enumerate(T.tab['infix'])}
    post = {o['tok']: i for i, o in enumerate(T.tab['postfix']) if not o.get('second')}
    out, have = [], False
    for t in toks:
        c = t[0]
        name = None
        if c == 'o':
            name = T.tab['infix'][int(t[1:])]['tok']
        elif c == 'u' and not T.tab['prefix'][int(t[1:].split('.')[0])].get('binder'):
            name = T.tab['prefix'][int(t[1:].split('.')[0])]['tok']
        elif c == 'p' and not T.tab['postfix'][int(t[1:].split('.')[0])].get('second'):
            name = T.tab['postfix'][int(t[1:].split('.')[0])]['tok']
        if name is not None:
            if have and name in post:
                t = 'p%d.0' % post[name]
            elif have and name in inf:
                t = 'o%d' % inf[name]
            elif not have and name in pre:
                t = 'u%d.0' % pre[name]
        out.append(t)
        c = t[0]
        have = c == 'a' or t in (')', ']') or c == 'p'
    return out


LITERALS = ['0', '00', '007', '1', '2147483646', '2147483647', '02147483647', '2147483648', '2147483649', '4294967295', '4294967296', '4294967297',
            '9223372036854775807', '9223372036854775808', '18446744073709551616', '100000000000000000000', '99999999999999999999999999999999999999']
FLOATS = ['0.0', '1.0', '1.5', '0.1', '0.2', '0.30000000000000004', '1e308', '1.7976931348623157e308', '1.7976931348623158e308', '2.2250738585072014e-308',
          '4.9e-324', '5e-324', '2.4703282292062328e-324', '1e-400', '9007199254740993.0', '9007199254740992.5', '0.1234567891', '123456789012345678.0',
          '1.00000000000000011102230246251565404236316680908203125', '1.00000000000000011102230246251565404236316680908203124',
          '3.141592653589793238462643383279502884197', '1E5', '1e+5', '1e-5', '2.5E-3']


QUERY_WORDS = {'v0': 'inf', 'v1': 'sup', 'v2': 'bounds', 'v3': 'simulation', 'b0': 'M', 'x0': 'R', 'd0': 'W'}


def query_identifiers(run, T, pool, n):
    rng = run.rng
    decl = exprgen.FIXTURE_XTA.replace('process P()', 'int inf, sup, bounds, simulation, M, R, W;\nprocess P()')
    job = vlib.Job()
    job.case('q').model('xta', decl)
    plan = []
    ren = lambda txt: re.sub(r'(?<![\w.])(%s)(?![\w(])' % '|'.join(QUERY_WORDS), lambda m: QUERY_WORDS[m.group(1)], txt)
    # xor is a word of the model syntax only (keywords.cpp: syntax_t::NEW): in a query it is a name, so texts that spell it are not query expressions
    pool = [(c, r) for c, r in pool if 'xor' not in T.text(r['min'], fields=[]).split()]
    for c, r in rng.sample(pool, min(n, len(pool))):
        txt = T.text(r['min'], fields=[])
        exp = T.expected(exprgen.parse_sx(r['norm']))
        for q, e in (('E<> (%s)' % txt, exp), ('E<> (%s)' % ren(txt), ren(exp))):
            job.query(q, rt=False)
            plan.append((c, q, e))
    for w in sorted(set(QUERY_WORDS.values())):        # each word on its own, as operand, index and argument
        for q, e in (('E<> %s > 0' % w, '(GT (IDENTIFIER %s) (CONSTANT i:0))' % w), ('A[] arr[%s] >= %s' % (w, w), None), ('E<> fn1(%s) == %s + 1' % (w, w), None)):
            job.query(q, rt=False)
            plan.append((dict(name='word:' + w), q, e))
    job.end()
    res = vlib.run_jobs(job, shards=1)
    cs = res['q']
    if cs['status'] != 'ok':
        run.fail('parser crashed or stopped while parsing queries (%s)' % cs['status'], dict(status=cs['status']), shape='crash')
        return 0
    for (c, q, e), (op, arg, lines) in zip(plan, cs['cmds'][1:]):
        tree = next((l[5:] for l in lines if l.startswith('tree ')), None)
        names = set(re.findall(r'\(IDENTIFIER (\w+)\)', tree or ''))
        written = set(re.findall(r'[A-Za-z_]\w*', q))
        if tree is None:
            run.fail('query %r (an expression the expression syntax accepts, under E<>) is not accepted' % q, dict(query=q, lines=lines[:4]), shape='query-identifier:rejected')
        elif (e is not None and tree != '(EF %s)' % e) or not names <= written:
            run.fail('query %r parsed to %s, expected (EF %s)' % (q, tree, e), dict(query=q, got=tree, expected=e), shape='query-identifier:' + c['name'].split(':')[0])
    return len(plan)


def old_syntax_expressions(run, T, pool, n):
    """the expression grammar is shared by both syntaxes: in the 3.x syntax the same texts give the same trees (texts with words that syntax does not have - xor, the
    quantifiers - left out), and =< / => are further spellings of <= / >= there (and unknown symbols in the 4.x syntax)"""
    rng = run.rng
    words = {'v0', 'v1', 'v2', 'v3', 'b0', 'b1', 'x0', 'x1', 'arr', 'arr2', 'and', 'or', 'not', 'imply'}      # names of the 3.x fixture and the words that syntax has
    pool = [(c, r) for c, r in pool if set(re.findall(r'[A-Za-z_]\w*', T.text(r['min'], fields=[]))) <= words]
    job = vlib.Job()
    job.case('oo', old=True).model('xta', 'int v0, v1, v2, v3; int b0, b1; clock x0, x1; int d0; int arr[4]; int arr2[3][3];\nprocess P { state A; init A; }\nsystem P;\n')
    plan = []
    for c, r in rng.sample(pool, min(n, len(pool))):
        txt = T.text(r['min'], fields=[])
        if re.search(r'\b(s|s2|sa|fn\d|d0)\b|\.|\d\.\d|true|false', txt):
            continue        # the 3.x fixture has no records, functions or doubles
        exp = T.expected(exprgen.parse_sx(r['norm']))
        alt = ' '.join({'<=': '=<', '>=': '=>'}.get(t, t) for t in txt.split(' '))
        plan.append((c, txt, exp, alt))
    for c, txt, exp, alt in plan:
        job.expr(txt)
        job.expr(alt)
    job.end()
    j2 = vlib.Job()
    j2.case('nn', old=False).model('xta', exprgen.FIXTURE_XTA)
    alts = [p for p in plan if p[3] != p[1]][:40]
    for c, txt, exp, alt in alts:
        j2.expr(alt)
    j2.end()
    res = vlib.run_jobs(job, shards=1)
    res2 = vlib.run_jobs(j2, shards=1)
    cs = res['oo']
    if cs['status'] != 'ok':
        run.fail('parser crashed or stopped while parsing expressions in the 3.x syntax (%s)' % cs['status'], dict(status=cs['status']), shape='crash')
        return 0
    k = 1
    for c, txt, exp, alt in plan:
        for variant, t in (('same text', txt), ('=< / =>', alt)):
            op, arg, lines = cs['cmds'][k]; k += 1
            tree = next((l[5:] for l in lines if l.startswith('tree ')), None)
            if tree != exp:
                run.fail('3.x syntax (%s): %r parsed to %s, expected %s' % (variant, t, tree, exp), dict(text=t, expected=exp, got=tree, errors=[l for l in lines if l.startswith('error')][:2]),
                         shape='old-syntax:' + ('alias' if t != txt else c['name'].split(':')[0]))
    for (c, txt, exp, alt), (op, arg, lines) in zip(alts, res2['nn']['cmds'][1:]):
        if not any(l.startswith('error') for l in lines):
            run.fail('4.x syntax: %r (with the 3.x spellings =< / =>) is accepted' % alt, dict(text=alt, lines=lines[:3]), shape='old-syntax:alias-accepted-in-new')
    return 2 * len(plan) + len(alts)


def check(run):
    thorough = run.tier == 'thorough'
    try:
        T = exprgen.Table()            # regenerates coq/theories/gen/Gen_OpTable.v from the current parser.y
    except (gen_grammar.GrammarError, RuntimeError) as e:
        run.tie_broken('G-LR/G-LEX translation of parser.y / lexer.l', str(e))
        T = None
    pr = run.proofs()
    mism, nreal, samples = [], 0, []
    hist = {}
    if T is not None and os.path.exists(os.path.join(vlib.COQ, 'theories', 'ExprSyntax.vo')):
        drv, err = vlib.build_extract('c02', 'Extract_C02.v', 'drv_c02')
        if drv is None:
            run.tie_broken('extraction', err)
            T = None
    elif T is not None:
        run.tie_broken('model', 'ExprSyntax.vo did not build (regenerated table no longer fits the generic development?)')
        T = None
    if T is not None:
        cases, ntri, nchain, nrand = build_cases(T, run, thorough)
        rend = exprgen.Model(drv).render_many([c['tree'] for c in cases])
        bad_self = [c['name'] for c, r in zip(cases, rend) if not r['self_ok']]
        if bad_self:
            run.tie_broken('extracted parse(flat t) = t (should be impossible: theorem)', bad_self[:5])
        # texts: minimal, full, minimal with aliases + blanks/comments
        jobs = []
        nsh = 16
        shards = [vlib.Job() for _ in range(nsh)]
        for k, j in enumerate(shards):
            j.case('s%d' % k).model('xta', exprgen.FIXTURE_XTA)
        plan = []
        for idx, (c, r) in enumerate(zip(cases, rend)):
            exp = T.expected(exprgen.parse_sx(r['norm']))
            variants = [('min', r['min'], None), ('full', r['full'], None), ('min+ws', r['min'], run.rng)]
            if r['refmin'] != r['min']:
                variants.append(('refmin', r['refmin'], None))   # minimal parentheses by the *reference* table
            for variant, toks, rr in variants:
                txt = T.text(toks, rng=rr, fields=c['fields'])
                sh = idx % nsh
                shards[sh].expr(txt)
                plan.append((sh, c, variant, txt, exp))
        # literals
        for lit in LITERALS:
            for txt in (lit, '-' + lit, 'v0 + ' + lit, '- ' + lit + ' + v1'):
                shards[0].expr(txt)
                plan.append((0, dict(name='literal:' + txt, tree=None, lit=lit), 'lit', txt, None))
        for lit in FLOATS:
            shards[1].expr(lit)
            plan.append((1, dict(name='float:' + lit, tree=None), 'float', lit, None))
        big = vlib.Job()
        for j in shards:
            j.end()
            big.parts += j.parts
            big.ids += j.ids
        res = vlib.run_jobs(big, shards=nsh)
        cursor = {k: 1 for k in range(nsh)}     # cmd 0 is MODEL
        for sh, c, variant, txt, exp in plan:
            cs = res['s%d' % sh]
            if cs['status'] != 'ok' or cursor[sh] >= len(cs['cmds']):
                run.fail('parser crashed or stopped while parsing expressions (shard %d: %s)' % (sh, cs['status']),
                         dict(text=txt, status=cs['status'], stderr=res.get('_stderr', '')[-800:]), shape='crash')
                break
            op, arg, lines = cs['cmds'][cursor[sh]]
            cursor[sh] += 1
            nreal += 1
            tree = next((l[5:] for l in lines if l.startswith('tree ')), None)
            perr = next((l for l in lines if l.startswith('parse ')), '')
            nerr = int(re.search(r'errors=(\d+)', perr).group(1)) if perr else -1
            if variant in ('min', 'full', 'min+ws', 'refmin'):
                hist[c['name'].split(':')[0]] = hist.get(c['name'].split(':')[0], 0) + 1
                if nerr != 0 or tree != exp:
                    what = 'parse(render_%s(t)) != t' % variant
                    run.fail('%s for %s: text %r parsed to %s, expected %s' % (what, c['name'], txt, tree if nerr == 0 else '<%d errors>' % nerr, exp),
                             dict(text=txt, expected=exp, got=tree, errors=[l for l in lines if l.startswith('error')], tree=c['tree'], variant=variant),
                             shape='roundtrip:' + c['name'].split(':')[0] + ':' + (c['name'].split(':')[1] if c['name'].startswith('triple') else variant))
                elif len(samples) < 4 and c['name'].startswith('random'):
                    samples.append(dict(tree=c['tree'], text=txt, parsed=tree))
            elif variant == 'lit':
                lit = c['lit']
                v = int(lit)
                neg = txt.startswith('-')
                if nerr == 0:
                    m = re.findall(r'\(CONSTANT i:(-?\d+)\)', tree or '')
                    ok = False
                    if v <= 2147483647:
                        ok = m and int(m[0]) == v
                    elif v == 2147483648 and neg and lit == '2147483648':
                        ok = m and int(m[0]) == -2147483648      # the only spelling of INT_MIN the grammar knows
                    if not ok:
                        run.fail('integer literal %s silently changed: %r parsed to %s' % (lit, txt, tree), dict(text=txt, got=tree), shape='literal-changed:' + ('neg' if neg else 'pos'))
                else:
                    if v <= 2147483647:
                        run.fail('integer literal %s within int range rejected: %r' % (lit, txt), dict(text=txt, errors=lines), shape='literal-rejected')
            elif variant == 'float':
                want = struct.pack('>d', float(txt)).hex()
                m = re.search(r'\(CONSTANT d:([0-9a-f]{16})\)', tree or '')
                if nerr != 0 or not m or m.group(1) != want:
                    run.fail('floating literal %s is not converted to the nearest double: got %s want %s' % (txt, m.group(1) if m else tree, want),
                             dict(text=txt, got=tree, want=want), shape='float-literal')
        # ---- model vs implementation on arbitrary (mostly invalid) token strings ---------------------------
        rng = run.rng
        muts = []
        pool = [r for c, r in zip(cases, rend) if not c['fields']]
        nm = 6000 if thorough else 1200
        alltoks = sorted({t for r in pool[:400] for t in r['min']})
        for k in range(nm):
            toks = list(rng.choice(pool)['min'])
            for _ in range(rng.choice([1, 1, 2])):
                m = rng.randrange(3)
                if m == 0 and len(toks) > 1:
                    del toks[rng.randrange(len(toks))]
                elif m == 1:
                    toks.insert(rng.randrange(len(toks) + 1), rng.choice(alltoks))
                elif len(toks) > 1:
                    i = rng.randrange(len(toks) - 1)
                    toks[i], toks[i + 1] = toks[i + 1], toks[i]
            # quantifier binders and builtin names need their own brackets; keep the mutation at token level
            muts.append(reclassify(T, toks))
        mres = exprgen.model_parse_many(drv, muts)
        shards = [vlib.Job() for _ in range(nsh)]
        for k, j in enumerate(shards):
            j.case('m%d' % k).model('xta', exprgen.FIXTURE_XTA)
        for i, toks in enumerate(muts):
            shards[i % nsh].expr(T.text(toks, fields=[]))
        big = vlib.Job()
        for j in shards:
            j.end(); big.parts += j.parts; big.ids += j.ids
        res2 = vlib.run_jobs(big, shards=nsh)
        cursor = {k: 1 for k in range(nsh)}
        agree_acc = agree_rej = 0
        for i, toks in enumerate(muts):
            sh = i % nsh
            cs = res2['m%d' % sh]
            if cs['status'] != 'ok' or cursor[sh] >= len(cs['cmds']):
                run.fail('parser crashed on a mutated expression (shard %d: %s)' % (sh, cs['status']), dict(tokens=toks, status=cs['status']), shape='crash')
                break
            op, arg, lines = cs['cmds'][cursor[sh]]
            cursor[sh] += 1
            perr = next((l for l in lines if l.startswith('parse ')), '')
            nerr = int(re.search(r'errors=(\d+)', perr).group(1))
            tree = next((l[5:] for l in lines if l.startswith('tree ')), None)
            synerr = any('syntax error' in l or 'yntax' in l for l in lines if l.startswith('error'))
            ml = mres[i]
            if ml.startswith('TREE '):
                # the grammar gives every builtin function a fixed number of arguments; the SR model parses any argument list: a call with
                # another count is a syntax error of the real parser, i.e. a rejection
                ar = {f['kind']: f['arity'] for f in T.fns if 'kind' in f}
                def bad_arity(node):
                    if not isinstance(node, list) or not node:
                        return False
                    kids = [x for x in node[1:] if isinstance(x, list)]
                    if isinstance(node[0], str) and node[0] in ar and len(kids) != ar[node[0]]:
                        return True
                    return any(bad_arity(x) for x in kids)
                if bad_arity(scopegen_sexpr(T.expected(exprgen.parse_sx(ml[5:])))):
                    ml = 'REJECT arity'
            if ml.startswith('TREE '):
                exp = T.expected(exprgen.parse_sx(ml[5:]))
                if nerr == 0 and tree == exp:
                    agree_acc += 1
                elif synerr or (nerr == 0 and tree != exp):
                    mism.append(dict(tokens=' '.join(toks), text=T.text(toks, fields=[]), model=exp, impl=tree, errors=[l for l in lines if l.startswith('error')][:2]))
                else:
                    agree_acc += 1    # accepted by the grammar, rejected later by the builder (e.g. wrong argument count)
            else:
                if synerr:
                    agree_rej += 1
                elif nerr == 0:
                    mism.append(dict(tokens=' '.join(toks), text=T.text(toks, fields=[]), model='REJECT', impl=tree))
                else:
                    agree_rej += 1
        if mism:
            run.tie_broken('SR model vs real parser on mutated token strings', mism[:8])
        # ---- expressions inside queries: the property syntax has words of its own (sup, inf, bounds, simulation and the letters of the temporal operators) that
        # remain ordinary names where a name is expected; the tree of E<> (e) under a renaming of the variables to those words is the renamed tree
        qn = query_identifiers(run, T, [(c, r) for c, r in zip(cases, rend) if not c['fields']], 400 if thorough else 120)
        qn += old_syntax_expressions(run, T, [(c, r) for c, r in zip(cases, rend) if not c['fields']], 1500 if thorough else 500)
        # calls whose callee is a process set: the arguments are lookups, in the order written
        import scopegen
        nps = scopegen.process_set_probes(run, vlib, rng, 40 if thorough else 12, types=False)
        run.cov.update(evaluations=nreal + len(muts), distinct_nontrivial=len({c['tree'] for c in cases}),
                       traces_validated_against_impl=nreal + len(muts),
                       rule='exhaustive (context position x child operator) triples over every infix/prefix/postfix/ternary/index/call/builtin production of the regenerated table; '
                            '3-operator left and right spine chains over one infix operator per (precedence, associativity) class; seeded random typed trees; each rendered by the '
                            'extracted Coq renderer minimally, fully, and minimally with keyword aliases / := / blanks / comments, then parsed by the real library; distinct = distinct trees; '
                            'plus integer/floating literal boundaries and token-level mutations (model accept/reject and tree vs implementation)',
                       samples=samples, exhaustive_triples=ntri, chains=nchain, random_trees=nrand, case_histogram=hist,
                       mutated_strings=len(muts), query_identifier_cases=qn, mutated_accepted_by_both=agree_acc, mutated_rejected_by_both=agree_rej,
                       literals=len(LITERALS) * 4, float_literals=len(FLOATS))
    run.cov['trusted_base'] += ['tools/gen_grammar.py + gen_optable.py + gen_lex.py (bison --xml and text readers of parser.y, lexer.l, keywords.cpp)',
                                'OpTableRef.v: the hand-written reference UPPAAL operator table',
                                'Coq extraction (ExtrOcamlBasic), drv_c02.ml', 'harness utapdump (tree dump)']
    return run.finish('proof', assumptions=[
        'float literal conversion (libc atof) is only tested against correctly rounded conversion on boundary decimals',
        'quantifier binders and dynamic/MITL expressions are outside the SR model (binder types are fixed to int[0,3])'])
