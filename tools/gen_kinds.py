#!/usr/bin/env python3
"""G-KIND: reads the kind_t enumerators from /repo/include/utap/common.h.
Writes _work/gen/kinds_gen.h (name table for the harness) and returns the list."""
import re, os, sys
sys.path.insert(0, os.path.dirname(os.path.abspath(__file__)))
import vlib

def kinds():
    src = open(os.path.join(vlib.REPO, 'include/utap/common.h')).read()
    m = re.search(r'enum\s+kind_t\s*\{(.*?)\};', src, re.S)
    if not m:
        raise RuntimeError('gen_kinds: enum kind_t not found in common.h')
    body = re.sub(r'/\*.*?\*/', '', m.group(1), flags=re.S)
    body = re.sub(r'//[^\n]*', '', body)
    names = []
    for item in body.split(','):
        item = item.strip()
        if not item:
            continue
        mm = re.match(r'^([A-Za-z_][A-Za-z0-9_]*)\s*(=\s*\d+)?$', item)
        if not mm:
            raise RuntimeError('gen_kinds: cannot read enumerator %r' % item)
        names.append(mm.group(1))
    return names

def write_header():
    names = kinds()
    d = os.path.join(vlib.WORK, 'gen')
    os.makedirs(d, exist_ok=True)
    s = '// generated from include/utap/common.h by tools/gen_kinds.py\n#pragma once\n#include "utap/common.h"\n'
    s += 'static inline const char* kind_name(UTAP::Constants::kind_t k) {\n  switch (k) {\n'
    for n in names:
        s += '  case UTAP::Constants::%s: return "%s";\n' % (n, n)
    s += '  }\n  return "?kind";\n}\n'
    p = os.path.join(d, 'kinds_gen.h')
    if not os.path.exists(p) or open(p).read() != s:
        open(p, 'w').write(s)
    return p

if __name__ == '__main__':
    print(write_header(), len(kinds()))
