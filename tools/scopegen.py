"""C07: texts in which a few names are declared at many scope levels, with uses before and after every declaration.
Each declaration d of a name is given the type int[0,100+d], so the binding of a use can be read off the dump (name@frame:type).
Produces the item tree for the Coq model (drv_scope syntax), the XML model, and the list of observation points."""
import re

NAMES = {1: 'a', 2: 'b', 3: 'c'}


class Gen:
    def __init__(self, rng):
        self.rng = rng
        self.nd = 0          # declaration ids
        self.nu = 0          # holder ids
        self.nf = 0
        self.tree = []       # drv_scope tokens
        self.obs = []        # observation points in use order: (kind, key, count)

    def decl_id(self):
        self.nd += 1
        return self.nd

    def ty(self, d):
        return 'int[0,%d]' % (100 + d)

    def pick(self):
        return self.rng.choice([1, 1, 2, 2, 3])

    def uses_expr(self, where):
        """an expression made of 1-3 uses; records the uses in the tree"""
        n = self.rng.choice([1, 1, 2, 3])
        ns = [self.pick() for _ in range(n)]
        for x in ns:
            self.tree.append('u%d' % x)
        return ' + '.join(NAMES[x] for x in ns), n

    def holder(self, pfx_kind, fname=None):
        """int uK = <uses>;  possibly through a quantifier that binds one of the names"""
        self.nu += 1
        h = 'u%d' % self.nu
        if self.rng.random() < 0.25:
            x = self.pick(); d = self.decl_id()
            self.tree.append('('); self.tree.append('d%d,%d' % (x, d))
            e, n = self.uses_expr(h)
            self.tree.append(')')
            text = 'int %s = sum (%s : %s) (%s);' % (h, NAMES[x], self.ty(d), e)
        else:
            e, n = self.uses_expr(h)
            text = 'int %s = %s;' % (h, e)
        self.obs.append((pfx_kind, (fname, h), n))
        return text

    def decl(self):
        x = self.pick(); d = self.decl_id()
        self.tree.append('d%d,%d' % (x, d))
        return '%s %s;' % (self.ty(d), NAMES[x])

    def block_items(self, depth, kind, fname):
        """declarations / holders, then nested scopes (blocks, iterations): the order a block allows"""
        out = []
        for _ in range(self.rng.randrange(1, 5)):
            out.append(self.decl() if self.rng.random() < 0.45 else self.holder(kind, fname))
        if depth < 3:
            for _ in range(self.rng.randrange(0, 3)):
                if self.rng.random() < 0.5:
                    self.tree.append('(')
                    body = self.block_items(depth + 1, kind, fname)
                    self.tree.append(')')
                    out.append('{ ' + ' '.join(body) + ' }')
                else:
                    # one to three range-for loops nested directly in each other (no braces between them), then a block
                    heads = []
                    for _ in range(self.rng.choice([1, 1, 2, 3])):
                        x = self.pick(); d = self.decl_id()
                        self.tree.append('('); self.tree.append('d%d,%d' % (x, d))
                        heads.append('for (%s : %s)' % (NAMES[x], self.ty(d)))
                    self.tree.append('(')
                    body = self.block_items(depth + 1, kind, fname)
                    self.tree.append(')')
                    for _ in heads: self.tree.append(')')
                    out.append('%s { %s }' % (' '.join(heads), ' '.join(body)))
        return out

    def function(self, kind):
        self.nf += 1
        fname = 'f%d' % self.nf
        self.tree.append('(')
        params = []
        used = set()
        for _ in range(self.rng.randrange(0, 3)):
            x = self.pick()
            if x in used: continue
            used.add(x)
            d = self.decl_id()
            self.tree.append('d%d,%d' % (x, d))
            params.append('%s %s' % (self.ty(d), NAMES[x]))
        body = self.block_items(1, 'funlocal', fname)
        self.tree.append(')')
        return 'void %s(%s) { %s }' % (fname, ', '.join(params), ' '.join(body))

    def decl_block(self, kind):
        out = []
        for _ in range(self.rng.randrange(2, 7)):
            r = self.rng.random()
            if r < 0.4: out.append(self.decl())
            elif r < 0.8: out.append(self.holder(kind))
            else: out.append(self.function(kind))
        return '\n'.join(out)

    def template(self, ti):
        self.tree.append('(')
        params = []
        used = set()
        for _ in range(self.rng.randrange(0, 3)):
            x = self.pick()
            if x in used: continue
            used.add(x)
            d = self.decl_id()
            self.tree.append('d%d,%d' % (x, d))
            params.append('%s %s' % (self.ty(d), NAMES[x]))
        decl = self.decl_block('t%d var' % ti)
        locs = []
        nl = self.rng.randrange(1, 3)
        for li in range(nl):
            if self.rng.random() < 0.6:
                e, n = self.uses_expr(None)
                self.obs.append(('inv', (ti, li), n))
                locs.append('<location id="id%d"><label kind="invariant">%s &gt;= 0</label></location>' % (ti * 10 + li, e))
            else:
                locs.append('<location id="id%d"/>' % (ti * 10 + li))
        edges = []
        for ei in range(self.rng.randrange(0, 3)):
            self.tree.append('(')
            sel = ''
            if self.rng.random() < 0.6:
                x = self.pick(); d = self.decl_id()
                self.tree.append('d%d,%d' % (x, d))
                sel = '<label kind="select">%s : %s</label>' % (NAMES[x], self.ty(d))
            e, n = self.uses_expr(None)
            self.obs.append(('guard', (ti, ei), n))
            self.tree.append(')')
            edges.append('<transition><source ref="id%d"/><target ref="id%d"/>%s<label kind="guard">%s &gt;= 0</label></transition>' % (ti * 10, ti * 10, sel, e))
        self.tree.append(')')
        return ('<template><name>T%d</name><parameter>%s</parameter><declaration>%s</declaration>%s<init ref="id%d"/>%s</template>'
                % (ti, ', '.join(params), decl, ''.join(locs), ti * 10, ''.join(edges)))

    def model(self):
        g = self.decl_block('global var')
        ts = [self.template(ti) for ti in range(self.rng.randrange(1, 3))]
        sysd = self.holder('global var') if self.rng.random() < 0.7 else ''
        xml = ('<?xml version="1.0" encoding="utf-8"?><nta><declaration>%s</declaration>%s<system>%s\nsystem %s;</system></nta>'
               % (g, ''.join(ts), sysd, ', '.join('T%d' % k for k in range(len(ts)) if False) or 'T0'))
        return ' '.join(self.tree), xml, self.obs


def sexpr(text):
    """parse utapdump's expression dump into nested lists"""
    toks = re.findall(r'\(|\)|"[^"]*"|[^\s()]+', text)
    pos = [0]
    def rd():
        t = toks[pos[0]]; pos[0] += 1
        if t == '(':
            out = []
            while toks[pos[0]] != ')':
                out.append(rd())
            pos[0] += 1
            return out
        return t
    return rd() if toks else []


def bindings(expr):
    """declaration ids of the uses in an expression dump, in text order ('-' unknown); binders of quantifiers are skipped"""
    out = []
    def ident(node):
        # (IDENTIFIER a@frame:(range (int) "0" "101"))  is tokenised as ['IDENTIFIER', 'a@frame:', ['range', ['int'], '"0"', '"101"']]
        m = None
        for x in node[1:]:
            if isinstance(x, list) and x and x[0] == 'range' and len(x) >= 4:
                m = x
            elif isinstance(x, list):
                for y in x:
                    if isinstance(y, list) and y and y[0] == 'range' and len(y) >= 4: m = y
        if m is None or '@' not in str(node[1]):
            return '-'
        try:
            return str(int(str(m[-1]).strip('"')) - 100)
        except ValueError:
            return '?'
    def walk(node):
        if not isinstance(node, list) or not node:
            return
        if node[0] == 'IDENTIFIER':
            out.append(ident(node)); return
        if node[0] == 'CONSTANT' and 'b:0' in node[1:]:
            out.append('-'); return                      # an unknown identifier is replaced by the constant false
        kids = [x for x in node[1:] if isinstance(x, list)]
        if node[0] in ('SUM', 'FORALL', 'EXISTS') and kids:
            kids = kids[1:]
        for k in kids:
            walk(k)
    walk(sexpr(expr))
    return out
