"""C07: texts in which a few names are declared at many scope levels, with uses before and after every declaration.
Each declaration d of a name is given the type int[0,100+d], so the binding of a use can be read off the dump (name@frame:type).
Produces the item tree for the Coq model (drv_scope syntax), the XML model, and the list of observation points."""
import re

NAMES = {1: 'a', 2: 'b', 3: 'c', 4: 't'}


class Gen:
    def __init__(self, rng, mark=False):
        self.rng = rng
        self.mark = mark     # write every occurrence of a name as \x01d<id>:<name>\x02 / \x01u<k>:<name>\x02 (see instantiate)
        self.nuse = 0
        self.nd = 0          # declaration ids
        self.nu = 0          # holder ids
        self.nf = 0
        self.tree = []       # drv_scope tokens
        self.obs = []        # observation points in use order: (kind, key, count)
        self.there = [False]
        self.tvis = [False]  # is a typedef of the type name `t` visible here? (one flag per open scope; a use of an undeclared type name is a syntax error, not an unknown identifier)

    def decl_id(self):
        self.nd += 1
        return self.nd

    def dn(self, x, d):
        return '\x01d%d:%s\x02' % (d, NAMES[x]) if self.mark else NAMES[x]

    def un(self, x):
        self.nuse += 1
        return '\x01u%d:%s\x02' % (self.nuse - 1, NAMES[x]) if self.mark else NAMES[x]

    def ty(self, d):
        return 'int[0,%d]' % (100 + d)

    def pick(self):
        return self.rng.choice([1, 1, 2, 2, 3])

    def uses_expr(self, where):
        """an expression made of 1-3 uses; records the uses in the tree"""
        n = self.rng.choice([1, 1, 2, 3])
        ns = [self.pick() for _ in range(n)]
        for x in ns:
            self.tree.append('u%d' % x)
        return ' + '.join(self.un(x) for x in ns), n

    def holder(self, pfx_kind, fname=None):
        """int uK = <uses>;  possibly through a quantifier that binds one of the names; or  t uK;  a use of the type name t"""
        self.nu += 1
        h = 'u%d' % self.nu
        if self.tvis[-1] and self.rng.random() < 0.3:
            self.tree.append('u4')
            self.obs.append((pfx_kind + ':type', (fname, h), 1))
            return '%s %s;' % (self.un(4), h)
        if self.rng.random() < 0.25:
            x = self.pick(); d = self.decl_id()
            self.tree.append('('); self.tree.append('d%d,%d' % (x, d))
            bn = self.dn(x, d)
            if self.rng.random() < 0.4:
                # the body of a quantifier extends as far as possible: an unparenthesised conditional belongs to it as a whole
                e1, n1 = self.uses_expr(h); e2, n2 = self.uses_expr(h); e3, n3 = self.uses_expr(h)
                e, n = '%s ? %s : %s' % (e1, e2, e3), n1 + n2 + n3
                self.tree.append(')')
                text = 'int %s = sum (%s : %s) %s;' % (h, bn, self.ty(d), e)
            else:
                e, n = self.uses_expr(h)
                self.tree.append(')')
                text = 'int %s = sum (%s : %s) (%s);' % (h, bn, self.ty(d), e)
        else:
            e, n = self.uses_expr(h)
            text = 'int %s = %s;' % (h, e)
        self.obs.append((pfx_kind, (fname, h), n))
        return text

    def decl(self):
        if self.rng.random() < 0.2 and not self.there[-1]:
            # (a second typedef of t in the same scope is refused as a duplicate and not added, unlike a second variable: not generated)
            self.there[-1] = True
            # a typedef of the name t (name 4 of the model): type names live in the same frames as variables
            d = self.decl_id()
            self.tree.append('d4,%d' % d)
            self.tvis[-1] = True
            return 'typedef %s %s;' % (self.ty(d), self.dn(4, d))
        x = self.pick(); d = self.decl_id()
        self.tree.append('d%d,%d' % (x, d))
        return '%s %s;' % (self.ty(d), self.dn(x, d))

    def block_items(self, depth, kind, fname):
        """declarations / holders, then nested scopes (blocks, iterations): the order a block allows"""
        out = []
        for _ in range(self.rng.randrange(1, 5)):
            out.append(self.decl() if self.rng.random() < 0.45 else self.holder(kind, fname))
        if depth < 3:
            for _ in range(self.rng.randrange(0, 3)):
                if self.rng.random() < 0.5:
                    self.tree.append('('); self.tvis.append(self.tvis[-1]); self.there.append(False)
                    body = self.block_items(depth + 1, kind, fname)
                    self.tree.append(')'); self.tvis.pop(); self.there.pop()
                    out.append('{ ' + ' '.join(body) + ' }')
                else:
                    # one to three range-for loops nested directly in each other (no braces between them), then a block
                    heads = []
                    for _ in range(self.rng.choice([1, 1, 2, 3])):
                        x = self.pick(); d = self.decl_id()
                        self.tree.append('('); self.tree.append('d%d,%d' % (x, d))
                        heads.append('for (%s : %s)' % (self.dn(x, d), self.ty(d)))
                    self.tree.append('('); self.tvis.append(self.tvis[-1]); self.there.append(False)
                    body = self.block_items(depth + 1, kind, fname)
                    self.tree.append(')'); self.tvis.pop(); self.there.pop()
                    for _ in heads: self.tree.append(')')
                    out.append('%s { %s }' % (' '.join(heads), ' '.join(body)))
        return out

    def function(self, kind):
        self.nf += 1
        fname = 'f%d' % self.nf
        self.tree.append('('); self.tvis.append(self.tvis[-1]); self.there.append(False)
        params = []
        used = set()
        for _ in range(self.rng.randrange(0, 3)):
            x = self.pick()
            if x in used: continue
            used.add(x)
            d = self.decl_id()
            self.tree.append('d%d,%d' % (x, d))
            params.append('%s %s' % (self.ty(d), self.dn(x, d)))
        body = self.block_items(1, 'funlocal', fname)
        self.tree.append(')'); self.tvis.pop(); self.there.pop()
        return 'void %s(%s) { %s }' % (fname, ', '.join(params), ' '.join(body))

    def decl_block(self, kind):
        out = []
        for _ in range(self.rng.randrange(2, 7)):
            r = self.rng.random()
            if r < 0.4: out.append(self.decl())
            elif r < 0.8: out.append(self.holder(kind))
            else: out.append(self.function(kind))
        return '\n'.join(out)

    def template(self, ti):
        self.tree.append('('); self.tvis.append(self.tvis[-1]); self.there.append(False)
        params = []
        used = set()
        for _ in range(self.rng.randrange(0, 3)):
            x = self.pick()
            if x in used: continue
            used.add(x)
            d = self.decl_id()
            self.tree.append('d%d,%d' % (x, d))
            params.append('%s %s' % (self.ty(d), self.dn(x, d)))
        decl = self.decl_block('t%d var' % ti)
        locs = []
        nl = self.rng.randrange(1, 3)
        for li in range(nl):
            if self.rng.random() < 0.6:
                e, n = self.uses_expr(None)
                self.obs.append(('inv', (ti, li), n))
                locs.append('<location id="id%d"><label kind="invariant">%s &gt;= 0</label></location>' % (ti * 10 + li, e))
            else:
                locs.append('<location id="id%d"/>' % (ti * 10 + li))
        edges = []
        for ei in range(self.rng.randrange(0, 3)):
            self.tree.append('(')
            sel = ''
            if self.rng.random() < 0.6:
                x = self.pick(); d = self.decl_id()
                self.tree.append('d%d,%d' % (x, d))
                sel = '<label kind="select">%s : %s</label>' % (self.dn(x, d), self.ty(d))
            e, n = self.uses_expr(None)
            self.obs.append(('guard', (ti, ei), n))
            self.tree.append(')')
            edges.append('<transition><source ref="id%d"/><target ref="id%d"/>%s<label kind="guard">%s &gt;= 0</label></transition>' % (ti * 10, ti * 10, sel, e))
        self.tree.append(')'); self.tvis.pop(); self.there.pop()
        return ('<template><name>T%d</name><parameter>%s</parameter><declaration>%s</declaration>%s<init ref="id%d"/>%s</template>'
                % (ti, ', '.join(params), decl, ''.join(locs), ti * 10, ''.join(edges)))

    def model(self):
        g = self.decl_block('global var')
        ts = [self.template(ti) for ti in range(self.rng.randrange(1, 3))]
        sysd = self.holder('global var') if self.rng.random() < 0.7 else ''
        xml = ('<?xml version="1.0" encoding="utf-8"?><nta><declaration>%s</declaration>%s<system>%s\nsystem %s;</system></nta>'
               % (g, ''.join(ts), sysd, ', '.join('T%d' % k for k in range(len(ts)) if False) or 'T0'))
        return ' '.join(self.tree), xml, self.obs


def instantiate(text, decl=None, uses=(), fresh=None):
    """a marked text (Gen(mark=True)) with every occurrence spelled by its name, except declaration `decl` and the uses listed, which are spelled `fresh`"""
    def sub(m):
        kind, num, name = m.group(1), int(m.group(2)), m.group(3)
        if fresh is not None and ((kind == 'd' and num == decl) or (kind == 'u' and num in uses)):
            return fresh
        return name
    return re.sub('\x01([du])(\\d+):(\\w+)\x02', sub, text)


def scope_local_names(tree):
    """for every declaration id of a tree (drv_scope tokens): (name, the names declared more than once in its scope?)"""
    toks, stack, where = tree.split(), [[]], {}
    for t in toks:
        if t == '(':
            stack.append([])
        elif t == ')':
            stack.pop()
        elif t[0] == 'd':
            n, d = t[1:].split(',')
            stack[-1].append(n)
            where[int(d)] = (int(n), stack[-1])
    return {d: (n, sc.count(str(n)) > 1) for d, (n, sc) in where.items()}


def sexpr(text):
    """parse utapdump's expression dump into nested lists"""
    toks = re.findall(r'\(|\)|"[^"]*"|[^\s()]+', text)
    pos = [0]
    def rd():
        t = toks[pos[0]]; pos[0] += 1
        if t == '(':
            out = []
            while toks[pos[0]] != ')':
                out.append(rd())
            pos[0] += 1
            return out
        return t
    return rd() if toks else []


def bindings(expr):
    """declaration ids of the uses in an expression dump, in text order ('-' unknown); binders of quantifiers are skipped"""
    out = []
    def ident(node):
        # (IDENTIFIER a@frame:(range (int) "0" "101"))  is tokenised as ['IDENTIFIER', 'a@frame:', ['range', ['int'], '"0"', '"101"']]
        m = None
        for x in node[1:]:
            if isinstance(x, list) and x and x[0] == 'range' and len(x) >= 4:
                m = x
            elif isinstance(x, list):
                for y in x:
                    if isinstance(y, list) and y and y[0] == 'range' and len(y) >= 4: m = y
        if m is None or '@' not in str(node[1]):
            return '-'
        try:
            return str(int(str(m[-1]).strip('"')) - 100)
        except ValueError:
            return '?'
    def walk(node):
        if not isinstance(node, list) or not node:
            return
        if node[0] == 'IDENTIFIER':
            out.append(ident(node)); return
        if node[0] == 'CONSTANT' and 'b:0' in node[1:]:
            out.append('-'); return                      # an unknown identifier is replaced by the constant false
        kids = [x for x in node[1:] if isinstance(x, list)]
        if node[0] in ('SUM', 'FORALL', 'EXISTS') and kids:
            kids = kids[1:]
        for k in kids:
            walk(k)
    walk(sexpr(expr))
    return out


# ------------------------------------------------------------------------------------------------------------------
# process-qualified names (expr_dot): templates with parameters of several kinds, locals whose types mention them inside
# sums, products, array indices, field accesses and conditionals, instantiation chains of depth 1..3, and queries P.x for
# every member and some non-members.  Produces the XML, the lines for drv_dot and what to compare.
OPS = {0: '+', 1: '*', 2: '[]', 3: '.lo', 4: '.hi', 5: '?:'}
PREC = {0: 40, 1: 50, 2: 100, 3: 100, 4: 100, 5: 10}


def bshow(b, names):
    """bexp (nested tuples) -> text as expression_t::str prints it"""
    def pr(b):
        if b[0] == 'L': return str(b[1]), 110
        if b[0] == 'V': return names[b[1]], 110
        o, args = b[1], b[2]
        p = PREC[o]
        sub = [pr(a) for a in args]
        def par(k, strict):
            t, q = sub[k]
            return '(%s)' % t if (q < p or (strict and q == p)) else t
        if o in (0, 1): return '%s %s %s' % (par(0, False), OPS[o], par(1, True)), p
        if o == 2: return '%s[%s]' % (par(0, False), sub[1][0]), p
        if o in (3, 4): return '%s%s' % (par(0, False), OPS[o]), p
        return '%s ? %s : %s' % (par(0, True), par(1, True), par(2, True)), p
    return pr(b)[0]


def btok(b):
    if b[0] == 'L': return 'L %d' % b[1]
    if b[0] == 'V': return 'V %d' % b[1]
    return '( %d %d %s' % (b[1], len(b[2]), ' '.join(btok(a) for a in b[2]))


def bparse(toks, i):
    t = toks[i]
    if t == 'L': return ('L', int(toks[i + 1])), i + 2
    if t == 'V': return ('V', int(toks[i + 1])), i + 2
    assert t == '(', toks[i:i + 4]
    o, k = int(toks[i + 1]), int(toks[i + 2]); i += 3
    args = []
    for _ in range(k):
        a, i = bparse(toks, i); args.append(a)
    return ('O', o, args), i


def tparse(text):
    """one result of drv_dot: '-' or '<index> <ty>' -> None | (index, ('R', lo, hi) | ('K', lo, hi) | ('C',) | ('B',) | ('U',) | ('S', owner, n))"""
    toks = text.split()
    if toks == ['-']: return None
    idx, k = int(toks[0]), toks[1]
    if k in ('R', 'K'):
        lo, i = bparse(toks, 2); hi, i = bparse(toks, i)
        return idx, (k, lo, hi)
    if k == 'S':
        n, i = bparse(toks, 3)
        return idx, ('S', int(toks[2]), n)
    if k == 'X':
        sh, cnt, i, bs = int(toks[2]), int(toks[3]), 4, []
        for _ in range(cnt):
            b, i = bparse(toks, i); bs.append(b)
        return idx, ('X', sh, bs)
    return idx, (k,)


SHAPES = ['rs', 'ar', 'rr', 'ra', 'fx']


class DotGen:
    MEMBERS = ['a', 'b', 'v', 'w', 'u', 'q']

    def __init__(self, rng):
        self.rng = rng
        self.names = {}          # sym id -> name
        self.nsym = 0
        self.ndecl = 0
        # globals usable in bounds and as arguments
        self.g0 = self.sym('g0'); self.garr = self.sym('garr'); self.gcfg = self.sym('gcfg'); self.tt = self.sym('true'); self.ff = self.sym('false')

    def sym(self, name):
        self.nsym += 1
        self.names[self.nsym] = name
        return self.nsym

    def params(self, suffix=''):
        """a parameter list: [(kind, sym, name, text)]"""
        rng, out = self.rng, []
        kinds = [k for k in ('int', 'arr', 'rec', 'bool') if rng.random() < 0.6] or ['int']
        rng.shuffle(kinds)
        if rng.random() < 0.3: kinds.append('int')
        cnt = {}
        for k in kinds:
            cnt[k] = cnt.get(k, 0) + 1
            nm = {'int': 'n', 'arr': 'lim', 'rec': 'c', 'bool': 'big'}[k] + ('' if cnt[k] == 1 else str(cnt[k])) + suffix
            s = self.sym(nm)
            text = {'int': 'const int[0,2000] %s', 'arr': 'const int %s[3]', 'rec': 'const cfg_t %s', 'bool': 'const bool %s'}[k] % nm
            out.append((k, s, nm, text))
        return out

    def intexp(self, ps, depth=0):
        """an integer expression over the parameters ps (and globals)"""
        rng = self.rng
        ints = [p for p in ps if p[0] == 'int']; arrs = [p for p in ps if p[0] == 'arr']; recs = [p for p in ps if p[0] == 'rec']; bools = [p for p in ps if p[0] == 'bool']
        r = rng.random()
        if depth >= 2 or r < 0.15: return ('L', rng.randrange(1, 60))
        if r < 0.35 and ints: return ('V', rng.choice(ints)[1])
        if r < 0.45: return ('V', self.g0)
        if r < 0.58: return ('O', 2, [('V', rng.choice(arrs)[1] if arrs and rng.random() < 0.8 else self.garr), ('L', rng.randrange(0, 3)) if rng.random() < 0.7 else self.intexp(ps, 2)])
        if r < 0.70: return ('O', rng.choice([3, 4]), [('V', rng.choice(recs)[1] if recs and rng.random() < 0.8 else self.gcfg)])
        if r < 0.80 and bools: return ('O', 5, [('V', rng.choice(bools)[1]), self.intexp(ps, depth + 1), self.intexp(ps, depth + 1)])
        return ('O', rng.choice([0, 0, 1]), [self.intexp(ps, depth + 1), self.intexp(ps, depth + 1)])

    def arg(self, kind, outer):
        """an argument for a parameter of that kind, over the parameters `outer` of the wrapping instantiation"""
        rng = self.rng
        same = [p for p in outer if p[0] == kind]
        if kind == 'int': return self.intexp(outer, 1)
        if same and rng.random() < 0.6: return ('V', rng.choice(same)[1])
        return {'arr': ('V', self.garr), 'rec': ('V', self.gcfg), 'bool': ('V', rng.choice([self.tt, self.ff]))}[kind]

    def model(self):
        """-> xml, lines for drv_dot (one per process), [(process, [(member name, query text)])], templates (for reports)"""
        rng = self.rng
        templates = []
        for ti in range(rng.choice([1, 2, 2])):
            ps = self.params()
            decls = []                                   # (member name, declaration text, ty tokens)
            pool = list(self.MEMBERS)
            rng.shuffle(pool)
            for m in pool[:rng.randrange(2, 6)]:
                self.ndecl += 1
                hi = ('O', 0, [self.intexp(ps), ('L', 100 + self.ndecl)])
                lo = ('L', 0) if rng.random() < 0.7 else self.intexp(ps, 1)
                decls.append((m, 'int[%s,%s] %s;' % (bshow(lo, self.names), bshow(hi, self.names), m), 'R %s %s' % (btok(lo), btok(hi)), 'int'))
            def put(x): decls.insert(rng.randrange(len(decls) + 1), x)
            if rng.random() < 0.7: put(('x', 'clock x;', 'C', 'clock'))
            if rng.random() < 0.5: put(('flag', 'bool flag;', 'B', 'bool'))
            if rng.random() < 0.4: put(('fn', 'void fn() { }', 'U', 'other'))
            # compound members: records, arrays, arrays of records, records with array fields, functions - types whose bounds and sizes mention the parameters
            for cm in [c for c in ('rs', 'ar', 'rr', 'ra', 'fx') if rng.random() < 0.35]:
                nb = {'rs': 4, 'ar': 3, 'rr': 2, 'ra': 3, 'fx': 4}[cm]
                bs = []
                for q in range(nb):
                    self.ndecl += 1
                    size = (cm in ('ar', 'ra') and q == 2)
                    bs.append(('O', 0, [self.intexp(ps, 1), ('L', (2 if size else 300) + self.ndecl)]) if (q % 2 == 1 or size or rng.random() < 0.3) else ('L', 0))
                sh = lambda q: bshow(bs[q], self.names)
                fmt = {'rs': 'struct { int[%s,%s] f; int[%s,%s] g; } rs;', 'ar': 'int[%s,%s] ar[%s];', 'rr': 'struct { int[%s,%s] h; } rr[2];', 'ra': 'struct { int[%s,%s] f[%s]; bool k; } ra;',
                       'fx': 'int[%s,%s] fx(int[%s,%s] p) { return ' + sh(0) + '; }'}[cm]
                text = fmt % tuple(sh(q) for q in range(nb))
                put((cm, text, 'X %d %d %s' % (SHAPES.index(cm) + 1, nb, ' '.join(btok(b) for b in bs)), 'shape-' + cm))
            if rng.random() < 0.5:
                n = self.intexp([p for p in ps if p[0] == 'int'], 1) if rng.random() < 0.5 else ('L', rng.randrange(2, 6))
                at = rng.randrange(len(decls) + 1)
                decls.insert(at, ('S', 'typedef scalar[%s] S;' % bshow(n, self.names), 'U', 'other'))
                decls.insert(rng.randrange(at + 1, len(decls) + 1), ('s', 'S s;', 'S %d %s' % (1000 + ti, btok(n)), 'scalar'))
            nloc = rng.randrange(1, 4)
            frame = [(nm, 'K L 0 L 2000' if k == 'int' else 'U', 'param-' + k) for k, s, nm, _ in ps] + [(m, tok, kind) for m, _, tok, kind in decls] + [('L%d' % li, 'O', 'loc') for li in range(nloc)]
            templates.append(dict(idx=ti, ps=ps, decls=decls, frame=frame, nloc=nloc))
        # instantiation chains
        sysd, procs = [], []
        npr = 0
        for _ in range(rng.randrange(2, 5)):
            T = rng.choice(templates)
            depth = rng.choice([1, 1, 2, 3])
            # level 0 is the template; level k+1 wraps level k
            mapping = []
            cur_name, cur_ps = 'T%d' % T['idx'], T['ps']
            for lv in range(1, depth):
                npr += 1
                outer = self.params('_%d' % npr)
                args = [self.arg(p[0], outer) for p in cur_ps]
                nm = 'Q%d' % npr
                sysd.append('%s(%s) = %s(%s);' % (nm, ', '.join(p[3] for p in outer), cur_name, ', '.join(bshow(a, self.names) for a in args)))
                mapping += [(p[1], a) for p, a in zip(cur_ps, args)]
                cur_name, cur_ps = nm, outer
            npr += 1
            pn = 'P%d' % npr
            args = [self.arg(p[0], []) for p in cur_ps]
            sysd.append('%s = %s(%s);' % (pn, cur_name, ', '.join(bshow(a, self.names) for a in args)))
            mapping += [(p[1], a) for p, a in zip(cur_ps, args)]
            procs.append(dict(name=pn, pid=2000 + npr, templ=T, mapping=mapping))
        sysd.append('system %s;' % ', '.join(p['name'] for p in procs))
        # member numbering for the model
        ids = {}
        def mid(name):
            return ids.setdefault(name, len(ids) + 1)
        lines, queries = [], []
        for P in procs:
            T = P['templ']
            names = [f[0] for f in T['frame']]
            probes = list(dict.fromkeys(names + ['g0', 'a', 'zz', 'garr', 'L0', 'L7']))
            qs = []
            for m in probes:
                kind = next((f[2] for f in T['frame'] if f[0] == m), None)
                if kind in ('other', 'param-arr', 'param-rec', 'param-bool'):
                    continue
                if kind and kind.startswith('shape-'):
                    qs.append((m, {'rs': 'E<> %s.rs.f >= 0', 'ar': 'E<> %s.ar[0] >= 0', 'rr': 'E<> %s.rr[1].h >= 0', 'ra': 'E<> %s.ra.k', 'fx': 'E<> %s.fx(0) >= 0'}[kind[6:]] % P['name']))
                    continue
                text = {'int': 'E<> %s.%s > 0', 'param-int': 'E<> %s.%s > 0', 'clock': 'E<> %s.%s > 1', 'bool': 'E<> %s.%s', 'param-bool': 'E<> %s.%s', 'loc': 'E<> %s.%s', 'scalar': 'E<> %s.%s == %s.%s', None: 'E<> %s.%s > 0'}[kind]
                qs.append((m, text % ((P['name'], m) * (text.count('%s') // 2))))
            lines.append('%d %d F %d %s M %d %s Q %d %s' % (P['pid'], 1000 + T['idx'], len(T['frame']), ' '.join('%d %s' % (mid(f[0]), f[1]) for f in T['frame']),
                                                         len(P['mapping']), ' '.join('%d %s' % (s, btok(a)) for s, a in P['mapping']), len(qs), ' '.join(str(mid(m)) for m, _ in qs)))
            queries.append((P, qs))
        esc = lambda t: t.replace('&', '&amp;').replace('<', '&lt;').replace('>', '&gt;')
        tx = []
        for T in templates:
            locs = ''.join('<location id="id%d"><name>L%d</name></location>' % (T['idx'] * 10 + li, li) for li in range(T['nloc']))
            tx.append('<template><name>T%d</name><parameter>%s</parameter><declaration>%s</declaration>%s<init ref="id%d"/></template>'
                      % (T['idx'], esc(', '.join(p[3] for p in T['ps'])), esc('\n'.join(d[1] for d in T['decls'])), locs, T['idx'] * 10))
        xml = ('<?xml version="1.0" encoding="utf-8"?><nta><declaration>const int g0 = 7; const int garr[3] = {11, 12, 13}; typedef struct { int lo; int hi; } cfg_t; const cfg_t gcfg = {1, 9}; int[0,50] a;</declaration>'
               '%s<system>%s</system></nta>' % (''.join(tx), esc('\n'.join(sysd))))
        return xml, lines, queries, ids


def dot_observed(tree):
    """the DOT nodes of a query tree dumped under BIND 1: [(index, label, type s-expression)]"""
    out = []
    def walk(node):
        if not isinstance(node, list) or not node: return
        if node[0] == 'DOT' and len(node) >= 3 and isinstance(node[1], str) and node[1].startswith('.'):
            m = re.match(r'^\.(\d+):(.*?):(.*)$', node[1])
            if m:
                ty = node[2] if isinstance(node[2], list) and not m.group(3) else None
                out.append((int(m.group(1)), m.group(2), ty))
        for x in node[1:]:
            walk(x)
    walk(sexpr(tree))
    return out


def dot_expected_type(ty, names, pname):
    """the model's type rendered as the s-expression type_t::str gives (tokenised like sexpr does)"""
    k = ty[0]
    q = lambda b: '"%s"' % bshow(b, names)
    if k == 'R': return ['range', ['int'], q(ty[1]), q(ty[2])]
    if k == 'K': return ['const', ['range', ['int'], q(ty[1]), q(ty[2])]]
    if k == 'C': return ['clock']
    if k == 'B': return ['bool']
    if k == 'X':
        rg = lambda a, b: ['range', ['int'], q(a), q(b)]
        idx = lambda b: ['range', ['int'], '"0"', '"%s - 1"' % (('(%s)' if b[0] == 'O' and PREC[b[1]] < 40 else '%s') % bshow(b, names))]
        b = ty[2]
        sh = SHAPES[ty[1] - 1]
        if sh == 'rs': return ['struct', 'f:', rg(b[0], b[1]), 'g:', rg(b[2], b[3])]
        if sh == 'ar': return ['array', rg(b[0], b[1]), idx(b[2])]
        if sh == 'rr': return ['array', ['struct', 'h:', rg(b[0], b[1])], ['range', ['int'], '"0"', '"2 - 1"']]
        if sh == 'ra': return ['struct', 'f:', ['array', rg(b[0], b[1]), idx(b[2])], 'k:', ['bool']]
        if sh == 'fx': return ['function', rg(b[0], b[1]), 'p:', rg(b[2], b[3])]
    if k == 'S': return ['label', 'S:', ['label', (pname if ty[1] >= 2000 else 'T%d' % (ty[1] - 1000)) + ':::', ['label', '#', ['range', ['scalar'], '"0"', '"%s - 1"' % (('(%s)' if ty[2][0] == 'O' and PREC[ty[2][1]] < 40 else '%s') % bshow(ty[2], names))]]]]
    return None


def process_set_probes(run, vlib, rng, n, types=True):
    """queries T(e1, .., en).x over a template with free parameters on the system line: the lookup arguments must reach the process set in the order
    written (nested ARRAY nodes, first argument innermost), and the member is that of the template"""
    nps = 0
    thorough = None
    nps = 0
    PS = ('<?xml version="1.0" encoding="utf-8"?><nta><declaration>int gq;</declaration><template><name>T</name><parameter>const int[0,3] a, const int[0,4] b, const int[0,5] c</parameter>'
          '<declaration>int[0,9] v; int[0,a + 40] w; clock x;</declaration><location id="id0"><name>L0</name></location><init ref="id0"/></template>'
          '<template><name>U</name><parameter>const int[0,2] k, const int[0,6] m</parameter><declaration>int y;</declaration><location id="id1"/><init ref="id1"/></template><system>system T, U;</system></nta>')
    probes = []
    for _ in range(n):
        if rng.random() < 0.6:
            args = [rng.randrange(0, 4), rng.randrange(0, 5), rng.randrange(0, 6)]; t, mem = 'T', rng.choice(['v', 'w', 'L0', 'x'])
        else:
            args = [rng.randrange(0, 3), rng.randrange(0, 7)]; t, mem = 'U', 'y'
        probes.append((t, args, mem, 'E<> %s(%s).%s%s' % (t, ', '.join(map(str, args)), mem, '' if mem == 'L0' else ' > 0')))
    j = vlib.Job()
    c = j.case('ps', fork=True).cmd('BIND 1').model('xml', PS).dump('errors')
    for p in probes:
        c.query(p[3], rt=False)
    c.end()
    rr = vlib.run_jobs(j)['ps']
    if rr['status'] != 'ok':
        run.fail('parser crashed on a query over a process set (%s)' % rr['status'], dict(xml=PS, queries=[p[3] for p in probes][:5]), shape='crash:process-set')
    else:
        for (t, args, mem, q), cm in zip(probes, rr['cmds'][3:]):
            tree = next((l[5:] for l in cm[2] if l.startswith('tree ')), None)
            if tree is None:
                run.fail('the query %r over a process set is rejected: %s' % (q, [l for l in cm[2] if l.startswith('error')][:1]), dict(xml=PS, query=q), shape='qualified:process-set-rejected')
                continue
            nps += 1
            node = sexpr(tree)
            def find(n):
                if isinstance(n, list) and n and n[0] == 'DOT': return n
                for x in (n[1:] if isinstance(n, list) else []):
                    r = find(x)
                    if r: return r
            dot = find(node)
            got, cur = [], next((x for x in dot[1:] if isinstance(x, list) and x[0] == 'ARRAY'), None) if dot else None
            while cur and cur[0] == 'ARRAY':
                kids = [x for x in cur[1:] if isinstance(x, list)]
                got.insert(0, kids[1][1] if kids[1][0] == 'CONSTANT' else '?')
                cur = kids[0]
            if got != ['i:%d' % a for a in args]:
                run.fail('%s: the lookup arguments reach the process set as %s' % (q, got), dict(xml=PS, query=q, tree=tree[:500]), shape='qualified:process-set-arguments')
            if mem == 'w' and types:
                ty = dot[2] if len(dot) > 2 else None
                want = ['range', ['int'], '"0"', '"%d + 40"' % args[0]]
                if ty != want:
                    run.fail('%s has type %s: the argument of the parameter a is not substituted (expected %s)' % (q, ty, want), dict(xml=PS, query=q), shape='qualified:process-set-unsubstituted')

    return nps
