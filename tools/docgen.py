"""Abstract UPPAAL models for the document properties (C04, C05, C08, C16, C20): generator, XML and XTA renderers,
the expected document structure, and the parser of utapdump's document dump into the same structure.

Every label carries a unique marker (an integer constant, or a marked identifier) so that "which label ended up on which
element" can be read off the dump without comparing expression text."""
import zlib, re

XESC = lambda t: t.replace('&', '&amp;').replace('<', '&lt;').replace('>', '&gt;')


class Model:
    def __init__(self):
        self.templates = []      # dict(name, params=[(name, kind)], decl=[names], locs=[dict], bps=[id], init=id, edges=[dict])
        self.globals = []        # names of global ints
        self.chans = []          # channel names
        self.processes = []      # dict(name, templ, args=[marker or global name]) ; or direct template names
        self.system = []         # process names in system line
        self.priorities = False
        self.shadowed = []       # globals with the name of a select variable
        self.text = {}           # (kind, marker) -> label text overriding label_text (C20 variants)


def gen(rng, ntempl=None, allow_anon=True, branchpoints=True, xta_common=False):
    """xta_common: restrict to what both input formats can express (named locations only, no branchpoints, labels in XTA order)"""
    M = Model()
    mk = [1000]
    def marker():
        mk[0] += 1
        return mk[0]
    M.globals = ['g%d' % k for k in range(3)]
    nt = ntempl if ntempl is not None else rng.randrange(0, 5)
    for ti in range(nt):
        T = dict(name='T%d' % ti, params=[], decl=['v%d_%d' % (ti, k) for k in range(rng.randrange(0, 3))], locs=[], bps=[], edges=[])
        for pi in range(rng.randrange(0, 3)):
            T['params'].append(('p%d_%d' % (ti, pi), rng.choice(['val', 'ref', 'val', 'ref', 'cval', 'cref'])))
        nl = rng.randrange(1, 5)
        for li in range(nl):
            named = (not allow_anon) or rng.random() < 0.6
            lid = 'id%d' % (ti * 100 + li)
            T['locs'].append(dict(id=lid, name=(('_L%d_%d' if rng.random() < 0.12 else 'L%d_%d') % (ti, li)) if named else None, inv=marker() if rng.random() < 0.5 else None,      # a leading underscore is a letter to both front ends
                                  rate=marker() if rng.random() < 0.25 else None, urgent=False, committed=False))
            f = rng.random()
            if f < 0.15: T['locs'][-1]['urgent'] = True
            elif f < 0.3: T['locs'][-1]['committed'] = True
        if branchpoints and rng.random() < 0.4:
            for bi in range(rng.randrange(1, 3)):
                T['bps'].append('id%d' % (ti * 100 + 50 + bi))
        T['init'] = rng.choice(T['locs'])['id']
        ends = [l['id'] for l in T['locs']] + T['bps']
        for ei in range(rng.randrange(0, 6)):
            src, dst = rng.choice(ends), rng.choice(ends)
            if rng.random() < 0.15: dst = src                                  # self loop
            if T['edges'] and rng.random() < 0.15: src, dst = T['edges'][-1]['src'], T['edges'][-1]['dst']     # parallel edge
            if src in T['bps'] and dst in T['bps'] and rng.random() < 0.5: dst = T['locs'][0]['id']       # (edges between branchpoints, self loops included, are accepted)
            E = dict(src=src, dst=dst, control=rng.random() < 0.8, labels=[])
            kinds = [k for k in ('select', 'guard', 'sync', 'update', 'prob') if rng.random() < 0.45]
            if 'prob' in kinds and src not in T['bps'] and rng.random() < 0.6:
                kinds.remove('prob')                                         # mostly on edges leaving a branchpoint; a weight on an edge leaving a location is accepted too
            if src in T['bps']:
                kinds = [k for k in kinds if k in ('update', 'prob')]
            if not xta_common:
                rng.shuffle(kinds)
            for k in kinds:
                m = marker()
                E['labels'].append((k, m))
                if k == 'sync':
                    M.chans.append('c%d' % m)
                if k == 'select':
                    # sometimes the select variable shadows a global or a template local of the same name
                    r = rng.random()
                    if r < 0.2: M.shadowed.append('s%d' % m)
                    elif r < 0.35: T['decl'].append('s%d' % m)
            T['edges'].append(E)
        M.templates.append(T)
    # processes: full and partial instantiations
    for ti, T in enumerate(M.templates):
        n = rng.randrange(0, 3)
        for k in range(n):
            args = []
            own = []
            for (pn, kind) in T['params']:
                if kind == 'val' and not xta_common and rng.random() < 0.25:
                    # a partial instantiation: the process keeps a parameter of its own and passes it on
                    q = 'q%d_%d_%d' % (ti, k, len(own))
                    own.append(q); args.append(('param', q))
                else:
                    args.append(('const', marker()) if kind in ('val', 'cval', 'cref') else ('var', rng.choice(M.globals)))
            M.processes.append(dict(name='P%d_%d' % (ti, k), templ=T['name'], args=args, own=own))
            if own and rng.random() < 0.5:
                # a chain: the partial instance is instantiated again, which closes its own parameters
                M.processes.append(dict(name='R%d_%d' % (ti, k), templ=T['name'], via='P%d_%d' % (ti, k), args=args, own=[], inner_own=list(own), chain_args=[('const', marker()) for _ in own]))
        if not T['params'] and rng.random() < 0.4:
            M.system.append(T['name'])
    for p in M.processes:
        if rng.random() < 0.85:
            M.system.append(p['name'])
    if not M.system:
        if not M.templates:
            M.templates.append(dict(name='T0', params=[], decl=[], locs=[dict(id='id0', name='L0_0', inv=None, rate=None, urgent=False, committed=False)], bps=[], init='id0', edges=[]))
        if M.processes:
            M.system.append(M.processes[0]['name'])
        elif [t for t in M.templates if not t['params']]:
            M.system.append([t for t in M.templates if not t['params']][0]['name'])
        else:
            T = M.templates[0]
            M.processes.append(dict(name='P0_x', templ=T['name'], args=[('const', marker()) if kind in ('val', 'cval', 'cref') else ('var', rng.choice(M.globals)) for (pn, kind) in T['params']]))
            M.system.append('P0_x')
    rng.shuffle(M.system)
    M.priorities = len(M.system) > 1 and rng.random() < 0.15
    # a channel priority declaration, with the default entry at the head, in the middle or at the end
    M.chanprio = ''
    if M.chans and rng.random() < 0.2:
        a, b = rng.choice(M.chans), rng.choice(M.chans)
        M.chanprio = 'chan priority ' + rng.choice(['%s < default' % a, 'default < %s' % a, '%s < default < %s' % (a, b) if a != b else '%s < default' % a, '%s, %s < default' % (a, b) if a != b else 'default < %s' % a, '%s < %s' % (a, b) if a != b else '%s < default' % a]) + ';\n'
    # the XML format has an <instantiation> element for the lines before `system`: some models use it (a declaration among them when inst_decl is set by the caller)
    M.inst_layout = rng.random() < 0.25
    M.inst_decl = ''
    return M


def oldify(M, rng):
    """restrict a model generated with xta_common=True to what the old (3.x) syntax can say, and spell its labels the old way: guards and
    invariants as comma-separated conjunctions, updates with `:=`; no parameters, selects, probabilities, rates, uncontrollable edges"""
    M.old = True
    M.processes = []
    M.priorities = False
    M.chanprio = ''                      # the old syntax has no channel priorities
    for T in M.templates:
        T['params'] = []
        for l in T['locs']:
            l['rate'] = None
            if l['inv'] is not None and rng.random() < 0.6:
                M.text[('inv', l['inv'])] = 'x <= %d, x >= 0' % l['inv']
        for e in T['edges']:
            e['control'] = True
            e['labels'] = [(k, m) for k, m in e['labels'] if k in ('guard', 'sync', 'update')]
            for k, m in e['labels']:
                if k == 'guard' and rng.random() < 0.7:
                    M.text[(k, m)] = 'g0 == %d, g1 >= 0' % m if rng.random() < 0.6 else 'g0 == %d, g1 >= 0, g2 <= 9' % m
                if k == 'update':
                    M.text[(k, m)] = 'g1 := %d' % m
    M.system = [T['name'] for T in M.templates] or M.system
    return M


def label_text(kind, m):
    return {'inv': 'x <= %d' % m, 'rate': '%d' % m, 'select': 's%d : int[0,1]' % m, 'guard': 'g0 == %d' % m, 'sync': 'c%d!' % m, 'update': 'g1 = %d' % m, 'prob': '%d' % m}[kind]


def ltext(M, kind, m):
    return M.text.get((kind, m)) or label_text(kind, m)


def global_decl(M):
    d = 'clock x;\n' + ''.join('int %s;\n' % g for g in M.globals + M.shadowed) + ''.join('chan %s;\n' % c for c in M.chans) + getattr(M, 'chanprio', '')
    return d


def system_text(M):
    s = getattr(M, 'inst_decl', '')
    for p in M.processes:
        own = p.get('own') or []
        if p.get('via'):
            s += '%s = %s(%s);\n' % (p['name'], p['via'], ', '.join(str(a[1]) for a in p['chain_args']))
            continue
        s += '%s%s = %s(%s);\n' % (p['name'], '(%s)' % ', '.join('const int[0,1] %s' % q for q in own) if own else '', p['templ'], ', '.join(str(a[1]) for a in p['args']))
    sep = ' < ' if M.priorities else ', '
    return s + 'system %s;\n' % sep.join(M.system) if M.system else s + 'system ;\n'


def old_params(M, rng):
    """parameters the 3.x way for a model that went through oldify: groups separated by ';', `int a, b` (by reference) and `const lo, hi` (constant integers by
    value), several names per group.  Templates that got parameters leave the system line (one parameterless template stays)."""
    keep = rng.randrange(len(M.templates)) if M.templates else 0
    for ti, T in enumerate(M.templates):
        if ti == keep or rng.random() < 0.3:
            continue
        groups = [(rng.choice(['ref', 'cval', 'cval']), rng.choice([1, 2, 2, 3])) for _ in range(rng.choice([1, 2, 2, 3]))]
        T['old_groups'], T['params'], q = [], [], 0
        for kind, n in groups:
            names = ['p%s_%d' % (T['name'][1:], q + i) for i in range(n)]
            q += n
            T['old_groups'].append((kind, names))
            T['params'] += [(nm, kind) for nm in names]
    M.system = [T['name'] for T in M.templates if not T['params']]
    return M


def params_text(T):
    if T.get('old_groups'):
        return '; '.join(('const %s' if kind == 'cval' else 'int %s') % ', '.join(names) for kind, names in T['old_groups'])
    return ', '.join({'val': 'int %s', 'ref': 'int &%s', 'cval': 'const int %s', 'cref': 'const int &%s'}[k] % n for n, k in T['params'])


def rng_pad(M, name):
    """white space around the text of a <name> element, as indenting serialisers write it (deterministic per name)"""
    h = zlib.crc32(name.encode()) % 5
    return [name + ' ', '\n      ' + name + '\n    ', ' ' + name, '\t' + name + ' \t', name][h]


def render_xml(M, rng=None):
    out = ['<?xml version="1.0" encoding="utf-8"?>\n<nta>\n<declaration>%s</declaration>\n' % XESC(global_decl(M))]
    kmap = {'select': 'select', 'guard': 'guard', 'sync': 'synchronisation', 'update': 'assignment', 'prob': 'probability'}
    for T in M.templates:
        pad = (lambda n: rng_pad(M, n)) if getattr(M, 'pad_names', False) else (lambda n: n)
        out.append('<template>\n<name>%s</name>\n' % pad(T['name']))
        if T['params']:
            out.append('<parameter>%s</parameter>\n' % XESC(params_text(T)))
        out.append('<declaration>%s</declaration>\n' % ''.join('int %s;\n' % v for v in T['decl']))
        for l in T['locs']:
            out.append('<location id="%s" x="0" y="0">' % l['id'])
            if l['name']:
                out.append('<name>%s</name>' % pad(l['name']))
            labs = []
            if l['inv'] is not None:
                labs.append('<label kind="invariant">%s</label>' % XESC(ltext(M, 'inv', l['inv'])))
            if l['rate'] is not None:
                labs.append('<label kind="exponentialrate">%s</label>' % XESC(ltext(M, 'rate', l['rate'])))
            if l.get('rate_first'):
                labs.reverse()
            out += labs
            if l['urgent']: out.append('<urgent/>')
            if l['committed']: out.append('<committed/>')
            out.append('</location>\n')
        for b in T['bps']:
            out.append('<branchpoint id="%s" x="0" y="0"/>\n' % b)
        out.append('<init ref="%s"/>\n' % T['init'])
        for e in T['edges']:
            out.append('<transition%s><source ref="%s"/><target ref="%s"/>' % ('' if e['control'] else ' controllable="false"', e['src'], e['dst']))
            for k, m in e['labels']:
                out.append('<label kind="%s">%s</label>' % (kmap[k], XESC(ltext(M, k, m))))
            out.append('<nail x="1" y="1"/></transition>\n')
        out.append('</template>\n')
    st = system_text(M)
    cut = st.rfind('system ')
    if getattr(M, 'inst_layout', False) and not getattr(M, 'old', False) and cut > 0:
        out.append('<instantiation>%s</instantiation>\n<system>%s</system>\n</nta>\n' % (XESC(st[:cut]), XESC(st[cut:])))
    else:
        out.append('<system>%s</system>\n</nta>\n' % XESC(st))
    return ''.join(out)


def loc_name(T, lid):
    for l in T['locs']:
        if l['id'] == lid:
            return l['name'] if l['name'] else '_' + lid
    return '_' + lid


def render_xta(M):
    """the same model in the textual format (only for models generated with xta_common=True: named locations, no branchpoints)"""
    out = [global_decl(M)]
    for T in M.templates:
        out.append('process %s(%s) {\n' % (T['name'], params_text(T)))
        out.append(''.join('int %s;\n' % v for v in T['decl']))
        sts = []
        for l in T['locs']:
            s = loc_name(T, l['id'])
            inv = ltext(M, 'inv', l['inv']) if l['inv'] is not None else ''
            if l['rate'] is not None:
                sts.append('%s { %s; %s }' % (s, inv, ltext(M, 'rate', l['rate'])))
            else:
                sts.append(s + (' { %s }' % inv if inv else ''))
        out.append('state ' + ', '.join(sts) + ';\n')
        if T['bps']:
            out.append('branchpoint ' + ', '.join('_' + b for b in T['bps']) + ';\n')
        c = [loc_name(T, l['id']) for l in T['locs'] if l['committed']]
        u = [loc_name(T, l['id']) for l in T['locs'] if l['urgent']]
        if c: out.append('commit ' + ', '.join(c) + ';\n')
        if u: out.append('urgent ' + ', '.join(u) + ';\n')
        out.append('init %s;\n' % loc_name(T, T['init']))
        if T['edges']:
            es = []
            prev = None
            for ei, e in enumerate(T['edges']):
                labs = ''
                for k, m in e['labels']:
                    labs += {'select': 'select %s; ', 'guard': 'guard %s; ', 'sync': 'sync %s; ', 'update': 'assign %s; ', 'prob': 'probability %s; '}[k] % ltext(M, k, m)
                # the chained shorthand "A -> B { }, -> C { }" repeats the source of the previous transition (it has no probability section)
                chained = prev == e['src'] and not any(k == 'prob' for k, _ in e['labels']) and (zlib.crc32(('%s/%d' % (T['name'], ei)).encode()) % 2 == 0)
                es.append('%s%s %s { %s}' % ('' if chained else loc_name(T, e['src']) + ' ', '->' if e['control'] else '-u->', loc_name(T, e['dst']), labs))
                prev = e['src']
            out.append('trans ' + ',\n'.join(es) + ';\n')
        out.append('}\n')
    out.append(system_text(M))
    return ''.join(out)


def expected(M):
    """the structure the document must have"""
    D = dict(templates=[], processes=[])
    for T in M.templates:
        t = dict(name=T['name'], params=[n for n, _ in T['params']], pkinds=[(n, k in ('ref', 'cref'), k in ('cval', 'cref')) for n, k in T['params']], locs=[], bps=['_' + b for b in T['bps']], init=loc_name(T, T['init']), edges=[], decl=list(T['decl']))
        for l in T['locs']:
            t['locs'].append((loc_name(T, l['id']), l['inv'], l['rate'], l['urgent'], l['committed']))
        for e in T['edges']:
            lab = {k: None for k in ('guard', 'sync', 'update', 'prob')}
            sel = []
            for k, m in e['labels']:
                if k == 'select': sel.append(m)
                else: lab[k] = m
            def end(i):
                return ('bp:_' + i) if i in T['bps'] else 'loc:' + loc_name(T, i)
            t['edges'].append((end(e['src']), end(e['dst']), e['control'], tuple(sel), lab['guard'], lab['sync'], lab['update'], lab['prob']))
        D['templates'].append(t)
    procs = {p['name']: p for p in M.processes}
    tm = {t['name']: t for t in M.templates}
    for s in M.system:
        if s in procs:
            p = procs[s]
            own = p.get('own') or []
            if p.get('via'):
                D['processes'].append((s, p['templ'], tuple((q, a[1]) for q, a in zip(p['inner_own'], p['chain_args'])) + tuple((pn, a[1]) for (pn, _), a in zip(tm[p['templ']]['params'], p['args'])),
                                       len(p['inner_own']) + len(tm[p['templ']]['params']), 0))
                continue
            D['processes'].append((s, p['templ'], tuple((pn, a[1]) for (pn, _), a in zip(tm[p['templ']]['params'], p['args'])), len(own) + len(tm[p['templ']]['params']), len(own)))
        else:
            D['processes'].append((s, s, (), len(tm[s]['params']), len(tm[s]['params'])))
    return D


MARK = re.compile(r'(?:i:|IDENTIFIER [a-z]+)(1\d\d\d)\b')


def markers(s):
    return [int(x) for x in re.findall(r'(?<![0-9])(1\d\d\d)(?![0-9])', s)]


def one(s):
    m = markers(s)
    return m[-1] if m else None


def parse_dump(lines):
    """utapdump 'DUMP doc' output -> the same structure as expected()"""
    D = dict(templates=[], processes=[])
    cur = None
    for l in lines:
        m = re.match(r'template (\d+) name=(\S+) params=\[(.*?)\] isTA=(\d) instantiated=(\d) dynamic=\d init=(\S+) nloc=(\d+) nbp=(\d+) nedge=(\d+)', l)
        if m:
            params = [x.strip().split(' ')[-1] for x in m.group(3).split(';') if x.strip()]
            pkinds = [(x.strip().split(' ')[-1], '(ref' in x, '(const' in x) for x in m.group(3).split(';') if x.strip()]
            cur = dict(name=m.group(2), params=params, pkinds=pkinds, locs=[], bps=[], init=m.group(6), edges=[], decl=[], counts=(int(m.group(7)), int(m.group(8)), int(m.group(9))))
            D['templates'].append(cur)
            continue
        m = re.match(r't\d+ var \d+ (\S+) :', l)
        if m and cur is not None:
            cur['decl'].append(m.group(1))
            continue
        m = re.match(r't\d+ loc nr=(\d+) name=(\S+) urgent=(\d) committed=(\d) inv=(.*) exprate=(.*) costrate=(.*)$', l)
        if m:
            cur['locs'].append((m.group(2), one(m.group(5)), one(m.group(6)), m.group(3) == '1', m.group(4) == '1'))
            cur.setdefault('locnrs', []).append(int(m.group(1)))
            continue
        m = re.match(r't\d+ bp nr=(\d+) name=(\S+)', l)
        if m:
            cur['bps'].append(m.group(2))
            continue
        m = re.match(r't\d+ edge nr=(\d+) src=(\S+) dst=(\S+) control=(\d) act=(\S*) select=\[(.*?)\] guard=(.*) sync=(.*) assign=(.*) prob=(.*)$', l)
        if m:
            sel = tuple(markers(m.group(6)))
            g, sy, a, p = m.group(7), m.group(8), m.group(9), m.group(10)
            cur['edges'].append((m.group(2), m.group(3), m.group(4) == '1', sel, one(g), one(sy), one(a), one(p)))
            cur.setdefault('edgenrs', []).append(int(m.group(1)))
            cur.setdefault('acts', []).append(m.group(5))
            continue
        m = re.match(r'process (\d+) name=(\S+) templ=(\S+) params=\[(.*?)\] unbound=(\d+) arguments=(\d+) mapping=\{(.*?)\} nmapping', l)
        if m:
            mp = []
            for item in m.group(7).split('; '):
                if ':=' in item:
                    pn, ex = item.split(':=', 1)
                    mm = markers(ex)
                    idm = re.search(r'\(IDENTIFIER (\w+)\)', ex)
                    mp.append((pn.strip(), mm[-1] if mm else (idm.group(1) if idm else ex)))
            nparams = len([x for x in m.group(4).split(';') if x.strip()])
            D['processes'].append((m.group(2), m.group(3), tuple(mp), nparams, int(m.group(5))))
    return D


def diff(exp, got):
    """first difference between two structures, as text (None if equal)"""
    if len(exp['templates']) != len(got['templates']):
        return 'number of templates: expected %d, got %d' % (len(exp['templates']), len(got['templates']))
    for te, tg in zip(exp['templates'], got['templates']):
        for key in ('name', 'params', 'pkinds', 'init', 'bps', 'decl'):
            if te.get(key) != tg.get(key):
                return 'template %s: %s expected %r, got %r' % (te['name'], key, te[key], tg[key])
        if te['locs'] != tg['locs']:
            for a, b in zip(te['locs'] + [None], tg['locs'] + [None]):
                if a != b:
                    return 'template %s: location (name, invariant, rate, urgent, committed) expected %r, got %r' % (te['name'], a, b)
        if te['edges'] != tg['edges']:
            for k, (a, b) in enumerate(zip(te['edges'] + [None], tg['edges'] + [None])):
                if a != b:
                    return 'template %s: edge %d (src, dst, controllable, selects, guard, sync, update, prob) expected %r, got %r' % (te['name'], k, a, b)
    if exp['processes'] != got['processes']:
        return 'processes expected %r, got %r' % (exp['processes'], got['processes'])
    return None
