"""Shared machinery of the /verif checks: builds, Coq project, extraction, evidence, findings.

Everything is rebuilt from /repo's current working tree (make's mtime tracking keeps an unchanged
tree cheap).  All randomness comes from VERIF_SEED through random.Random(seed).
"""
import os, sys, re, json, subprocess, time, hashlib, random, shutil, fcntl

VERIF = os.path.dirname(os.path.dirname(os.path.abspath(__file__)))
REPO = os.environ.get('UTAP_REPO', '/repo')
WORK = os.path.join(VERIF, '_work')
COQ = os.path.join(VERIF, 'coq')
BIN = os.path.join(WORK, 'bin')
EXTRACT = os.path.join(WORK, 'extract')
REPLAY = os.path.join(WORK, 'replay')
for d in (WORK, BIN, EXTRACT, REPLAY, os.path.join(VERIF, 'evidence'), os.path.join(COQ, 'theories', 'gen')):      # (gen/ is not under version control)
    os.makedirs(d, exist_ok=True)

ALLOWED_AXIOMS = {
    # standard-library axioms that may appear (named in DESIGN.md section 6)
    'ClassicalDedekindReals.sig_not_dec', 'ClassicalDedekindReals.sig_forall_dec',
    'FunctionalExtensionality.functional_extensionality_dep', 'Classical_Prop.classic',
}


class RepoBroken(Exception):
    pass


def sh(cmd, timeout=None, cwd=None, env=None, inp=None):
    """run a command, return (rc, stdout, stderr) as text; conda noise filtered"""
    p = subprocess.run(cmd, shell=isinstance(cmd, str), cwd=cwd, env=env, input=inp,
                       stdout=subprocess.PIPE, stderr=subprocess.PIPE, timeout=timeout,
                       universal_newlines=True, errors='replace')
    return p.returncode, p.stdout, p.stderr


class Lock:
    """serialise builds between concurrently running checks"""
    def __init__(self, name):
        self.path = os.path.join(WORK, name + '.lock')
    def __enter__(self):
        self.f = open(self.path, 'w')
        fcntl.flock(self.f, fcntl.LOCK_EX)
    def __exit__(self, *a):
        fcntl.flock(self.f, fcntl.LOCK_UN)
        self.f.close()


def build_lib(flavour='rel'):
    with Lock('lib-' + flavour):
        rc, out, err = sh([os.path.join(VERIF, 'tools', 'buildlib.sh'), flavour], timeout=1800)
    if rc != 0:
        raise RepoBroken('library flavour %s does not build from %s:\n%s' % (flavour, REPO, err[-3000:]))
    return out.strip().splitlines()[-1]


def lib_flags(flavour='rel'):
    out = os.path.join(WORK, 'lib-' + flavour)
    fl = ['-std=c++17', '-w', '-DNDEBUG', '-DUTAP_VERIF', '-O1', '-g', '-I' + out + '/include', '-I' + out,
          '-I' + REPO + '/src', '-I' + REPO + '/include', '-isystem', '/usr/include/libxml2']
    if flavour == 'asan':
        fl += ['-fsanitize=address,undefined', '-fno-sanitize-recover=all', '-fno-omit-frame-pointer']
    if flavour == 'cov':
        fl = [x for x in fl if x != '-O1'] + ['-O0', '--coverage', '-DUTAPDUMP_COV']
    return fl


def _repo_hash(deps):
    """content hash of the dependencies that live in /repo (time stamps of a restored or copied tree say nothing)"""
    import hashlib
    h = hashlib.sha256()
    for d in sorted(deps):
        if d.startswith(REPO + os.sep) and os.path.isfile(d):
            h.update(d.encode()); h.update(open(d, 'rb').read())
    return h.hexdigest()


def _newer(target, deps):
    if not os.path.exists(target):
        return True
    t = os.path.getmtime(target)
    if any(os.path.getmtime(d) > t for d in deps if os.path.exists(d)):
        return True
    stamp = target + '.repo-sha256'
    return not os.path.exists(stamp) or open(stamp).read().strip() != _repo_hash(deps)


def _record(target, deps):
    open(target + '.repo-sha256', 'w').write(_repo_hash(deps))


def build_bin(name, sources, flavour='rel', link_lib=True, extra=(), header_deps=()):
    """compile a harness program against the freshly built library"""
    out = os.path.join(BIN, name + ('' if flavour == 'rel' else '-' + flavour))
    srcs = [os.path.join(VERIF, 'harness', s) for s in sources]
    deps = list(srcs) + [os.path.join(VERIF, 'harness', h) for h in os.listdir(os.path.join(VERIF, 'harness')) if h.endswith('.h')]
    deps += list(header_deps)
    lib = None
    if link_lib:
        lib = build_lib(flavour)
        deps.append(lib)
    else:
        # header-only programs still depend on the repo's public headers
        inc = os.path.join(REPO, 'include', 'utap')
        deps += [os.path.join(inc, f) for f in os.listdir(inc)]
    with Lock('bin-' + name + flavour):
        if _newer(out, deps):
            cmd = ['g++'] + lib_flags(flavour) + list(extra) + srcs + ['-o', out]
            if link_lib:
                cmd += [lib, '-lxml2', '-ldl']
            rc, o, e = sh(cmd, timeout=1800)
            if rc != 0:
                raise RepoBroken('harness %s does not compile against the current tree:\n%s' % (name, e[-3000:]))
            _record(out, deps)
    return out


# ------------------------------------------------------------------------------------------------
# Coq
def coq_makefile():
    files = []
    for root, _, fs in os.walk(os.path.join(COQ, 'theories')):
        for f in sorted(fs):
            if f.endswith('.v'):
                files.append(os.path.relpath(os.path.join(root, f), COQ))
    files.sort()
    proj = open(os.path.join(COQ, '_CoqProject')).read().rstrip('\n') + '\n' + '\n'.join(files) + '\n'
    gen = os.path.join(COQ, '_CoqProject.full')
    old = open(gen).read() if os.path.exists(gen) else None
    if old != proj or not os.path.exists(os.path.join(COQ, 'Makefile')):
        open(gen, 'w').write(proj)
        rc, o, e = sh(['coq_makefile', '-f', '_CoqProject.full', '-o', 'Makefile'], cwd=COQ, timeout=120)
        if rc != 0:
            raise RuntimeError('coq_makefile failed: ' + e)


def coq_build(module, timeout=3000):
    """full .vo build of theories/<module>.vo and its dependencies; returns (ok, log)"""
    with Lock('coq'):
        coq_makefile()
        t0 = time.time()
        rc, o, e = sh(['timeout', str(timeout), 'make', '-k', '-j16', 'theories/%s.vo' % module], cwd=COQ, timeout=timeout + 60)
    log = o + e
    open(os.path.join(WORK, 'coq-%s.log' % module.replace('/', '_')), 'w').write(log)
    ok = rc == 0 and os.path.exists(os.path.join(COQ, 'theories', module + '.vo'))
    return ok, log


def regen_for(module):
    """regenerate, from /repo's working tree, every gen/ table the module imports (transitively); -> [(table, error)]"""
    seen, gens, todo = set(), [], [module]
    while todo:
        m = todo.pop()
        if m in seen:
            continue
        seen.add(m)
        path = os.path.join(COQ, 'theories', m + '.v')
        if not os.path.exists(path):
            continue
        for line in open(path):
            mm = re.match(r'\s*From\s+Utap(\.gen)?\s+Require\s+(?:Import|Export)\s+(.*?)\.\s*$', line)
            if mm:
                for x in mm.group(2).split():
                    x = x.split('.')[-1]
                    if x.startswith('Gen_'):
                        if x not in gens: gens.append(x)
                    else:
                        todo.append(x)
    errs = []
    for g in gens:
        try:
            with Lock('regen'):
                if g == 'Gen_OpTable':
                    import exprgen; exprgen.Table()
                elif g == 'Gen_PrintPrec':
                    import gen_prec; gen_prec.write()
                elif g == 'Gen_Sizes':
                    import gen_prec; gen_prec.write_sizes()
                elif g == 'Gen_LR':
                    import gen_lr; gen_lr.write()
                elif g == 'Gen_StartCond':
                    import gen_lex; gen_lex.startcond_table()
                elif g == 'Gen_CommentRules':
                    import gen_lex; gen_lex.comment_rules()
                elif g == 'Gen_LexRules':
                    import gen_lex; gen_lex.lex_rules()
                elif g == 'Gen_NewlineActions':
                    import gen_lex; gen_lex.newline_actions()
                elif g == 'Gen_Builtins':
                    import gen_builtins; gen_builtins.write()
                elif g == 'Gen_Rules':
                    import gen_rules; gen_rules.write()
        except Exception as e:           # a translator that cannot read the source any more: the tie is broken, not the run
            errs.append((g, '%s: %s' % (type(e).__name__, e)))
    return errs


def theorem_names(module):
    src = open(os.path.join(COQ, 'theories', module + '.v')).read()
    src = re.sub(r'\(\*.*?\*\)', '', src, flags=re.S)
    return re.findall(r'^\s*(?:Theorem|Corollary)\s+([A-Za-z0-9_\']+)', src, flags=re.M)


def coq_assumptions(module, names):
    """Print Assumptions for each theorem of a compiled module; returns {name: [axioms]} (None = failed)"""
    d = os.path.join(WORK, 'assume')
    os.makedirs(d, exist_ok=True)
    short = module.split('/')[-1]
    f = os.path.join(d, 'Assume_%s.v' % short)
    body = 'From Utap Require Import %s.\n' % module.replace('/', '.')
    for n in names:
        body += 'Goal True. idtac "BEGIN %s". exact I. Qed.\nPrint Assumptions %s.\n' % (n, n)
    body += 'Goal True. idtac "BEGIN __end". exact I. Qed.\n'
    open(f, 'w').write(body)
    rc, o, e = sh(['timeout', '600', 'coqc', '-Q', os.path.join(COQ, 'theories'), 'Utap', f], cwd=d, timeout=700)
    res = {n: None for n in names}
    if rc != 0:
        return res, o + e
    cur = None
    for line in o.splitlines():
        m = re.match(r'BEGIN (\S+)', line)
        if m:
            cur = m.group(1)
            if cur in res:
                res[cur] = []
            continue
        if cur in res:
            if 'Closed under the global context' in line or line.strip() in ('', 'Axioms:'):
                continue
            m = re.match(r'^([A-Za-z_][\w\.\']*)\s*:', line)
            if m:
                res[cur].append(m.group(1))
    return res, o + e


FORBIDDEN = re.compile(r'^\s*(Axiom|Axioms|Parameter|Parameters|Conjecture|Hypothesis|Variable|Variables|Admitted|Admit Obligations)\b|\badmit\b|Unset\s+Guard|bypass_check|-type-in-type|impredicative-set|Unset\s+Universe\s+Checking|Unset\s+Positivity')


def forbidden_constructs():
    """declared axioms, admitted proofs, disabled kernel checks anywhere in the development (Variable / Hypothesis are allowed inside a Section only)"""
    out = []
    for root, _, fs in os.walk(os.path.join(COQ)):
        for f in fs:
            if not f.endswith('.v'):
                continue
            depth = 0
            for k, line in enumerate(open(os.path.join(root, f), errors='replace')):
                code = re.sub(r'\(\*.*?\*\)', '', line)
                if re.match(r'^\s*Section\b', code): depth += 1
                m = FORBIDDEN.search(code)
                if m:
                    word = (m.group(1) or m.group(0)).strip()
                    if word in ('Variable', 'Variables', 'Hypothesis') and depth > 0:
                        pass
                    else:
                        out.append('%s:%d %s' % (f, k + 1, word))
                if re.match(r'^\s*End\b', code) and depth > 0: depth -= 1
    for f in ('_CoqProject',):
        t = open(os.path.join(COQ, f)).read()
        if 'type-in-type' in t or 'impredicative-set' in t:
            out.append(f + ' passes a forbidden flag')
    return out


def check_proofs(module):
    """build + assumptions; returns dict(ok, obligations, discharged, axioms, failed, log_tail)"""
    names = theorem_names(module)
    ok, log = coq_build(module)
    axioms, failed = set(), []
    discharged = 0
    bad = forbidden_constructs()
    if bad:
        ok = False
        failed += ['forbidden construct: ' + b for b in bad[:5]]
        log += '\nforbidden constructs in the development: ' + '; '.join(bad[:5])
    if ok:
        res, alog = coq_assumptions(module, names)
        for n in names:
            if res[n] is None:
                failed.append(n)
            else:
                bad = [a for a in res[n] if a not in ALLOWED_AXIOMS]
                axioms.update(res[n])
                if bad:
                    failed.append(n + ' (axioms: %s)' % ','.join(bad))
                else:
                    discharged += 1
    else:
        m = re.findall(r'File "([^"]+)", line (\d+)[^\n]*\n(?:[^\n]*\n){0,6}', log)
        failed = ['%s does not compile' % module] + ['%s:%s' % x for x in m[:5]]
    return dict(ok=ok and not failed, obligations=len(names), discharged=discharged, names=names,
                axioms=sorted(axioms), failed=failed, log_tail=log[-1500:])


def build_extract(name, vfile, driver):
    """extract coq/extract/<vfile> (after the .vo files exist) and build the OCaml driver"""
    out = os.path.join(EXTRACT, driver)
    with Lock('extract-' + name):
        src_v = os.path.join(COQ, 'extract', vfile)
        src_d = os.path.join(COQ, 'extract', driver + '.ml')
        # the modules the extraction file imports must be rebuilt against the regenerated tables first
        for line in open(src_v):
            m = re.match(r'\s*From\s+Utap(?:\.gen)?\s+Require\s+Import\s+(.*?)\.\s*$', line)
            if m:
                for mod in m.group(1).split():
                    ok, log = coq_build(('gen/' if 'Utap.gen' in line else '') + mod)
                    if not ok:
                        return None, 'module %s does not build: %s' % (mod, log[-1500:])
        vos = [os.path.join(r, f) for r, _, fs in os.walk(os.path.join(COQ, 'theories')) for f in fs if f.endswith('.vo')]
        if _newer(out, [src_v, src_d] + vos):
            rc, o, e = sh(['timeout', '900', 'coqc', '-Q', os.path.join(COQ, 'theories'), 'Utap', src_v], cwd=EXTRACT, timeout=1000)
            if rc != 0:
                return None, 'extraction failed: ' + (o + e)[-2000:]
            shutil.copy(src_d, EXTRACT)
            ml = 'model_%s' % name
            rc, o, e = sh(['ocamlfind', 'ocamlopt', '-O3', '-w', '-a', ml + '.mli', ml + '.ml', driver + '.ml', '-o', driver],
                          cwd=EXTRACT, timeout=900)
            if rc != 0:
                rc, o, e = sh(['ocamlfind', 'ocamlopt', '-w', '-a', ml + '.mli', ml + '.ml', driver + '.ml', '-o', driver],
                              cwd=EXTRACT, timeout=900)
            if rc != 0:
                return None, 'ocaml build failed: ' + (o + e)[-2000:]
    return out, ''


# ------------------------------------------------------------------------------------------------
# findings, evidence, verdict
def load_findings(prop):
    p = os.path.join(VERIF, 'known_findings.jsonl')
    res = []
    if os.path.exists(p):
        for line in open(p):
            line = line.strip()
            if line and not line.startswith('#'):
                j = json.loads(line)
                if j.get('property') == prop:
                    res.append(j)
    return res


def write_replay(prop, obj):
    s = json.dumps(obj, indent=1, sort_keys=True, default=str)
    h = hashlib.sha1(s.encode()).hexdigest()[:10]
    p = os.path.join(REPLAY, '%s-%s.json' % (prop, h))
    open(p, 'w').write(s)
    return p


class Run:
    """one execution of one property's check"""
    def __init__(self, prop, tier, seed):
        self.prop, self.tier, self.seed = prop, tier, seed
        self.t0 = time.time()
        self.rng = random.Random(seed)
        self.violations = []        # (what, replay_obj, has_input)
        self.known = []             # findings matched
        self.cov = dict(evaluations=0, distinct_nontrivial=0, rule='', samples=[], obligations=0, discharged=0,
                        checker_cmd='make -C coq theories/Properties_%s.vo (coqc 8.16.1, full .vo build) + Print Assumptions per theorem' % prop,
                        trusted_base=[], traces_validated_against_impl=0)
        self.assumptions = []
        self.broken = []            # proof / tie obligations that no longer check
        self.findings = load_findings(prop)
        self._shapes = set()

    def proofs(self, module=None):
        module = module or 'Properties_' + self.prop
        for gen, err in regen_for(module):
            self.tie_broken('translator of %s from the current source' % gen, err)
        r = check_proofs(module)
        self.cov['obligations'] += r['obligations']
        self.cov['discharged'] += r['discharged']
        self.cov.setdefault('theorems', []).extend(r['names'])
        self.cov['trusted_base'] += ['Coq 8.16.1 kernel + vm_compute', 'axioms reported by Print Assumptions: ' +
                                     (', '.join(r['axioms']) if r['axioms'] else 'none (closed under the global context)')]
        if not r['ok']:
            self.broken.append(dict(kind='proof', module=module, failed=r['failed'], log=r['log_tail']))
        return r

    def tie_broken(self, what, detail):
        self.broken.append(dict(kind='tie', what=what, detail=detail))

    def fail(self, what, replay_obj, shape=None):
        """a concrete input on which the property fails on the real implementation"""
        shape = shape or what
        if shape in self._shapes:
            return
        self._shapes.add(shape)
        for f in self.findings:
            if f.get('status') == 'open' and f.get('shape') == shape:
                if f not in self.known:
                    self.known.append(f)
                return
        self.violations.append((what, replay_obj))

    def finish(self, level='proof', assumptions=()):
        prop = self.prop
        for f in self.known:
            print('KNOWN-FINDING: property=%s %s' % (prop, f.get('what', f.get('shape'))))
        rc = 0
        seen = set()
        for what, obj in self.violations[:20]:
            p = write_replay(prop, dict(property=prop, what=what, replay=obj))
            if p in seen:
                continue
            seen.add(p)
            print('VIOLATION property=%s replay=%s' % (prop, p))
            rc = 1
        if not self.violations and self.broken:
            p = write_replay(prop, dict(property=prop, what='obligations that no longer check; no failing input found',
                                        broken=self.broken))
            print('VIOLATION property=%s replay=%s no-failing-input-found' % (prop, p))
            rc = 1
        elif self.violations and self.broken:
            for b in self.broken:
                print('NOTE property=%s broken obligation: %s' % (prop, json.dumps(b)[:300]))
        ev = dict(property_id=prop, tier=self.tier, seed=self.seed, level=level, coverage=self.cov,
                  assumptions=list(assumptions) + self.assumptions, wall_s=round(time.time() - self.t0, 2),
                  violations=len(self.violations) + (1 if (self.broken and not self.violations) else 0))
        ev['coverage']['known_findings_replayed'] = [f.get('id') for f in self.known]
        ev['coverage']['broken_obligations'] = self.broken
        open(os.path.join(VERIF, 'evidence', prop + '.json'), 'w').write(json.dumps(ev, indent=1, default=str) + '\n')
        return rc


# ------------------------------------------------------------------------------------------------
# utapdump jobs
def build_utapdump(flavour='rel'):
    import gen_kinds, gen_trace
    gen_kinds.write_header()
    gen_trace.write()
    return build_bin('utapdump', ['utapdump.cpp'], flavour, extra=['-I' + os.path.join(WORK, 'gen')],
                     header_deps=[os.path.join(WORK, 'gen', 'kinds_gen.h'), os.path.join(VERIF, 'harness', 'trace_gen.h')])


class Job:
    """builds the byte stream utapdump reads"""
    def __init__(self):
        self.parts = []
        self.ids = []
    def case(self, cid, fork=False, old=False):
        self.ids.append(cid)
        self.parts.append(('CASE %s%s%s\n' % (cid, ' fork' if fork else '', ' old' if old else '')).encode())
        return self
    def data(self, op, arg, text):
        b = text if isinstance(text, bytes) else text.encode('utf-8', 'surrogateescape')
        head = '%s %s %d\n' % (op, arg, len(b)) if arg != '' else '%s %d\n' % (op, len(b))
        self.parts.append(head.encode() + b + b'\n')
        return self
    def model(self, kind, text): return self.data('MODEL', kind, text)
    def other(self, kind, text): return self.data('OTHER', kind, text)
    def expr(self, text): return self.data('EXPR', '', text)
    def texpr(self, text): return self.data('TEXPR', '', text)
    def rt(self, text): return self.data('RT', '', text)
    def laws(self, text): return self.data('LAWS', '', text)
    def query(self, text, rt=True): return self.data('QUERY', 'rt' if rt else 'plain', text)
    def part(self, partno, text): return self.data('PART', str(partno), text)
    def trace(self, what, text): return self.data('TRACE', str(what), text)
    def pretty(self, partno, text): return self.data('PRETTY', str(partno), text)
    def prettyq(self, text): return self.data('PRETTYQ', '', text)
    def cmd(self, line):
        self.parts.append((line + '\n').encode())
        return self
    def dump(self, what): return self.cmd('DUMP ' + what)
    def end(self): return self.cmd('END')
    def bytes(self): return b''.join(self.parts)


def parse_dump(out):
    """-> {case id: dict(status=..., cmds=[(op, arg, [lines])])}"""
    res, cur, cmd = {}, None, None
    for line in out.split('\n'):
        if line.startswith('== '):
            cur = dict(status='MISSING', cmds=[])
            res[line[3:].strip()] = cur
            cmd = None
        elif line.startswith('-- ') and cur is not None:
            cur['status'] = line.split(' ', 2)[2] if line.count(' ') >= 2 else '?'
            cur = None
        elif cur is not None:
            if line.startswith('#') and re.match(r'#\d+ ', line):
                p = line.split(' ')
                cmd = (p[1], p[2] if len(p) > 2 else '', [])
                cur['cmds'].append(cmd)
            elif cmd is not None:
                cmd[2].append(line)
    return res


def run_jobs(job, flavour='rel', timeout=3000, shards=16, env=None):
    """runs the job (a Job, split per case over `shards` processes) and returns parse_dump's dict"""
    if os.environ.get('VERIF_FLAVOUR') and flavour == 'rel':
        flavour = os.environ['VERIF_FLAVOUR']          # development aid: run a check against the gcov build
    exe = build_utapdump(flavour)
    # split at CASE boundaries
    blob = job.bytes()
    idx = [m.start() for m in re.finditer(rb'(?m)^CASE ', blob)]
    cases = [blob[a:b] for a, b in zip(idx, idx[1:] + [len(blob)])]
    shards = max(1, min(shards, len(cases)))
    chunks = [b''.join(cases[i::shards]) for i in range(shards)]
    e = dict(os.environ)
    e['ASAN_OPTIONS'] = 'detect_leaks=0:abort_on_error=1:allocator_may_return_null=1'
    e['UBSAN_OPTIONS'] = 'halt_on_error=1:abort_on_error=1:print_stacktrace=1'
    e['UTAP_VERIF_NO_DLOPEN'] = '1'
    if env:
        e.update(env)
    procs = [subprocess.Popen([exe], stdin=subprocess.PIPE, stdout=subprocess.PIPE, stderr=subprocess.PIPE, env=e) for _ in chunks]
    import threading
    outs = [None] * len(procs)
    def feed(i):
        try:
            o, er = procs[i].communicate(chunks[i], timeout=timeout)
        except subprocess.TimeoutExpired:
            procs[i].kill()
            o, er = procs[i].communicate()
        outs[i] = (o.decode('utf-8', 'replace'), er.decode('utf-8', 'replace'), procs[i].returncode)
    th = [threading.Thread(target=feed, args=(i,)) for i in range(len(procs))]
    for t in th: t.start()
    for t in th: t.join()
    res = {}
    stderr_tail = ''
    for o, er, rc in outs:
        res.update(parse_dump(o))
        if rc != 0:
            stderr_tail += er[-1500:]
    for cid in job.ids:
        if cid not in res:
            res[cid] = dict(status='MISSING', cmds=[])
    # a non-forked shard that died takes the rest of its cases with it: mark the first unfinished one
    res['_stderr'] = stderr_tail
    return res
