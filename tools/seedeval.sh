#!/bin/bash
# usage: seedeval.sh Cxx  — confirm a sub-agent's seeded change (tests pass, demo differs) and run the check against it
id=$1; out=${2:-/tmp/seed_out}/$id; wt=/tmp/wt_$id
V=${VERIF_DIR:-/verif}; R=${UTAP_REPO:-/repo}; export UTAP_REPO=$R
echo "== $id: $(python3 -c "import json;print(json.load(open('$out/meta.json')).get('summary','')[:200])" 2>/dev/null)"
( cd $wt && cmake --build _build -j16 >/dev/null 2>&1; ctest --test-dir _build -j8 2>&1 | grep "tests passed" )
if [ -f $out/demo.cpp ]; then
  ( cd $wt && g++ -std=c++17 -w -I include -I _build/src/include -I src -isystem /usr/include/libxml2 $out/demo.cpp _build/src/libUTAP.a -lxml2 -ldl -o /tmp/demo_${id}_changed 2>&1 | tail -3 )
  ( cd $R && g++ -std=c++17 -w -I include -I _build/src/include -I src -isystem /usr/include/libxml2 $out/demo.cpp _build/src/libUTAP.a -lxml2 -ldl -o /tmp/demo_${id}_unchanged 2>&1 | tail -3 )
  (cd /tmp && timeout 120 /tmp/demo_${id}_unchanged > /tmp/demo_${id}_unchanged.txt 2>&1; timeout 120 /tmp/demo_${id}_changed > /tmp/demo_${id}_changed.txt 2>&1)
  if cmp -s /tmp/demo_${id}_unchanged.txt /tmp/demo_${id}_changed.txt; then echo "DEMO: no difference"; else echo "DEMO: outputs differ ($(wc -l < /tmp/demo_${id}_unchanged.txt) vs $(wc -l < /tmp/demo_${id}_changed.txt) lines)"; diff /tmp/demo_${id}_unchanged.txt /tmp/demo_${id}_changed.txt | head -8; fi
fi
git -C $R apply --check $out/patch.diff && git -C $R apply $out/patch.diff && ( cd $V && ./check $id 2>&1 | grep -v "^KNOWN" | cut -c1-300 | head -4; echo "check exit: ${PIPESTATUS[0]}" ); git -C $R checkout -- .; git -C $V checkout -- evidence/$id.json 2>/dev/null   # the evidence of a run against a changed tree is not the record of the unchanged one
