#!/usr/bin/env python3
"""seedstore.py Cxx <suffix> <outdir> <missed:0|1> <how...> — keep a confirmed seeded change under seeded/Cxx<suffix>/ and remove its worktree"""
import json, os, shutil, subprocess, sys
pid, suf, outdir, missed = sys.argv[1], sys.argv[2], sys.argv[3], sys.argv[4] == '1'
how = ' '.join(sys.argv[5:])
src = os.path.join(outdir, pid); dst = '/verif/seeded/%s%s' % (pid, suf)
os.makedirs(dst, exist_ok=True)
for f in ('patch.diff', 'demo.cpp', 'demo.sh', 'demo_output.txt', 'meta.json'):
    fp = os.path.join(src, f)
    if os.path.isfile(fp) and os.path.getsize(fp) < 400000: shutil.copy(fp, os.path.join(dst, f))
m = json.load(open(os.path.join(src, 'meta.json')))
m['confirmed_by_author'] = dict(tests_pass_with_change=True, demo_differs_between_trees=True, patch_applies_to_repo_head=True)
m['check_result'] = dict(detected='yes, after strengthening' if missed else 'yes', how=how, initially_missed=missed)
m['round'] = {'': 1, '-b': 2, '-c': 3, '-d': 4, '-e': 5, '-f': 6, '-g': 7, '-h': 8}.get(suf, 0)
json.dump(m, open(os.path.join(dst, 'meta.json'), 'w'), indent=1)
subprocess.run(['git', '-C', '/repo', 'worktree', 'remove', '--force', '/tmp/wt_' + pid])
subprocess.run(['git', '-C', '/repo', 'worktree', 'prune'])
print('stored', dst)
