(* C04: template parameters in the 3.x syntax.  A parameter list is a sequence of groups separated by ';': `T a, b` declares every name of the
   group as a reference to T, `const a, b` declares every name as a constant integer by value.  The grammar (OldProcParamList, OldProcParam,
   OldProcConstParam) turns a list into builder callbacks that work on the stack of type fragments; the model is that translation and the effect of
   the callbacks, the specification is the list of parameters one reads off the text.  The callback sequences of the four productions are compared
   with the regenerated grammar on every run (tools/props/C04.py, old_parameter_facts). *)
From Coq Require Import List Arith Bool.
Import ListNotations.

Inductive gkind := ByRef | ConstVal.
Record group := mkgroup { g_kind : gkind; g_names : list nat }.
Record param := mkparam { p_name : nat; p_ref : bool; p_const : bool }.

(* what the text says *)
Definition spec_group (g : group) : list param :=
  map (fun n => match g_kind g with ByRef => mkparam n true false | ConstVal => mkparam n false true end) (g_names g).
Definition spec (gs : list group) : list param := flat_map spec_group gs.

(* builder callbacks on the type-fragment stack (an entry records whether the type is constant) *)
Inductive pcb := PushType | TypeDup | TypeIntConst | DeclParam (n : nat) (ref : bool) | TypePop.
Record pstate := mkps { ps_types : list bool; ps_params : list param; ps_underflow : bool }.
Definition pstep (s : pstate) (c : pcb) : pstate :=
  match c, ps_types s with
  | PushType, ts => mkps (false :: ts) (ps_params s) (ps_underflow s)
  | TypeIntConst, ts => mkps (true :: ts) (ps_params s) (ps_underflow s)
  | TypeDup, t :: ts => mkps (t :: t :: ts) (ps_params s) (ps_underflow s)
  | DeclParam n r, t :: ts => mkps ts (ps_params s ++ [mkparam n r t]) (ps_underflow s)
  | TypePop, t :: ts => mkps ts (ps_params s) (ps_underflow s)
  | _, [] => mkps [] (ps_params s) true
  end.
Definition prun (cs : list pcb) (s : pstate) : pstate := fold_left pstep cs s.

(* the grammar: the first name of a group and every further one issue the same pair of callbacks; a reference group leaves its type on the stack, which
   OldProcParamList pops when the group ends *)
Definition cbs_group (g : group) : list pcb :=
  match g_kind g with
  | ByRef => PushType :: flat_map (fun n => [TypeDup; DeclParam n true]) (g_names g) ++ [TypePop]
  | ConstVal => flat_map (fun n => [TypeIntConst; DeclParam n false]) (g_names g)
  end.
Definition cbs (gs : list group) : list pcb := flat_map cbs_group gs.

Lemma prun_cat a b s : prun (a ++ b) s = prun b (prun a s).
Proof. unfold prun. apply fold_left_app. Qed.

Lemma run_ref_names ns : forall t ts ps u,
  prun (flat_map (fun n => [TypeDup; DeclParam n true]) ns) (mkps (t :: ts) ps u) = mkps (t :: ts) (ps ++ map (fun n => mkparam n true t) ns) u.
Proof.
  induction ns as [|n ns IH]; intros t ts ps u; cbn [flat_map map]; [now rewrite app_nil_r|].
  cbn [app]. unfold prun in *. cbn [fold_left pstep ps_types ps_params ps_underflow]. rewrite IH. now rewrite <- app_assoc.
Qed.
Lemma run_const_names ns : forall ts ps u,
  prun (flat_map (fun n => [TypeIntConst; DeclParam n false]) ns) (mkps ts ps u) = mkps ts (ps ++ map (fun n => mkparam n false true) ns) u.
Proof.
  induction ns as [|n ns IH]; intros ts ps u; cbn [flat_map map]; [now rewrite app_nil_r|].
  cbn [app]. unfold prun in *. cbn [fold_left pstep ps_types ps_params ps_underflow]. rewrite IH. now rewrite <- app_assoc.
Qed.
Lemma run_group g ts ps u : prun (cbs_group g) (mkps ts ps u) = mkps ts (ps ++ spec_group g) u.
Proof.
  unfold cbs_group, spec_group. destruct (g_kind g).
  - change (PushType :: ?l) with ([PushType] ++ l). rewrite !prun_cat. unfold prun at 3. cbn [fold_left pstep ps_types ps_params ps_underflow].
    rewrite run_ref_names. unfold prun. cbn. reflexivity.
  - apply run_const_names.
Qed.

(* every parameter list: the parameters built are those of the text, in order, nothing added or dropped, each with the kind of its group; the type stack is
   back where it was and never underflows *)
Theorem old_parameters_mirror_the_text gs : forall ts ps u, prun (cbs gs) (mkps ts ps u) = mkps ts (ps ++ spec gs) u.
Proof.
  induction gs as [|g gs IH]; intros ts ps u; cbn [cbs spec flat_map]; [unfold prun; cbn; now rewrite app_nil_r|].
  fold (cbs gs). fold (spec gs). rewrite prun_cat, run_group, IH, <- app_assoc. reflexivity.
Qed.
Corollary old_parameters gs : prun (cbs gs) (mkps [] [] false) = mkps [] (spec gs) false.
Proof. apply (old_parameters_mirror_the_text gs [] [] false). Qed.
Corollary old_parameter_names gs : map p_name (ps_params (prun (cbs gs) (mkps [] [] false))) = flat_map g_names gs.
Proof.
  rewrite old_parameters. cbn [ps_params]. unfold spec. induction gs as [|g gs IH]; [reflexivity|]. cbn [flat_map]. rewrite map_app, IH. f_equal.
  unfold spec_group. rewrite map_map. destruct (g_kind g); cbn; now rewrite map_id.
Qed.

(* the slip of a continuation that declares by reference (`OldProcConstParam ',' ... decl_parameter($4, true)`) is visible from two names on *)
Definition cbs_group_slip (g : group) : list pcb :=
  match g_kind g, g_names g with
  | ConstVal, n :: ns => [TypeIntConst; DeclParam n false] ++ flat_map (fun n => [TypeIntConst; DeclParam n true]) ns
  | _, _ => cbs_group g
  end.
Example slip_differs : ps_params (prun (flat_map cbs_group_slip [mkgroup ConstVal [1; 2]]) (mkps [] [] false)) <> spec [mkgroup ConstVal [1; 2]]
                    /\ ps_params (prun (flat_map cbs_group_slip [mkgroup ConstVal [1]; mkgroup ByRef [2; 3]]) (mkps [] [] false)) = spec [mkgroup ConstVal [1]; mkgroup ByRef [2; 3]].
Proof. split; [cbn; intro H; inversion H | reflexivity]. Qed.
