(* C18 — interval operations of range_t agree with their set semantics (integral instances).
   Only statements here; every proof is `exact <lemma of RangeProofs>`. *)
From Utap Require Import RangeDefs RangeProofs.
Local Open Scope Z_scope.

Section C18.
Variables lo hi : Z.                 (* numeric_limits<T>::min() / max() of the element type *)

Theorem C18_gt r e x : fits lo hi (e + 1) -> mem x (gt lo hi r e) <-> mem x r /\ e < x.
Proof. exact (gt_spec lo hi r e x). Qed.
Theorem C18_lt r e x : fits lo hi (e - 1) -> mem x (lt lo hi r e) <-> mem x r /\ x < e.
Proof. exact (lt_spec lo hi r e x). Qed.
Theorem C18_geq r e x : mem x (geq r e) <-> mem x r /\ e <= x.
Proof. exact (geq_spec r e x). Qed.
Theorem C18_leq r e x : mem x (leq r e) <-> mem x r /\ x <= e.
Proof. exact (leq_spec r e x). Qed.
Theorem C18_intersection r o x : mem x (and_r r o) <-> mem x r /\ mem x o.
Proof. exact (and_r_spec r o x). Qed.
Theorem C18_intersection_elem r e x : mem x (and_e r e) <-> mem x r /\ x = e.
Proof. exact (and_e_spec r e x). Qed.
Theorem C18_convex_union r o x : nonempty r -> nonempty o ->
  mem x (or_r r o) <-> exists y z, (mem y r \/ mem y o) /\ (mem z r \/ mem z o) /\ y <= x <= z.
Proof. exact (or_r_hull r o x). Qed.
Theorem C18_convex_union_elem r e x : nonempty r ->
  mem x (or_e r e) <-> exists y z, (mem y r \/ y = e) /\ (mem z r \/ z = e) /\ y <= x <= z.
Proof. exact (or_e_hull r e x). Qed.
Theorem C18_plus r o : nonempty r -> nonempty o ->
  fits lo hi (start r + start o) -> fits lo hi (finish r + finish o) ->
  tight (fun v => exists x y, mem x r /\ mem y o /\ v = x + y) (add_r lo hi r o).
Proof. exact (add_r_tight lo hi r o). Qed.
Theorem C18_plus_elem r e : nonempty r -> fits lo hi (start r + e) -> fits lo hi (finish r + e) ->
  tight (fun v => exists x, mem x r /\ v = x + e) (add_e lo hi r e).
Proof. exact (add_e_tight lo hi r e). Qed.
Theorem C18_minus r o : nonempty r -> nonempty o ->
  fits lo hi (start r - finish o) -> fits lo hi (finish r - start o) ->
  tight (fun v => exists x y, mem x r /\ mem y o /\ v = x - y) (sub_r lo hi r o).
Proof. exact (sub_r_tight lo hi r o). Qed.
Theorem C18_minus_elem r e : nonempty r -> fits lo hi (start r - e) -> fits lo hi (finish r - e) ->
  tight (fun v => exists x, mem x r /\ v = x - e) (sub_e lo hi r e).
Proof. exact (sub_e_tight lo hi r e). Qed.
Theorem C18_times r o : nonempty r -> nonempty o ->
  fits lo hi (start r * start o) -> fits lo hi (start r * finish o) ->
  fits lo hi (finish r * start o) -> fits lo hi (finish r * finish o) ->
  tight (fun v => exists x y, mem x r /\ mem y o /\ v = x * y) (mul_r lo hi r o).
Proof. exact (mul_r_tight lo hi r o). Qed.
Theorem C18_times_elem r e : nonempty r -> fits lo hi (start r * e) -> fits lo hi (finish r * e) ->
  tight (fun v => exists x, mem x r /\ v = x * e) (mul_e lo hi r e).
Proof. exact (mul_e_tight lo hi r e). Qed.
Theorem C18_contains r e : contains r e = true <-> mem e r.
Proof. exact (contains_spec r e). Qed.
Theorem C18_intersects r o : nonempty r -> nonempty o ->
  intersects r o = true <-> exists x, mem x r /\ mem x o.
Proof. exact (intersects_spec r o). Qed.
Theorem C18_equal r o : eq_r r o = true <-> (forall x, mem x r <-> mem x o).
Proof. exact (eq_r_spec r o). Qed.
Theorem C18_equal_elem r e : eq_e r e = true <-> (forall x, mem x r <-> x = e).
Proof. exact (eq_e_spec r e). Qed.
Theorem C18_strictly_below r o : nonempty r -> nonempty o ->
  r_lt r o = true <-> (forall x y, mem x r -> mem y o -> x < y).
Proof. exact (r_lt_spec r o). Qed.
Theorem C18_strictly_above r o : nonempty r -> nonempty o ->
  r_gt r o = true <-> (forall x y, mem x r -> mem y o -> x > y).
Proof. exact (r_gt_spec r o). Qed.
Theorem C18_size r : finish r - start r < 2^32 - 1 ->
  size r = Z.of_nat (length (members r)) /\ NoDup (members r) /\ (forall x, In x (members r) <-> mem x r).
Proof. intros H. split; [exact (size_spec r H)|split; [exact (members_nodup r)|exact (members_spec r)]]. Qed.
End C18.

(* non-vacuity: the hypotheses are met by concrete int8_t ranges *)
Example C18_nonvacuous :
  (-128 <= 127) /\ nonempty (mkr (-3) 5) /\ fits (-128) 127 (5 + 1) /\ fits (-128) 127 ((-3) * 5)
  /\ lt (-128) 127 (mkr 0 10) 5 = mkr 0 4 /\ gt (-128) 127 (mkr 0 10) 5 = mkr 6 10.
Proof. unfold nonempty, fits; cbn. repeat split; try lia; reflexivity. Qed.
