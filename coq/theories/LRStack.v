(* C01 / C16: stack discipline of the builder under the LR parser, for every token stream and every error recovery.

   The parser is modelled as the nondeterministic machine of its LR automaton: shift any terminal the current state has a
   transition for, reduce by any rule the state lists (whatever the lookahead: a superset of what bison's tables do,
   default reductions included), pop any number of entries (error recovery discards states; the `error` token is then
   shifted like any terminal).  One builder stack is tracked by its height H, relative to its height when the parse
   started.  Each rule's action has an effect (need, lo): it reads `need` entries and changes the height by at least `lo`;
   both may depend linearly on the semantic values of the rule's right-hand side (the counting non-terminals ArgList,
   FieldInitList, ...).

   A certificate (contribution a + b * value per symbol, potential h per state) is checked by boolean functions; the
   theorem says that a checked certificate excludes every underflow: no run ever executes an action that reads more
   entries than this parse itself has pushed.  Automaton, rules, effects and certificate are regenerated from parser.y
   (bison --xml) on every run; the certificate is computed by an untrusted pass and only checked here. *)
From Coq Require Import List ZArith Lia Bool PArith FMapPositive.
Import ListNotations.
Local Open Scope Z_scope.

Definition sym := positive.
Definition state := positive.
Definition rid := positive.

(* ---------- linear forms over the semantic values v_1..v_n of a right-hand side ---------- *)
Record lin := mklin { l_const : Z; l_coef : list Z }.
Fixpoint dot (k : list Z) (v : list nat) : Z :=
  match k, v with a :: k', x :: v' => a * Z.of_nat x + dot k' v' | _, _ => 0 end.
Definition eval (l : lin) (v : list nat) : Z := l_const l + dot (l_coef l) v.
Fixpoint coefs_le (k1 k2 : list Z) : bool :=
  match k1, k2 with
  | [], _ => forallb (fun b => 0 <=? b) k2
  | a :: k1', [] => (a <=? 0) && coefs_le k1' []
  | a :: k1', b :: k2' => (a <=? b) && coefs_le k1' k2'
  end.
Definition lin_le (l1 l2 : lin) : bool := (l_const l1 <=? l_const l2) && coefs_le (l_coef l1) (l_coef l2).
Fixpoint zip_add (a b : list Z) : list Z :=
  match a, b with [], _ => b | _, [] => a | x :: a', y :: b' => (x + y) :: zip_add a' b' end.
Definition lin_add (l1 l2 : lin) : lin := mklin (l_const l1 + l_const l2) (zip_add (l_coef l1) (l_coef l2)).
Definition lin_scale (c : Z) (l : lin) : lin := mklin (c * l_const l) (map (Z.mul c) (l_coef l)).

Record rule := mkrule { r_lhs : sym; r_rhs : list sym; r_val : option lin; r_need : lin; r_lo : lin }.
(* s_canerr: the state has no default reduction, so bison can detect a syntax error in it *)
Record sinfo := mksinfo { s_items : list (rid * nat); s_trans : list (sym * state); s_reds : list rid; s_canerr : bool }.
Record grammar := mkgrammar { g_states : PositiveMap.t sinfo; g_rules : PositiveMap.t rule; g_term : sym -> bool; g_init : state; g_err : sym -> bool }.
(* g_err: the `error` token; the generator may give the error position of a rule its own copy of the symbol, so that it can carry
   its own contribution (the consistency of such a relabelling with the items is part of what check_all verifies) *)
(* contribution a + b * value per symbol; h: lower bound of the content below a state; g: lower bound of what lies between a
   state that can shift `error` and a state above it (mid-rule actions that consume what an earlier symbol of their rule
   pushed have a negative contribution: g shows that recovery never stops between the two) *)
Record cert := mkcert { c_a : sym -> Z; c_b : sym -> Z; c_h : state -> Z; c_g : state -> Z }.

Definition entry := (state * sym * nat)%type.
Definition e_state (e : entry) : state := fst (fst e).
Definition e_sym (e : entry) : sym := snd (fst e).
Definition e_val (e : entry) : nat := snd e.
Definition info (G : grammar) (s : state) : sinfo := match PositiveMap.find s (g_states G) with Some i => i | None => mksinfo [] [] [] false end.
Definition top (G : grammar) (st : list entry) : state := match st with e :: _ => e_state e | [] => g_init G end.
Definition has_trans (G : grammar) (p : state) (x : sym) (q : state) : Prop := In (x, q) (s_trans (info G p)).
Definition recov (G : grammar) (p : state) : bool := existsb (fun xq => g_err G (fst xq)) (s_trans (info G p)).

(* ---------- the machine ---------- *)
Inductive step (G : grammar) : list entry * Z -> list entry * Z -> Prop :=
| Shift st H x q v : g_term G x = true -> has_trans G (top G st) x q -> step G (st, H) ((q, x, v) :: st, H)
(* error recovery: an error is detected in a state without default reduction; entries are discarded down to the first state
   that shifts `error`, which is then shifted *)
| Recover st H k x q v : s_canerr (info G (top G st)) = true -> (forall j, (j < k)%nat -> recov G (top G (skipn j st)) = false) ->
    g_err G x = true -> has_trans G (top G (skipn k st)) x q -> step G (st, H) ((q, x, v) :: skipn k st, H)
| Reduce st H r ru ents rest q v' H' :
    In r (s_reds (info G (top G st))) -> PositiveMap.find r (g_rules G) = Some ru ->
    st = ents ++ rest -> length ents = length (r_rhs ru) ->
    has_trans G (top G rest) (r_lhs ru) q ->
    (match r_val ru with Some f => v' = Z.to_nat (eval f (map e_val (rev ents))) | None => True end) ->
    H + eval (r_lo ru) (map e_val (rev ents)) <= H' ->
    step G (st, H) ((q, r_lhs ru, v') :: rest, H').
Inductive reach (G : grammar) : list entry * Z -> Prop :=
| reach0 : reach G ([], 0)
| reachS c c' : reach G c -> step G c c' -> reach G c'.
(* an action is about to run with fewer entries (pushed by this parse) than it reads *)
Definition underflow (G : grammar) (c : list entry * Z) : Prop :=
  exists r ru ents rest, In r (s_reds (info G (top G (fst c)))) /\ PositiveMap.find r (g_rules G) = Some ru /\
    fst c = ents ++ rest /\ length ents = length (r_rhs ru) /\ snd c < eval (r_need ru) (map e_val (rev ents)).

(* ---------- the checks ---------- *)
Definition rhs_lin (C : cert) (rhs : list sym) : lin := mklin (fold_right (fun x acc => c_a C x + acc) 0 rhs) (map (c_b C) rhs).
Definition has_item (its : list (rid * nat)) (r : rid) (d : nat) : bool := existsb (fun it => Pos.eqb (fst it) r && Nat.eqb (snd it) d) its.
Definition check_item_step (G : grammar) (p : state) (x : sym) (q : state) : bool :=
  forallb (fun it => match snd it with
                     | O => true
                     | S d => match PositiveMap.find (fst it) (g_rules G) with
                              | Some ru => match nth_error (r_rhs ru) d with Some y => Pos.eqb x y | None => false end
                                           && has_item (s_items (info G p)) (fst it) d
                              | None => false end
                     end) (s_items (info G q)).
Definition check_trans (G : grammar) (C : cert) (p : state) (xq : sym * state) : bool :=
  check_item_step G p (fst xq) (snd xq) && (c_h C (snd xq) <=? c_h C p + c_a C (fst xq))
  && (0 <=? c_h C (snd xq)) && (0 <=? c_b C (fst xq))
  && (if recov G p then forallb (fun xe => if g_err G (fst xe) then c_g C (snd xq) + c_a C (fst xe) <=? c_a C (fst xq) else true) (s_trans (info G p))
      else c_g C (snd xq) <=? c_g C p + c_a C (fst xq))
  && (if g_term G (fst xq) then (c_a C (fst xq) =? 0) && (c_b C (fst xq) =? 0) else true)
  && (if g_err G (fst xq) then (c_a C (fst xq) <=? 0) && (c_b C (fst xq) =? 0) else true).
Definition check_red (G : grammar) (C : cert) (p : state) (i : sinfo) (r : rid) : bool :=
  match PositiveMap.find r (g_rules G) with
  | Some ru =>
    let have := lin_add (rhs_lin C (r_rhs ru)) (r_lo ru) in
    has_item (s_items i) r (length (r_rhs ru))
    && (match r_val ru with
        | Some f => lin_le (lin_add (mklin (c_a C (r_lhs ru)) []) (lin_scale (c_b C (r_lhs ru)) f)) have
                    && (0 <=? l_const f) && forallb (fun k => 0 <=? k) (l_coef f)
        | None => (c_b C (r_lhs ru) =? 0) && lin_le (mklin (c_a C (r_lhs ru)) []) have
        end)
    && (lin_le (r_need ru) (rhs_lin C (r_rhs ru))
        || (forallb (fun k => k <=? 0) (l_coef (r_need ru)) && (l_const (r_need ru) <=? c_h C p)))
  | None => false
  end.
Definition check_state (G : grammar) (C : cert) (pi : state * sinfo) : bool :=
  forallb (check_trans G C (fst pi)) (s_trans (snd pi)) && forallb (check_red G C (fst pi) (snd pi)) (s_reds (snd pi))
  && (if s_canerr (snd pi) then 0 <=? c_g C (fst pi) else true).
Definition check_all (G : grammar) (C : cert) : bool :=
  forallb (check_state G C) (PositiveMap.elements (g_states G))
  && forallb (fun it => Nat.eqb (snd it) 0) (s_items (info G (g_init G))) && (c_h C (g_init G) =? 0).

(* ---------- soundness ---------- *)
Lemma coefs_le_sound : forall k1 k2 v, coefs_le k1 k2 = true -> dot k1 v <= dot k2 v.
Proof.
  induction k1 as [|a k1 IH]; intros k2 v H.
  - cbn [coefs_le] in H. cbn [dot]. revert v. induction k2 as [|b k2 IH2]; intros v; [destruct v; cbn; lia|].
    cbn [forallb] in H. apply andb_true_iff in H as [Hb H]. apply Z.leb_le in Hb. destruct v as [|x v]; cbn [dot]; [lia|].
    specialize (IH2 H v). nia.
  - destruct k2 as [|b k2]; cbn [coefs_le] in H; apply andb_true_iff in H as [Ha H]; apply Z.leb_le in Ha.
    + destruct v as [|x v]; cbn [dot]; [lia|]. specialize (IH [] v H). cbn [dot] in IH. destruct v; cbn [dot] in *; nia.
    + destruct v as [|x v]; cbn [dot]; [lia|]. specialize (IH k2 v H). nia.
Qed.
Lemma lin_le_sound l1 l2 v : lin_le l1 l2 = true -> eval l1 v <= eval l2 v.
Proof. unfold lin_le, eval. intro H. apply andb_true_iff in H as [Hc Hk]. apply Z.leb_le in Hc. pose proof (coefs_le_sound _ _ v Hk). lia. Qed.
Lemma dot_zip_add : forall a b v, dot (zip_add a b) v = dot a v + dot b v.
Proof.
  induction a as [|x a IH]; intros b v; [cbn; destruct b, v; cbn; lia|].
  destruct b as [|y b]; [cbn [zip_add]; destruct v; cbn; lia|]. destruct v as [|z v]; cbn [zip_add dot]; [lia|]. rewrite IH. lia.
Qed.
Lemma eval_add l1 l2 v : eval (lin_add l1 l2) v = eval l1 v + eval l2 v.
Proof. unfold eval, lin_add. cbn [l_const l_coef]. rewrite dot_zip_add. lia. Qed.
Lemma dot_scale c : forall k v, dot (map (Z.mul c) k) v = c * dot k v.
Proof. induction k as [|a k IH]; intros v; [cbn; lia|]. destruct v as [|x v]; cbn [map dot]; [lia|]. rewrite IH. lia. Qed.
Lemma eval_scale c l v : eval (lin_scale c l) v = c * eval l v.
Proof. unfold eval, lin_scale. cbn [l_const l_coef]. rewrite dot_scale. lia. Qed.
Lemma dot_nonneg : forall k v, forallb (fun a => 0 <=? a) k = true -> 0 <= dot k v.
Proof.
  induction k as [|a k IH]; intros v H; [cbn; lia|]. cbn [forallb] in H. apply andb_true_iff in H as [Ha H]. apply Z.leb_le in Ha.
  destruct v as [|x v]; cbn [dot]; [lia|]. specialize (IH v H). nia.
Qed.
Lemma dot_nonpos : forall k v, forallb (fun a => a <=? 0) k = true -> dot k v <= 0.
Proof.
  induction k as [|a k IH]; intros v H; [cbn; lia|]. cbn [forallb] in H. apply andb_true_iff in H as [Ha H]. apply Z.leb_le in Ha.
  destruct v as [|x v]; cbn [dot]; [lia|]. specialize (IH v H). nia.
Qed.

Section Sound.
Variable G : grammar.
Variable C : cert.
Hypothesis OK : check_all G C = true.

Definition contrib (e : entry) : Z := c_a C (e_sym e) + c_b C (e_sym e) * Z.of_nat (e_val e).
Definition pot (st : list entry) : Z := fold_right (fun e acc => contrib e + acc) 0 st.
Fixpoint path_ok (st : list entry) : Prop :=
  match st with [] => True | e :: r => has_trans G (top G r) (e_sym e) (e_state e) /\ path_ok r end.

Lemma state_checked p : check_state G C (p, info G p) = true.
Proof.
  unfold info. destruct (PositiveMap.find p (g_states G)) as [i|] eqn:E; [|reflexivity].
  unfold check_all in OK. apply andb_true_iff in OK as [O _]. apply andb_true_iff in O as [O _].
  rewrite forallb_forall in O. apply O. now apply PositiveMap.elements_correct.
Qed.
Lemma trans_checked p x q : has_trans G p x q -> check_trans G C p (x, q) = true.
Proof.
  intro H. pose proof (state_checked p) as S. unfold check_state in S. apply andb_true_iff in S as [S _]. apply andb_true_iff in S as [S _]. cbn [fst snd] in S.
  rewrite forallb_forall in S. exact (S _ H).
Qed.
Lemma canerr_checked p : s_canerr (info G p) = true -> 0 <= c_g C p.
Proof.
  intro H. pose proof (state_checked p) as S. unfold check_state in S. apply andb_true_iff in S as [_ S]. cbn [fst snd] in S.
  rewrite H in S. now apply Z.leb_le in S.
Qed.
Lemma red_checked p r : In r (s_reds (info G p)) -> check_red G C p (info G p) r = true.
Proof.
  intro H. pose proof (state_checked p) as S. unfold check_state in S. apply andb_true_iff in S as [S _]. apply andb_true_iff in S as [_ S]. cbn [fst snd] in S.
  rewrite forallb_forall in S. exact (S _ H).
Qed.
Lemma has_item_In its r d : has_item its r d = true -> In (r, d) its.
Proof.
  unfold has_item. intro H. apply existsb_exists in H as ([r' d'] & Hin & E). cbn [fst snd] in E. apply andb_true_iff in E as [E1 E2].
  apply Pos.eqb_eq in E1. apply Nat.eqb_eq in E2. now subst.
Qed.

Ltac split_checks K := repeat (apply andb_true_iff in K as [K ?]).
Lemma trans_facts p x q : has_trans G p x q ->
  c_h C q <= c_h C p + c_a C x /\ 0 <= c_h C q /\ 0 <= c_b C x
  /\ (recov G p = true -> forall xe qe, g_err G xe = true -> has_trans G p xe qe -> c_g C q + c_a C xe <= c_a C x)
  /\ (recov G p = false -> c_g C q <= c_g C p + c_a C x)
  /\ (g_term G x = true -> c_a C x = 0 /\ c_b C x = 0) /\ (g_err G x = true -> c_a C x <= 0 /\ c_b C x = 0).
Proof.
  intro T. pose proof (trans_checked _ _ _ T) as K. unfold check_trans in K. cbn [fst snd] in K.
  apply andb_true_iff in K as [K Kerr]. apply andb_true_iff in K as [K Kterm]. apply andb_true_iff in K as [K Kg].
  apply andb_true_iff in K as [K Kb]. apply andb_true_iff in K as [K Kh0]. apply andb_true_iff in K as [_ Kh1].
  apply Z.leb_le in Kb, Kh0, Kh1.
  split; [exact Kh1|]. split; [exact Kh0|]. split; [exact Kb|]. split; [|split; [|split]].
  - intros R xe qe Ee Te. rewrite R in Kg. rewrite forallb_forall in Kg. specialize (Kg _ Te). cbn [fst snd] in Kg. rewrite Ee in Kg. now apply Z.leb_le in Kg.
  - intro R. rewrite R in Kg. now apply Z.leb_le in Kg.
  - intro Tm. rewrite Tm in Kterm. apply andb_true_iff in Kterm as [Y1 Y2]. apply Z.eqb_eq in Y1, Y2. auto.
  - intro Ee. rewrite Ee in Kerr. apply andb_true_iff in Kerr as [Y1 Y2]. apply Z.leb_le in Y1. apply Z.eqb_eq in Y2. auto.
Qed.
Lemma contrib_ge_a e st : has_trans G (top G st) (e_sym e) (e_state e) -> c_a C (e_sym e) <= contrib e.
Proof. intro T. destruct (trans_facts _ _ _ T) as (_ & _ & Hb & _). unfold contrib. nia. Qed.
(* the potential of the top state bounds the stack's content from below *)
Lemma pot_ge_h st : path_ok st -> c_h C (top G st) <= pot st.
Proof.
  induction st as [|e st IH]; cbn [path_ok top].
  - intros _. unfold check_all in OK. apply andb_true_iff in OK as [_ O]. apply Z.eqb_eq in O. rewrite O. cbn. lia.
  - intros [T P]. specialize (IH P). change (pot (e :: st)) with (contrib e + pot st).
    destruct (trans_facts _ _ _ T) as (Hh & _). pose proof (contrib_ge_a e st T). lia.
Qed.
Lemma h_nonneg st : path_ok st -> 0 <= c_h C (top G st).
Proof.
  destruct st as [|e st]; cbn [path_ok top].
  - intros _. unfold check_all in OK. apply andb_true_iff in OK as [_ O]. apply Z.eqb_eq in O. lia.
  - intros [T _]. now destruct (trans_facts _ _ _ T) as (_ & H0 & _).
Qed.
Lemma pot_nonneg st : path_ok st -> 0 <= pot st.
Proof. intro P. pose proof (pot_ge_h st P). pose proof (h_nonneg st P). lia. Qed.
Lemma path_ok_skipn : forall k st, path_ok st -> path_ok (skipn k st).
Proof. induction k as [|k IH]; intros st P; [exact P|]. destruct st as [|e st]; [exact I|]. cbn [skipn]. apply IH. now destruct P. Qed.
(* what lies above the first state (from the top) that can shift `error`, plus the error entry, weighs at least g of the top state *)
Lemma seg : forall st, path_ok st -> forall k xe qe, (1 <= k)%nat -> (forall j, (j < k)%nat -> recov G (top G (skipn j st)) = false) ->
  g_err G xe = true -> has_trans G (top G (skipn k st)) xe qe -> pot (skipn k st) + c_a C xe + c_g C (top G st) <= pot st.
Proof.
  induction st as [|e st IH]; intros P k xe qe K1 NR Ee Te.
  - exfalso. specialize (NR 0%nat ltac:(lia)). assert (R : recov G (top G (skipn k [])) = true) by (unfold recov; apply existsb_exists; exists (xe, qe); auto).
    destruct k; cbn [skipn] in *; congruence.
  - destruct k as [|k]; [lia|]. destruct P as [T P]. cbn [skipn] in *. cbn [top].
    change (pot (e :: st)) with (contrib e + pot st).
    destruct (trans_facts _ _ _ T) as (_ & _ & _ & Hr & Hn & _). pose proof (contrib_ge_a e st T) as Hc.
    destruct k as [|k].
    + cbn [skipn] in Te |- *.
      assert (R : recov G (top G st) = true) by (unfold recov; apply existsb_exists; exists (xe, qe); auto).
      specialize (Hr R xe qe Ee Te). lia.
    + assert (R1 : recov G (top G st) = false) by (apply (NR 1%nat); lia). specialize (Hn R1).
      assert (L : pot (skipn (S k) st) + c_a C xe + c_g C (top G st) <= pot st).
      { apply (IH P (S k) xe qe); [lia | | exact Ee | exact Te]. intros j Hj. apply (NR (S j)). lia. }
      lia.
Qed.

(* the items of the top state describe the top of the stack (viable-prefix lemma of LR(0) items) *)
Lemma items_valid : forall st, path_ok st -> forall r d ru, In (r, d) (s_items (info G (top G st))) -> PositiveMap.find r (g_rules G) = Some ru ->
  exists ents rest, st = ents ++ rest /\ length ents = d /\ map e_sym (rev ents) = firstn d (r_rhs ru).
Proof.
  induction st as [|e st IH]; intros P r d ru Hin Hr.
  - cbn [top] in Hin. unfold check_all in OK. apply andb_true_iff in OK as [O _]. apply andb_true_iff in O as [_ O].
    rewrite forallb_forall in O. specialize (O _ Hin). cbn [snd] in O. apply Nat.eqb_eq in O. subst d.
    exists [], []. repeat split.
  - destruct P as [T P]. cbn [top] in Hin. destruct d as [|d]; [exists [], (e :: st); repeat split|].
    pose proof (trans_checked _ _ _ T) as K. unfold check_trans in K. cbn [fst snd] in K.
    split_checks K. unfold check_item_step in K. rewrite forallb_forall in K.
    specialize (K _ Hin). cbn [fst snd] in K. rewrite Hr in K. apply andb_true_iff in K as [K1 K2].
    destruct (nth_error (r_rhs ru) d) as [y|] eqn:N; [|discriminate]. apply Pos.eqb_eq in K1. apply has_item_In in K2.
    destruct (IH P r d ru K2 Hr) as (ents & rest & E & L & M).
    exists (e :: ents), rest. split; [now rewrite E|]. split; [cbn; now rewrite L|].
    cbn [rev]. rewrite map_app, M. cbn [map]. rewrite K1.
    clear -N. revert d N. induction (r_rhs ru) as [|z l IHl]; intros d N; [destruct d; discriminate|].
    destruct d; cbn in *; [now inversion N|]. f_equal. now apply IHl.
Qed.

Lemma pot_cons e st : pot (e :: st) = contrib e + pot st.
Proof. reflexivity. Qed.
Lemma contrib_mk q x v : contrib (q, x, v) = c_a C x + c_b C x * Z.of_nat v.
Proof. reflexivity. Qed.
Lemma pot_app a b : pot (a ++ b) = pot a + pot b.
Proof.
  induction a as [|e a IH]; cbn [app]; [unfold pot at 2; cbn [fold_right]; lia|].
  change (pot (e :: a ++ b)) with (contrib e + pot (a ++ b)). change (pot (e :: a)) with (contrib e + pot a). rewrite IH. lia.
Qed.
Lemma pot_rev a : pot (rev a) = pot a.
Proof.
  induction a as [|e a IH]; [reflexivity|]. cbn [rev]. rewrite pot_app, IH.
  change (pot [e]) with (contrib e + 0). change (pot (e :: a)) with (contrib e + pot a). lia.
Qed.
Lemma pot_rhs : forall l rhs, map e_sym l = rhs -> pot l = eval (rhs_lin C rhs) (map e_val l).
Proof.
  induction l as [|e l IH]; intros rhs E; subst rhs; [reflexivity|].
  change (pot (e :: l)) with (contrib e + pot l). rewrite (IH _ eq_refl). unfold eval, rhs_lin, contrib. cbn [l_const l_coef fold_right map dot]. lia.
Qed.

Definition Inv (c : list entry * Z) : Prop := path_ok (fst c) /\ pot (fst c) <= snd c.

Lemma handle st r ru ents rest : path_ok st -> In r (s_reds (info G (top G st))) -> PositiveMap.find r (g_rules G) = Some ru ->
  st = ents ++ rest -> length ents = length (r_rhs ru) -> map e_sym (rev ents) = r_rhs ru.
Proof.
  intros P Hr Hf E L. pose proof (red_checked _ _ Hr) as K. unfold check_red in K. rewrite Hf in K.
  apply andb_true_iff in K as [K _]. apply andb_true_iff in K as [K _]. apply has_item_In in K.
  destruct (items_valid st P r _ ru K Hf) as (ents' & rest' & E' & L' & M).
  rewrite firstn_all in M. assert (ents = ents').
  { rewrite E in E'. assert (LL : length ents = length ents') by congruence. clear -E' LL.
    revert ents' LL E'. induction ents as [|a ents IH]; intros [|b ents'] LL E; cbn in *; try discriminate; auto.
    inversion E. f_equal. apply IH; auto. }
  now subst.
Qed.

Lemma path_ok_app a b : path_ok (a ++ b) -> path_ok b.
Proof. induction a as [|e a IH]; cbn [app path_ok]; [auto | intros [_ P]; auto]. Qed.

Theorem inv_step c c' : Inv c -> step G c c' -> Inv c'.
Proof.
  intros [P HP] S. destruct S as [st H x q v Tm T | st H k x q v CE NR Ee T | st H r ru ents rest q v' H' Hr Hf E L T V HH]; cbn [fst snd] in *.
  - split; [cbn [path_ok e_sym e_state fst snd]; auto|].
    destruct (trans_facts _ _ _ T) as (_ & _ & _ & _ & _ & Z0 & _). destruct (Z0 Tm) as [Ka Kb].
    cbn [fst snd]. rewrite pot_cons, contrib_mk, Ka, Kb. lia.
  - split; [cbn [path_ok e_sym e_state fst snd]; split; [exact T | now apply path_ok_skipn]|].
    destruct (trans_facts _ _ _ T) as (_ & _ & _ & _ & _ & _ & Z0). destruct (Z0 Ee) as [Ka Kb].
    cbn [fst snd]. rewrite pot_cons, contrib_mk, Kb.
    destruct k as [|k]; [cbn [skipn]; lia|].
    pose proof (seg st P (S k) x q ltac:(lia) NR Ee T). pose proof (canerr_checked _ CE). lia.
  - pose proof (handle st r ru ents rest P Hr Hf E L) as M. subst st.
    split; [cbn [path_ok e_sym e_state fst snd]; split; [exact T | exact (path_ok_app _ _ P)]|].
    rewrite pot_app in HP. rewrite <- (pot_rev ents), (pot_rhs _ _ M) in HP.
    pose proof (red_checked _ _ Hr) as K. unfold check_red in K. rewrite Hf in K.
    apply andb_true_iff in K as [K _]. apply andb_true_iff in K as [_ K].
    cbn [fst snd]. rewrite pot_cons, contrib_mk.
    set (vs := map e_val (rev ents)) in *.
    destruct (r_val ru) as [f|].
    + apply andb_true_iff in K as [K Kc]. apply andb_true_iff in K as [K Kk]. apply Z.leb_le in Kk.
      apply (lin_le_sound _ _ vs) in K. rewrite !eval_add, eval_scale in K. unfold eval at 1 in K. cbn [l_const l_coef dot] in K.
      pose proof (dot_nonneg _ vs Kc). assert (0 <= eval f vs) by (unfold eval; lia).
      subst v'. rewrite Z2Nat.id by assumption. destruct vs; lia.
    + apply andb_true_iff in K as [Kb K]. apply Z.eqb_eq in Kb. apply (lin_le_sound _ _ vs) in K. rewrite eval_add in K.
      unfold eval at 1 in K. cbn [l_const l_coef dot] in K. rewrite Kb. destruct vs; lia.
Qed.

Theorem reach_inv c : reach G c -> Inv c.
Proof. induction 1 as [|c c' R IH S]; [split; cbn; [exact I | lia] | exact (inv_step _ _ IH S)]. Qed.

(* no reachable configuration runs an action below what it reads *)
Theorem no_underflow c : reach G c -> ~ underflow G c.
Proof.
  intros R (r & ru & ents & rest & Hr & Hf & E & L & U). destruct (reach_inv c R) as [P HP]. destruct c as [st H]. cbn [fst snd] in *.
  pose proof (handle st r ru ents rest P Hr Hf E L) as M.
  pose proof (red_checked _ _ Hr) as K. unfold check_red in K. rewrite Hf in K. apply andb_true_iff in K as [_ K].
  set (vs := map e_val (rev ents)) in *.
  apply orb_true_iff in K as [K|K].
  - apply (lin_le_sound _ _ vs) in K. subst st. rewrite pot_app in HP. rewrite <- (pot_rev ents), (pot_rhs _ _ M) in HP.
    pose proof (pot_nonneg rest (path_ok_app _ _ P)). fold vs in HP. lia.
  - apply andb_true_iff in K as [Kk Kc]. apply Z.leb_le in Kc. pose proof (dot_nonpos _ vs Kk). pose proof (pot_ge_h st P). unfold eval in U. lia.
Qed.
End Sound.
