(* C05: the callbacks the XTA grammar issues for a process body, against those the XML reader issues for the same
   template.  The two front ends differ in order only: the grammar (ProcBody: States Branchpoints LocFlags Init
   Transitions) declares all states, then the branchpoints, then the commit and urgent flags; the reader declares
   each location with its flags, then the branchpoints.  Both orders build the same document. *)
From Coq Require Import List Arith Bool Lia.
From Utap Require Import DocModel DocProofs.
Import ListNotations.

Definition plain_cb (l : xloc) : cb := ProcLocation (loc_name l) (xl_inv l) (xl_rate l).
Definition xta_flags (ls : list xloc) : list cb :=
  map (fun l => ProcLocCommit (loc_name l)) (filter xl_committed ls) ++ map (fun l => ProcLocUrgent (loc_name l)) (filter xl_urgent ls).
(* the process body in grammar order; end points and init are spelled by name in XTA: the names the XML ids stand for *)
Definition xta_templ (m0 : names) (t : xtempl) : option (list cb) :=
  let m1 := fold_left (fun m l => reg m (xl_id l) (loc_name l)) (xt_locs t) m0 in
  let m2 := fold_left (fun m b => reg m b (Anon b)) (xt_bps t) m1 in
  let init_cbs := match xt_init t with
                  | Some i => match lookup m2 i with Some n => Some [ProcInit n] | None => None end
                  | None => Some []
                  end in
  match init_cbs, read_edges m2 (xt_edges t) with
  | Some ic, Some ec => Some (ProcBegin (xt_name t) :: map plain_cb (xt_locs t) ++ map (fun b => ProcBranchpoint (Anon b)) (xt_bps t)
                                        ++ xta_flags (xt_locs t) ++ ic ++ ec ++ [ProcEnd])
  | _, _ => None
  end.

(* ---- locations first, flags later ---- *)
Definition memb (n : nm) (s : list nm) : bool := existsb (fun x => nm_eqb n x) s.
Definition flagged (C U : list nm) (l : xloc) : dloc :=
  mkdloc (loc_name l) (xl_inv l) (xl_rate l) (memb (loc_name l) U) (memb (loc_name l) C).
Definition with_locs (t : dtempl) (ls : list dloc) : dtempl := mkdtempl (dt_name t) ls (dt_bps t) (dt_init t) (dt_edges t).

Lemma build_plain D p : forall ls t,
  build (map plain_cb ls) (mkb D (Some t) p) = mkb D (Some (with_locs t (dt_locs t ++ map (flagged [] []) ls))) p.
Proof.
  induction ls as [|l ls IH]; intro t; cbn [map].
  - cbn. rewrite app_nil_r. unfold with_locs. destruct t; reflexivity.
  - change (build (?c :: ?r) ?st) with (build r (step st c)). cbn [step plain_cb on_cur b_cur b_done b_edge].
    rewrite IH. unfold with_locs. cbn [dt_name dt_locs dt_bps dt_init dt_edges]. rewrite <- app_assoc. reflexivity.
Qed.

Lemma nm_eqb_sym a b : nm_eqb a b = nm_eqb b a.
Proof.
  destruct (nm_eqb a b) eqn:E; destruct (nm_eqb b a) eqn:F; auto.
  - apply nm_eqb_eq in E. subst. rewrite (proj2 (nm_eqb_eq _ _) eq_refl) in F. discriminate.
  - apply nm_eqb_eq in F. subst. rewrite (proj2 (nm_eqb_eq _ _) eq_refl) in E. discriminate.
Qed.

Lemma no_urgent_yet C n ls : existsb (fun l0 => nm_eqb (dl_name l0) n && dl_urgent l0) (map (flagged C []) ls) = false.
Proof. induction ls as [|l ls IH]; cbn; [reflexivity|]. rewrite IH. now rewrite andb_false_r. Qed.
Lemma set_commit C n ls :
  map (fun l => if nm_eqb (dl_name l) n then mkdloc (dl_name l) (dl_inv l) (dl_rate l) (dl_urgent l) true else l) (map (flagged C []) ls)
  = map (flagged (n :: C) []) ls.
Proof.
  rewrite map_map. apply map_ext. intro l. unfold flagged. cbn [dl_name dl_inv dl_rate dl_urgent dl_committed memb existsb].
  destruct (nm_eqb (loc_name l) n); reflexivity.
Qed.
Lemma flagged_not_loc C U n ls : existsb (fun l => nm_eqb (dl_name l) n) (map (flagged C U) ls) = false ->
  map (flagged (n :: C) U) ls = map (flagged C U) ls /\ map (flagged C (n :: U)) ls = map (flagged C U) ls.
Proof.
  induction ls as [|l ls IH]; cbn [map existsb]; intro H; [split; reflexivity|].
  apply orb_false_iff in H as [H1 H2]. destruct (IH H2) as [I1 I2]. rewrite I1, I2.
  unfold flagged in H1 |- *. cbn [dl_name] in H1. cbn [memb existsb]. rewrite H1. split; reflexivity.
Qed.

Lemma build_commits D p : forall cs C t ls, dt_locs t = map (flagged C []) ls ->
  build (map ProcLocCommit cs) (mkb D (Some t) p) = mkb D (Some (with_locs t (map (flagged (rev cs ++ C) []) ls))) p.
Proof.
  induction cs as [|n cs IH]; intros C t ls E; cbn [map rev app].
  - cbn. unfold with_locs. rewrite <- E. destruct t; reflexivity.
  - change (build (?c :: ?r) ?st) with (build r (step st c)). cbn [step on_cur b_cur b_done b_edge].
    assert (S : (if is_loc t n && negb (existsb (fun l => nm_eqb (dl_name l) n && dl_urgent l) (dt_locs t))
                 then set_flag n (fun l => mkdloc (dl_name l) (dl_inv l) (dl_rate l) (dl_urgent l) true) t else t)
                = with_locs t (map (flagged (n :: C) []) ls)).
    { rewrite E, no_urgent_yet. cbn [negb]. rewrite andb_true_r. unfold is_loc. rewrite E.
      destruct (existsb _ (map (flagged C []) ls)) eqn:L.
      - unfold set_flag, with_locs. rewrite E, set_commit. reflexivity.
      - destruct (flagged_not_loc C [] n ls L) as [-> _]. unfold with_locs. rewrite <- E. destruct t; reflexivity. }
    rewrite S. rewrite (IH (n :: C) _ ls) by reflexivity. unfold with_locs. cbn [dt_name dt_locs dt_bps dt_init dt_edges].
    rewrite <- app_assoc. reflexivity.
Qed.

Lemma committed_named C U n ls :
  existsb (fun l0 => nm_eqb (dl_name l0) n && dl_committed l0) (map (flagged C U) ls) = existsb (fun l => nm_eqb (loc_name l) n) ls && memb n C.
Proof.
  induction ls as [|l ls IH]; cbn [map existsb]; [reflexivity|]. rewrite IH. unfold flagged at 1. cbn [dl_name dl_committed].
  destruct (nm_eqb (loc_name l) n) eqn:E; cbn [andb orb]; [|reflexivity].
  apply nm_eqb_eq in E. unfold flagged. cbn [dl_committed]. rewrite E. destruct (memb n C); cbn; [reflexivity|]. now rewrite andb_false_r.
Qed.
Lemma set_urgent C U n ls :
  map (fun l => if nm_eqb (dl_name l) n then mkdloc (dl_name l) (dl_inv l) (dl_rate l) true (dl_committed l) else l) (map (flagged C U) ls)
  = map (flagged C (n :: U)) ls.
Proof.
  rewrite map_map. apply map_ext. intro l. unfold flagged. cbn [dl_name dl_inv dl_rate dl_urgent dl_committed memb existsb].
  destruct (nm_eqb (loc_name l) n); reflexivity.
Qed.
Lemma build_urgents D p C : forall us U t ls, dt_locs t = map (flagged C U) ls -> (forall n, In n us -> memb n C = false) ->
  build (map ProcLocUrgent us) (mkb D (Some t) p) = mkb D (Some (with_locs t (map (flagged C (rev us ++ U)) ls))) p.
Proof.
  induction us as [|n us IH]; intros U t ls E H; cbn [map rev app].
  - cbn. unfold with_locs. rewrite <- E. destruct t; reflexivity.
  - change (build (?c :: ?r) ?st) with (build r (step st c)). cbn [step on_cur b_cur b_done b_edge].
    assert (S : (if is_loc t n && negb (existsb (fun l => nm_eqb (dl_name l) n && dl_committed l) (dt_locs t))
                 then set_flag n (fun l => mkdloc (dl_name l) (dl_inv l) (dl_rate l) true (dl_committed l)) t else t)
                = with_locs t (map (flagged C (n :: U)) ls)).
    { rewrite E, committed_named, (H n (or_introl eq_refl)), andb_false_r. cbn [negb]. rewrite andb_true_r. unfold is_loc. rewrite E.
      destruct (existsb _ (map (flagged C U) ls)) eqn:L.
      - unfold set_flag, with_locs. rewrite E, set_urgent. reflexivity.
      - destruct (flagged_not_loc C U n ls L) as [_ ->]. unfold with_locs. rewrite <- E. destruct t; reflexivity. }
    rewrite S. rewrite (IH (n :: U) _ ls); [| reflexivity | intros k Hk; apply H; now right].
    unfold with_locs. cbn [dt_name dt_locs dt_bps dt_init dt_edges]. rewrite <- app_assoc. reflexivity.
Qed.

(* ---- with distinct names, the accumulated flag sets say exactly what each location element said ---- *)
Lemma nodup_names_spec : forall ls seen, nodup_names seen ls = true ->
  (forall l, In l ls -> loc_ok l = true /\ memb (loc_name l) seen = false)
  /\ (forall l l', In l ls -> In l' ls -> loc_name l = loc_name l' -> l = l').
Proof.
  induction ls as [|a ls IH]; intros seen H; [split; intros; contradiction|].
  cbn [nodup_names] in H. apply andb_true_iff in H as [H H3]. apply andb_true_iff in H as [H1 H2].
  destruct (IH _ H3) as [I1 I2]. apply negb_true_iff in H1. split.
  - intros l [<-|Hl]; [split; [exact H2 | exact H1]|]. destruct (I1 l Hl) as [O M]. split; [exact O|].
    cbn [memb existsb] in M. apply orb_false_iff in M as [_ M]. exact M.
  - intros l l' [<-|Hl] [<-|Hl'] E; auto.
    + destruct (I1 l' Hl') as [_ M]. cbn [memb existsb] in M. apply orb_false_iff in M as [M _].
      rewrite <- E, (proj2 (nm_eqb_eq _ _) eq_refl) in M. discriminate.
    + destruct (I1 l Hl) as [_ M]. cbn [memb existsb] in M. apply orb_false_iff in M as [M _].
      rewrite E, (proj2 (nm_eqb_eq _ _) eq_refl) in M. discriminate.
Qed.
Lemma memb_rev n s : memb n (rev s ++ []) = memb n s.
Proof.
  rewrite app_nil_r. unfold memb. induction s as [|x s IH]; cbn; [reflexivity|]. rewrite existsb_app, IH. cbn. rewrite orb_false_r. apply orb_comm.
Qed.
Lemma memb_filter (f : xloc -> bool) ls l :
  (forall a b, In a ls -> In b ls -> loc_name a = loc_name b -> a = b) -> In l ls ->
  memb (loc_name l) (map loc_name (filter f ls)) = f l.
Proof.
  intros Inj Hl. unfold memb. destruct (f l) eqn:F.
  - apply existsb_exists. exists (loc_name l). split; [|apply nm_eqb_eq; reflexivity]. apply in_map, filter_In. auto.
  - destruct (existsb _ _) eqn:E; [|reflexivity]. apply existsb_exists in E as (x & Hx & Ex). apply nm_eqb_eq in Ex. subst x.
    apply in_map_iff in Hx as (l' & En & Hl'). apply filter_In in Hl' as [Hl' F']. rewrite (Inj l l' Hl Hl' (eq_sym En)) in F. congruence.
Qed.

Definition bp_cb (b : id) : cb := ProcBranchpoint (Anon b).
Theorem xta_xml_locs D p t bs ls : dt_locs t = [] -> nodup_names [] ls = true ->
  build (map plain_cb ls ++ map bp_cb bs ++ xta_flags ls) (mkb D (Some t) p) = build (flat_map read_loc ls ++ map bp_cb bs) (mkb D (Some t) p).
Proof.
  intros E0 ND. destruct (nodup_names_spec ls [] ND) as [Ok Inj].
  (* the reader's order *)
  rewrite (build_app (flat_map read_loc ls)), build_locs by (rewrite E0; exact ND).
  unfold bp_cb. rewrite build_bps. cbn [dt_name dt_locs dt_bps dt_init dt_edges]. rewrite E0. cbn [app].
  (* the grammar's order *)
  rewrite build_app, build_plain, build_app, build_bps. unfold with_locs at 1. cbn [dt_name dt_locs dt_bps dt_init dt_edges]. rewrite E0. cbn [app].
  unfold xta_flags. rewrite build_app.
  rewrite <- (map_map loc_name ProcLocCommit), <- (map_map loc_name ProcLocUrgent).
  rewrite (build_commits D p _ [] _ ls) by reflexivity.
  rewrite (build_urgents D p (rev (map loc_name (filter xl_committed ls)) ++ []) _ [] _ ls); [| reflexivity |].
  - unfold with_locs. cbn [dt_name dt_locs dt_bps dt_init dt_edges]. f_equal. f_equal. f_equal.
    apply map_ext_in. intros l Hl. unfold flagged, doc_loc. rewrite !memb_rev, !memb_filter by assumption. reflexivity.
  - intros n Hn. apply in_map_iff in Hn as (l & <- & Hl). apply filter_In in Hl as [Hl U].
    rewrite memb_rev, memb_filter by assumption. destruct (Ok l Hl) as [O _]. unfold loc_ok in O. rewrite U in O. cbn in O.
    now apply negb_true_iff in O.
Qed.

(* the whole process body: whatever the reader's sequence builds, the grammar's sequence builds *)
Theorem xta_xml_templ D p m0 t cs cs' m2 :
  read_templ m0 t = (Some cs, m2) -> xta_templ m0 t = Some cs' -> nodup_names [] (xt_locs t) = true ->
  build cs' (mkb D None p) = build cs (mkb D None p).
Proof.
  unfold read_templ, xta_templ. intros R X ND.
  set (m := fold_left (fun m b => reg m b (Anon b)) (xt_bps t) (fold_left (fun m l => reg m (xl_id l) (loc_name l)) (xt_locs t) m0)) in *.
  destruct (match xt_init t with Some i => match lookup m i with Some n => Some [ProcInit n] | None => None end | None => Some [] end) as [ic|]; [|discriminate].
  destruct (read_edges m (xt_edges t)) as [ec|]; [|discriminate].
  injection R as <- _. injection X as <-.
  change (build (?c :: ?r) ?st) with (build r (step st c)). cbn [step b_cur b_done b_edge].
  set (R := ic ++ ec ++ [ProcEnd]). set (L := xt_locs t). fold bp_cb. set (B := map bp_cb (xt_bps t)).
  replace (map plain_cb L ++ B ++ xta_flags L ++ R) with ((map plain_cb L ++ B ++ xta_flags L) ++ R) by (now rewrite <- !app_assoc).
  replace (flat_map read_loc L ++ B ++ R) with ((flat_map read_loc L ++ B) ++ R) by (now rewrite <- !app_assoc).
  rewrite (build_app (map plain_cb L ++ B ++ xta_flags L)), (build_app (flat_map read_loc L ++ B)).
  subst B. rewrite xta_xml_locs by (auto; reflexivity). reflexivity.
Qed.
