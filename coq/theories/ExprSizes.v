(* The arity table regenerated from expression_t::get_size agrees with the number of children the
   expression builder gives every node of the SR language (C19: "the number of children reported for
   a node always equals the number that can be accessed"). *)
From Coq Require Import List String Bool Arith.
From Utap Require Import SR ExprSyntax.
From Utap.gen Require Import Gen_OpTable Gen_Sizes.
Import ListNotations.
Local Open Scope string_scope.

Fixpoint size_lookup (k : string) (l : list (string * option nat)) : option (option nat) :=
  match l with [] => None | (a, v) :: r => if String.eqb k a then Some v else size_lookup k r end.
Definition size_is (k : string) (n : nat) : bool :=
  match size_lookup k size_table with Some (Some m) => Nat.eqb m n | Some None => true | None => false end.
Definition pseudo (k : string) : bool := String.eqb k "ATOM" || String.eqb k "BINDER".   (* IDENTIFIER / CONSTANT leaves *)
Fixpoint kt_size_ok (t : ktree) : bool :=
  match t with
  | K k _ subs => (if pseudo k then Nat.eqb (List.length subs) 0 && size_is "IDENTIFIER" 0 && size_is "CONSTANT" 0
                   else size_is k (List.length subs)) && forallb kt_size_ok subs
  end.
(* the parser only builds builtin calls with the arity of their grammar production *)
Definition fn_arity (k : string) : option nat :=
  (fix go (l : list (string * string * nat)) := match l with [] => None | (_, k', n) :: r => if String.eqb k k' then Some n else go r end) builtin_fns.
Fixpoint fn_ok (e : exprG) : bool :=
  match e with
  | Atom _ _ _ _ _ => true
  | Bin _ _ _ _ _ l r => fn_ok l && fn_ok r
  | Un _ _ _ _ _ x | Post _ _ _ _ _ x => fn_ok x
  | Ite _ _ _ _ c a b => fn_ok c && fn_ok a && fn_ok b
  | Idx _ _ _ _ a i => fn_ok a && fn_ok i
  | Call _ _ _ _ f args => fn_ok f && forallb fn_ok args
  | Fn _ _ _ _ k a rest => match fn_arity k with Some n => Nat.eqb n (S (List.length rest)) | None => false end && fn_ok a && forallb fn_ok rest
  end.

Lemma bin_size o : size_is (bin_kind o) 2 = true. Proof. destruct o; vm_compute; reflexivity. Qed.
Lemma not_size : size_is "NOT" 1 = true. Proof. vm_compute; reflexivity. Qed.
Lemma pre_size u : String.eqb (pre_kind u) "(identity)" = false ->
  size_is (pre_kind u) (match pre_binder u with Some _ => 2 | None => 1 end) = true.
Proof. destruct u; intros H; try (vm_compute in H; discriminate H); vm_compute; reflexivity. Qed.
Lemma post_size p : size_is (post_kind p) 1 = true. Proof. destruct p; vm_compute; reflexivity. Qed.
Lemma ite_size : size_is ite_kind 3 = true. Proof. vm_compute; reflexivity. Qed.
Lemma idx_size : size_is "ARRAY" 2 = true. Proof. vm_compute; reflexivity. Qed.
Lemma call_size n : size_is "FUN_CALL" n = true. Proof. vm_compute; reflexivity. Qed.
Lemma atom_sizes : size_is "IDENTIFIER" 0 && size_is "CONSTANT" 0 = true. Proof. vm_compute; reflexivity. Qed.
Definition fns_cert : bool := forallb (fun x => match x with (_, k, n) => size_is k n end) builtin_fns.
Lemma fns_cert_ok : fns_cert = true. Proof. vm_compute; reflexivity. Qed.
Lemma fn_size k n : fn_arity k = Some n -> size_is k n = true.
Proof.
  unfold fn_arity. pose proof fns_cert_ok as C. unfold fns_cert in C. revert C.
  induction builtin_fns as [|[[t k'] m] l IH]; [discriminate|]. cbn [forallb]. intros C. apply andb_true_iff in C as [C1 C2].
  destruct (String.eqb k k') eqn:E.
  - intros H. inversion H; subst. apply String.eqb_eq in E. subst. exact C1.
  - intros H. apply IH; assumption.
Qed.

Lemma forallb_map_ok (l : list exprG) :
  Forall (fun e => fn_ok e = true -> kt_size_ok (norm e) = true) l -> forallb fn_ok l = true -> forallb kt_size_ok (map norm l) = true.
Proof.
  induction 1 as [|x l Hx Hl IH]; cbn; [reflexivity|]. intros H. apply andb_true_iff in H as [H1 H2]. rewrite (Hx H1), (IH H2). reflexivity.
Qed.

Lemma kt_node k leaf subs : pseudo k = false -> size_is k (List.length subs) = true -> forallb kt_size_ok subs = true ->
  kt_size_ok (K k leaf subs) = true.
Proof. intros P S F. cbn [kt_size_ok]. rewrite P, S, F. reflexivity. Qed.
Lemma binder_ok b : kt_size_ok (K "BINDER" (Some b) []) = true. Proof. vm_compute. reflexivity. Qed.
Lemma atom_ok n : kt_size_ok (K "ATOM" (Some n) []) = true. Proof. vm_compute. reflexivity. Qed.

Theorem size_accessible : forall t : exprG, fn_ok t = true -> kt_size_ok (norm t) = true.
Proof.
  induction t as [n | o l r IHl IHr | u x IHx | p x IHx | c a b IHc IHa IHb | a i IHa IHi | f args IHf IHargs | k a rest IHa IHrest]
    using (expr_ind2 bop uop pop fnid); cbn [fn_ok]; intros F.
  - apply atom_ok.
  - apply andb_true_iff in F as [Fl Fr]. cbn [norm]. destruct (bin_wraps_left_not o).
    + apply kt_node; [destruct o; reflexivity|apply bin_size|]. cbn [forallb]. rewrite (IHr Fr).
      rewrite (kt_node "NOT" None [norm l]); [reflexivity|reflexivity|apply not_size|]. cbn [forallb]. rewrite (IHl Fl). reflexivity.
    + apply kt_node; [destruct o; reflexivity|apply bin_size|]. cbn [forallb]. rewrite (IHl Fl), (IHr Fr). reflexivity.
  - cbn [norm]. destruct (String.eqb (pre_kind u) "(identity)") eqn:E; [auto|].
    pose proof (pre_size u E) as S. destruct (pre_binder u) eqn:B.
    + apply kt_node; [destruct u; reflexivity|exact S|]. cbn [forallb]. rewrite binder_ok, (IHx F). reflexivity.
    + apply kt_node; [destruct u; reflexivity|exact S|]. cbn [forallb]. rewrite (IHx F). reflexivity.
  - cbn [norm]. apply kt_node; [destruct p; reflexivity|apply post_size|]. cbn [forallb]. rewrite (IHx F). reflexivity.
  - apply andb_true_iff in F as [F Fb]. apply andb_true_iff in F as [Fc Fa].
    cbn [norm]. apply kt_node; [reflexivity|apply ite_size|]. cbn [forallb]. rewrite (IHc Fc), (IHa Fa), (IHb Fb). reflexivity.
  - apply andb_true_iff in F as [Fa Fi]. cbn [norm]. apply kt_node; [reflexivity|apply idx_size|].
    cbn [forallb]. rewrite (IHa Fa), (IHi Fi). reflexivity.
  - apply andb_true_iff in F as [Ff Fargs]. cbn [norm]. apply kt_node; [reflexivity|apply call_size|].
    cbn [forallb]. rewrite (IHf Ff), (forallb_map_ok args IHargs Fargs). reflexivity.
  - apply andb_true_iff in F as [F Frest]. apply andb_true_iff in F as [Fk Fa].
    destruct (fn_arity k) as [n|] eqn:A; [|discriminate]. apply Nat.eqb_eq in Fk. subst n.
    cbn [norm]. apply kt_node.
    + destruct (pseudo k) eqn:Ps; [|reflexivity]. exfalso. unfold pseudo in Ps.
      apply orb_true_iff in Ps as [Ps|Ps]; apply String.eqb_eq in Ps; subst k; vm_compute in A; discriminate.
    + cbn [List.length]. rewrite map_length. apply (fn_size k _ A).
    + cbn [forallb]. rewrite (IHa Fa), (forallb_map_ok rest IHrest Frest). reflexivity.
Qed.
