(* C15: several documents alive in one process, one global position counter.
   Every parse registers its start in the position table of the document it works on (PositionTracker::setPath -> positions.add), which throws
   std::logic_error when the new position is smaller than the last one registered for that document; then it consumes its text, advancing the global counter.
   As long as nothing ever moves the counter back, no call on any document can meet that exception, whatever else was parsed in between (the 32-bit wrap of the
   counter is the separate statement State.wrap_refuted).  A front end that restarts the counter for every model breaks this for documents that outlive
   the parse of another model. *)
From Coq Require Import List NArith Bool Lia.
Import ListNotations.
Local Open Scope N_scope.

Record world := mkw { w_ctr : N; w_last : nat -> option N; w_threw : bool }.
Inductive call := Model (d : nat) (len : N) | Block (d : nat) (len : N).   (* a whole model / a query, expression or block text parsed on document d *)
Definition upd (f : nat -> option N) (d : nat) (p : N) : nat -> option N := fun x => if Nat.eqb x d then Some p else f x.
Definition reg (w : world) (d : nat) : world :=
  match w_last w d with
  | Some p => if N.ltb (w_ctr w) p then mkw (w_ctr w) (w_last w) true else mkw (w_ctr w) (upd (w_last w) d (w_ctr w)) (w_threw w)
  | None => mkw (w_ctr w) (upd (w_last w) d (w_ctr w)) (w_threw w)
  end.
Definition consume (w : world) (len : N) : world := mkw (w_ctr w + len) (w_last w) (w_threw w).
(* restart = true: the variant whose model parses count from zero *)
Definition step (restart : bool) (w : world) (c : call) : world :=
  match c with
  | Model d len => reg (consume (reg (mkw (if restart then 0 else w_ctr w) (w_last w) (w_threw w)) d) len) d      (* entries from its first to its last line *)
  | Block d len => consume (reg w d) len
  end.
Definition w0 := mkw 0 (fun _ => None) false.

Definition Inv (w : world) : Prop := w_threw w = false /\ forall d p, w_last w d = Some p -> p <= w_ctr w.

Lemma reg_inv w d : Inv w -> Inv (reg w d).
Proof.
  intros [Ht Hl]. unfold reg. destruct (w_last w d) as [p|] eqn:E.
  - destruct (N.ltb_spec (w_ctr w) p) as [Hlt|Hge]; [specialize (Hl d p E); lia|].
    split; [exact Ht|]. cbn. intros d' p'. unfold upd. destruct (Nat.eqb d' d); [intros [= <-]; lia|apply Hl].
  - split; [exact Ht|]. cbn. intros d' p'. unfold upd. destruct (Nat.eqb d' d); [intros [= <-]; lia|apply Hl].
Qed.
Lemma consume_inv w len : Inv w -> Inv (consume w len).
Proof. intros [Ht Hl]. split; [exact Ht|]. cbn. intros d p H. specialize (Hl d p H). lia. Qed.
Lemma step_inv w c : Inv w -> Inv (step false w c).
Proof.
  intros H. destruct c as [d len|d len]; cbn [step]; [apply reg_inv|]; apply consume_inv, reg_inv; [|exact H].
  destruct w; exact H.
Qed.

(* any history of parses over any number of documents, interleaved in any way *)
Theorem interleaved_documents_never_throw cs : w_threw (fold_left (step false) cs w0) = false.
Proof.
  assert (Inv w0) as H by (split; [reflexivity|intros d p [=]]).
  revert H. generalize w0. induction cs as [|c cs IH]; intros w H; cbn [fold_left]; [exact (proj1 H)|].
  apply IH, step_inv, H.
Qed.

(* restarting the counter: model A (100 characters) into document 0, a shorter model B into document 1, then a query on document 0 *)
Example restart_refuted : w_threw (fold_left (step true) [Model 0 100; Model 1 10; Block 0 5] w0) = true
                       /\ w_threw (fold_left (step true) [Model 0 100; Block 0 5] w0) = false
                       /\ w_threw (fold_left (step false) [Model 0 100; Model 1 10; Block 0 5] w0) = false.
Proof. vm_compute. repeat split. Qed.
