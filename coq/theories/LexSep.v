(* C09: blanks between tokens.  For every literal table without blanks inside literals: token boundaries never cross a blank, and
   the token stream does not depend on how many blanks (spaces, tabs) separate two tokens. *)
From Coq Require Import List Arith Bool Ascii String Lia.
From Utap Require Import CommentLex LexModel LexProofs.
Import ListNotations.

(* ---------- character facts, by enumeration of the 256 characters ---------- *)
Ltac all_chars a := destruct a as [[] [] [] [] [] [] [] []]; vm_compute; try discriminate; try (repeat split; reflexivity); try reflexivity.
Lemma alpha_facts a : is_alpha a = true ->
  (code a =? 92) = false /\ (code a =? 47) = false /\ (code a =? 13) = false /\ (code a =? 34) = false /\ is_blank a = false /\ is_nl a = false /\ is_digit a = false /\ is_idchr a = true.
Proof. all_chars a. Qed.
Lemma digit_facts a : is_digit a = true ->
  (code a =? 92) = false /\ (code a =? 47) = false /\ (code a =? 13) = false /\ (code a =? 34) = false /\ is_blank a = false /\ is_nl a = false /\ is_alpha a = false /\
  (code a =? 46) = false /\ ((code a =? 101) || (code a =? 69)) = false.
Proof. all_chars a. Qed.
Lemma blank_facts c : is_blank c = true ->
  is_idchr c = false /\ is_digit c = false /\ is_alpha c = false /\ is_nl c = false /\ (code c =? 46) = false /\ ((code c =? 101) || (code c =? 69)) = false /\
  (code c =? 92) = false /\ (code c =? 47) = false /\ (code c =? 13) = false /\ (code c =? 34) = false /\ (code c =? 42) = false.
Proof. all_chars c. Qed.

(* ---------- spans and prefixes stop at the blank ---------- *)
Lemma spanp_stop p w c rest : p c = false -> forallb p w = true -> spanp p (w ++ c :: rest) = List.length w.
Proof. intros Hc. induction w as [|x w IH]; cbn; [now rewrite Hc|]. intro H. apply andb_prop in H as [Hx Hw]. rewrite Hx. f_equal. apply IH, Hw. Qed.
Lemma spanp_all p w : forallb p w = true -> spanp p w = List.length w.
Proof. induction w as [|x w IH]; cbn; [reflexivity|]. intro H. apply andb_prop in H as [Hx Hw]. rewrite Hx. f_equal. apply IH, Hw. Qed.
Definition blank_free (t : text) : bool := forallb (fun c => negb (is_blank c)) t.
Lemma starts_local lt : blank_free lt = true -> forall w c rest, is_blank c = true -> starts lt (w ++ c :: rest) = starts lt w.
Proof.
  induction lt as [|a lt IH]; intros Hf w c rest Hc; [destruct w; reflexivity|]. cbn in Hf. apply andb_prop in Hf as [Ha Hf].
  destruct w as [|x w]; cbn.
  - destruct (Ascii.eqb_spec a c) as [->|]; [rewrite Hc in Ha; discriminate | reflexivity].
  - now rewrite (IH Hf).
Qed.
Lemma starts_length p : forall s, starts p s = true -> List.length p <= List.length s.
Proof. induction p as [|a p IH]; intros [|x s]; cbn; try lia; try discriminate. intro H. apply andb_prop in H as [_ H]. specialize (IH _ H). lia. Qed.

Definition table_blank_free (literals : list (string * string)) : Prop := forall t tok, In (t, tok) literals -> blank_free (list_ascii_of_string t) = true.
Lemma best_lit_local ls : (forall t tok, In (t, tok) ls -> blank_free (list_ascii_of_string t) = true) ->
  forall w c rest best, is_blank c = true -> best_lit ls (w ++ c :: rest) best = best_lit ls w best.
Proof.
  induction ls as [|[t tok] ls IH]; intros Hf w c rest best Hc; [reflexivity|]. cbn [best_lit].
  rewrite (starts_local _ (Hf t tok (or_introl eq_refl)) w c rest Hc). apply IH; [intros t' tok' H; apply (Hf t' tok'); right; exact H | exact Hc].
Qed.

Definition symbol_head0 (a : ascii) : bool :=
  negb (is_alpha a || is_digit a || is_blank a || is_nl a || (code a =? 13) || (code a =? 92) || (code a =? 34)).
Lemma symbol_facts a : symbol_head0 a = true ->
  is_alpha a = false /\ is_digit a = false /\ is_blank a = false /\ is_nl a = false /\ (code a =? 13) = false /\ (code a =? 92) = false /\ (code a =? 34) = false.
Proof. all_chars a. Qed.
Lemma slash_code a : Ascii.eqb "/"%char a = (code a =? 47).
Proof. all_chars a. Qed.
Lemma star_code a : Ascii.eqb "*"%char a = (code a =? 42).
Proof. all_chars a. Qed.
Lemma alpha_not_slash a : is_alpha a = true -> Ascii.eqb "/"%char a = false.
Proof. all_chars a. Qed.
Lemma digit_not_slash a : is_digit a = true -> Ascii.eqb "/"%char a = false.
Proof. all_chars a. Qed.

Ltac resolve_pick := cbn [pick app]; repeat (match goal with |- context [?x <? ?y] => destruct (Nat.ltb_spec x y); try lia end; cbn [pick]); try reflexivity.

Section Words.
  Variable literals : list (string * string).
  Hypothesis Hbf : table_blank_free literals.

  Lemma m_lit_local w c rest : is_blank c = true -> m_lit literals (w ++ c :: rest) = m_lit literals w.
  Proof. intro Hc. unfold m_lit. apply best_lit_local; [exact Hbf | exact Hc]. Qed.
  Lemma m_lit_bound w tok n : m_lit literals w = Some (tok, n) -> n <= List.length w.
  Proof.
    intro E. pose proof (best_lit_spec literals w None ltac:(discriminate)) as H. fold (m_lit literals w) in H. rewrite E in H.
    destruct H as ([H|(t & Hin & Hs & Hl)] & _ & _); [discriminate|]. subst n. apply starts_length, Hs.
  Qed.

  Definition ident_word (w : text) : bool := match w with a :: r => is_alpha a && forallb is_idchr r | [] => false end.
  Definition number_word (w : text) : bool := match w with a :: r => is_digit a && forallb is_digit r | [] => false end.
  (* the kind the scanner gives a word: the literal of exactly that text if there is one (its rule stands first), otherwise the class *)
  Definition word_kind (dflt : kind) (w : text) : kind :=
    match m_lit literals w with Some (tok, n) => if n =? List.length w then KLit tok else dflt | None => dflt end.

  Lemma lex1_ident_word w c rest : ident_word w = true -> is_blank c = true -> lex1 literals (w ++ c :: rest) = Tok (word_kind KIdent w) (List.length w).
  Proof.
    intros Hw Hc. destruct w as [|a r]; [discriminate|]. cbn [ident_word] in Hw. apply andb_prop in Hw as [Ha Hr].
    destruct (alpha_facts a Ha) as (F92 & F47 & F13 & F34 & Fb & Fn & Fd & Fi). destruct (blank_facts c Hc) as (Ci & _).
    pose proof (alpha_not_slash a Ha) as Fs.
    unfold lex1. cbn [app]. unfold candidates.
    assert (m_cont (a :: r ++ c :: rest) = 0) as -> by (cbn; now rewrite F92).
    assert (m_linecomment (a :: r ++ c :: rest) = 0) as -> by (cbn; destruct (r ++ c :: rest); [reflexivity | now rewrite F47]).
    assert (m_blank (a :: r ++ c :: rest) = 0) as -> by (unfold m_blank; cbn; now rewrite Fb).
    assert (m_open (a :: r ++ c :: rest) = 0) as -> by (unfold m_open, open_mark; cbn [starts]; now rewrite Fs).
    assert (m_nl (a :: r ++ c :: rest) = 0) as -> by (unfold m_nl; cbn; now rewrite Fn).
    assert (m_crlf (List.length (a :: r ++ c :: rest)) (a :: r ++ c :: rest) = 0) as -> by (cbn; destruct (r ++ c :: rest); [reflexivity | now rewrite F13]).
    assert (m_ident (a :: r ++ c :: rest) = S (List.length r)) as -> by (cbn; rewrite Ha; f_equal; apply spanp_stop; assumption).
    assert (m_num (a :: r ++ c :: rest) = 0) as -> by (unfold m_num; cbn; now rewrite Fd).
    assert (m_float (a :: r ++ c :: rest) = 0) as -> by (unfold m_float; cbn; now rewrite Fd).
    assert (m_any (a :: r ++ c :: rest) = 1) as -> by (cbn; now rewrite Fn).
    assert (m_string (a :: r ++ c :: rest) = 0) as -> by (cbn; now rewrite F34).
    change (a :: r ++ c :: rest) with ((a :: r) ++ c :: rest). rewrite (m_lit_local (a :: r) c rest Hc).
    unfold word_kind. destruct (m_lit literals (a :: r)) as [[tok n]|] eqn:El; cbn [app pick List.length].
    - pose proof (m_lit_bound _ _ _ El) as Hn. cbn [List.length] in Hn.
      destruct (Nat.eqb_spec n (S (List.length r))) as [->|Hne]; resolve_pick.
    - resolve_pick.
  Qed.

  Lemma skipn_app_exact {A} (w r : list A) : skipn (List.length w) (w ++ r) = r.
  Proof. induction w; [reflexivity | assumption]. Qed.
  Lemma firstn_app_exact {A} (w r : list A) : firstn (List.length w) (w ++ r) = w.
  Proof. induction w as [|x w IH]; [reflexivity | cbn; now rewrite IH]. Qed.

  Lemma lex1_number_word w c rest : number_word w = true -> is_blank c = true -> lex1 literals (w ++ c :: rest) = Tok (word_kind KNum w) (List.length w).
  Proof.
    intros Hw Hc. destruct w as [|a r]; [discriminate|]. cbn [number_word] in Hw. apply andb_prop in Hw as [Ha Hr].
    destruct (digit_facts a Ha) as (F92 & F47 & F13 & F34 & Fb & Fn & Fal & _). destruct (blank_facts c Hc) as (_ & Cd & _ & _ & C46 & Ce & _).
    pose proof (digit_not_slash a Ha) as Fs.
    assert (forallb is_digit (a :: r) = true) as Hall by (cbn; now rewrite Ha).
    unfold lex1. cbn [app]. unfold candidates.
    assert (m_cont (a :: r ++ c :: rest) = 0) as -> by (cbn; now rewrite F92).
    assert (m_linecomment (a :: r ++ c :: rest) = 0) as -> by (cbn; destruct (r ++ c :: rest); [reflexivity | now rewrite F47]).
    assert (m_blank (a :: r ++ c :: rest) = 0) as -> by (unfold m_blank; cbn; now rewrite Fb).
    assert (m_open (a :: r ++ c :: rest) = 0) as -> by (unfold m_open, open_mark; cbn [starts]; now rewrite Fs).
    assert (m_nl (a :: r ++ c :: rest) = 0) as -> by (unfold m_nl; cbn; now rewrite Fn).
    assert (m_crlf (List.length (a :: r ++ c :: rest)) (a :: r ++ c :: rest) = 0) as -> by (cbn; destruct (r ++ c :: rest); [reflexivity | now rewrite F13]).
    assert (m_ident (a :: r ++ c :: rest) = 0) as -> by (cbn; now rewrite Fal).
    assert (m_num (a :: r ++ c :: rest) = S (List.length r)) as -> by (unfold m_num; change (a :: r ++ c :: rest) with ((a :: r) ++ c :: rest); now rewrite (spanp_stop is_digit (a :: r) c rest Cd Hall)).
    assert (m_float (a :: r ++ c :: rest) = S (List.length r)) as ->.
    { unfold m_float. change (a :: r ++ c :: rest) with ((a :: r) ++ c :: rest). rewrite (spanp_stop is_digit (a :: r) c rest Cd Hall). cbn [List.length Nat.eqb].
      change (S (List.length r)) with (List.length (a :: r)). rewrite skipn_app_exact. unfold m_frac. rewrite C46. cbn [andb]. rewrite Nat.add_0_r, skipn_app_exact.
      unfold m_exp. rewrite Ce. cbn [List.length]. lia. }
    assert (m_any (a :: r ++ c :: rest) = 1) as -> by (cbn; now rewrite Fn).
    assert (m_string (a :: r ++ c :: rest) = 0) as -> by (cbn; now rewrite F34).
    change (a :: r ++ c :: rest) with ((a :: r) ++ c :: rest). rewrite (m_lit_local (a :: r) c rest Hc).
    unfold word_kind. destruct (m_lit literals (a :: r)) as [[tok n]|] eqn:El; cbn [app pick List.length].
    - pose proof (m_lit_bound _ _ _ El) as Hn. cbn [List.length] in Hn.
      destruct (Nat.eqb_spec n (S (List.length r))) as [->|Hne]; resolve_pick.
    - resolve_pick.
  Qed.

  (* a run of blanks is skipped as a whole *)
  Lemma best_lit_blank_head ls c s : (forall t tok, In (t, tok) ls -> blank_free (list_ascii_of_string t) = true) -> is_blank c = true ->
    forall best, best_lit ls (c :: s) best = best.
  Proof.
    intros Hf Hc. induction ls as [|[t tok] ls IH]; intro best; [reflexivity|]. cbn [best_lit].
    assert (starts (list_ascii_of_string t) (c :: s) && match best with Some (_, n) => n <? List.length (list_ascii_of_string t) | None => 0 <? List.length (list_ascii_of_string t) end = false) as ->.
    { pose proof (Hf t tok (or_introl eq_refl)) as Hb. destruct (list_ascii_of_string t) as [|a w]; [cbn; destruct best as [[? ?]|]; reflexivity|].
      cbn in Hb. apply andb_prop in Hb as [Ha _]. cbn [starts]. destruct (Ascii.eqb_spec a c) as [->|]; [rewrite Hc in Ha; discriminate | reflexivity]. }
    apply IH. intros t' tok' H. apply (Hf t' tok'). right. exact H.
  Qed.
  Lemma lex1_blank c s : is_blank c = true -> lex1 literals (c :: s) = Skip SBlank (m_blank (c :: s)).
  Proof.
    intro Hc. destruct (blank_facts c Hc) as (Ci & Cd & Ca & Cn & _ & _ & C92 & C47 & C13 & C34 & _).
    assert (Ascii.eqb "/"%char c = false) as Fs by (destruct (Ascii.eqb_spec "/"%char c) as [<-|]; [discriminate Hc | reflexivity]).
    unfold lex1, candidates.
    assert (m_cont (c :: s) = 0) as -> by (cbn; now rewrite C92).
    assert (m_linecomment (c :: s) = 0) as -> by (cbn; destruct s; [reflexivity | now rewrite C47]).
    assert (m_open (c :: s) = 0) as -> by (unfold m_open, open_mark; cbn [starts]; now rewrite Fs).
    assert (m_nl (c :: s) = 0) as -> by (unfold m_nl; cbn; now rewrite Cn).
    assert (m_crlf (List.length (c :: s)) (c :: s) = 0) as -> by (cbn; destruct s; [reflexivity | now rewrite C13]).
    assert (m_lit literals (c :: s) = None) as -> by (unfold m_lit; apply best_lit_blank_head; assumption).
    assert (m_ident (c :: s) = 0) as -> by (cbn; now rewrite Ca).
    assert (m_num (c :: s) = 0) as -> by (unfold m_num; cbn; now rewrite Cd).
    assert (m_float (c :: s) = 0) as -> by (unfold m_float; cbn; now rewrite Cd).
    assert (m_any (c :: s) = 1) as -> by (cbn; now rewrite Cn).
    assert (m_string (c :: s) = 0) as -> by (cbn; now rewrite C34).
    assert (1 <= m_blank (c :: s)) by (unfold m_blank; cbn; rewrite Hc; lia).
    resolve_pick.
  Qed.

  (* words that start with a symbol character (operators, brackets, punctuation) *)
  Definition symbol_head (a : ascii) : bool :=
    negb (is_alpha a || is_digit a || is_blank a || is_nl a || (code a =? 13) || (code a =? 92) || (code a =? 34)).
  Lemma lex1_symbol_word a r c rest : symbol_head a = true -> starts line_mark (a :: r) = false -> starts open_mark (a :: r) = false -> is_blank c = true ->
    lex1 literals ((a :: r) ++ c :: rest) = match m_lit literals (a :: r) with Some (tok, S n) => Tok (KLit tok) (S n) | _ => Tok KError 1 end.
  Proof.
    intros Ha Hl Ho Hc. destruct (symbol_facts a Ha) as (Fal & Fd & Fb & Fn & F13 & F92 & F34). destruct (blank_facts c Hc) as (_ & _ & _ & _ & _ & _ & _ & C47 & _ & _ & C42).
    unfold lex1. cbn [app]. unfold candidates.
    assert (m_cont (a :: r ++ c :: rest) = 0) as -> by (cbn; now rewrite F92).
    assert (m_linecomment (a :: r ++ c :: rest) = 0) as ->.
    { cbn. destruct r as [|b r]; cbn [app]; [rewrite C47, andb_false_r; reflexivity|].
      unfold line_mark in Hl. cbn [starts] in Hl. rewrite andb_true_r in Hl. rewrite <- !slash_code. rewrite Hl. reflexivity. }
    assert (m_blank (a :: r ++ c :: rest) = 0) as -> by (unfold m_blank; cbn; now rewrite Fb).
    assert (m_open (a :: r ++ c :: rest) = 0) as ->.
    { unfold m_open. destruct r as [|b r]; cbn [app].
      - unfold open_mark. cbn [starts]. rewrite andb_true_r. rewrite star_code, C42, andb_false_r. reflexivity.
      - unfold open_mark in *. cbn [starts] in *. rewrite andb_true_r in *. rewrite Ho. reflexivity. }
    assert (m_nl (a :: r ++ c :: rest) = 0) as -> by (unfold m_nl; cbn; now rewrite Fn).
    assert (m_crlf (List.length (a :: r ++ c :: rest)) (a :: r ++ c :: rest) = 0) as -> by (cbn; destruct (r ++ c :: rest); [reflexivity | now rewrite F13]).
    assert (m_ident (a :: r ++ c :: rest) = 0) as -> by (cbn; now rewrite Fal).
    assert (m_num (a :: r ++ c :: rest) = 0) as -> by (unfold m_num; cbn; now rewrite Fd).
    assert (m_float (a :: r ++ c :: rest) = 0) as -> by (unfold m_float; cbn; now rewrite Fd).
    assert (m_any (a :: r ++ c :: rest) = 1) as -> by (cbn; now rewrite Fn).
    assert (m_string (a :: r ++ c :: rest) = 0) as -> by (cbn; now rewrite F34).
    change (a :: r ++ c :: rest) with ((a :: r) ++ c :: rest). rewrite (m_lit_local (a :: r) c rest Hc).
    destruct (m_lit literals (a :: r)) as [[tok [|n]]|]; resolve_pick.
  Qed.

  (* a word: whatever blank and text follow it, the scanner takes exactly the word as one token of kind k *)
  Definition solid (k : kind) (w : text) : Prop := forall c rest, is_blank c = true -> lex1 literals (w ++ c :: rest) = Tok k (List.length w).
  Definition blanks (b : text) : Prop := b <> [] /\ forallb is_blank b = true.
  Definition not_line_end (k : kind) : Prop := k <> KLf /\ k <> KCrLf.

  (* words separated (and followed) by runs of blanks are scanned into exactly those words, whatever the runs are *)
  Fixpoint render (ws : list (kind * text)) (bs : list text) : text :=
    match ws, bs with (_, w) :: ws', b :: bs' => w ++ b ++ render ws' bs' | _, _ => [] end.
  Lemma solid_head k w : solid k w -> exists a r, w = a :: r /\ is_blank a = false.
  Proof.
    intro H. destruct w as [|a r].
    - specialize (H " "%char [] eq_refl). cbn [app] in H. rewrite (lex1_blank " "%char [] eq_refl) in H. discriminate.
    - exists a, r. split; [reflexivity|]. destruct (is_blank a) eqn:Ea; [|reflexivity].
      specialize (H " "%char [] eq_refl). cbn [app] in H. rewrite (lex1_blank a _ Ea) in H. discriminate.
  Qed.
  Lemma render_no_leading_blank ws bs : Forall (fun kw => solid (fst kw) (snd kw) /\ not_line_end (fst kw)) ws -> m_blank (render ws bs) = 0.
  Proof.
    intro H. destruct ws as [|[k w] ws]; [reflexivity|]. destruct bs as [|b bs]; [reflexivity|]. inversion H as [|? ? [Hs _] _]; subst. cbn [fst snd] in Hs.
    destruct (solid_head _ _ Hs) as (a & r & -> & Ha). cbn. unfold m_blank. cbn. now rewrite Ha.
  Qed.
  Lemma skip_blank_run c b s : is_blank c = true -> forallb is_blank b = true -> m_blank s = 0 ->
    skipn (m_blank (c :: b ++ s)) (c :: b ++ s) = s.
  Proof.
    intros Hc Hb Hs. unfold m_blank in *. cbn [spanp]. rewrite Hc. cbn [skipn]. induction b as [|x b IH]; cbn [app].
    - rewrite Hs. reflexivity.
    - cbn in Hb. apply andb_prop in Hb as [Hx Hb]. cbn [spanp]. rewrite Hx. cbn [skipn]. apply IH, Hb.
  Qed.
  Theorem lex_words : forall ws bs fuel, List.length bs = List.length ws -> 2 * List.length ws < fuel ->
    Forall (fun kw => solid (fst kw) (snd kw) /\ not_line_end (fst kw)) ws -> Forall blanks bs -> lex literals fuel (render ws bs) = Some ws.
  Proof.
    induction ws as [|[k w] ws IH]; intros bs fuel Hl Hf Hs Hb.
    - destruct bs; [|discriminate]. destruct fuel; reflexivity.
    - destruct bs as [|b bs]; [discriminate|]. inversion Hs as [|? ? [Hsol Hk] Hs']; subst. inversion Hb as [|? ? [Hne Hbl] Hb']; subst.
      cbn [fst snd] in *. destruct b as [|c b]; [contradiction|]. cbn in Hbl. apply andb_prop in Hbl as [Hc Hbl].
      destruct fuel as [|[|fuel]]; [cbn in Hf; lia | cbn in Hf; lia|]. cbn [render].
      change (w ++ (c :: b) ++ render ws bs) with (w ++ c :: (b ++ render ws bs)).
      assert (lex literals (S fuel) (c :: b ++ render ws bs) = Some ws) as Hrest.
      { cbn [lex]. rewrite (lex1_blank c _ Hc). rewrite (skip_blank_run c b _ Hc Hbl (render_no_leading_blank ws bs Hs')).
        apply IH; [cbn in Hl; lia | cbn in Hf; lia | exact Hs' | exact Hb']. }
      change (lex literals (S (S fuel)) (w ++ c :: b ++ render ws bs)) with
        (match lex1 literals (w ++ c :: b ++ render ws bs) with
         | Eof => Some [] | Skip _ n => lex literals (S fuel) (skipn n (w ++ c :: b ++ render ws bs))
         | Tok KLf n => lex literals (S fuel) (skipn n (w ++ c :: b ++ render ws bs))
         | Tok KCrLf n => lex literals (S fuel) (skipn n (w ++ c :: b ++ render ws bs))
         | Tok k0 n => option_map (cons (k0, firstn n (w ++ c :: b ++ render ws bs))) (lex literals (S fuel) (skipn n (w ++ c :: b ++ render ws bs)))
         | Comment => match scan (List.length (w ++ c :: b ++ render ws bs)) (skipn 2 (w ++ c :: b ++ render ws bs)) with Closed rest => lex literals (S fuel) rest | Unclosed => None end
         end).
      rewrite (Hsol c _ Hc). rewrite firstn_app_exact, skipn_app_exact, Hrest.
      destruct Hk as [Hk1 Hk2]. destruct k; try reflexivity; exfalso; [apply Hk1 | apply Hk2]; reflexivity.
  Qed.
  (* hence the choice of blanks between the same words is immaterial *)
  Corollary lex_blank_invariance ws bs bs' fuel : List.length bs = List.length ws -> List.length bs' = List.length ws -> 2 * List.length ws < fuel ->
    Forall (fun kw => solid (fst kw) (snd kw) /\ not_line_end (fst kw)) ws -> Forall blanks bs -> Forall blanks bs' ->
    lex literals fuel (render ws bs) = lex literals fuel (render ws bs').
  Proof. intros. rewrite !lex_words; auto. Qed.
  (* identifiers (keywords, names) and numbers are such words *)
  Theorem ident_is_solid w : ident_word w = true -> solid (word_kind KIdent w) w.
  Proof. intros H c rest Hc. apply lex1_ident_word; assumption. Qed.
  Theorem number_is_solid w : number_word w = true -> solid (word_kind KNum w) w.
  Proof. intros H c rest Hc. apply lex1_number_word; assumption. Qed.
  (* an operator or punctuation literal that no longer literal extends is a word *)
  Definition symbol_word (w : text) (tok : string) : bool :=
    match w with
    | a :: r => symbol_head a && negb (starts line_mark w) && negb (starts open_mark w) &&
                match m_lit literals w with Some (tok', n) => String.eqb tok' tok && (n =? List.length w) | None => false end
    | [] => false
    end.
  Theorem symbol_is_solid w tok : symbol_word w tok = true -> solid (KLit tok) w.
  Proof.
    intros H c rest Hc. destruct w as [|a r]; [discriminate|]. cbn [symbol_word] in H.
    apply andb_prop in H as [H Hm]. apply andb_prop in H as [H Ho]. apply andb_prop in H as [Ha Hl].
    apply negb_true_iff in Ho. apply negb_true_iff in Hl.
    rewrite (lex1_symbol_word a r c rest Ha Hl Ho Hc). destruct (m_lit literals (a :: r)) as [[tok' n]|]; [|discriminate].
    apply andb_prop in Hm as [Ht Hn]. apply String.eqb_eq in Ht. apply Nat.eqb_eq in Hn. subst. cbn [List.length]. reflexivity.
  Qed.
End Words.

(* the decidable table check of LexProofs.v gives the hypothesis of this file *)
Lemma table_ok_blank_free literals : table_ok literals = true -> table_blank_free literals.
Proof.
  unfold table_ok, table_blank_free. rewrite forallb_forall. intros H t tok Hin. specialize (H (t, tok) Hin). cbn [fst] in H.
  apply andb_prop in H as [H _]. apply andb_prop in H as [H _]. unfold sep_free in H. unfold blank_free.
  rewrite forallb_forall in *. intros c Hc. specialize (H c Hc). destruct (is_blank c); [discriminate | reflexivity].
Qed.

Definition operators_are_words (literals : list (string * string)) : bool :=
  forallb (fun tt => match list_ascii_of_string (fst tt) with a :: r => if symbol_head a then symbol_word literals (a :: r) (snd tt) else true | [] => true end) literals.
