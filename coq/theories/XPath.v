(* C06 (a): the path the XML reader attaches to an element selects exactly that element.

   Path (src/xmlreader.cpp) keeps, per depth, the tags of the sibling elements begun so far; Path::str() prints for each
   depth the tag of the current element and — for the tags that may repeat — the number of siblings so far with that tag
   (count(level, tag)), e.g. /nta/template[2]/location[1]/label[3].  An XPath engine reads such a string as: among the
   children with that tag take the k-th (or, without index, all of them).  With the DTD's promise that un-indexed tags occur
   at most once among siblings, the selection is the element itself. *)
From Coq Require Import List Arith Bool Lia.
Import ListNotations.

Inductive tree := Node (tag : nat) (kids : list tree).
Definition tag_of (t : tree) : nat := match t with Node g _ => g end.
Definition kids_of (t : tree) : list tree := match t with Node _ k => k end.
Definition step := (nat * option nat)%type.                       (* tag, positional index (1-based) *)

Section XPath.
Variable indexed : nat -> bool.                                     (* the tags Path::str prints with [count] *)

(* Path::str at the element reached by the child positions pos: one step per depth *)
Definition count_tag (g : nat) (l : list tree) : nat := length (filter (fun t => Nat.eqb (tag_of t) g) l).
Fixpoint xpath_of (forest : list tree) (pos : list nat) : list step :=
  match pos with
  | [] => []
  | i :: r => match nth_error forest i with
              | Some t => (tag_of t, if indexed (tag_of t) then Some (count_tag (tag_of t) (firstn (S i) forest)) else None) :: xpath_of (kids_of t) r
              | None => []
              end
  end.
Fixpoint node_at (forest : list tree) (pos : list nat) : option tree :=
  match pos with
  | [] => None
  | [i] => nth_error forest i
  | i :: r => match nth_error forest i with Some t => node_at (kids_of t) r | None => None end
  end.

(* what an XPath engine selects *)
Definition pick (s : step) (forest : list tree) : list tree :=
  let ms := filter (fun t => Nat.eqb (tag_of t) (fst s)) forest in
  match snd s with
  | Some k => match k with O => [] | S k' => match nth_error ms k' with Some t => [t] | None => [] end end
  | None => ms
  end.
Fixpoint select (ss : list step) (forest : list tree) : list tree :=
  match ss with
  | [] => []
  | [s] => pick s forest
  | s :: r => flat_map (fun t => select r (kids_of t)) (pick s forest)
  end.

(* the DTD's multiplicities: an un-indexed tag occurs at most once among siblings, everywhere in the tree *)
Fixpoint unique_ok (fuel : nat) (forest : list tree) : Prop :=
  match fuel with O => True | S f =>
    (forall i j a b, nth_error forest i = Some a -> nth_error forest j = Some b -> tag_of a = tag_of b -> indexed (tag_of a) = false -> i = j)
    /\ (forall t, In t forest -> unique_ok f (kids_of t))
  end.

Lemma nth_filter_before (p : tree -> bool) : forall (l : list tree) i t, nth_error l i = Some t -> p t = true ->
  nth_error (filter p l) (length (filter p (firstn i l))) = Some t.
Proof.
  induction l as [|x l IH]; intros i t H P; [destruct i; discriminate|].
  destruct i as [|i]; cbn [nth_error firstn filter length] in *.
  - injection H as ->. now rewrite P.
  - destruct (p x); cbn [length nth_error]; now apply IH.
Qed.
Lemma count_firstn_S (p : tree -> bool) : forall (l : list tree) i t, nth_error l i = Some t -> p t = true ->
  length (filter p (firstn (S i) l)) = S (length (filter p (firstn i l))).
Proof.
  induction l as [|x l IH]; intros i t H P; [destruct i; discriminate|].
  destruct i as [|i].
  - cbn [nth_error] in H. injection H as ->. cbn [firstn filter]. now rewrite P.
  - cbn [nth_error] in H. change (firstn (S (S i)) (x :: l)) with (x :: firstn (S i) l). change (firstn (S i) (x :: l)) with (x :: firstn i l).
    cbn [filter]. destruct (p x); cbn [length]; now rewrite (IH i t H P).
Qed.
Lemma nth_filter_count (g : nat) : forall (l : list tree) i t, nth_error l i = Some t -> tag_of t = g ->
  nth_error (filter (fun x => Nat.eqb (tag_of x) g) l) (count_tag g (firstn (S i) l) - 1) = Some t /\ 1 <= count_tag g (firstn (S i) l).
Proof.
  intros l i t H G. unfold count_tag.
  assert (P : (fun x => Nat.eqb (tag_of x) g) t = true) by (cbn; rewrite G; apply Nat.eqb_refl).
  rewrite (count_firstn_S _ l i t H P). split; [|lia].
  replace (S (length (filter (fun x => Nat.eqb (tag_of x) g) (firstn i l))) - 1) with (length (filter (fun x => Nat.eqb (tag_of x) g) (firstn i l))) by lia.
  now apply nth_filter_before.
Qed.
Lemma filter_unique (g : nat) : forall (l : list tree) i t, nth_error l i = Some t -> tag_of t = g ->
  (forall j b, nth_error l j = Some b -> tag_of b = g -> i = j) -> filter (fun x => Nat.eqb (tag_of x) g) l = [t].
Proof.
  induction l as [|x l IH]; intros i t H G U; [destruct i; discriminate|].
  destruct i as [|i]; cbn [nth_error filter] in *.
  - injection H as ->. rewrite G, Nat.eqb_refl. f_equal.
    assert (F : forall y, In y l -> Nat.eqb (tag_of y) g = false).
    { intros y Hy. destruct (Nat.eqb_spec (tag_of y) g) as [E|]; [|reflexivity]. apply In_nth_error in Hy as [j Hj]. specialize (U (S j) y Hj E). discriminate. }
    clear -F. induction l as [|y l IHl]; [reflexivity|]. cbn. rewrite (F y (or_introl eq_refl)). apply IHl. intros z Hz. apply F. now right.
  - destruct (Nat.eqb_spec (tag_of x) g) as [E|N].
    + specialize (U 0 x eq_refl E). discriminate.
    + apply (IH i t H G). intros j b Hj Gb. specialize (U (S j) b Hj Gb). lia.
Qed.

Lemma pick_self forest i t fuel : nth_error forest i = Some t -> unique_ok (S fuel) forest ->
  pick (tag_of t, if indexed (tag_of t) then Some (count_tag (tag_of t) (firstn (S i) forest)) else None) forest = [t].
Proof.
  intros H [U _]. unfold pick. cbn [fst snd]. destruct (indexed (tag_of t)) eqn:I.
  - destruct (nth_filter_count (tag_of t) forest i t H eq_refl) as [E L].
    destruct (count_tag (tag_of t) (firstn (S i) forest)) as [|k]; [lia|]. cbn [Nat.sub] in E. rewrite Nat.sub_0_r in E. now rewrite E.
  - apply (filter_unique (tag_of t) forest i t H eq_refl). intros j b Hj Gb. apply (U i j t b H Hj (eq_sym Gb) I).
Qed.

Theorem xpath_selects_the_element : forall pos forest t, node_at forest pos = Some t -> unique_ok (length pos) forest ->
  select (xpath_of forest pos) forest = [t].
Proof.
  induction pos as [|i r IH]; intros forest t H U; [discriminate|].
  cbn [xpath_of]. destruct r as [|i2 r2].
  - cbn [node_at] in H. rewrite H. cbn [xpath_of select]. apply (pick_self forest i t 0 H U).
  - cbn [node_at] in H. destruct (nth_error forest i) as [a|] eqn:E; [|discriminate].
    assert (Hk : In a forest) by (eapply nth_error_In; eauto).
    cbn [length] in U. pose proof U as [U1 U2].
    change (select (?s :: xpath_of ?f (i2 :: r2)) forest) with (match xpath_of f (i2 :: r2) with [] => pick s forest | _ => flat_map (fun t => select (xpath_of f (i2 :: r2)) (kids_of t)) (pick s forest) end).
    rewrite (pick_self forest i a _ E U).
    specialize (IH (kids_of a) t H (U2 a Hk)).
    destruct (xpath_of (kids_of a) (i2 :: r2)) as [|s0 ss0] eqn:X.
    + cbn in IH. discriminate.
    + cbn [flat_map]. rewrite app_nil_r. exact IH.
Qed.
End XPath.
