(* C20: model of XMLWriter::taTempl (src/xmlwriter.cpp) and an independent reader of its output.
   The XML file is modelled as the element tree an XML parser builds from it; serialisation and
   character escaping are libxml2's and stay outside the model (trusted base).  Layout (x, y, color
   attributes and nail elements) is not modelled: the correspondence check strips it. *)
From Coq Require Import List String Ascii Arith Bool Lia DecimalString DecimalNat.
Import ListNotations.
Local Open Scope string_scope.

(* ---------- the XML tree ---------- *)
Inductive xml := Elem (name : string) (attrs : list (string * string)) (kids : list xml) | Text (s : string).

(* ---------- the document as the writer sees it ---------- *)
Record wloc := mkwloc { wl_nr : nat; wl_name : string; wl_inv : option string; wl_rate : option string;
                        wl_committed : bool; wl_urgent : bool }.      (* None: the expression is empty() *)
Inductive endp := ELoc (nr : nat) | EBp (bpnr : nat).                  (* src / srcb, dst / dstb *)
Record wedge := mkwedge { we_src : endp; we_dst : endp; we_control : bool; we_select : list (string * string);
                          we_guard : option string; we_sync : option string; we_assign : option string; we_prob : option string }.
Record wtempl := mkwtempl { wt_name : string; wt_params : string; wt_decls : string; wt_locs : list wloc; wt_bps : list nat;
                            wt_init : option nat; wt_edges : list wedge }.

(* ---------- XMLWriter ---------- *)
Definition id_str (n : nat) : string := "id" ++ NilZero.string_of_uint (Nat.to_uint n).     (* concat("id", nr) *)
Definition txt (s : string) : list xml := if s =? "" then [] else [Text s].              (* writeString *)
Definition strip (d : string) : string := if prefix "1 && " d then substring 5 (String.length d - 5) d else d.
(* XMLWriter::label: nothing for a trivially true "1" (an exponential rate of 1 is a value and is kept), leading "1 && " removed *)
Definition elide (kind data : string) : bool := (data =? "1") && negb (kind =? "exponentialrate").
Definition label (kind data : string) : list xml :=
  if elide kind data then [] else [Elem "label" [("kind", kind)] (txt (strip data))].
Definition olabel (kind : string) (d : option string) : list xml := match d with Some s => label kind s | None => [] end.
Definition write_loc (l : wloc) : xml :=
  Elem "location" [("id", id_str (wl_nr l))]
       ([Elem "name" [] (txt (wl_name l))] ++ olabel "invariant" (wl_inv l) ++ olabel "exponentialrate" (wl_rate l)
        ++ (if wl_committed l then [Elem "committed" [] []] else if wl_urgent l then [Elem "urgent" [] []] else [])).
Definition write_bp (base bp : nat) : xml := Elem "branchpoint" [("id", id_str (base + bp))] [].
Definition write_init (t : wtempl) : list xml := match wt_init t with Some n => [Elem "init" [("ref", id_str n)] []] | None => [] end.
Definition ep_nr (base : nat) (e : endp) : nat := match e with ELoc n => n | EBp b => base + b end.
Fixpoint join (sep : string) (l : list string) : string :=
  match l with [] => "" | [x] => x | x :: r => x ++ sep ++ join sep r end.
Definition select_text (sel : list (string * string)) : string := join ", " (map (fun nt => fst nt ++ " : " ++ snd nt) sel).
Definition write_labels (e : wedge) : list xml :=
  (match we_select e with [] => [] | s => label "select" (select_text s) end)
  ++ olabel "guard" (we_guard e) ++ olabel "synchronisation" (we_sync e) ++ olabel "assignment" (we_assign e)
  ++ olabel "probability" (we_prob e).
Definition write_edge (base : nat) (e : wedge) : xml :=
  Elem "transition" (if we_control e then [] else [("controllable", "false")])
       ([Elem "source" [("ref", id_str (ep_nr base (we_src e)))] []; Elem "target" [("ref", id_str (ep_nr base (we_dst e)))] []]
        ++ write_labels e).
Definition write_templ (t : wtempl) : xml :=
  let base := List.length (wt_locs t) in
  Elem "template" []
       ([Elem "name" [] (txt (wt_name t)); Elem "parameter" [] (txt (wt_params t)); Elem "declaration" [] (txt (wt_decls t))]
        ++ map write_loc (wt_locs t) ++ map (write_bp base) (wt_bps t) ++ write_init t ++ map (write_edge base) (wt_edges t)).

(* ---------- an independent reader of the template element, written against the DTD ---------- *)
Inductive gend := GLoc (i : nat) | GBp (i : nat).          (* position among the location / branchpoint elements *)
Record gloc := mkgloc { gl_name : string; gl_inv : option string; gl_rate : option string; gl_committed : bool; gl_urgent : bool }.
Record gedge := mkgedge { ge_src : gend; ge_dst : gend; ge_control : bool; ge_select : option string;
                          ge_guard : option string; ge_sync : option string; ge_assign : option string; ge_prob : option string }.
Record graph := mkgraph { g_name : string; g_locs : list gloc; g_nbps : nat; g_init : option nat; g_edges : list gedge }.

Fixpoint attr (k : string) (a : list (string * string)) : option string :=
  match a with [] => None | (k', v) :: r => if k =? k' then Some v else attr k r end.
Definition is_elem (n : string) (x : xml) : bool := match x with Elem m _ _ => m =? n | Text _ => false end.
Definition named (n : string) (ks : list xml) : list xml := filter (is_elem n) ks.
Definition kids_of (x : xml) : list xml := match x with Elem _ _ k => k | Text _ => [] end.
Definition attrs_of (x : xml) : list (string * string) := match x with Elem _ a _ => a | Text _ => [] end.
Fixpoint text_of (ks : list xml) : string := match ks with [] => "" | Text s :: r => s ++ text_of r | _ :: r => text_of r end.
Definition one {A} (l : list A) : option (option A) := match l with [] => Some None | [x] => Some (Some x) | _ => None end.
Definition has_kind (k : string) (x : xml) : bool :=
  is_elem "label" x && match attr "kind" (attrs_of x) with Some k' => k' =? k | None => false end.
(* the text of the label of that kind: Some None when absent, None when there are several *)
Definition label_of (k : string) (ks : list xml) : option (option string) :=
  one (map (fun x => text_of (kids_of x)) (filter (has_kind k) ks)).
Fixpoint index_of (s : string) (l : list string) : option nat :=
  match l with [] => None | x :: r => if s =? x then Some 0 else option_map S (index_of s r) end.
Fixpoint nodupb (l : list string) : bool := match l with [] => true | x :: r => negb (existsb (String.eqb x) r) && nodupb r end.
Fixpoint traverse {A B} (f : A -> option B) (l : list A) : option (list B) :=
  match l with [] => Some [] | x :: r => match f x, traverse f r with Some y, Some ys => Some (y :: ys) | _, _ => None end end.
Definition id_of (x : xml) : option string := attr "id" (attrs_of x).
Definition resolve (lids bids : list string) (r : string) : option gend :=
  match index_of r lids with Some i => Some (GLoc i) | None => option_map GBp (index_of r bids) end.
Definition ref_of (n : string) (ks : list xml) : option string :=
  match named n ks with [x] => attr "ref" (attrs_of x) | _ => None end.
Definition flag (n : string) (ks : list xml) : bool := negb (Nat.eqb (List.length (named n ks)) 0).
Definition read_loc_k (ks : list xml) : option gloc :=
  match named "name" ks, label_of "invariant" ks, label_of "exponentialrate" ks with
  | [n], Some i, Some r => Some (mkgloc (text_of (kids_of n)) i r (flag "committed" ks) (flag "urgent" ks))
  | _, _, _ => None
  end.
Definition read_loc (x : xml) : option gloc := read_loc_k (kids_of x).
Definition controllable (a : list (string * string)) : bool :=
  match attr "controllable" a with Some v => negb (v =? "false") | None => true end.
Definition read_edge_k (lids bids : list string) (a : list (string * string)) (ks : list xml) : option gedge :=
  match ref_of "source" ks, ref_of "target" ks with
  | Some s, Some d =>
    match resolve lids bids s, resolve lids bids d, label_of "select" ks, label_of "guard" ks, label_of "synchronisation" ks,
          label_of "assignment" ks, label_of "probability" ks with
    | Some s', Some d', Some sel, Some g, Some y, Some a', Some p => Some (mkgedge s' d' (controllable a) sel g y a' p)
    | _, _, _, _, _, _, _ => None
    end
  | _, _ => None
  end.
Definition read_edge (lids bids : list string) (x : xml) : option gedge := read_edge_k lids bids (attrs_of x) (kids_of x).
Definition read_templ (x : xml) : option graph :=
  let ks := kids_of x in
  match traverse id_of (named "location" ks), traverse id_of (named "branchpoint" ks), named "name" ks with
  | Some lids, Some bids, [n] =>
    if nodupb (lids ++ bids) then
      match traverse read_loc (named "location" ks), traverse (read_edge lids bids) (named "transition" ks), one (named "init" ks) with
      | Some ls, Some es, Some ini =>
        match ini with
        | None => Some (mkgraph (text_of (kids_of n)) ls (List.length bids) None es)
        | Some i => match attr "ref" (attrs_of i) with
                    | Some r => match index_of r lids with Some k => Some (mkgraph (text_of (kids_of n)) ls (List.length bids) (Some k) es) | None => None end
                    | None => None end
        end
      | _, _, _ => None
      end
    else None
  | _, _, _ => None
  end.

(* ---------- what the file has to say: the graph of the document ---------- *)
Definition norm (k : string) (d : option string) : option string :=
  match d with Some s => if elide k s then None else Some (strip s) | None => None end.       (* trivial labels are not written *)
Definition gend_of (e : endp) : gend := match e with ELoc n => GLoc n | EBp b => GBp b end.
Definition graph_loc (l : wloc) : gloc :=
  mkgloc (wl_name l) (norm "invariant" (wl_inv l)) (norm "exponentialrate" (wl_rate l)) (wl_committed l) (negb (wl_committed l) && wl_urgent l).
Definition graph_edge (e : wedge) : gedge :=
  mkgedge (gend_of (we_src e)) (gend_of (we_dst e)) (we_control e)
          (match we_select e with [] => None | s => norm "select" (Some (select_text s)) end)
          (norm "guard" (we_guard e)) (norm "synchronisation" (we_sync e)) (norm "assignment" (we_assign e)) (norm "probability" (we_prob e)).
Definition graph_of (t : wtempl) : graph :=
  mkgraph (wt_name t) (map graph_loc (wt_locs t)) (List.length (wt_bps t)) (wt_init t) (map graph_edge (wt_edges t)).

(* what C08 guarantees of a built document: dense numbers in order, end points and init inside the template *)
Definition ep_ok (nl nb : nat) (e : endp) : bool := match e with ELoc n => Nat.ltb n nl | EBp b => Nat.ltb b nb end.
Definition list_nat_eqb (a b : list nat) : bool := if list_eq_dec Nat.eq_dec a b then true else false.
Definition wf_templ (t : wtempl) : bool :=
  let nl := List.length (wt_locs t) in let nb := List.length (wt_bps t) in
  list_nat_eqb (map wl_nr (wt_locs t)) (seq 0 nl) && list_nat_eqb (wt_bps t) (seq 0 nb)
  && match wt_init t with Some n => Nat.ltb n nl | None => true end
  && forallb (fun e => ep_ok nl nb (we_src e) && ep_ok nl nb (we_dst e)) (wt_edges t).
