(* C09 — accept / reject verdicts are invariant under meaning-preserving rewrites.
   Only statements, each closed by a lemma proved elsewhere (SR.v / ExprSyntax.v through the regenerated operator table,
   ScopeProofs.v), with the axioms it rests on. *)
From Coq Require Import List String Bool Arith.
From Utap Require Import SR OpTableRef ExprSyntax Scope ScopeProofs.
From Utap.gen Require Import Gen_OpTable.
Import ListNotations.

(* Redundant parentheses: whichever tree the tokens with only the necessary parentheses parse to, the fully parenthesised
   tokens parse to the same tree (both renderings of every expression tree, of any size, over the regenerated table). *)
Theorem C09_parentheses_invariant (t t1 t2 : exprG) : parses_toG (flatG false t) t1 -> parses_toG (flatG true t) t2 -> t1 = t2.
Proof.
  intros H1 H2.
  rewrite (parses_to_unique _ _ _ _ _ _ _ _ _ _ _ _ _ _ _ _ _ _ _ _ H1 (roundtrip _ _ _ _ _ _ _ _ _ _ _ _ _ _ _ _ _ (fun _ _ => false) (fun _ _ => false) (fun _ => false) t)).
  exact (eq_sym (parses_to_unique _ _ _ _ _ _ _ _ _ _ _ _ _ _ _ _ _ _ _ _ H2 (roundtrip _ _ _ _ _ _ _ _ _ _ _ _ _ _ _ _ _ (fun _ _ => true) (fun _ _ => true) (fun _ => false) t))).
Qed.
Print Assumptions C09_parentheses_invariant.

(* Keyword aliases build the node their symbolic forms build, under the same grammar rule, token class and associativity. *)
Theorem C09_alias_and l r : norm (Bin _ _ _ _ B_T_KW_AND l r) = norm (Bin _ _ _ _ B_T_BOOL_AND l r) /\ bin_rule B_T_KW_AND = bin_rule B_T_BOOL_AND.
Proof. split; reflexivity. Qed.
Print Assumptions C09_alias_and.
Theorem C09_alias_or l r : norm (Bin _ _ _ _ B_T_KW_OR l r) = norm (Bin _ _ _ _ B_T_BOOL_OR l r) /\ bin_rule B_T_KW_OR = bin_rule B_T_BOOL_OR.
Proof. split; reflexivity. Qed.
Print Assumptions C09_alias_or.
Theorem C09_alias_not x : norm (Un _ _ _ _ U_T_KW_NOT x) = norm (Un _ _ _ _ U_T_EXCLAM x) /\ pre_rule U_T_KW_NOT = pre_rule U_T_EXCLAM.
Proof. split; reflexivity. Qed.
Print Assumptions C09_alias_not.

(* ... and take the same shift / reduce decision against every other operator, whichever side they stand on: in every
   context the keyword form groups as its symbolic form does (over the table regenerated from parser.y). *)
Definition unalias_b (o : bop) : bop := match o with B_T_KW_AND => B_T_BOOL_AND | B_T_KW_OR => B_T_BOOL_OR | o => o end.
Definition unalias_u (u : uop) : uop := match u with U_T_KW_NOT => U_T_EXCLAM | u => u end.
Definition unalias_p (p : pending) : pending := match p with PB o => PB (unalias_b o) | PU u => PU (unalias_u u) | PIte => PIte end.
Definition unalias_c (c : cont) : cont := match c with CB o => CB (unalias_b o) | c => c end.
Theorem C09_alias_same_grouping (p : pending) (c : cont) : gen_shifts p c = gen_shifts (unalias_p p) (unalias_c c).
Proof.
  destruct p as [o|u|]; destruct c as [o'|p'| | |];
  try destruct o; try destruct u; try destruct o'; try destruct p'; vm_compute; reflexivity.
Qed.
Print Assumptions C09_alias_same_grouping.

(* Renaming: under any injective renaming of identifiers every use keeps its declaration (and stays unknown if it was). *)
Theorem C09_renaming_keeps_bindings : forall (s : name -> name), (forall a b, s a = s b -> a = b) -> forall its : list item,
  fst (walk (size (rename s its)) (rename s its) [empty_frame]) = fst (walk (size its) its [empty_frame]).
Proof. exact rename_invariant. Qed.
Print Assumptions C09_renaming_keeps_bindings.

Example C09_example :
  let its := [Decl 1 10; Scope [Use 1; Decl 2 11; Use 2; Use 3]; Use 2] in
  fst (walk (size its) its [empty_frame]) = [Some 10; Some 11; None; None]
  /\ fst (walk (size (rename (fun n => 7 * n + 2) its)) (rename (fun n => 7 * n + 2) its) [empty_frame]) = [Some 10; Some 11; None; None].
Proof. vm_compute. split; reflexivity. Qed.
