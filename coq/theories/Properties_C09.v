(* C09 — accept / reject verdicts are invariant under meaning-preserving rewrites.
   Only statements, each closed by a lemma proved elsewhere (SR.v / ExprSyntax.v through the regenerated operator table,
   ScopeProofs.v), with the axioms it rests on. *)
From Coq Require Import List String Bool Arith.
From Utap Require Import SR OpTableRef ExprSyntax Scope ScopeProofs.
From Utap Require Import CommentLex CommentLexProofs LexModel LexProofs LexSep LexStable AliasRules.
From Utap.gen Require Import Gen_CommentRules Gen_LexRules Gen_Rules.
From Utap.gen Require Import Gen_OpTable.
Import ListNotations.

(* Redundant parentheses: whichever tree the tokens with only the necessary parentheses parse to, the fully parenthesised
   tokens parse to the same tree (both renderings of every expression tree, of any size, over the regenerated table). *)
Theorem C09_parentheses_invariant (t t1 t2 : exprG) : parses_toG (flatG false t) t1 -> parses_toG (flatG true t) t2 -> t1 = t2.
Proof.
  intros H1 H2.
  rewrite (parses_to_unique _ _ _ _ _ _ _ _ _ _ _ _ _ _ _ _ _ _ _ _ H1 (roundtrip _ _ _ _ _ _ _ _ _ _ _ _ _ _ _ _ _ (fun _ _ => false) (fun _ _ => false) (fun _ => false) t)).
  exact (eq_sym (parses_to_unique _ _ _ _ _ _ _ _ _ _ _ _ _ _ _ _ _ _ _ _ H2 (roundtrip _ _ _ _ _ _ _ _ _ _ _ _ _ _ _ _ _ (fun _ _ => true) (fun _ _ => true) (fun _ => false) t))).
Qed.
Print Assumptions C09_parentheses_invariant.

(* Keyword aliases build the node their symbolic forms build, under the same grammar rule, token class and associativity. *)
Theorem C09_alias_and l r : norm (Bin _ _ _ _ B_T_KW_AND l r) = norm (Bin _ _ _ _ B_T_BOOL_AND l r) /\ bin_rule B_T_KW_AND = bin_rule B_T_BOOL_AND.
Proof. split; reflexivity. Qed.
Print Assumptions C09_alias_and.
Theorem C09_alias_or l r : norm (Bin _ _ _ _ B_T_KW_OR l r) = norm (Bin _ _ _ _ B_T_BOOL_OR l r) /\ bin_rule B_T_KW_OR = bin_rule B_T_BOOL_OR.
Proof. split; reflexivity. Qed.
Print Assumptions C09_alias_or.
Theorem C09_alias_not x : norm (Un _ _ _ _ U_T_KW_NOT x) = norm (Un _ _ _ _ U_T_EXCLAM x) /\ pre_rule U_T_KW_NOT = pre_rule U_T_EXCLAM.
Proof. split; reflexivity. Qed.
Print Assumptions C09_alias_not.

(* ... and take the same shift / reduce decision against every other operator, whichever side they stand on: in every
   context the keyword form groups as its symbolic form does (over the table regenerated from parser.y). *)
Definition unalias_b (o : bop) : bop := match o with B_T_KW_AND => B_T_BOOL_AND | B_T_KW_OR => B_T_BOOL_OR | o => o end.
Definition unalias_u (u : uop) : uop := match u with U_T_KW_NOT => U_T_EXCLAM | u => u end.
Definition unalias_p (p : pending) : pending := match p with PB o => PB (unalias_b o) | PU u => PU (unalias_u u) | PIte => PIte end.
Definition unalias_c (c : cont) : cont := match c with CB o => CB (unalias_b o) | c => c end.
Theorem C09_alias_same_grouping (p : pending) (c : cont) : gen_shifts p c = gen_shifts (unalias_p p) (unalias_c c).
Proof.
  destruct p as [o|u|]; destruct c as [o'|p'| | |];
  try destruct o; try destruct u; try destruct o'; try destruct p'; vm_compute; reflexivity.
Qed.
Print Assumptions C09_alias_same_grouping.

(* Renaming: under any injective renaming of identifiers every use keeps its declaration (and stays unknown if it was). *)
Theorem C09_renaming_keeps_bindings : forall (s : name -> name), (forall a b, s a = s b -> a = b) -> forall its : list item,
  fst (walk (size (rename s its)) (rename s its) [empty_frame]) = fst (walk (size its) its [empty_frame]).
Proof. exact rename_invariant. Qed.
Print Assumptions C09_renaming_keeps_bindings.

(* White space and comments, at character level.  The rules flex applies inside a block comment, regenerated from lexer.l, are
   the five rules CommentLex.v models ... *)
Theorem C09_comment_rules_are_the_modelled_ones : gen_comment_rules = reference_rules.
Proof. reflexivity. Qed.
Print Assumptions C09_comment_rules_are_the_modelled_ones.
(* ... and a scanner with those rules ends a comment exactly at the first terminator (unless an EXPECT: word runs over it), never
   anywhere else, reports a comment without terminator, and hands a text without comments to the parser unchanged: inserting or
   removing a comment between two tokens changes the token stream by nothing but a separator *)
Theorem C09_comment_closes_at_first_terminator : forall n s fuel, n < fuel ->
  (forall k, k < n -> starts close_mark (skipn k s) = false /\ starts expect_mark (skipn k s) = false) ->
  starts close_mark (skipn n s) = true -> scan fuel s = Closed (skipn (n + 2) s).
Proof. exact scan_closes_at_first. Qed.
Print Assumptions C09_comment_closes_at_first_terminator.
Theorem C09_comment_ends_only_behind_a_terminator : forall fuel s rest, scan fuel s = Closed rest ->
  exists n, rest = skipn (n + 2) s /\ starts close_mark (skipn n s) = true.
Proof. exact scan_ends_behind_terminator. Qed.
Print Assumptions C09_comment_ends_only_behind_a_terminator.
Theorem C09_unclosed_comment_is_reported : forall fuel s, (forall k, starts close_mark (skipn k s) = false) -> scan fuel s = Unclosed.
Proof. exact scan_unclosed. Qed.
Print Assumptions C09_unclosed_comment_is_reported.
Theorem C09_text_without_comments_unchanged : forall fuel s, List.length s < fuel ->
  (forall k, starts open_mark (skipn k s) = false /\ starts line_mark (skipn k s) = false) -> strip fuel s = Some s.
Proof. exact strip_without_comments. Qed.
Print Assumptions C09_text_without_comments_unchanged.

(* Blanks between tokens (LexModel.v: the scanner of lexer.l over the literal table regenerated from it; Properties_C02 ties the table
   and the other rules).  A word is a text the scanner takes as exactly one token whatever blank and text follow it; identifiers
   (keywords, names) and numbers are words.  Words separated by arbitrary nonempty runs of spaces and tabs are scanned into exactly
   those words: token boundaries never cross a blank, and the choice of the runs is immaterial. *)
Theorem C09_literal_table_has_no_blanks : table_blank_free gen_literals.
Proof. apply table_ok_blank_free. vm_compute. reflexivity. Qed.
Print Assumptions C09_literal_table_has_no_blanks.
Theorem C09_words_are_scanned_as_written : forall ws bs fuel, List.length bs = List.length ws -> 2 * List.length ws < fuel ->
  Forall (fun kw => solid gen_literals (fst kw) (snd kw) /\ not_line_end (fst kw)) ws -> Forall blanks bs -> lex gen_literals fuel (render ws bs) = Some ws.
Proof. exact (lex_words gen_literals C09_literal_table_has_no_blanks). Qed.
Print Assumptions C09_words_are_scanned_as_written.
Theorem C09_choice_of_blanks_is_immaterial : forall ws bs bs' fuel, List.length bs = List.length ws -> List.length bs' = List.length ws -> 2 * List.length ws < fuel ->
  Forall (fun kw => solid gen_literals (fst kw) (snd kw) /\ not_line_end (fst kw)) ws -> Forall blanks bs -> Forall blanks bs' ->
  lex gen_literals fuel (render ws bs) = lex gen_literals fuel (render ws bs').
Proof. exact (lex_blank_invariance gen_literals C09_literal_table_has_no_blanks). Qed.
Print Assumptions C09_choice_of_blanks_is_immaterial.
Theorem C09_identifiers_and_numbers_are_words : forall w,
  (ident_word w = true -> solid gen_literals (word_kind gen_literals KIdent w) w) /\ (number_word w = true -> solid gen_literals (word_kind gen_literals KNum w) w).
Proof. intro w. split; [apply (ident_is_solid gen_literals C09_literal_table_has_no_blanks) | apply (number_is_solid gen_literals C09_literal_table_has_no_blanks)]. Qed.
Print Assumptions C09_identifiers_and_numbers_are_words.
(* so is every operator, bracket and punctuation literal of lexer.l (all literals that start with a symbol character, except the
   backslash and the double quote, which start the continuation-line and string rules) *)
Theorem C09_operator_literals_are_words : forall t tok a r, In (t, tok) gen_literals -> list_ascii_of_string t = a :: r -> symbol_head a = true ->
  solid gen_literals (KLit tok) (a :: r).
Proof.
  assert (operators_are_words gen_literals = true) as H by (vm_compute; reflexivity).
  intros t tok a r Hin Et Ha. unfold operators_are_words in H. rewrite forallb_forall in H. specialize (H (t, tok) Hin). cbn [fst snd] in H.
  rewrite Et, Ha in H. apply (symbol_is_solid gen_literals C09_literal_table_has_no_blanks). exact H.
Qed.
Print Assumptions C09_operator_literals_are_words.
(* From a text written without blanks to one with (LexStable.v).  For every text: the lexeme the scanner finds at a position - token,
   blank run, line comment, continuation line, line end, comment opener - is found again when a blank is written anywhere behind its
   end; a token is found again when the blank is written directly behind it, unless the token is a lone double quote (a blank and a
   second quote would make it a string).  Hence a blank written behind any token that the scanner reaches through tokens and
   skipped lexemes leaves the token stream of the whole text as it is. *)
Theorem C09_blank_further_back_keeps_the_lexeme : forall c, is_blank c = true -> forall x v,
  lexeme_len (lex1 gen_literals (x ++ v)) < List.length x -> lex1 gen_literals (x ++ c :: v) = lex1 gen_literals (x ++ v).
Proof. intros c Hc. exact (lex1_blank_further_back gen_literals C09_literal_table_has_no_blanks c Hc). Qed.
Print Assumptions C09_blank_further_back_keeps_the_lexeme.
Theorem C09_blank_behind_a_token_keeps_the_token : forall c, is_blank c = true -> forall x v k,
  lex1 gen_literals (x ++ v) = Tok k (List.length x) -> k <> KLf -> k <> KCrLf -> (forall a, x = [a] -> (code a =? 34) = false) ->
  lex1 gen_literals (x ++ c :: v) = Tok k (List.length x).
Proof. intros c Hc. exact (lex1_blank_behind_token gen_literals C09_literal_table_has_no_blanks c Hc). Qed.
Print Assumptions C09_blank_behind_a_token_keeps_the_token.
Theorem C09_blank_behind_a_token_keeps_the_token_stream : forall c, is_blank c = true -> forall x v,
  token_end gen_literals x v -> forall f, List.length (x ++ v) <= f -> lex gen_literals (S f) (x ++ c :: v) = lex gen_literals f (x ++ v).
Proof. intros c Hc. exact (lex_blank_at_token_end gen_literals C09_literal_table_has_no_blanks c Hc). Qed.
Print Assumptions C09_blank_behind_a_token_keeps_the_token_stream.
(* the ends of tokens, computed by the scanner itself (block comments skipped), meet the hypothesis: for every text and every such
   position a blank written there leaves the token stream unchanged *)
Theorem C09_computed_token_ends : forall fuel s p, In p (ends gen_literals fuel s) -> token_end gen_literals (firstn p s) (skipn p s).
Proof. exact (ends_are_token_ends gen_literals). Qed.
Print Assumptions C09_computed_token_ends.
Theorem C09_blank_at_any_token_end : forall c, is_blank c = true -> forall s p, In p (ends gen_literals (List.length s) s) ->
  lex gen_literals (S (List.length s)) (firstn p s ++ c :: skipn p s) = lex gen_literals (List.length s) s.
Proof. intros c Hc. exact (lex_blank_at_any_token_end gen_literals C09_literal_table_has_no_blanks c Hc). Qed.
Print Assumptions C09_blank_at_any_token_end.
Example C09_token_ends_example :
  ends gen_literals 20 (list_ascii_of_string "x<=5&&y/*c*/+z1") = [1; 3; 4; 6; 7; 13; 15].
Proof. vm_compute. reflexivity. Qed.
(* the hypotheses are met by texts written without any blank: behind "<=" in "x<=5&&y" ("x" is a token, then "<=" ends at position 3) *)
Example C09_token_end_example :
  token_end gen_literals (list_ascii_of_string "x<="%string) (list_ascii_of_string "5&&y"%string) /\
  lex gen_literals 8 (list_ascii_of_string "x<= 5&&y"%string) = lex gen_literals 7 (list_ascii_of_string "x<=5&&y"%string) /\
  lex gen_literals 7 (list_ascii_of_string "x<=5&&y"%string) = Some [(KIdent, list_ascii_of_string "x"); (KLit "T_LEQ"%string, list_ascii_of_string "<="); (KNum, list_ascii_of_string "5"); (KLit "T_BOOL_AND"%string, list_ascii_of_string "&&"); (KIdent, list_ascii_of_string "y")].
Proof.
  split; [|split; vm_compute; reflexivity].
  apply (TE_tok gen_literals (list_ascii_of_string "x"%string) (list_ascii_of_string "<="%string) (list_ascii_of_string "5&&y"%string) KIdent); [vm_compute; reflexivity | discriminate|].
  apply (TE_here gen_literals (list_ascii_of_string "<="%string) (list_ascii_of_string "5&&y"%string) (KLit "T_LEQ"%string)); [vm_compute; reflexivity | discriminate | discriminate | intros a [=]].
Qed.
(* The aliases in the grammar (AliasRules.v over gen/Gen_Rules.v, the productions bison resolves, regenerated from parser.y): every production that mentions one
   spelling of and / or / not has its twin with the other spelling, except the send marker of a synchronisation (c!), which is not a negation: wherever the
   grammar accepts one spelling it accepts the other, with the same left-hand side and the same neighbours. *)
Theorem C09_alias_productions_are_twinned : forall lhs rhs a b, In (lhs, rhs) gen_rules -> In (a, b) alias_pairs \/ In (b, a) alias_pairs -> mentions a rhs = true ->
  excepted (lhs, rhs) a = false -> In (lhs, respell a b rhs) gen_rules.
Proof. apply twinned_spec. vm_compute. reflexivity. Qed.
Print Assumptions C09_alias_productions_are_twinned.
Example C09_alias_twin_example : In ("BoolOrKWAnd"%string, ["T_KW_AND"%string]) gen_rules /\ In ("BoolOrKWAnd"%string, ["T_BOOL_AND"%string]) gen_rules /\ mentions "T_EXCLAM" ["Expression"; "T_EXCLAM"]%string = true.
Proof. vm_compute. repeat split; tauto. Qed.

(* the excepted case is real: two double quotes are two tokens, with a blank between them they are one string *)
Example C09_lone_quote_example :
  lex gen_literals 5 (list_ascii_of_string """"""%string) <> lex gen_literals 5 (list_ascii_of_string """ """%string).
Proof. vm_compute. discriminate. Qed.

Example C09_words_example :
  lex gen_literals 20 (list_ascii_of_string ("guard   x9" ++ String (Ascii.ascii_of_nat 9) "  location 42 ")) =
  Some [(KIdent, list_ascii_of_string "guard"); (KIdent, list_ascii_of_string "x9"); (KLit "T_LOCATION", list_ascii_of_string "location"); (KNum, list_ascii_of_string "42")].
Proof. vm_compute. reflexivity. Qed.

Example C09_example :
  let its := [Decl 1 10; Scope [Use 1; Decl 2 11; Use 2; Use 3]; Use 2] in
  fst (walk (size its) its [empty_frame]) = [Some 10; Some 11; None; None]
  /\ fst (walk (size (rename (fun n => 7 * n + 2) its)) (rename (fun n => 7 * n + 2) its) [empty_frame]) = [Some 10; Some 11; None; None].
Proof. vm_compute. split; reflexivity. Qed.
