(* C09 — accept / reject verdicts are invariant under meaning-preserving rewrites.
   Only statements, each closed by a lemma proved elsewhere (SR.v / ExprSyntax.v through the regenerated operator table,
   ScopeProofs.v), with the axioms it rests on. *)
From Coq Require Import List String Bool Arith.
From Utap Require Import SR OpTableRef ExprSyntax Scope ScopeProofs.
From Utap Require Import CommentLex CommentLexProofs.
From Utap.gen Require Import Gen_CommentRules.
From Utap.gen Require Import Gen_OpTable.
Import ListNotations.

(* Redundant parentheses: whichever tree the tokens with only the necessary parentheses parse to, the fully parenthesised
   tokens parse to the same tree (both renderings of every expression tree, of any size, over the regenerated table). *)
Theorem C09_parentheses_invariant (t t1 t2 : exprG) : parses_toG (flatG false t) t1 -> parses_toG (flatG true t) t2 -> t1 = t2.
Proof.
  intros H1 H2.
  rewrite (parses_to_unique _ _ _ _ _ _ _ _ _ _ _ _ _ _ _ _ _ _ _ _ H1 (roundtrip _ _ _ _ _ _ _ _ _ _ _ _ _ _ _ _ _ (fun _ _ => false) (fun _ _ => false) (fun _ => false) t)).
  exact (eq_sym (parses_to_unique _ _ _ _ _ _ _ _ _ _ _ _ _ _ _ _ _ _ _ _ H2 (roundtrip _ _ _ _ _ _ _ _ _ _ _ _ _ _ _ _ _ (fun _ _ => true) (fun _ _ => true) (fun _ => false) t))).
Qed.
Print Assumptions C09_parentheses_invariant.

(* Keyword aliases build the node their symbolic forms build, under the same grammar rule, token class and associativity. *)
Theorem C09_alias_and l r : norm (Bin _ _ _ _ B_T_KW_AND l r) = norm (Bin _ _ _ _ B_T_BOOL_AND l r) /\ bin_rule B_T_KW_AND = bin_rule B_T_BOOL_AND.
Proof. split; reflexivity. Qed.
Print Assumptions C09_alias_and.
Theorem C09_alias_or l r : norm (Bin _ _ _ _ B_T_KW_OR l r) = norm (Bin _ _ _ _ B_T_BOOL_OR l r) /\ bin_rule B_T_KW_OR = bin_rule B_T_BOOL_OR.
Proof. split; reflexivity. Qed.
Print Assumptions C09_alias_or.
Theorem C09_alias_not x : norm (Un _ _ _ _ U_T_KW_NOT x) = norm (Un _ _ _ _ U_T_EXCLAM x) /\ pre_rule U_T_KW_NOT = pre_rule U_T_EXCLAM.
Proof. split; reflexivity. Qed.
Print Assumptions C09_alias_not.

(* ... and take the same shift / reduce decision against every other operator, whichever side they stand on: in every
   context the keyword form groups as its symbolic form does (over the table regenerated from parser.y). *)
Definition unalias_b (o : bop) : bop := match o with B_T_KW_AND => B_T_BOOL_AND | B_T_KW_OR => B_T_BOOL_OR | o => o end.
Definition unalias_u (u : uop) : uop := match u with U_T_KW_NOT => U_T_EXCLAM | u => u end.
Definition unalias_p (p : pending) : pending := match p with PB o => PB (unalias_b o) | PU u => PU (unalias_u u) | PIte => PIte end.
Definition unalias_c (c : cont) : cont := match c with CB o => CB (unalias_b o) | c => c end.
Theorem C09_alias_same_grouping (p : pending) (c : cont) : gen_shifts p c = gen_shifts (unalias_p p) (unalias_c c).
Proof.
  destruct p as [o|u|]; destruct c as [o'|p'| | |];
  try destruct o; try destruct u; try destruct o'; try destruct p'; vm_compute; reflexivity.
Qed.
Print Assumptions C09_alias_same_grouping.

(* Renaming: under any injective renaming of identifiers every use keeps its declaration (and stays unknown if it was). *)
Theorem C09_renaming_keeps_bindings : forall (s : name -> name), (forall a b, s a = s b -> a = b) -> forall its : list item,
  fst (walk (size (rename s its)) (rename s its) [empty_frame]) = fst (walk (size its) its [empty_frame]).
Proof. exact rename_invariant. Qed.
Print Assumptions C09_renaming_keeps_bindings.

(* White space and comments, at character level.  The rules flex applies inside a block comment, regenerated from lexer.l, are
   the five rules CommentLex.v models ... *)
Theorem C09_comment_rules_are_the_modelled_ones : gen_comment_rules = reference_rules.
Proof. reflexivity. Qed.
Print Assumptions C09_comment_rules_are_the_modelled_ones.
(* ... and a scanner with those rules ends a comment exactly at the first terminator (unless an EXPECT: word runs over it), never
   anywhere else, reports a comment without terminator, and hands a text without comments to the parser unchanged: inserting or
   removing a comment between two tokens changes the token stream by nothing but a separator *)
Theorem C09_comment_closes_at_first_terminator : forall n s fuel, n < fuel ->
  (forall k, k < n -> starts close_mark (skipn k s) = false /\ starts expect_mark (skipn k s) = false) ->
  starts close_mark (skipn n s) = true -> scan fuel s = Closed (skipn (n + 2) s).
Proof. exact scan_closes_at_first. Qed.
Print Assumptions C09_comment_closes_at_first_terminator.
Theorem C09_comment_ends_only_behind_a_terminator : forall fuel s rest, scan fuel s = Closed rest ->
  exists n, rest = skipn (n + 2) s /\ starts close_mark (skipn n s) = true.
Proof. exact scan_ends_behind_terminator. Qed.
Print Assumptions C09_comment_ends_only_behind_a_terminator.
Theorem C09_unclosed_comment_is_reported : forall fuel s, (forall k, starts close_mark (skipn k s) = false) -> scan fuel s = Unclosed.
Proof. exact scan_unclosed. Qed.
Print Assumptions C09_unclosed_comment_is_reported.
Theorem C09_text_without_comments_unchanged : forall fuel s, List.length s < fuel ->
  (forall k, starts open_mark (skipn k s) = false /\ starts line_mark (skipn k s) = false) -> strip fuel s = Some s.
Proof. exact strip_without_comments. Qed.
Print Assumptions C09_text_without_comments_unchanged.

Example C09_example :
  let its := [Decl 1 10; Scope [Use 1; Decl 2 11; Use 2; Use 3]; Use 2] in
  fst (walk (size its) its [empty_frame]) = [Some 10; Some 11; None; None]
  /\ fst (walk (size (rename (fun n => 7 * n + 2) its)) (rename (fun n => 7 * n + 2) its) [empty_frame]) = [Some 10; Some 11; None; None].
Proof. vm_compute. split; reflexivity. Qed.
