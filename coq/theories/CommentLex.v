(* C09 / C15: block comments at character level.

   src/lexer.l scans a comment in the exclusive start condition <comment> with five rules (longest match, earlier rule on ties):
       \n                   count a line
       "*/"                 BEGIN(INITIAL)
       <<EOF>>              BEGIN(INITIAL); error "Comment not closed"
       "EXPECT:"[^\t \n]*   pass the text to the builder
       .                    skip
   gen/Gen_CommentRules.v holds the rules as tools/gen_lex.py reads them from lexer.l today; Properties_C09 proves that they are
   these five, and the theorems below say what a scanner with these five rules does: a comment ends exactly at the first "*/"
   that no EXPECT: marker swallows, and everything outside comments reaches the parser unchanged. *)
From Coq Require Import List Arith Bool Ascii String Lia.
Import ListNotations.
Local Open Scope char_scope.

Inductive act := ANewline | AEnd | AEofEnd | AExpect | ASkip | AOther.
Record crule := CR { c_pat : string; c_act : act }.
Definition reference_rules : list crule :=      (* sorted by pattern, as the generator writes them: their order in the file is immaterial *)
  [CR """*/""" AEnd; CR """EXPECT:""[^\t \n]*" AExpect; CR "." ASkip; CR "<<EOF>>" AEofEnd; CR "\n" ANewline].

Definition text := list ascii.
Fixpoint starts (p s : text) : bool :=
  match p, s with [] , _ => true | a :: p', b :: s' => Ascii.eqb a b && starts p' s' | _ :: _, [] => false end.
Definition close_mark : text := ["*"; "/"].
Definition open_mark : text := ["/"; "*"].
Definition expect_mark : text := ["E"; "X"; "P"; "E"; "C"; "T"; ":"].
Definition is_sep (c : ascii) : bool := Ascii.eqb c "009" || Ascii.eqb c " " || Ascii.eqb c "010".
(* [^\t \n]* : the longest run of non-separators *)
Fixpoint span (s : text) : nat := match s with [] => 0 | c :: r => if is_sep c then 0 else S (span r) end.

Inductive outcome := Closed (rest : text) | Unclosed.
(* the scanner inside a comment; every step consumes at least one character, so the length of the text is enough fuel *)
Fixpoint scan (fuel : nat) (s : text) : outcome :=
  match fuel with O => Unclosed | S f =>
  match s with
  | [] => Unclosed
  | _ :: r =>
    if starts expect_mark s then scan f (skipn (7 + span (skipn 7 s)) s)     (* 7 + k characters: longer than any other match *)
    else if starts close_mark s then Closed (skipn 2 s)                       (* 2 characters against 1 for "." *)
    else scan f r                                                             (* "\n" or ".": one character *)
  end end.

(* outside comments (for texts without string literals and continuation lines): a line comment "//"[^\n]* is dropped up to the line
   break, a block comment is scanned and stands for a separator, everything else is copied *)
Definition line_mark : text := ["/"; "/"].
Fixpoint drop_line (s : text) : text := match s with [] => [] | c :: r => if Ascii.eqb c "010" then s else drop_line r end.
Fixpoint strip (fuel : nat) (s : text) : option text :=
  match fuel with O => None | S f =>
  match s with
  | [] => Some []
  | c :: r =>
    if starts open_mark s then
      match scan (List.length s) (skipn 2 s) with Closed rest => option_map (fun t => " " :: t) (strip f rest) | Unclosed => None end
    else if starts line_mark s then strip f (drop_line r)
    else option_map (cons c) (strip f r)
  end end.
