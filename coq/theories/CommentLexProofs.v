(* C09 / C15: what the five comment rules of lexer.l do, for every text. *)
From Coq Require Import List Arith Bool Ascii String Lia.
From Utap Require Import CommentLex.
Import ListNotations.
Local Open Scope char_scope.

Lemma skipn_skipn' {A} (a b : nat) (l : list A) : skipn a (skipn b l) = skipn (b + a) l.
Proof. revert l; induction b as [|b IH]; intro l; [reflexivity|]. destruct l as [|x l]; [now rewrite !skipn_nil | apply IH]. Qed.
Lemma starts_close_head c r : starts close_mark (c :: r) = true -> c = "*".
Proof. unfold close_mark. cbn [starts]. intro H. apply andb_prop in H as [H _]. apply Ascii.eqb_eq in H. now symmetry. Qed.

(* a comment ends exactly at the first terminator that is not inside an EXPECT: word *)
Theorem scan_closes_at_first : forall n s fuel, n < fuel ->
  (forall k, k < n -> starts close_mark (skipn k s) = false /\ starts expect_mark (skipn k s) = false) ->
  starts close_mark (skipn n s) = true -> scan fuel s = Closed (skipn (n + 2) s).
Proof.
  induction n as [|n IH]; intros s fuel Hf Hb Hc.
  - destruct fuel as [|f]; [lia|]. cbn [skipn] in Hc. destruct s as [|c r]; [discriminate|].
    pose proof (starts_close_head _ _ Hc) as ->. cbn [scan]. replace (starts expect_mark ("*" :: r)) with false by reflexivity. now rewrite Hc.
  - destruct fuel as [|f]; [lia|]. destruct s as [|c r]; [cbn in Hc; discriminate|].
    destruct (Hb 0 ltac:(lia)) as [H1 H2]. cbn [skipn] in H1, H2. cbn [scan]. rewrite H2, H1.
    change (skipn (S n + 2) (c :: r)) with (skipn (n + 2) r). apply IH; [lia | | exact Hc].
    intros k Hk. apply (Hb (S k)). lia.
Qed.
(* without a terminator the comment is not closed (the <<EOF>> rule reports it) *)
Theorem scan_unclosed : forall fuel s, (forall k, starts close_mark (skipn k s) = false) -> scan fuel s = Unclosed.
Proof.
  induction fuel as [|f IH]; intros s H; [reflexivity|]. destruct s as [|c r]; [reflexivity|]. cbn [scan].
  destruct (starts expect_mark (c :: r)).
  - apply IH. intro k. rewrite skipn_skipn'. apply H.
  - pose proof (H 0) as H0. cbn [skipn] in H0. rewrite H0. apply IH. intro k. apply (H (S k)).
Qed.
(* a comment never ends anywhere but right behind a terminator *)
Theorem scan_ends_behind_terminator : forall fuel s rest, scan fuel s = Closed rest ->
  exists n, rest = skipn (n + 2) s /\ starts close_mark (skipn n s) = true.
Proof.
  induction fuel as [|f IH]; intros s rest; [discriminate|]. destruct s as [|c r]; [discriminate|]. cbn [scan].
  destruct (starts expect_mark (c :: r)) eqn:He.
  - intro H. destruct (IH _ _ H) as (n & -> & Hn). exists (7 + span (skipn 7 (c :: r)) + n). rewrite !skipn_skipn' in *. split; [f_equal; lia | exact Hn].
  - destruct (starts close_mark (c :: r)) eqn:Hc.
    + intros [= <-]. exists 0. split; [reflexivity | exact Hc].
    + intro H. destruct (IH _ _ H) as (n & -> & Hn). exists (S n). split; [reflexivity | exact Hn].
Qed.
(* a text without a comment opener reaches the parser unchanged *)
Theorem strip_without_comments : forall fuel s, List.length s < fuel ->
  (forall k, starts open_mark (skipn k s) = false /\ starts line_mark (skipn k s) = false) -> strip fuel s = Some s.
Proof.
  induction fuel as [|f IH]; intros s Hl H; [lia|]. destruct s as [|c r]; [reflexivity|]. cbn [strip].
  destruct (H 0) as [H0 H1]. cbn [skipn] in H0, H1. rewrite H0, H1.
  rewrite IH; [reflexivity | cbn in Hl; lia | intro k; apply (H (S k))].
Qed.
(* a line comment ends at the line break and nowhere else, whatever it contains *)
Lemma drop_line_spec s : exists k, drop_line s = skipn k s /\ (forall j, j < k -> nth_error s j <> Some "010"%char) /\ (drop_line s = [] \/ nth_error s k = Some "010"%char).
Proof.
  induction s as [|c r (k & E & Hb & He)]; [exists 0; repeat split; [intros j Hj; lia | left; reflexivity]|]. cbn [drop_line].
  destruct (Ascii.eqb_spec c "010") as [->|Hc].
  - exists 0. repeat split; [intros j Hj; lia | right; reflexivity].
  - exists (S k). repeat split; [exact E | | exact He]. intros [|j] Hj; cbn; [congruence | apply Hb; lia].
Qed.
Definition of_string (s : string) : text := list_ascii_of_string s.
(* an unclosed comment is reported, not skipped *)
Example unclosed_is_reported : strip 100 (of_string "int a; /* x * / int b;") = None.
Proof. reflexivity. Qed.
Example line_comment_hides_an_opener : strip 100 (of_string ("a // /* b" ++ String "010" "c")) = Some (of_string ("a " ++ String "010" "c")).
Proof. reflexivity. Qed.
Example stars_and_slashes :
  strip 100 (of_string "a/**/b /** d **/ c /*/ e */ f /***/ g") = Some (of_string "a b   c   f   g").
Proof. reflexivity. Qed.
(* the EXPECT: rule takes the longest run of non-blanks, terminator included: documented behaviour of the rule as written *)
Example expect_word_swallows_a_terminator : scan 100 (of_string "EXPECT:a*/ b */ c") = Closed (of_string " c").
Proof. reflexivity. Qed.
