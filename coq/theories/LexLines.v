(* C06: line numbers.  The position tracker learns about line breaks only through the actions of the scanner's rules:
       continuation line      tracker.newline(ch, 1)
       LF+                    tracker.newline(ch, yyleng)
       (CR LF)+               tracker.newline(ch, yyleng / 2)
       LF inside a comment    tracker.newline(ch, 1)
   and no other rule reports any.  For every literal table without line breaks inside literals, the number of line breaks reported
   while a text is scanned equals the number of line-feed characters consumed, minus those inside string literals, whose rule has no
   newline action: the line number of a diagnostic is exact as long as no string literal spans lines, and otherwise lags by exactly
   the number of breaks inside the strings scanned so far (known finding C06-string-literal-newline). *)
From Coq Require Import List Arith Bool Ascii String Lia.
From Utap Require Import CommentLex CommentLexProofs LexModel LexProofs LexSep.
Import ListNotations.

Local Open Scope string_scope.
(* the rules of lexer.l that call tracker.newline, with the argument they pass (as tools/gen_lex.py writes them) *)
Definition reference_newline_actions : list (string * string * string) :=
  [("INITIAL", """\\""[\t ]*""\n""", "1");
   ("INITIAL", "(\r\n)+", "yyleng/2");
   ("INITIAL", "\n+", "yyleng");
   ("comment", "\n", "1")].
Local Close Scope string_scope.

Fixpoint count_nl (t : text) : nat := match t with [] => 0 | c :: r => (if is_nl c then 1 else 0) + count_nl r end.
Definition nonnl (c : ascii) : bool := negb (is_nl c).
(* what the actions report for one lexeme outside comments *)
Definition lines_of (l : lexeme) : nat :=
  match l with Skip SCont _ => 1 | Tok KLf n => n | Tok KCrLf n => n / 2 | _ => 0 end.

Lemma count_nl_app a b : count_nl (a ++ b) = count_nl a + count_nl b.
Proof. induction a as [|c a IH]; cbn; [reflexivity | rewrite IH; lia]. Qed.
Lemma count_split n s : count_nl s = count_nl (firstn n s) + count_nl (skipn n s).
Proof. rewrite <- count_nl_app, firstn_skipn. reflexivity. Qed.
Lemma count_nonnl_prefix s : forall n, n <= spanp nonnl s -> count_nl (firstn n s) = 0.
Proof.
  induction s as [|c s IH]; intros [|n]; cbn; try reflexivity. unfold nonnl at 1. destruct (is_nl c) eqn:E; cbn; [lia|]. intro H. apply IH. lia.
Qed.
Lemma spanp_mono p q s : (forall c, p c = true -> q c = true) -> spanp p s <= spanp q s.
Proof. intro H. induction s as [|c s IH]; cbn; [lia|]. destruct (p c) eqn:E; [rewrite (H c E); lia | lia]. Qed.
Lemma count_all_nl s : count_nl (firstn (spanp is_nl s) s) = spanp is_nl s.
Proof. induction s as [|c s IH]; cbn; [reflexivity|]. destruct (is_nl c) eqn:E; cbn; [rewrite E, IH; reflexivity | reflexivity]. Qed.

(* character facts *)
Lemma blank_nonnl c : is_blank c = true -> nonnl c = true.  Proof. unfold nonnl. all_chars c. Qed.
Lemma idchr_nonnl c : is_idchr c = true -> nonnl c = true.  Proof. unfold nonnl. all_chars c. Qed.
Lemma digit_nonnl c : is_digit c = true -> nonnl c = true.  Proof. unfold nonnl. all_chars c. Qed.
Lemma alpha_nonnl c : is_alpha c = true -> nonnl c = true.  Proof. unfold nonnl. all_chars c. Qed.
Lemma code_nonnl c k : (code c =? k) = true -> k <> 10 -> nonnl c = true.
Proof. intros H Hk. apply Nat.eqb_eq in H. unfold nonnl, is_nl. rewrite H. destruct (Nat.eqb_spec k 10); [contradiction | reflexivity]. Qed.

Lemma spanp_skipn p s : forall k, k <= spanp p s -> spanp p s = k + spanp p (skipn k s).
Proof. induction s as [|c s IH]; intros [|k]; cbn; try lia. destruct (p c); cbn; [intro H; rewrite (IH k) at 1 by lia; lia | lia]. Qed.
Lemma span_extend p s k m : k <= spanp p s -> m <= spanp p (skipn k s) -> k + m <= spanp p s.
Proof. intros Hk Hm. rewrite (spanp_skipn p s k Hk). lia. Qed.

Lemma le_linecomment s : m_linecomment s <= spanp nonnl s.
Proof.
  destruct s as [|a [|b r]]; try (cbn; apply Nat.le_0_l). unfold m_linecomment. destruct ((code a =? 47) && (code b =? 47)) eqn:E; [|apply Nat.le_0_l].
  apply andb_prop in E as [Ea Eb]. cbn [spanp]. change (fun c : ascii => negb (is_nl c)) with nonnl. rewrite (code_nonnl a 47 Ea ltac:(lia)), (code_nonnl b 47 Eb ltac:(lia)). apply le_n_S, le_n_S. apply Nat.le_refl.
Qed.
Lemma le_blank s : m_blank s <= spanp nonnl s.  Proof. apply spanp_mono, blank_nonnl. Qed.
Lemma le_num s : m_num s <= spanp nonnl s.  Proof. apply spanp_mono, digit_nonnl. Qed.
Lemma le_ident s : m_ident s <= spanp nonnl s.
Proof. destruct s as [|a r]; [cbn; lia|]. unfold m_ident. destruct (is_alpha a) eqn:E; [|apply Nat.le_0_l]. cbn [spanp]. rewrite (alpha_nonnl a E). apply le_n_S, spanp_mono, idchr_nonnl. Qed.
Lemma le_any s : m_any s <= spanp nonnl s.
Proof. destruct s as [|c r]; cbn; [lia|]. unfold nonnl. destruct (is_nl c); cbn; lia. Qed.
Lemma le_frac s : m_frac s <= spanp nonnl s.
Proof.
  destruct s as [|c r]; [cbn; lia|]. unfold m_frac. destruct ((code c =? 46) && (0 <? spanp is_digit r)) eqn:E; [|apply Nat.le_0_l].
  apply andb_prop in E as [Ec _]. cbn [spanp]. rewrite (code_nonnl c 46 Ec ltac:(lia)). apply le_n_S, spanp_mono, digit_nonnl.
Qed.
Lemma le_exp s : m_exp s <= spanp nonnl s.
Proof.
  destruct s as [|c r]; [cbn; lia|]. unfold m_exp. destruct ((code c =? 101) || (code c =? 69)) eqn:E; [|apply Nat.le_0_l].
  assert (nonnl c = true) as Hc by (apply orb_prop in E as [E|E]; [apply (code_nonnl c 101 E) | apply (code_nonnl c 69 E)]; lia).
  destruct r as [|d r']; [apply Nat.le_0_l|].
  destruct (((code d =? 43) || (code d =? 45)) && (0 <? spanp is_digit r')) eqn:E2.
  - apply andb_prop in E2 as [Ed _]. assert (nonnl d = true) as Hd by (apply orb_prop in Ed as [Ed|Ed]; [apply (code_nonnl d 43 Ed) | apply (code_nonnl d 45 Ed)]; lia).
    cbn [spanp]. rewrite Hc, Hd. apply le_n_S, le_n_S, spanp_mono, digit_nonnl.
  - destruct (0 <? spanp is_digit (d :: r')); [|apply Nat.le_0_l]. change (spanp nonnl (c :: d :: r')) with (if nonnl c then S (spanp nonnl (d :: r')) else 0). rewrite Hc.
    apply le_n_S. apply (spanp_mono is_digit nonnl (d :: r')), digit_nonnl.
Qed.
Lemma le_float s : m_float s <= spanp nonnl s.
Proof.
  unfold m_float. destruct (spanp is_digit s =? 0); [lia|]. rewrite <- Nat.add_assoc.
  apply span_extend; [apply le_num|]. apply span_extend; [apply le_frac|]. rewrite skipn_skipn'. apply le_exp.
Qed.
Lemma starts_span w : forallb nonnl w = true -> forall s, starts w s = true -> List.length w <= spanp nonnl s.
Proof.
  induction w as [|a w IH]; intros Hw [|c s]; cbn; try lia; try discriminate. cbn in Hw. apply andb_prop in Hw as [Ha Hw].
  intro H. apply andb_prop in H as [E H]. apply Ascii.eqb_eq in E. subst c. rewrite Ha. apply le_n_S, IH; assumption.
Qed.

Lemma count_cont r : forall k c t, spanp is_blank r = k -> skipn k r = c :: t -> is_nl c = true -> count_nl (firstn (S k) r) = 1.
Proof.
  induction r as [|x r IH]; intros k c t Hk Hs Hc; [cbn in Hk; subst k; discriminate|]. cbn in Hk. destruct (is_blank x) eqn:Ex.
  - destruct k as [|k]; [discriminate|]. injection Hk as Hk. cbn [firstn count_nl]. pose proof (blank_nonnl x Ex) as Hx. unfold nonnl in Hx. apply negb_true_iff in Hx. rewrite Hx.
    cbn. apply (IH k c t Hk Hs Hc).
  - subst k. cbn in Hs. injection Hs as -> ->. cbn. rewrite Hc. reflexivity.
Qed.
Lemma count_crlf fuel : forall s, count_nl (firstn (m_crlf fuel s) s) = m_crlf fuel s / 2.
Proof.
  induction fuel as [|f IH]; intro s; [reflexivity|]. cbn [m_crlf]. destruct s as [|a [|b r]]; try reflexivity.
  destruct ((code a =? 13) && (code b =? 10)) eqn:E; [|reflexivity]. apply andb_prop in E as [Ea Eb].
  change (2 + m_crlf f r) with (S (S (m_crlf f r))). cbn [firstn count_nl]. rewrite IH.
  assert (is_nl a = false) as -> by (unfold is_nl; apply Nat.eqb_eq in Ea; rewrite Ea; reflexivity).
  assert (is_nl b = true) as -> by exact Eb.
  replace (S (S (m_crlf f r))) with (1 * 2 + m_crlf f r) by lia. rewrite Nat.div_add_l by lia. lia.
Qed.

Lemma span_le t : span t <= spanp nonnl t.
Proof. induction t as [|c t IH]; cbn; [lia|]. unfold is_sep, nonnl, is_nl, code. destruct c as [[] [] [] [] [] [] [] []]; cbn; try lia; apply le_n_S, IH. Qed.
(* line feeds inside a comment: each one is consumed by the comment's own LF rule *)
Fixpoint scan_lines (fuel : nat) (s : text) : nat :=
  match fuel with O => 0 | S f =>
  match s with
  | [] => 0
  | c :: r => if starts expect_mark s then scan_lines f (skipn (7 + span (skipn 7 s)) s)
              else if starts close_mark s then 0
              else (if is_nl c then 1 else 0) + scan_lines f r
  end end.
Theorem scan_lines_exact : forall fuel s rest, scan fuel s = Closed rest -> count_nl s = scan_lines fuel s + count_nl rest.
Proof.
  induction fuel as [|f IH]; intros s rest; [discriminate|]. destruct s as [|c r]; [discriminate|]. cbn [scan scan_lines].
  destruct (starts expect_mark (c :: r)) eqn:He.
  - intro H. rewrite <- (IH _ _ H). rewrite (count_split (7 + span (skipn 7 (c :: r))) (c :: r)) at 1.
    rewrite count_nonnl_prefix; [reflexivity|]. apply span_extend; [apply (starts_span expect_mark eq_refl _ He) | apply span_le].
  - destruct (starts close_mark (c :: r)) eqn:Hc.
    + intros [= <-]. rewrite (count_split 2 (c :: r)) at 1. rewrite count_nonnl_prefix; [reflexivity | apply (starts_span close_mark eq_refl _ Hc)].
    + intro H. cbn [count_nl]. rewrite (IH _ _ H). lia.
Qed.

Section Lines.
  Variable literals : list (string * string).
  Hypothesis Hnl : forall t tok, In (t, tok) literals -> forallb nonnl (list_ascii_of_string t) = true.

  Lemma candidate_lines s l k : In (l, k) (candidates literals s) -> 0 < k -> l <> Comment -> (forall n, l <> Tok KString n) ->
    lines_of l = count_nl (firstn k s).
  Proof.
    unfold candidates. rewrite !in_app_iff. cbn [In]. intros [H|[H|H]] Hk Hc Hs.
    - destruct H as [H|[H|[H|[H|[H|[H|[]]]]]]]; injection H as <- <-; cbn [lines_of].
      + (* continuation line *)
        destruct s as [|a r]; [cbn in Hk; lia|]. unfold m_cont in *. cbv zeta in *. destruct (code a =? 92) eqn:Ea; [|lia].
        destruct (skipn (spanp is_blank r) r) as [|c t] eqn:Es; [lia|]. destruct (is_nl c) eqn:En; [|lia].
        change (firstn (2 + spanp is_blank r) (a :: r)) with (a :: firstn (S (spanp is_blank r)) r). cbn [count_nl].
        assert (is_nl a = false) as -> by (unfold is_nl; apply Nat.eqb_eq in Ea; rewrite Ea; reflexivity).
        rewrite (count_cont r _ c t eq_refl Es En). reflexivity.
      + symmetry. apply count_nonnl_prefix, le_linecomment.
      + symmetry. apply count_nonnl_prefix, le_blank.
      + contradiction.
      + symmetry. apply count_all_nl.
      + symmetry. apply count_crlf.
    - destruct (m_lit literals s) as [[tok n]|] eqn:El; [|destruct H]. destruct H as [H|[]]. injection H as <- <-. cbn [lines_of].
      pose proof (best_lit_spec literals s None ltac:(discriminate)) as Hb. fold (m_lit literals s) in Hb. rewrite El in Hb.
      destruct Hb as ([Hb|(t & Hin & Hst & Hl)] & _ & _); [discriminate|]. subst n. symmetry. apply count_nonnl_prefix.
      apply starts_span; [apply (Hnl t tok Hin) | exact Hst].
    - destruct H as [H|[H|[H|[H|[H|[]]]]]]; injection H as <- <-; cbn [lines_of]; try (symmetry; apply count_nonnl_prefix).
      + apply le_ident.
      + apply le_num.
      + apply le_float.
      + apply le_any.
      + exfalso. apply (Hs (m_string s)). reflexivity.
  Qed.

  Lemma lex1_candidate c r : In (lex1 literals (c :: r), lexeme_len (lex1 literals (c :: r))) (candidates literals (c :: r)) /\ 0 < lexeme_len (lex1 literals (c :: r)).
  Proof.
    pose proof (lex1_progress literals c r) as Hp. split; [|exact Hp]. unfold lex1 in *. set (cs := candidates literals (c :: r)) in *.
    destruct (pick_in cs Eof 0) as [E|Hi]; [rewrite E in Hp; cbn in Hp; lia|].
    destruct (pick cs Eof 0) as [l k] eqn:Ep. cbn [fst] in *. destruct (Nat.eq_dec k 0) as [->|Hk].
    - pose proof (pick_ge cs Eof 0). (* k = 0 cannot be the pick of a list that has a positive entry *)
      exfalso. assert (exists l0 k0, In (l0, k0) cs /\ 0 < k0) as (l0 & k0 & Hin0 & Hk0).
      { destruct (is_nl c) eqn:Hn.
        - exists (Tok KLf (m_nl (c :: r))), (m_nl (c :: r)). split; [unfold cs, candidates; rewrite !in_app_iff; left; cbn; tauto | unfold m_nl; cbn; rewrite Hn; lia].
        - exists (Tok KError (m_any (c :: r))), (m_any (c :: r)). split; [unfold cs, candidates; rewrite !in_app_iff; right; right; cbn; tauto | cbn; rewrite Hn; lia]. }
      pose proof (pick_max cs Eof 0 l0 k0 Hin0) as Hm. rewrite Ep in Hm. cbn in Hm. lia.
    - rewrite (candidates_len literals (c :: r) l k Hi ltac:(lia)). exact Hi.
  Qed.
  (* one step outside comments and strings reports exactly the line feeds it consumes *)
  Theorem step_lines_exact c r : lex1 literals (c :: r) <> Comment -> (forall n, lex1 literals (c :: r) <> Tok KString n) ->
    lines_of (lex1 literals (c :: r)) = count_nl (firstn (lexeme_len (lex1 literals (c :: r))) (c :: r)).
  Proof. intros Hc Hs. destruct (lex1_candidate c r) as [Hin Hk]. apply (candidate_lines _ _ _ Hin Hk Hc Hs). Qed.

  (* the whole run: (line breaks reported, line feeds inside string literals) *)
  Definition add2 (a : nat * nat) (o : option (nat * nat)) : option (nat * nat) := option_map (fun b => (fst a + fst b, snd a + snd b)) o.
  Fixpoint lex_lines (fuel : nat) (s : text) : option (nat * nat) :=
    match fuel with O => None | S f =>
    match lex1 literals s with
    | Eof => Some (0, 0)
    | Comment => match scan (List.length s) (skipn 2 s) with Closed rest => add2 (scan_lines (List.length s) (skipn 2 s), 0) (lex_lines f rest) | Unclosed => None end
    | Tok KString n => add2 (0, count_nl (firstn n s)) (lex_lines f (skipn n s))
    | l => add2 (lines_of l, 0) (lex_lines f (skipn (lexeme_len l) s))
    end end.
  Lemma add2_some a o rep strs : add2 a o = Some (rep, strs) -> exists r' s', o = Some (r', s') /\ rep = fst a + r' /\ strs = snd a + s'.
  Proof. destruct o as [[r' s']|]; cbn; [intros [= <- <-]; exists r', s'; auto | discriminate]. Qed.
  Theorem reported_lines_exact : forall fuel s rep strs, lex_lines fuel s = Some (rep, strs) -> rep + strs = count_nl s.
  Proof.
    induction fuel as [|f IH]; intros s rep strs; [discriminate|]. cbn [lex_lines].
    destruct s as [|c r]; [cbn; intros [= <- <-]; reflexivity|].
    assert (forall l, lex1 literals (c :: r) = l -> l <> Comment -> (forall n, l <> Tok KString n) ->
                      add2 (lines_of l, 0) (lex_lines f (skipn (lexeme_len l) (c :: r))) = Some (rep, strs) -> rep + strs = count_nl (c :: r)) as Hgen.
    { intros l El Hc Hs H. destruct (add2_some _ _ _ _ H) as (r' & s' & Ho & -> & ->). cbn [fst snd].
      rewrite (count_split (lexeme_len l) (c :: r)). rewrite <- (IH _ _ _ Ho). subst l. rewrite <- (step_lines_exact c r Hc Hs). lia. }
    destruct (lex1 literals (c :: r)) as [k n|w n| |] eqn:El.
    - destruct k; try (intro H; apply (Hgen _ eq_refl ltac:(discriminate) ltac:(discriminate) H)).
      (* a string literal: its line feeds are consumed and not reported *)
      intro H. destruct (add2_some _ _ _ _ H) as (r' & s' & Ho & -> & ->). cbn [fst snd].
      rewrite (count_split n (c :: r)). rewrite <- (IH _ _ _ Ho). lia.
    - intro H. apply (Hgen _ eq_refl ltac:(discriminate) ltac:(discriminate) H).
    - destruct (scan (List.length (c :: r)) (skipn 2 (c :: r))) as [rest|] eqn:Es; [|discriminate].
      intro H. destruct (add2_some _ _ _ _ H) as (r' & s' & Ho & -> & ->). cbn [fst snd].
      rewrite (count_split 2 (c :: r)). rewrite (scan_lines_exact _ _ _ Es). rewrite <- (IH _ _ _ Ho).
      (* the opener itself contains no line feed *)
      assert (count_nl (firstn 2 (c :: r)) = 0) as ->; [|lia].
      destruct (lex1_candidate c r) as [Hin _]. rewrite El in Hin. cbn [lexeme_len] in Hin.
      assert (starts open_mark (c :: r) = true) as Hop.
      { unfold candidates in Hin. rewrite !in_app_iff in Hin. cbn [In] in Hin. destruct Hin as [Hi|[Hi|Hi]].
        - destruct Hi as [Hi|[Hi|[Hi|[Hi|[Hi|[Hi|[]]]]]]]; try discriminate. injection Hi as Hi. unfold m_open in Hi. destruct (starts open_mark (c :: r)); [reflexivity | discriminate].
        - destruct (m_lit literals (c :: r)) as [[? ?]|]; [destruct Hi as [Hi|[]]; discriminate | destruct Hi].
        - destruct Hi as [Hi|[Hi|[Hi|[Hi|[Hi|[]]]]]]; discriminate. }
      apply count_nonnl_prefix. apply (starts_span open_mark eq_refl _ Hop).
    - intros [= <- <-]. pose proof (lex1_progress literals c r) as Hp. rewrite El in Hp. cbn in Hp. lia.
  Qed.
  (* hence: as long as no string literal spans lines, the line breaks reported are exactly the line feeds of the text *)
  Corollary reported_lines_exact_without_multiline_strings fuel s rep : lex_lines fuel s = Some (rep, 0) -> rep = count_nl s.
  Proof. intro H. pose proof (reported_lines_exact _ _ _ _ H). lia. Qed.
End Lines.

(* the known finding, in the model: a string literal that contains a line feed is scanned without reporting it *)
Example string_literal_hides_a_line_break :
  let t := list_ascii_of_string ("""a" ++ String (ascii_of_nat 10) "b"" zz") in
  lex_lines [] 10 t = Some (0, 1) /\ count_nl t = 1.
Proof. split; reflexivity. Qed.
Example lines_example :
  let t := list_ascii_of_string ("a" ++ String (ascii_of_nat 10) ("/* x" ++ String (ascii_of_nat 10) ("y */ b \\" ++ String (ascii_of_nat 10) ("c" ++ String (ascii_of_nat 13) (String (ascii_of_nat 10) "d"))))) in
  lex_lines [] 20 t = Some (4, 0) /\ count_nl t = 4.
Proof. split; reflexivity. Qed.
