(* C13: compile-time computability.  isCompileTimeComputable(e) holds iff every symbol in
   collect_possible_reads(e) (model: Effects.reads over the function summaries) is a function or a
   member of the checker's set of computable values (constants, constant value parameters, binders).
   Specification: the value of e depends (transitively through the initialisers of constants and the
   bodies of called functions) only on computable things. *)
From Coq Require Import List Bool Arith.
From Utap Require Import Effects EffectsProofs.
Import ListNotations.

Section Compute.
Variable defs : list fdef.
Hypothesis scoped : forall f d, nth_error defs f = Some d -> cbs f (body d) = true.
Variable computable : var -> bool.               (* compileTimeComputableValues.contains *)
Variable init : var -> option exp.               (* the initialiser of a declared variable *)
Let G := summaries defs [].
Let n := length defs.

Definition ctc (e : exp) : bool := forallb computable (reads G e).

(* e transitively depends on x *)
Inductive DM : exp -> var -> Prop :=
  | DM_direct e x : MR defs e x -> DM e x
  | DM_init e y i x : MR defs e y -> computable y = true -> init y = Some i -> DM i x -> DM e x.

(* every initialiser of a computable variable was itself accepted where it was declared (visitVariable) *)
Hypothesis inits_checked : forall y i, computable y = true -> init y = Some i -> cb n i = true /\ ctc i = true.

Theorem ctc_sound e x : cb n e = true -> ctc e = true -> DM e x -> computable x = true.
Proof.
  intros C A D. revert C A. induction D as [e x M|e y i x M Cy Iy D IH]; intros C A.
  - unfold ctc in A. rewrite forallb_forall in A. apply A. exact (reads_complete defs scoped e x C M).
  - destruct (inits_checked y i Cy Iy) as [Ci Ai]. exact (IH Ci Ai).
Qed.
(* contrapositive, as the property states it: any dependence on a non-constant variable is rejected *)
Corollary depends_on_mutable_rejected e x : cb n e = true -> DM e x -> computable x = false -> ctc e = false.
Proof.
  intros C D N. destruct (ctc e) eqn:A; [|reflexivity]. rewrite (ctc_sound e x C A D) in N. discriminate.
Qed.
End Compute.
