(* C07: identifiers bind to the innermost preceding declaration in scope.

   Implementation model (src/symbols.cpp, ExpressionBuilder::resolve): a frame is a vector of symbols plus a map from names to
   the index of the last symbol added under that name; frames are chained to their parent; resolve looks the name up in the
   map of the frame and otherwise asks the parent.  A model text is a tree of declarations, uses and nested scopes (block,
   function parameters + body, quantifier / select / iteration binder, template parameters + locals); the builder walks it
   pushing a frame per scope.

   Specification: the textbook rule, written without frames or maps: a use of n binds to the nearest declaration of n that
   textually precedes it in the nearest enclosing scope that has one. *)
From Coq Require Import List Arith Bool Lia.
Import ListNotations.

Definition name := nat.
Definition did := nat.                                       (* identity of a declaration *)
Inductive item := Decl (n : name) (d : did) | Use (n : name) | Scope (body : list item).

(* ---------- implementation ---------- *)
Record frame := mkframe { f_syms : list (name * did); f_map : list (name * nat) }.     (* symbols vector, name -> index *)
Definition empty_frame := mkframe [] [].
Fixpoint map_set (m : list (name * nat)) (n : name) (i : nat) : list (name * nat) :=    (* std::map::operator[] = *)
  match m with [] => [(n, i)] | (k, v) :: r => if Nat.eqb k n then (k, i) :: r else (k, v) :: map_set r n i end.
Fixpoint map_get (m : list (name * nat)) (n : name) : option nat :=
  match m with [] => None | (k, v) :: r => if Nat.eqb k n then Some v else map_get r n end.
Definition add_symbol (f : frame) (n : name) (d : did) : frame :=
  mkframe (f_syms f ++ [(n, d)]) (map_set (f_map f) n (List.length (f_syms f))).
Definition frame_lookup (f : frame) (n : name) : option did :=
  match map_get (f_map f) n with Some i => option_map snd (nth_error (f_syms f) i) | None => None end.
(* frame_t::resolve: this frame, else the parent chain (the stack, innermost first) *)
Fixpoint resolve (st : list frame) (n : name) : option did :=
  match st with [] => None | f :: r => match frame_lookup f n with Some d => Some d | None => resolve r n end end.

(* the builder's walk: returns the binding of every use in text order, and the frame stack afterwards *)
Fixpoint walk (fuel : nat) (its : list item) (st : list frame) : list (option did) * list frame :=
  match fuel with O => ([], st) | S fuel' =>
  match its with
  | [] => ([], st)
  | Decl n d :: r => (match st with f :: up => walk fuel' r (add_symbol f n d :: up) | [] => walk fuel' r [add_symbol empty_frame n d] end)
  | Use n :: r => let (bs, st') := walk fuel' r st in (resolve st n :: bs, st')
  | Scope body :: r =>
      let (b1, st1) := walk fuel' body (empty_frame :: st) in            (* push_frame(frame_t::create(frames.top())) *)
      let (b2, st2) := walk fuel' r (tl st1) in                          (* popFrame() *)
      (b1 ++ b2, st2)
  end end.
Fixpoint isize (i : item) : nat :=
  match i with
  | Decl _ _ | Use _ => 1
  | Scope b => S ((fix ls (l : list item) : nat := match l with [] => 1 | x :: r => isize x + ls r end) b)
  end.
Fixpoint size (l : list item) : nat := match l with [] => 1 | x :: r => isize x + size r end.
Lemma size_scope b r : size (Scope b :: r) = S (size b) + size r.
Proof. reflexivity. Qed.

(* ---------- specification ---------- *)
(* the declarations of one scope that precede the current point, nearest first *)
Fixpoint nearest (ds : list (name * did)) (n : name) : option did :=
  match ds with [] => None | (k, d) :: r => if Nat.eqb k n then Some d else nearest r n end.
Fixpoint binds (env : list (list (name * did))) (n : name) : option did :=             (* env: enclosing scopes, innermost first *)
  match env with [] => None | sc :: r => match nearest sc n with Some d => Some d | None => binds r n end end.
Fixpoint spec (fuel : nat) (its : list item) (cur : list (name * did)) (outer : list (list (name * did))) : list (option did) :=
  match fuel with O => [] | S fuel' =>
  match its with
  | [] => []
  | Decl n d :: r => spec fuel' r ((n, d) :: cur) outer
  | Use n :: r => binds (cur :: outer) n :: spec fuel' r cur outer
  | Scope body :: r => spec fuel' body [] (cur :: outer) ++ spec fuel' r cur outer
  end end.
