(* C03 — printing an expression and re-parsing it reproduces the same tree (expression fragment).
   `pprint` is the hand model of expression_t::print over the regenerated precedence numbers;
   `covered` is decidable and is evaluated by the check on every generated tree. *)
From Coq Require Import List String Bool.
From Utap Require Import SR ExprSyntax PrintImpl Builtins.
From Utap.gen Require Import Gen_OpTable Gen_PrintPrec Gen_Builtins.
Import ListNotations.

(* whenever the printer's parentheses are the table-required ones plus its own extras, the printed
   text parses back to exactly the printed tree, for trees of any size and depth *)
Theorem C03_print_safe (t : exprG) : covered t = true -> parses_toG (pprint t) t.
Proof. exact (covered_roundtrip t). Qed.
(* and printing the re-parsed tree gives the identical text *)
Theorem C03_print_idempotent (t t' : exprG) : covered t = true -> parses_toG (pprint t) t' -> pprint t' = pprint t.
Proof. exact (covered_idempotent t t'). Qed.
(* the printer model treats identifiers and constants alike, as the regenerated table does *)
Theorem C03_atoms_same_prec : atoms_same_prec = true.
Proof. vm_compute. reflexivity. Qed.

(* non-vacuity: covered trees exist, with and without printer parentheses *)
Example C03_covered_examples :
  let a := Atom bop uop pop fnid 0 in let b := Atom bop uop pop fnid 1 in let c := Atom bop uop pop fnid 2 in
  covered (Bin _ _ _ _ B_T_MULT (Bin _ _ _ _ B_T_PLUS a b) c) = true /\
  covered (Bin _ _ _ _ B_T_MINUS a (Bin _ _ _ _ B_T_MINUS b c)) = true /\
  covered (Ite _ _ _ _ a (Bin _ _ _ _ B_T_ASSIGNMENT b c) (Un _ _ _ _ U_T_EXCLAM c)) = true.
Proof. vm_compute. repeat split; reflexivity. Qed.

(* ---- builtin functions: the keyword table, the grammar, the order of kind_t and the two name arrays (expression.cpp for str(),
   prettyprinter.cpp), as they are in the tree today (gen/Gen_Builtins.v), compose to the identity ---- *)
Theorem C03_builtin_names_roundtrip :
  tables_ok gen_builtins gen_expression_names gen_expression_base = true /\ tables_ok gen_builtins gen_prettyprinter_names gen_prettyprinter_base = true.
Proof. split; vm_compute; reflexivity. Qed.
Print Assumptions C03_builtin_names_roundtrip.
(* which means: every builtin call prints under the word it was written with, and no two kinds print alike, for every table passing the check *)
Theorem C03_builtin_names_meaning : forall rows names base, tables_ok rows names base = true ->
  (forall r, In r rows -> printed_name names base r = Some (word_of r)) /\
  (forall r1 r2, In r1 rows -> In r2 rows -> printed_name names base r1 = printed_name names base r2 -> kind_of r1 = kind_of r2).
Proof. exact roundtrip_spec. Qed.
Print Assumptions C03_builtin_names_meaning.
