From Coq Require Import List String Bool Arith ZArith NArith PArith Lia.
From Utap Require Import ExprLaws.
Import ListNotations.
Local Open Scope string_scope.

(* induction over ex with the nested list *)
Section Ind.
Variable P : ex -> Prop.
Hypothesis H : forall i k v s l, Forall P l -> P (Node i k v s l).
Fixpoint ex_ind2 (e : ex) : P e :=
  match e with
  | Node i k v s l => H i k v s l ((fix go (l : list ex) : Forall P l :=
                        match l with [] => Forall_nil P | x :: r => Forall_cons x (ex_ind2 x) (go r) end) l)
  end.
End Ind.

Section Proofs.
Variable gsize : string -> value -> nat -> nat.
Notation wf := (wf gsize).
Notation equal := (equal gsize).
Notation subst := (subst gsize).

(* the nested fixpoints, named *)
Fixpoint all_wf (l : list ex) : Prop := match l with [] => True | x :: r => wf x /\ all_wf r end.
Fixpoint all_plain (l : list ex) : Prop := match l with [] => True | x :: r => plain x /\ all_plain r end.
Lemma wf_unfold i k v s l : wf (Node i k v s l) <-> gsize k v (List.length l) = List.length l /\ all_wf l.
Proof. cbn [ExprLaws.wf]. split; intros [A B]; split; auto; clear A; induction l; cbn in *; tauto. Qed.
Lemma plain_unfold i k v s l : plain (Node i k v s l) <-> value_plain v = true /\ all_plain l.
Proof. cbn [plain]. split; intros [A B]; split; auto; clear A; induction l; cbn in *; tauto. Qed.

Fixpoint eq_go (n : nat) (la lb : list ex) : bool :=
  match n with
  | O => true
  | S n' => match la, lb with x :: la', y :: lb' => equal x y && eq_go n' la' lb' | _, _ => false end
  end.
Lemma equal_unfold ia ka va sa la ib kb vb sb lb :
  equal (Node ia ka va sa la) (Node ib kb vb sb lb) =
  Pos.eqb ia ib || (Nat.eqb (gsize ka va (List.length la)) (gsize kb vb (List.length lb)) && String.eqb ka kb && value_eq va vb && sym_eq sa sb
                    && eq_go (gsize ka va (List.length la)) la lb).
Proof.
  cbn [ExprLaws.equal]. do 2 f_equal.
  generalize (gsize ka va (List.length la)) as n. intros n. revert la lb.
  induction n as [|n IH]; intros la lb; [destruct la; reflexivity|].
  destruct la as [|x la]; [reflexivity|]. destruct lb as [|y lb]; [reflexivity|]. cbn [eq_go]. rewrite IH. reflexivity.
Qed.

Lemma d_plain_eq x y : value_plain (VDouble x) = true -> value_plain (VDouble y) = true -> d_eq x y = true -> x = y.
Proof.
  unfold value_plain, d_eq. intros Hx Hy.
  apply andb_true_iff in Hx as [Nx Zx]. apply andb_true_iff in Hy as [Ny Zy].
  apply negb_true_iff in Nx, Ny. rewrite Nx, Ny. cbn [orb].
  destruct (d_iszero x) eqn:Ex; destruct (d_iszero y) eqn:Ey; cbn [andb negb orb] in *.
  - intros _. apply N.eqb_eq in Zx, Zy. congruence.
  - intros E. apply N.eqb_eq in E. exact E.
  - intros E. apply N.eqb_eq in E. exact E.
  - intros E. apply N.eqb_eq in E. exact E.
Qed.
Lemma value_eq_plain a b : value_plain a = true -> value_plain b = true -> value_eq a b = true -> a = b.
Proof.
  destruct a, b; cbn [value_eq]; intros Pa Pb E; try discriminate E.
  - apply Z.eqb_eq in E. congruence.
  - apply Nat.eqb_eq in E. congruence.
  - f_equal. apply d_plain_eq; assumption.
  - apply Nat.eqb_eq in E. congruence.
Qed.
Lemma value_eq_refl a : value_plain a = true -> value_eq a a = true.
Proof.
  destruct a; cbn; intros Pa; try apply Z.eqb_refl; try apply Nat.eqb_refl.
  unfold d_eq. apply andb_true_iff in Pa as [Na _]. apply negb_true_iff in Na. rewrite Na. cbn.
  destruct (d_iszero bits); cbn; [reflexivity|apply N.eqb_refl].
Qed.
Lemma sym_eq_eq a b : sym_eq a b = true <-> a = b.
Proof.
  destruct a, b; cbn; split; intros E; try discriminate; try reflexivity.
  - apply Pos.eqb_eq in E. congruence.
  - inversion E. apply Pos.eqb_refl.
Qed.

(* ---- structural equality of erased trees implies equal() ------------------------------------ *)
Lemma erase_equal : forall a b, wf a -> plain a -> erase a = erase b -> equal a b = true.
Proof.
  induction a as [ia ka va sa la IH] using ex_ind2. intros [ib kb vb sb lb] W Pl E.
  rewrite equal_unfold. apply orb_true_iff. right.
  cbn [erase] in E. inversion E as [[Ek Ev Es El]]. subst kb vb sb.
  apply wf_unfold in W as [Wn Wl]. apply plain_unfold in Pl as [Pv Pl].
  assert (Len : List.length la = List.length lb) by (rewrite <- (map_length erase la), <- (map_length erase lb), El; reflexivity).
  rewrite <- Len, Nat.eqb_refl, String.eqb_refl, (value_eq_refl _ Pv). cbn [andb].
  replace (sym_eq sa sa) with true by (symmetry; apply sym_eq_eq; reflexivity). cbn [andb].
  rewrite Wn. clear Wn Len E.
  revert lb El. induction la as [|x la IHl]; intros lb El; [reflexivity|].
  destruct lb as [|y lb]; [discriminate El|]. cbn [map] in El. inversion El as [[Ex Er]].
  cbn [List.length eq_go]. inversion IH as [|? ? Hx Hr]; subst. cbn in Wl, Pl.
  rewrite (Hx y); try tauto. cbn [andb]. apply IHl; tauto.
Qed.

(* ---- equal() implies structural equality when identities are coherent --------------------------- *)
(* every node of a and every node of b with the same identity are the same node *)
Fixpoint nodes (e : ex) : list ex := match e with Node _ _ _ _ l => e :: flat_map nodes l end.
Definition coherent (a b : ex) : Prop := forall x y, In x (nodes a) -> In y (nodes b) -> eid x = eid y -> x = y.
Lemma nodes_self e : In e (nodes e). Proof. destruct e; cbn; auto. Qed.
Lemma nodes_sub i k v s l x y : In x l -> In y (nodes x) -> In y (nodes (Node i k v s l)).
Proof. intros Hx Hy. cbn. right. apply in_flat_map. exists x. auto. Qed.

Lemma equal_erase : forall a b, wf a -> wf b -> plain a -> plain b -> coherent a b -> equal a b = true -> erase a = erase b.
Proof.
  induction a as [ia ka va sa la IH] using ex_ind2. intros [ib kb vb sb lb] Wa Wb Pa Pb Co E.
  rewrite equal_unfold in E. apply orb_true_iff in E as [E|E].
  - apply Pos.eqb_eq in E.
    rewrite (Co (Node ia ka va sa la) (Node ib kb vb sb lb) (nodes_self _) (nodes_self _) E). reflexivity.
  - repeat (apply andb_true_iff in E as [E ?]).
    match goal with H : sym_eq _ _ = true |- _ => apply sym_eq_eq in H; subst sb end.
    match goal with H : String.eqb _ _ = true |- _ => apply String.eqb_eq in H; subst kb end.
    apply wf_unfold in Wa as [Wna Wla]. apply wf_unfold in Wb as [Wnb Wlb].
    apply plain_unfold in Pa as [Pva Pla]. apply plain_unfold in Pb as [Pvb Plb].
    match goal with H : value_eq _ _ = true |- _ => apply (value_eq_plain _ _ Pva Pvb) in H; subst vb end.
    apply Nat.eqb_eq in E. rewrite Wna, Wnb in E.
    match goal with H : eq_go _ _ _ = true |- _ => rename H into G end. rewrite Wna in G.
    cbn [erase]. f_equal.
    assert (Cs : forall x y, In x la -> In y lb -> coherent x y).
    { intros x y Hx Hy u w Hu Hw. apply Co; eapply nodes_sub; eauto. }
    clear Co Wna Wnb Pva Pvb. revert lb E G Wlb Plb Cs.
    induction la as [|x la IHl]; intros lb E G Wlb Plb Cs; destruct lb as [|y lb]; try discriminate E; [reflexivity|].
    cbn [List.length eq_go] in G. apply andb_true_iff in G as [Gx Gr].
    inversion IH as [|? ? Hx Hr]; subst. cbn in Wla, Wlb, Pla, Plb. cbn [map]. f_equal.
    + apply Hx; try tauto. apply Cs; cbn; auto.
    + apply IHl; try tauto. cbn in E. lia. intros u w Hu Hw. apply Cs; cbn; auto.
Qed.

(* ---- clone_deeper ------------------------------------------------------------------------------------ *)
Fixpoint clone_list (l : list ex) (n : positive) : list ex * positive :=
  match l with [] => ([], n) | x :: r => let '(x', n1) := clone x n in let '(r', n2) := clone_list r n1 in (x' :: r', n2) end.
Lemma clone_unfold i k v s l n : clone (Node i k v s l) n = let '(l', n') := clone_list l (Pos.succ n) in (Node n k v s l', n').
Proof.
  cbn [clone].
  assert (E : forall m, (fix go (l : list ex) (n : positive) : list ex * positive :=
              match l with [] => ([], n) | x :: r => let '(x', n1) := clone x n in let '(r', n2) := go r n1 in (x' :: r', n2) end) l m = clone_list l m).
  { induction l as [|x l IH]; intros m; cbn [clone_list]; [reflexivity|]. destruct (clone x m). rewrite IH. reflexivity. }
  rewrite E. reflexivity.
Qed.

Lemma clone_erase : forall e n, erase (fst (clone e n)) = erase e.
Proof.
  induction e as [i k v s l IH] using ex_ind2. intros n. rewrite clone_unfold.
  destruct (clone_list l (Pos.succ n)) as [l' n'] eqn:E. cbn [fst erase]. f_equal.
  revert l' n' E. generalize (Pos.succ n) as m. clear n.
  induction l as [|x l IHl]; intros m l' n' E; cbn [clone_list] in E.
  - inversion E. reflexivity.
  - destruct (clone x m) as [x' n1] eqn:Ex. destruct (clone_list l n1) as [r' n2] eqn:Er. inversion E; subst.
    inversion IH as [|? ? Hx Hr]; subst. cbn [map]. f_equal.
    + specialize (Hx m). rewrite Ex in Hx. exact Hx.
    + eapply IHl; eauto.
Qed.

(* every identity of the clone was allocated by this call: it lies in [n, n') *)
Lemma clone_fresh : forall e n, (n < snd (clone e n))%positive /\ forall i, In i (ids (fst (clone e n))) -> (n <= i < snd (clone e n))%positive.
Proof.
  induction e as [i0 k v s l IH] using ex_ind2. intros n. rewrite clone_unfold.
  destruct (clone_list l (Pos.succ n)) as [l' n'] eqn:E. cbn [fst snd ids].
  assert (G : (Pos.succ n <= n')%positive /\ forall i, In i (flat_map ids l') -> (Pos.succ n <= i < n')%positive).
  { revert l' n' E. generalize (Pos.succ n) as m.
    induction l as [|x l IHl]; intros m l' n' E; cbn [clone_list] in E.
    - inversion E; subst. split; [lia|]. cbn. tauto.
    - destruct (clone x m) as [x' n1] eqn:Ex. destruct (clone_list l n1) as [r' n2] eqn:Er. inversion E; subst.
      inversion IH as [|? ? Hx Hr]; subst. specialize (Hx m). rewrite Ex in Hx. cbn [fst snd] in Hx. destruct Hx as [Hlt Hin].
      destruct (IHl Hr n1 r' n' Er) as [Hle Hin2]. split; [lia|].
      intros i Hi. cbn [flat_map] in Hi. apply in_app_iff in Hi as [Hi|Hi].
      + specialize (Hin i Hi). lia.
      + specialize (Hin2 i Hi). lia. }
  destruct G as [G1 G2]. split; [lia|]. intros i [Hi|Hi]; [subst; lia|]. specialize (G2 i Hi). lia.
Qed.
Lemma ids_le_maxid : forall e i, In i (ids e) -> (i <= maxid e)%positive.
Proof.
  induction e as [i0 k v s l IH] using ex_ind2. intros i [Hi|Hi]; cbn [maxid].
  - subst. induction l as [|x l IHl]; cbn; [lia|]. inversion IH; subst. specialize (IHl H2). lia.
  - induction l as [|x l IHl]; cbn in *; [tauto|]. inversion IH as [|? ? Hx Hr]; subst.
    apply in_app_iff in Hi as [Hi|Hi].
    + specialize (Hx i Hi). lia.
    + specialize (IHl Hr Hi). lia.
Qed.
Theorem clone_disjoint e n : (maxid e < n)%positive -> forall i, In i (ids e) -> ~ In i (ids (fst (clone e n))).
Proof.
  intros Hm i Hi Hc. apply ids_le_maxid in Hi. apply (proj2 (clone_fresh e n)) in Hc. lia.
Qed.
Theorem clone_equal e n : wf e -> plain e -> equal e (fst (clone e n)) = true.
Proof. intros W Pl. apply erase_equal; auto. symmetry. apply clone_erase. Qed.

(* ---- substitution ---------------------------------------------------------------------------------------- *)
Fixpoint subst_list (s : positive) (r : ex) (l : list ex) (n : positive) : list ex * positive :=
  match l with [] => ([], n) | x :: t => let '(x', n1) := subst s r x n in let '(t', n2) := subst_list s r t n1 in (x' :: t', n2) end.
Lemma subst_unfold s r i k v sy l n :
  subst s r (Node i k v sy l) n =
  if String.eqb k "IDENTIFIER" && sym_eq sy (Some s) then (r, n)
  else match gsize k v (List.length l) with
       | O => (Node i k v sy l, n)
       | _ => let '(l', n') := subst_list s r l (Pos.succ n) in (Node n k v sy l', n')
       end.
Proof.
  cbn [ExprLaws.subst]. destruct (String.eqb k "IDENTIFIER" && sym_eq sy (Some s)); [reflexivity|].
  destruct (gsize k v (List.length l)); [reflexivity|].
  assert (E : forall m, (fix go (l : list ex) (n : positive) : list ex * positive :=
              match l with [] => ([], n) | x :: r' => let '(x', n1) := subst s r x n in let '(r'', n2) := go r' n1 in (x' :: r'', n2) end) l m = subst_list s r l m).
  { induction l as [|x l IH]; intros m; cbn [subst_list]; [reflexivity|]. destruct (subst s r x m). rewrite IH. reflexivity. }
  rewrite E. reflexivity.
Qed.
Theorem subst_spec s r : forall e n, wf e -> erase (fst (subst s r e n)) = tsubst s (erase r) (erase e).
Proof.
  induction e as [i k v sy l IH] using ex_ind2. intros n W. rewrite subst_unfold. cbn [erase tsubst].
  destruct (String.eqb k "IDENTIFIER" && sym_eq sy (Some s)); [reflexivity|].
  apply wf_unfold in W as [Wn Wl]. rewrite Wn.
  destruct l as [|x0 l0] eqn:El; [reflexivity|]. rewrite <- El in *. cbn [List.length] in *.
  replace (List.length l) with (S (List.length l0)) by (subst l; reflexivity).
  destruct (subst_list s r l (Pos.succ n)) as [l' n'] eqn:E. cbn [fst erase]. f_equal. rewrite map_map.
  clear El x0 l0 Wn. revert l' n' E. generalize (Pos.succ n) as m.
  induction l as [|x l IHl]; intros m l' n' E; cbn [subst_list] in E.
  - inversion E. reflexivity.
  - destruct (subst s r x m) as [x' n1] eqn:Ex. destruct (subst_list s r l n1) as [t' n2] eqn:Et. inversion E; subst.
    inversion IH as [|? ? Hx Hr]; subst. cbn in Wl. cbn [map]. f_equal.
    + specialize (Hx m (proj1 Wl)). rewrite Ex in Hx. exact Hx.
    + eapply IHl; eauto. tauto.
Qed.
(* substituting a symbol by (a node that looks like) itself is the identity on the tree *)
Fixpoint ident_canon (s : positive) (idn : tree) (t : tree) : Prop :=
  match t with
  | T k v sy l => (String.eqb k "IDENTIFIER" && sym_eq sy (Some s) = true -> t = idn) /\
                  (fix all (l : list tree) := match l with [] => True | x :: r => ident_canon s idn x /\ all r end) l
  end.
Section TInd.
Variable P : tree -> Prop.
Hypothesis H : forall k v s l, Forall P l -> P (T k v s l).
Fixpoint tree_ind2 (t : tree) : P t :=
  match t with T k v s l => H k v s l ((fix go (l : list tree) : Forall P l :=
    match l with [] => Forall_nil P | x :: r => Forall_cons x (tree_ind2 x) (go r) end) l) end.
End TInd.
Theorem tsubst_self s idn : forall t, ident_canon s idn t -> tsubst s idn t = t.
Proof.
  induction t as [k v sy l IH] using tree_ind2. intros [Hc Hl]. cbn [tsubst].
  destruct (String.eqb k "IDENTIFIER" && sym_eq sy (Some s)) eqn:E.
  - symmetry. apply Hc. reflexivity.
  - f_equal. clear Hc E. induction l as [|x l IHl]; [reflexivity|]. inversion IH; subst. cbn [map]. f_equal.
    + apply H1. tauto.
    + apply IHl; tauto.
Qed.
(* exactly the identifier occurrences of the symbol are replaced: a tree without them is unchanged *)
Fixpoint mentions (s : positive) (t : tree) : bool :=
  match t with T k v sy l => (String.eqb k "IDENTIFIER" && sym_eq sy (Some s)) || existsb (mentions s) l end.
Theorem tsubst_absent s r : forall t, mentions s t = false -> tsubst s r t = t.
Proof.
  induction t as [k v sy l IH] using tree_ind2. cbn [mentions tsubst]. intros M.
  apply orb_false_iff in M as [M1 M2]. rewrite M1. f_equal.
  induction l as [|x l IHl]; [reflexivity|]. inversion IH; subst. cbn [existsb] in M2. apply orb_false_iff in M2 as [Mx Ml].
  cbn [map]. f_equal; auto.
Qed.
End Proofs.
