(* C06 — every diagnostic points into the element, line and columns that caused it (position part).
   Models: Position.v (position_index_t, PositionTracker as driven by the lexer, add_error's lookup). *)
From Coq Require Import List Arith.
From Coq Require Import Bool Ascii String.
From Utap Require Import Position XPath CommentLex LexModel LexProofs LexSep LexLines.
From Utap.gen Require Import Gen_LexRules Gen_NewlineActions.
Notation length := List.length (only parsing).      (* String.length is not meant anywhere in this file *)
Import ListNotations.

(* the binary search of position_index_t::find returns the last entry at or before the position, on every table
   with non-decreasing positions *)
Theorem C06_find_correct tbl p : sorted tbl -> tbl <> [] ->
  let r := bs (length tbl) tbl p 0 (length tbl) in
  r < length tbl /\
  (posn tbl 0 <= p -> posn tbl r <= p /\ forall j, r < j -> j < length tbl -> p < posn tbl j) /\
  (p < posn tbl 0 -> r = 0).
Proof. exact (find_correct tbl p). Qed.
(* for every text block (any sequence of lexemes: tokens, blanks, comments, runs of LF or CRLF, continuations) and every
   byte offset k in it, the entry found for the absolute position of k carries the block's path, the number of the line
   k lies on (1 + line ends consumed before k) and a position such that the reported column is the distance from the
   start of that line; the column is never negative *)
Theorem C06_line_column t0 path ls k :
  let '(t1, e0) := set_path t0 path in
  let tbl := e0 :: snd (lex_all t1 ls) in
  let base := S (t_pos t0) in
  let e := find tbl (base + k) in
  let '(line, start) := resolve ls 0 k 1 0 in
  e_line e = line /\ (base + k) - e_pos e = k - start /\ start <= k /\ e_path e = path.
Proof. exact (linecol_correct t0 path ls k). Qed.
(* the tables the tracker builds are always ordered, so add() never throws inside one block *)
Theorem C06_table_ordered t ls : chain (t_pos t) (snd (lex_all t ls)).
Proof. exact (proj1 (lex_all_chain ls t)). Qed.

(* the path string: per depth the tag and, for the tags that may repeat, the number of siblings begun so far with that tag.
   Read by an XPath engine (k-th child with that tag; all children when there is no index) it selects exactly the element
   it was computed at — for every tree in which the un-indexed tags occur at most once among siblings (the DTD), at any depth *)
Theorem C06_xpath_selects_the_element : forall (indexed : nat -> bool) pos forest t,
  node_at forest pos = Some t -> unique_ok indexed (length pos) forest -> select (xpath_of indexed forest pos) forest = [t].
Proof. exact xpath_selects_the_element. Qed.
Print Assumptions C06_xpath_selects_the_element.

Example C06_xpath_example :   (* nta(decl, template(name, location, location(label, label)), template) : /0/2[1]/3[2]/4[2] *)
  let ix := fun g => Nat.leb 2 g in
  let forest := [Node 0 [Node 1 []; Node 2 [Node 5 []; Node 3 []; Node 3 [Node 4 []; Node 4 []]]; Node 2 []]] in
  xpath_of ix forest [0; 1; 2; 1] = [(0, None); (2, Some 1); (3, Some 2); (4, Some 2)]
  /\ select (xpath_of ix forest [0; 1; 2; 1]) forest = [Node 4 []].
Proof. vm_compute. split; reflexivity. Qed.

Example C06_example :    (* "a\n\n  b": token a, two line feeds, two blanks, token b; offset 5 is 'b': line 3, column 2 *)
  resolve [mkl 1 0; mkl 2 2; mkl 2 0; mkl 1 0] 0 5 1 0 = (3, 3).
Proof. reflexivity. Qed.

(* ---- line numbers: which line breaks the scanner reports to the position tracker (LexLines.v over the scanner model of LexModel.v) ---- *)
(* the rules of lexer.l that call tracker.newline, and what they pass, are the four modelled ones (regenerated from lexer.l) *)
Theorem C06_newline_actions_are_the_modelled_ones : gen_newline_actions = reference_newline_actions.
Proof. reflexivity. Qed.
Print Assumptions C06_newline_actions_are_the_modelled_ones.
Lemma gen_literals_have_no_line_feed : forall t tok, In (t, tok) gen_literals -> forallb nonnl (list_ascii_of_string t) = true.
Proof.
  assert (forallb (fun tt => forallb nonnl (list_ascii_of_string (fst tt))) gen_literals = true) as H by (vm_compute; reflexivity).
  intros t tok Hin. rewrite forallb_forall in H. exact (H (t, tok) Hin).
Qed.
(* outside comments and string literals, one step of the scanner reports exactly the line feeds it consumes *)
Theorem C06_step_reports_its_line_feeds : forall c r, lex1 gen_literals (c :: r) <> Comment -> (forall n, lex1 gen_literals (c :: r) <> Tok KString n) ->
  lines_of (lex1 gen_literals (c :: r)) = count_nl (firstn (lexeme_len (lex1 gen_literals (c :: r))) (c :: r)).
Proof. exact (step_lines_exact gen_literals gen_literals_have_no_line_feed). Qed.
Print Assumptions C06_step_reports_its_line_feeds.
(* inside a comment every line feed is reported by the comment's own rule *)
Theorem C06_comment_reports_its_line_feeds : forall fuel s rest, scan fuel s = Closed rest -> count_nl s = scan_lines fuel s + count_nl rest.
Proof. exact scan_lines_exact. Qed.
Print Assumptions C06_comment_reports_its_line_feeds.
(* over a whole text: line breaks reported + line feeds inside string literals = line feeds of the text.  The line of a diagnostic is
   therefore exact as long as no string literal spans lines, and otherwise lags by exactly the breaks inside the strings scanned so
   far: the known finding C06-string-literal-newline, with its size *)
Theorem C06_reported_lines : forall fuel s rep strs, lex_lines gen_literals fuel s = Some (rep, strs) -> rep + strs = count_nl s.
Proof. exact (reported_lines_exact gen_literals gen_literals_have_no_line_feed). Qed.
Print Assumptions C06_reported_lines.
Example C06_string_literal_hides_a_line_break :
  let t := list_ascii_of_string ("""a" ++ String (ascii_of_nat 10) "b"" zz") in lex_lines gen_literals 10 t = Some (0, 1) /\ count_nl t = 1.
Proof. split; vm_compute; reflexivity. Qed.
