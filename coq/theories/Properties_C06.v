(* C06 — every diagnostic points into the element, line and columns that caused it (position part).
   Models: Position.v (position_index_t, PositionTracker as driven by the lexer, add_error's lookup). *)
From Coq Require Import List Arith.
From Utap Require Import Position.
Import ListNotations.

(* the binary search of position_index_t::find returns the last entry at or before the position, on every table
   with non-decreasing positions *)
Theorem C06_find_correct tbl p : sorted tbl -> tbl <> [] ->
  let r := bs (length tbl) tbl p 0 (length tbl) in
  r < length tbl /\
  (posn tbl 0 <= p -> posn tbl r <= p /\ forall j, r < j -> j < length tbl -> p < posn tbl j) /\
  (p < posn tbl 0 -> r = 0).
Proof. exact (find_correct tbl p). Qed.
(* for every text block (any sequence of lexemes: tokens, blanks, comments, runs of LF or CRLF, continuations) and every
   byte offset k in it, the entry found for the absolute position of k carries the block's path, the number of the line
   k lies on (1 + line ends consumed before k) and a position such that the reported column is the distance from the
   start of that line; the column is never negative *)
Theorem C06_line_column t0 path ls k :
  let '(t1, e0) := set_path t0 path in
  let tbl := e0 :: snd (lex_all t1 ls) in
  let base := S (t_pos t0) in
  let e := find tbl (base + k) in
  let '(line, start) := resolve ls 0 k 1 0 in
  e_line e = line /\ (base + k) - e_pos e = k - start /\ start <= k /\ e_path e = path.
Proof. exact (linecol_correct t0 path ls k). Qed.
(* the tables the tracker builds are always ordered, so add() never throws inside one block *)
Theorem C06_table_ordered t ls : chain (t_pos t) (snd (lex_all t ls)).
Proof. exact (proj1 (lex_all_chain ls t)). Qed.

Example C06_example :    (* "a\n\n  b": token a, two line feeds, two blanks, token b; offset 5 is 'b': line 3, column 2 *)
  resolve [mkl 1 0; mkl 2 2; mkl 2 0; mkl 1 0] 0 5 1 0 = (3, 3).
Proof. reflexivity. Qed.
