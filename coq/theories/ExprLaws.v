(* L-EXPR: expression nodes with identity (the shared_ptr), and hand models of
   expression_t::clone_deeper, subst, equal (src/expression.cpp), over the arity table regenerated
   from get_size.  Node identity is a positive; "shares no node" = disjoint identity sets. *)
From Coq Require Import List String Bool Arith ZArith NArith PArith Lia.
Import ListNotations.
Local Open Scope string_scope.

(* std::variant<int32_t, synchronisation_t, double, StringIndex>; a double by its 64 bit pattern *)
Inductive value := VInt (z : Z) | VSync (n : nat) | VDouble (bits : N) | VStr (n : nat).
Inductive ex := Node (id : positive) (kind : string) (v : value) (sym : option positive) (sub : list ex).

Definition eid (e : ex) := match e with Node i _ _ _ _ => i end.
Definition ekind (e : ex) := match e with Node _ k _ _ _ => k end.
Definition evalue (e : ex) := match e with Node _ _ v _ _ => v end.
Definition esym (e : ex) := match e with Node _ _ _ s _ => s end.
Definition esub (e : ex) := match e with Node _ _ _ _ l => l end.

(* IEEE equality on bit patterns: NaN differs from everything, +0 equals -0 *)
Definition d_exp (b : N) : N := N.land (N.shiftr b 52) 2047.
Definition d_man (b : N) : N := N.land b (2^52 - 1).
Definition d_isnan (b : N) : bool := N.eqb (d_exp b) 2047 && negb (N.eqb (d_man b) 0).
Definition d_iszero (b : N) : bool := N.eqb (N.land b (2^63 - 1)) 0.
Definition d_eq (a b : N) : bool :=
  if d_isnan a || d_isnan b then false else if d_iszero a && d_iszero b then true else N.eqb a b.
(* ValueTypeEquality: equal alternatives compared with ==, different alternatives are different *)
Definition value_eq (a b : value) : bool :=
  match a, b with
  | VInt x, VInt y => Z.eqb x y
  | VSync x, VSync y => Nat.eqb x y
  | VDouble x, VDouble y => d_eq x y
  | VStr x, VStr y => Nat.eqb x y
  | _, _ => false
  end.
Definition sym_eq (a b : option positive) : bool :=
  match a, b with Some x, Some y => Pos.eqb x y | None, None => true | _, _ => false end.

Section Laws.
Variable gsize : string -> value -> nat -> nat.    (* get_size(): from the kind (and the stored count for n-ary kinds); third argument unused by the real table *)
Definition size_of (e : ex) : nat := gsize (ekind e) (evalue e) (List.length (esub e)).
(* a node is well formed when the reported size is the number of children that exist *)
Fixpoint wf (e : ex) : Prop :=
  match e with Node _ k v _ l => gsize k v (List.length l) = List.length l /\ (fix all (l : list ex) := match l with [] => True | x :: r => wf x /\ all r end) l end.

(* expression_t::equal: pointer equality first, then size/kind/value/symbol and the first get_size() children *)
Fixpoint equal (a b : ex) {struct a} : bool :=
  match a, b with
  | Node ia ka va sa la, Node ib kb vb sb lb =>
      Pos.eqb ia ib ||
      (Nat.eqb (gsize ka va (List.length la)) (gsize kb vb (List.length lb)) && String.eqb ka kb && value_eq va vb && sym_eq sa sb &&
       (fix go (n : nat) (la lb : list ex) {struct la} : bool :=
          match n with
          | O => true
          | S n' => match la, lb with
                    | x :: la', y :: lb' => equal x y && go n' la' lb'
                    | _, _ => false          (* the C++ would read past the end here *)
                    end
          end) (gsize ka va (List.length la)) la lb)
  end.

(* the tree without identities *)
Inductive tree := T (kind : string) (v : value) (sym : option positive) (sub : list tree).
Fixpoint erase (e : ex) : tree := match e with Node _ k v s l => T k v s (map erase l) end.
Fixpoint ids (e : ex) : list positive := match e with Node i _ _ _ l => i :: flat_map ids l end.
Fixpoint maxid (e : ex) : positive := match e with Node i _ _ _ l => fold_right (fun x m => Pos.max (maxid x) m) i l end.

(* clone_deeper: a fresh node for every node, `next` is the allocator state *)
Fixpoint clone (e : ex) (next : positive) : ex * positive :=
  match e with
  | Node _ k v s l =>
      let '(l', n') := (fix go (l : list ex) (n : positive) : list ex * positive :=
                          match l with [] => ([], n) | x :: r => let '(x', n1) := clone x n in let '(r', n2) := go r n1 in (x' :: r', n2) end) l (Pos.succ next) in
      (Node next k v s l', n')
  end.

(* subst(symbol, expr): identifier nodes of the symbol are replaced by expr itself (shared), leaves are
   returned as they are, inner nodes are shallow-cloned with substituted children *)
Fixpoint subst (s : positive) (r : ex) (e : ex) (next : positive) : ex * positive :=
  match e with
  | Node i k v sy l =>
      if String.eqb k "IDENTIFIER" && sym_eq sy (Some s) then (r, next)
      else match gsize k v (List.length l) with
           | O => (e, next)
           | _ =>
             let '(l', n') := (fix go (l : list ex) (n : positive) : list ex * positive :=
                                 match l with [] => ([], n) | x :: r' => let '(x', n1) := subst s r x n in let '(r'', n2) := go r' n1 in (x' :: r'', n2) end) l (Pos.succ next) in
             (Node next k v sy l', n')
           end
  end.
(* the specification of substitution on trees without identity *)
Fixpoint tsubst (s : positive) (r : tree) (t : tree) : tree :=
  match t with
  | T k v sy l => if String.eqb k "IDENTIFIER" && sym_eq sy (Some s) then r else T k v sy (map (tsubst s r) l)
  end.

(* values as they occur in parsed expressions: no NaN, no negative zero *)
Definition value_plain (v : value) : bool := match v with VDouble b => negb (d_isnan b) && (negb (d_iszero b) || N.eqb b 0) | _ => true end.
Fixpoint plain (e : ex) : Prop :=
  match e with Node _ _ v _ l => value_plain v = true /\ (fix all (l : list ex) := match l with [] => True | x :: r => plain x /\ all r end) l end.
End Laws.
