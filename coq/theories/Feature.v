(* L-TYPE / FeatureChecker: hand model of src/featurechecker.cpp over an abstract document, the
   specification predicates of C17, and the soundness / irrelevance theorems. *)
From Coq Require Import List Bool Arith ZArith Permutation.
Import ListNotations.

(* one side of a comparison / one expression: what uses_fp() and uses_clock() report about it *)
Record side := mkside { s_fp : bool; s_clock : bool }.
Inductive ratec := RInt (z : Z) | RDouble01 (is01 : bool) | RExpr.         (* constant int, constant double (is it 0.0 or 1.0?), any other expression *)
Definition rate_fp (r : ratec) : bool := match r with RDouble01 _ => true | _ => false end.
(* guards and invariants *)
Inductive gexp :=
  | GLeaf (fp : bool)                          (* boolean leaf that is not a comparison (variable, call, constant) *)
  | GCmp (l r : side)                          (* < <= >= > == != *)
  | GRate (hybrid : bool) (r : ratec)          (* x' == r, either operand order *)
  | GAnd (a b : gexp) | GOr (a b : gexp) | GNot (a : gexp) | GForall (a : gexp) | GExists (a : gexp).
(* updates: a comma list of expressions, assignments among them *)
Inductive upd := UAssign (fp hybrid : bool) | UOther (fp : bool).     (* "=" with uses_fp of the whole assignment and "the target is a hybrid clock in every branch"; anything else *)

Record edge := mkedge { e_guard : option gexp; e_assign : list upd }.
Record var := mkvar { v_clock : bool; v_init_fp : bool }.                (* is or contains (array element, record field) a clock; has an initialiser that uses floating point *)
Record chan := mkchan { c_broadcast : bool }.
Record templ := mktempl { t_instantiated : bool; t_vars : list var; t_chans : list chan; t_invs : list gexp; t_edges : list edge }.
Record doc := mkdoc { d_vars : list var; d_chans : list chan; d_templs : list templ; d_dynamic : bool; d_priorities : bool }.
Record verdict := mkv { symbolic : bool; stochastic : bool; concrete : bool }.

(* ---- the implementation ---------------------------------------------------------------------------- *)
(* visitGuard: sets symbolic := false when a comparison has a floating-point operand *)
Fixpoint guard_flags (g : gexp) : bool :=
  match g with
  | GLeaf _ => false
  | GCmp l r => s_fp l || s_fp r
  | GRate _ r => rate_fp r                       (* an EQ node whose children are x' and the rate expression *)
  | GAnd a b | GOr a b => guard_flags a || guard_flags b
  | GNot a | GForall a | GExists a => guard_flags a
  end.
(* isRateDisallowedInSymbolic: looks through conjunctions, disjunctions and universal quantifiers *)
Definition rate_bad (hybrid : bool) (r : ratec) : bool :=
  if hybrid then false else match r with RInt z => negb (Z.eqb z 0) && negb (Z.eqb z 1) | RDouble01 is01 => negb is01 | RExpr => false end.
Fixpoint rate_flags (g : gexp) : bool :=
  match g with
  | GRate h r => rate_bad h r
  | GAnd a b | GOr a b => rate_flags a || rate_flags b
  | GForall a => rate_flags a
  | _ => false
  end.
Definition upd_flags (u : upd) : bool := match u with UAssign fp hy => fp && negb hy | UOther _ => false end.
Definition var_flags (v : var) : bool := v_clock v && v_init_fp v.
Definition edge_flags (e : edge) : bool := existsb upd_flags (e_assign e) || match e_guard e with Some g => guard_flags g | None => false end.
Definition templ_symbolic_flags (t : templ) : bool :=
  t_instantiated t && (existsb var_flags (t_vars t) || existsb (fun g => rate_flags g || guard_flags g) (t_invs t) || existsb edge_flags (t_edges t)).
Definition nonbroadcast (c : chan) : bool := negb (c_broadcast c).
Definition templ_chan_flags (t : templ) : bool := t_instantiated t && existsb nonbroadcast (t_chans t).
Definition check (d : doc) : verdict :=
  {| symbolic := negb (existsb var_flags (d_vars d) || existsb templ_symbolic_flags (d_templs d) || d_dynamic d);
     stochastic := negb (existsb nonbroadcast (d_chans d) || existsb templ_chan_flags (d_templs d) || d_priorities d);
     concrete := negb (d_priorities d) |}.

(* ---- the specification ------------------------------------------------------------------------------ *)
(* a clock is compared with a floating-point value somewhere in g *)
Fixpoint spec_fp_compare (g : gexp) : Prop :=
  match g with
  | GLeaf _ => False
  | GCmp l r => (s_clock l = true /\ s_fp r = true) \/ (s_fp l = true /\ s_clock r = true)
  | GRate _ r => rate_fp r = true                     (* the clock's rate is compared with a floating-point constant *)
  | GAnd a b | GOr a b => spec_fp_compare a \/ spec_fp_compare b
  | GNot a | GForall a | GExists a => spec_fp_compare a
  end.
(* a non-hybrid clock rate is set to a constant other than 0 or 1, in a conjunct or disjunct (possibly quantified) of an invariant *)
Fixpoint spec_bad_rate (g : gexp) : Prop :=
  match g with
  | GRate false (RInt z) => z <> 0%Z /\ z <> 1%Z
  | GRate false (RDouble01 false) => True
  | GAnd a b | GOr a b => spec_bad_rate a \/ spec_bad_rate b
  | GForall a => spec_bad_rate a
  | _ => False
  end.
Definition spec_fp_assign (u : upd) : Prop := match u with UAssign true false => True | _ => False end.
Definition spec_clock_fp_init (v : var) : Prop := v_clock v = true /\ v_init_fp v = true.
Definition spec_templ_restricts (t : templ) : Prop :=
  Exists spec_clock_fp_init (t_vars t) \/ Exists (fun g => spec_bad_rate g \/ spec_fp_compare g) (t_invs t)
  \/ Exists (fun e => Exists spec_fp_assign (e_assign e) \/ match e_guard e with Some g => spec_fp_compare g | None => False end) (t_edges t).
Definition spec_symbolic_restricted (d : doc) : Prop :=
  Exists spec_clock_fp_init (d_vars d) \/ Exists (fun t => t_instantiated t = true /\ spec_templ_restricts t) (d_templs d) \/ d_dynamic d = true.
Definition spec_stochastic_restricted (d : doc) : Prop :=
  Exists (fun c => c_broadcast c = false) (d_chans d)
  \/ Exists (fun t => t_instantiated t = true /\ Exists (fun c => c_broadcast c = false) (t_chans t)) (d_templs d) \/ d_priorities d = true.

(* ---- soundness --------------------------------------------------------------------------------------- *)
Lemma existsb_Exists {A} (f : A -> bool) (P : A -> Prop) l : (forall x, P x -> f x = true) -> Exists P l -> existsb f l = true.
Proof. intros H E. induction E as [x l Hx|x l _ IH]; cbn; [rewrite (H x Hx); reflexivity|rewrite IH; apply orb_true_r]. Qed.
Lemma guard_sound g : spec_fp_compare g -> guard_flags g = true.
Proof.
  induction g; cbn; intros H; try tauto.
  - destruct H as [[_ H]|[H _]]; rewrite H; auto using orb_true_r.
  - destruct H as [H|H]; [rewrite (IHg1 H)|rewrite (IHg2 H)]; auto using orb_true_r.
  - destruct H as [H|H]; [rewrite (IHg1 H)|rewrite (IHg2 H)]; auto using orb_true_r.
Qed.
Lemma rate_sound g : spec_bad_rate g -> rate_flags g = true.
Proof.
  induction g; cbn; intros H; try tauto.
  - destruct hybrid; [tauto|]. destruct r as [z|[|]|]; cbn; try tauto.
    destruct H as [H0 H1]. apply Z.eqb_neq in H0, H1. rewrite H0, H1. reflexivity.
  - destruct H as [H|H]; [rewrite (IHg1 H)|rewrite (IHg2 H)]; auto using orb_true_r.
  - destruct H as [H|H]; [rewrite (IHg1 H)|rewrite (IHg2 H)]; auto using orb_true_r.
Qed.
Lemma upd_sound u : spec_fp_assign u -> upd_flags u = true.
Proof. destruct u as [[|] [|]|]; cbn; tauto. Qed.
Lemma var_sound v : spec_clock_fp_init v -> var_flags v = true.
Proof. unfold var_flags. intros [-> ->]. reflexivity. Qed.
Lemma chan_sound c : c_broadcast c = false -> nonbroadcast c = true.
Proof. unfold nonbroadcast. intros ->. reflexivity. Qed.
Lemma inv_sound g : spec_bad_rate g \/ spec_fp_compare g -> rate_flags g || guard_flags g = true.
Proof. intros [H|H]; [rewrite (rate_sound g H); reflexivity|rewrite (guard_sound g H); apply orb_true_r]. Qed.
Lemma edge_sound e : Exists spec_fp_assign (e_assign e) \/ match e_guard e with Some g => spec_fp_compare g | None => False end -> edge_flags e = true.
Proof.
  unfold edge_flags. intros [H|H].
  - rewrite (existsb_Exists upd_flags _ _ upd_sound H). reflexivity.
  - destruct (e_guard e); [rewrite (guard_sound _ H); apply orb_true_r|tauto].
Qed.
Lemma templ_sound t : t_instantiated t = true -> spec_templ_restricts t -> templ_symbolic_flags t = true.
Proof.
  intros I [H|[H|H]]; unfold templ_symbolic_flags; rewrite I; cbn [andb].
  - rewrite (existsb_Exists var_flags _ _ var_sound H). reflexivity.
  - rewrite (existsb_Exists _ _ _ inv_sound H). apply orb_true_iff. left. apply orb_true_r.
  - rewrite (existsb_Exists _ _ _ edge_sound H). apply orb_true_r.
Qed.
Lemma templ_inst_sound t : t_instantiated t = true /\ spec_templ_restricts t -> templ_symbolic_flags t = true.
Proof. intros [I R]. exact (templ_sound t I R). Qed.
Lemma templ_chan_sound t : t_instantiated t = true /\ Exists (fun c => c_broadcast c = false) (t_chans t) -> templ_chan_flags t = true.
Proof. intros [I R]. unfold templ_chan_flags. rewrite I. exact (existsb_Exists nonbroadcast _ _ chan_sound R). Qed.

(* supported symbolic  ==>  nothing the property lists occurs in the globals or in an instantiated template *)
Theorem symbolic_sound d : symbolic (check d) = true -> ~ spec_symbolic_restricted d.
Proof.
  cbn. intros S [H|[H|H]]; apply negb_true_iff in S; apply orb_false_iff in S as [S Sd]; apply orb_false_iff in S as [Sv St].
  - rewrite (existsb_Exists var_flags _ _ var_sound H) in Sv. discriminate.
  - rewrite (existsb_Exists templ_symbolic_flags _ _ templ_inst_sound H) in St. discriminate.
  - congruence.
Qed.
Theorem stochastic_sound d : stochastic (check d) = true -> ~ spec_stochastic_restricted d.
Proof.
  cbn. intros S [H|[H|H]]; apply negb_true_iff in S; apply orb_false_iff in S as [S Sp]; apply orb_false_iff in S as [Sc St].
  - rewrite (existsb_Exists nonbroadcast _ _ chan_sound H) in Sc. discriminate.
  - rewrite (existsb_Exists templ_chan_flags _ _ templ_chan_sound H) in St. discriminate.
  - congruence.
Qed.
Theorem concrete_sound d : concrete (check d) = true -> d_priorities d = false.
Proof. cbn. intros H. apply negb_true_iff in H. exact H. Qed.

(* ---- templates that are never instantiated, and the order of declarations, do not matter --------------- *)
Definition drop_uninstantiated (d : doc) : doc :=
  {| d_vars := d_vars d; d_chans := d_chans d; d_templs := filter t_instantiated (d_templs d); d_dynamic := d_dynamic d; d_priorities := d_priorities d |}.
Lemma existsb_filter_inst (f : templ -> bool) l : (forall t, t_instantiated t = false -> f t = false) -> existsb f (filter t_instantiated l) = existsb f l.
Proof. intros H. induction l as [|t l IH]; cbn; [reflexivity|]. destruct (t_instantiated t) eqn:E; cbn; rewrite IH; [reflexivity|]. rewrite (H t E). reflexivity. Qed.
Theorem uninstantiated_irrelevant d : check (drop_uninstantiated d) = check d.
Proof.
  unfold check. cbn. rewrite !existsb_filter_inst; [reflexivity| |];
    intros t E; [unfold templ_chan_flags|unfold templ_symbolic_flags]; rewrite E; reflexivity.
Qed.
Lemma existsb_perm {A} (f : A -> bool) l l' : Permutation l l' -> existsb f l = existsb f l'.
Proof.
  intros P. induction P as [|x l l' P IH|x y l|l l' l'' P1 IH1 P2 IH2]; cbn.
  - reflexivity.
  - rewrite IH. reflexivity.
  - destruct (f x), (f y); reflexivity.
  - congruence.
Qed.
Theorem order_irrelevant d d' :
  Permutation (d_vars d) (d_vars d') -> Permutation (d_chans d) (d_chans d') -> Permutation (d_templs d) (d_templs d') ->
  d_dynamic d = d_dynamic d' -> d_priorities d = d_priorities d' -> check d = check d'.
Proof.
  intros Pv Pc Pt Ed Ep. unfold check.
  rewrite (existsb_perm var_flags _ _ Pv), (existsb_perm templ_symbolic_flags _ _ Pt), (existsb_perm nonbroadcast _ _ Pc),
    (existsb_perm templ_chan_flags _ _ Pt), Ed, Ep. reflexivity.
Qed.
Theorem templ_order_irrelevant t t' :
  Permutation (t_vars t) (t_vars t') -> Permutation (t_chans t) (t_chans t') -> Permutation (t_invs t) (t_invs t') -> Permutation (t_edges t) (t_edges t') ->
  t_instantiated t = t_instantiated t' -> templ_symbolic_flags t = templ_symbolic_flags t' /\ templ_chan_flags t = templ_chan_flags t'.
Proof.
  intros Pv Pc Pi Pe E. unfold templ_symbolic_flags, templ_chan_flags.
  rewrite (existsb_perm _ _ _ Pv), (existsb_perm _ _ _ Pc), (existsb_perm _ _ _ Pi), (existsb_perm _ _ _ Pe), E. split; reflexivity.
Qed.
(* the position of a comparison inside a conjunction does not matter *)
Theorem conjunct_position a b : guard_flags (GAnd a b) = guard_flags (GAnd b a) /\ rate_flags (GAnd a b) = rate_flags (GAnd b a).
Proof. cbn. split; apply orb_comm. Qed.
Theorem operand_order l r : guard_flags (GCmp l r) = guard_flags (GCmp r l).
Proof. cbn. apply orb_comm. Qed.
