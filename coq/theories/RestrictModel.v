(* C13: "a free process parameter is never accepted inside an array size, directly or through a partial instantiation".

   The library keeps, per template and per (partial) instance, a set `restricted` of symbols that array sizes (and select ranges)
   depend on: a template collects the symbols its size expressions read (ExpressionBuilder::type_array / StatementBuilder, through
   collectDependencies, which also follows initialisers: `fv` below stands for that closure); DocumentBuilder::instantiation_end gives
   a new instance the symbols read by the arguments of the restricted parameters of the instance it instantiates; the type
   checker rejects a process one of whose free parameters is restricted.

   Specification: the size expression itself, with the arguments of every level substituted (DotModel.bsubst_all): a free
   parameter must be rejected exactly when it occurs in that expression. *)
From Coq Require Import List Arith Bool ZArith Lia.
From Utap Require Import DotModel DotProofs.
Import ListNotations.

Definition level := list (sym * bexp).                 (* one instantiation: the parameters it binds, with their arguments *)
Definition memb (x : sym) (l : list sym) : bool := existsb (Nat.eqb x) l.
(* instantiation_end: the symbols read by the arguments of restricted parameters *)
Definition restrict_step (R : list sym) (lv : level) : list sym :=
  flat_map (fun pe => if memb (fst pe) R then fv (snd pe) else []) lv.
Definition restrict_chain (R0 : list sym) (lvs : list level) : list sym := fold_left restrict_step lvs R0.
(* what it should compute: the symbols of the substituted size expression *)
Definition size_after (b : bexp) (lvs : list level) : bexp := fold_left (fun b lv => bsubst_all lv b) lvs b.

(* a well-formed level: its parameters are distinct and its arguments mention none of them (they are written in the scope of the
   new instance's own parameters and the globals) *)
Definition level_ok (lv : level) : Prop := NoDup (map fst lv) /\ forall p e y, In (p, e) lv -> In y (fv e) -> ~ In y (map fst lv).

Lemma memb_In x l : memb x l = true <-> In x l.
Proof. unfold memb. rewrite existsb_exists. split; [intros (y & Hy & E); apply Nat.eqb_eq in E; now subst | intro H; exists x; split; [exact H | apply Nat.eqb_refl]]. Qed.

Lemma fv_bsubst_back x e b y : (In y (fv b) /\ y <> x) \/ (In x (fv b) /\ In y (fv e)) -> In y (fv (bsubst x e b)).
Proof.
  induction b as [z|s|o args IH] using bexp_ind'; cbn.
  - intros [[[] _]|[[] _]].
  - intros [[[<-|[]] Hne]|[[<-|[]] Hy]].
    + destruct (Nat.eqb_spec s x); [contradiction | left; reflexivity].
    + rewrite Nat.eqb_refl. exact Hy.
  - rewrite !in_flat_map. rewrite Forall_forall in IH. intros [[(a & Ha & Hy) Hne]|[(a & Ha & Hx) Hy]];
      (exists (bsubst x e a); split; [apply in_map, Ha | apply (IH a Ha); tauto]).
Qed.
Lemma fv_bsubst_iff x e b y : In y (fv (bsubst x e b)) <-> (In y (fv b) /\ y <> x) \/ (In x (fv b) /\ In y (fv e)).
Proof. split; [intro H; destruct (fv_bsubst' _ _ _ _ H) as [H1|[H1 H2]]; [left; exact H1 | right; split; assumption] | apply fv_bsubst_back]. Qed.

Lemma level_ok_tail x e lv : level_ok ((x, e) :: lv) -> level_ok lv.
Proof.
  intros [Hnd Hf]. split; [inversion Hnd; assumption|]. intros p e' y Hin Hy Hk. apply (Hf p e' y (or_intror Hin) Hy). right. exact Hk.
Qed.
(* the symbols of an expression after one instantiation level *)
Lemma fv_level lv : level_ok lv -> forall b y,
  In y (fv (bsubst_all lv b)) <-> (In y (fv b) /\ ~ In y (map fst lv)) \/ exists p e, In (p, e) lv /\ In p (fv b) /\ In y (fv e).
Proof.
  induction lv as [|[x e] lv IH]; intros Hok b y.
  - cbn. split; [intro H; left; split; [exact H | tauto] | intros [[H _]|(p & e & [] & _)]; exact H].
  - change (bsubst_all ((x, e) :: lv) b) with (bsubst_all lv (bsubst x e b)). rewrite (IH (level_ok_tail _ _ _ Hok)).
    destruct Hok as [Hnd Hf]. inversion Hnd as [|? ? Hx Hnd']; subst. cbn [map fst In].
    assert (forall p e', In (p, e') lv -> (In p (fv (bsubst x e b)) <-> In p (fv b))) as Hkey.
    { intros p e' Hin. rewrite fv_bsubst_iff. split.
      - intros [[H _]|[_ H]]; [exact H|]. exfalso. apply (Hf x e p (or_introl eq_refl) H). right. apply in_map_iff. exists (p, e'). split; [reflexivity | exact Hin].
      - intro H. left. split; [exact H|]. intros ->. apply Hx. apply in_map_iff. exists (x, e'). split; [reflexivity | exact Hin]. }
    split.
    + intros [[Hy Hnk]|(p & e' & Hin & Hp & Hy)].
      * apply fv_bsubst_iff in Hy as [[Hy Hne]|[Hxb Hy]].
        -- left. split; [exact Hy|]. intros [E|Hk]; [symmetry in E; contradiction | contradiction].
        -- right. exists x, e. repeat split; [left; reflexivity | exact Hxb | exact Hy].
      * right. exists p, e'. repeat split; [right; exact Hin | apply (Hkey p e' Hin), Hp | exact Hy].
    + intros [[Hy Hnk]|(p & e' & [E|Hin] & Hp & Hy)].
      * left. split; [apply fv_bsubst_iff; left; split; [exact Hy | intros ->; apply Hnk; left; reflexivity] | intro Hk; apply Hnk; right; exact Hk].
      * injection E as <- <-. left. split; [apply fv_bsubst_iff; right; split; assumption|].
        intro Hk. apply (Hf x e y (or_introl eq_refl) Hy). right. exact Hk.
      * right. exists p, e'. repeat split; [exact Hin | apply (Hkey p e' Hin), Hp | exact Hy].
Qed.

Definition agree (R : list sym) (b : bexp) (K : list sym) : Prop := forall p, In p K -> (In p R <-> In p (fv b)).
Lemma restrict_step_spec R lv q : In q (restrict_step R lv) <-> exists p e, In (p, e) lv /\ In p R /\ In q (fv e).
Proof.
  unfold restrict_step. rewrite in_flat_map. split.
  - intros ([p e] & Hin & Hq). cbn [fst snd] in Hq. destruct (memb p R) eqn:Em; [|destruct Hq]. exists p, e. repeat split; [exact Hin | apply memb_In, Em | exact Hq].
  - intros (p & e & Hin & Hp & Hq). exists (p, e). split; [exact Hin|]. cbn [fst snd]. apply memb_In in Hp. now rewrite Hp.
Qed.
(* one level: on symbols that the size expression did not mention before, the propagated set and the substituted expression agree *)
Lemma step_agrees R lv b K : level_ok lv -> agree R b (map fst lv) -> (forall q, In q K -> ~ In q (fv b)) -> agree (restrict_step R lv) (bsubst_all lv b) K.
Proof.
  intros Hok Ha Hfresh q Hq. rewrite restrict_step_spec, (fv_level lv Hok). split.
  - intros (p & e & Hin & Hp & Hy). right. exists p, e. repeat split; [exact Hin | apply (Ha p); [apply in_map_iff; exists (p, e); split; [reflexivity | exact Hin] | exact Hp] | exact Hy].
  - intros [[Hy _]|(p & e & Hin & Hp & Hy)]; [destruct (Hfresh q Hq Hy)|]. exists p, e. repeat split; [exact Hin | apply (Ha p); [apply in_map_iff; exists (p, e); split; [reflexivity | exact Hin] | exact Hp] | exact Hy].
Qed.

Definition next_keys (lvs : list level) (K : list sym) : list sym := match lvs with [] => K | lv :: _ => map fst lv end.
(* a chain: every level is well formed and the parameters the next level binds (finally: the free parameters K of the process)
   do not occur in the size expression before they are introduced *)
Fixpoint chain_ok (lvs : list level) (b : bexp) (K : list sym) : Prop :=
  match lvs with
  | [] => True
  | lv :: rest => level_ok lv /\ (forall q, In q (next_keys rest K) -> ~ In q (fv b)) /\ chain_ok rest (bsubst_all lv b) K
  end.
Theorem restricted_iff_occurs : forall lvs b R K, chain_ok lvs b K -> agree R b (next_keys lvs K) ->
  agree (restrict_chain R lvs) (size_after b lvs) K.
Proof.
  induction lvs as [|lv rest IH]; intros b R K Hc Ha; [exact Ha|]. destruct Hc as (Hok & Hfresh & Hc).
  cbn [restrict_chain size_after fold_left]. apply IH; [exact Hc|]. apply step_agrees; [exact Hok | exact Ha | exact Hfresh].
Qed.
Example restricted_example :
  (* T(n, m) { int a[n]; }   Q(k, j) = T(k + 1, j);   R(z) = Q(z, 5): z is restricted, and a parameter that only reaches m is not *)
  let b := BVar 1 in let lvs := [[(1, BOp 0 [BVar 3; BLit 1]); (2, BVar 4)]; [(3, BVar 5); (4, BLit 5)]] in
  restrict_chain [1] lvs = [5] /\ size_after b lvs = BOp 0 [BVar 5; BLit 1] /\
  restrict_chain [1] [[(1, BLit 7); (2, BVar 4)]] = [].
Proof. repeat split; reflexivity. Qed.
