(* The UPPAAL operator table as documented for the language (hand-written reference, lowest
   precedence first).  It is *not* derived from parser.y: Properties_C02 proves that every
   shift/reduce decision of the table regenerated from parser.y coincides with this one, and that
   every operator token builds the node kind listed here. *)
From Coq Require Import List String Bool Arith.
Import ListNotations.
Local Open Scope string_scope.

(* (right-associative?, names of the tokens / pseudo-tokens on the level) *)
Definition ref_levels : list (bool * list string) := [
  (true,  ["T_FORALL"; "T_EXISTS"; "T_SUM"]);
  (true,  ["T_ASSIGNMENT"; "T_ASSPLUS"; "T_ASSMINUS"; "T_ASSMULT"; "T_ASSDIV"; "T_ASSMOD"; "T_ASSAND"; "T_ASSOR";
           "T_ASSLSHIFT"; "T_ASSRSHIFT"; "T_ASSXOR"]);
  (true,  ["'?'"; "':'"]);
  (false, ["T_BOOL_OR"; "T_KW_OR"; "T_KW_XOR"; "T_KW_IMPLY"]);
  (false, ["T_BOOL_AND"; "T_KW_AND"]);
  (false, ["T_OR"]);
  (false, ["T_XOR"]);
  (false, ["'&'"]);
  (false, ["T_EQ"; "T_NEQ"]);
  (false, ["T_LT"; "T_LEQ"; "T_GEQ"; "T_GT"]);
  (false, ["T_MIN"; "T_MAX"]);
  (false, ["T_LSHIFT"; "T_RSHIFT"]);
  (false, ["T_MINUS"; "T_PLUS"]);
  (false, ["T_MULT"; "T_DIV"; "T_MOD"]);
  (false, ["T_POWOP"]);
  (true,  ["T_EXCLAM"; "T_KW_NOT"; "UOPERATOR"]);
  (true,  ["T_INCREMENT"; "T_DECREMENT"]);
  (false, ["'('"; "')'"; "'['"; "']'"; "'.'"; "'''"])
].

Fixpoint ref_find (n : string) (ls : list (bool * list string)) (i : nat) : option (nat * bool) :=
  match ls with
  | [] => None
  | (ra, names) :: r => if existsb (String.eqb n) names then Some (i, ra) else ref_find n r (S i)
  end.
Definition ref_prec (n : string) : option (nat * bool) := ref_find n ref_levels 1.

(* the precedence a *rule* has: its own operator token, except where the language says otherwise *)
Definition ref_infix_rule_sym (tok : string) : string :=
  if existsb (String.eqb tok) ["T_ASSIGNMENT"; "T_ASSPLUS"; "T_ASSMINUS"; "T_ASSMULT"; "T_ASSDIV"; "T_ASSMOD"; "T_ASSAND"; "T_ASSOR";
                                "T_ASSLSHIFT"; "T_ASSRSHIFT"; "T_ASSXOR"] then "T_ASSIGNMENT" else tok.
Definition ref_prefix_rule_sym (tok : string) : string :=
  if existsb (String.eqb tok) ["T_MINUS"; "T_PLUS"; "T_EXCLAM"; "T_KW_NOT"] then "UOPERATOR" else tok.
Definition ref_ite_rule_sym : string := "T_ASSIGNMENT".   (* the else branch absorbs assignments and further ?: *)

(* operator token -> node kind (keyword aliases share the kind of their symbolic form) *)
Definition ref_infix_kind : list (string * string) := [
  ("T_LT","LT"); ("T_LEQ","LE"); ("T_EQ","EQ"); ("T_NEQ","NEQ"); ("T_GT","GT"); ("T_GEQ","GE");
  ("T_PLUS","PLUS"); ("T_MINUS","MINUS"); ("T_MULT","MULT"); ("T_DIV","DIV"); ("T_MOD","MOD"); ("T_POWOP","POW");
  ("'&'","BIT_AND"); ("T_OR","BIT_OR"); ("T_XOR","BIT_XOR"); ("T_LSHIFT","BIT_LSHIFT"); ("T_RSHIFT","BIT_RSHIFT");
  ("T_BOOL_AND","AND"); ("T_KW_AND","AND"); ("T_BOOL_OR","OR"); ("T_KW_OR","OR"); ("T_KW_XOR","XOR");
  ("T_KW_IMPLY","OR");  (* a imply b  ==  !a || b *)
  ("T_MIN","MIN"); ("T_MAX","MAX");
  ("T_ASSIGNMENT","ASSIGN"); ("T_ASSPLUS","ASS_PLUS"); ("T_ASSMINUS","ASS_MINUS"); ("T_ASSDIV","ASS_DIV"); ("T_ASSMOD","ASS_MOD");
  ("T_ASSMULT","ASS_MULT"); ("T_ASSAND","ASS_AND"); ("T_ASSOR","ASS_OR"); ("T_ASSXOR","ASS_XOR"); ("T_ASSLSHIFT","ASS_LSHIFT");
  ("T_ASSRSHIFT","ASS_RSHIFT")].
Definition ref_prefix_kind : list (string * string) := [
  ("T_INCREMENT","PRE_INCREMENT"); ("T_DECREMENT","PRE_DECREMENT"); ("T_MINUS","UNARY_MINUS"); ("T_PLUS","(identity)");
  ("T_EXCLAM","NOT"); ("T_KW_NOT","NOT"); ("T_SUM","SUM"); ("T_FORALL","FORALL"); ("T_EXISTS","EXISTS")].
Definition ref_postfix_kind : list (string * string) := [
  ("T_INCREMENT","POST_INCREMENT"); ("T_DECREMENT","POST_DECREMENT"); ("'.'","DOT"); ("'''","RATE")].
Fixpoint assoc_find (n : string) (l : list (string * string)) : option string :=
  match l with [] => None | (a, b) :: r => if String.eqb n a then Some b else assoc_find n r end.
