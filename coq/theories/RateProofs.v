(* Proofs about the model of RateDecomposer::decompose (RateModel.v). *)
From Coq Require Import List Bool Arith Lia.
Import ListNotations.
From Utap Require Import Typing RateModel.

Definition flat_all (l : list lexp) : list lexp := concat (map flat l).
Definition keeps (e : lexp) := negb (is_cost_rate e).

Lemma flat_all_app l1 l2 : flat_all (l1 ++ l2) = flat_all l1 ++ flat_all l2.
Proof. unfold flat_all. now rewrite map_app, concat_app. Qed.

Lemma flat_all_one e : flat_all [e] = flat e.
Proof. unfold flat_all. cbn. now rewrite app_nil_r. Qed.

(* ---- class facts (finite case analyses over the clauses of Typing.v) ---- *)

Lemma and_plain a b c : bin_type OAnd a b = Some c -> is_invariant c = true -> is_invariant a = true /\ is_invariant b = true.
Proof. destruct a, b; cbn; intros H; inversion H; subst; cbn; intros; try discriminate; auto. Qed.

Lemma and_accepted a b c : bin_type OAnd a b = Some c -> isInvariantWR c = true -> isInvariantWR a = true /\ isInvariantWR b = true.
Proof. destruct a, b; cbn; intros H; inversion H; subst; cbn; intros; try discriminate; auto. Qed.

Lemma or_plain a b c : bin_type OOr a b = Some c -> is_invariant c = true -> is_invariant a = true /\ is_invariant b = true.
Proof. destruct a, b; cbn; intros H; inversion H; subst; cbn; intros; try discriminate; auto. Qed.

Lemma or_accepted a b c : bin_type OOr a b = Some c -> isInvariantWR c = true -> isInvariantWR a = true /\ isInvariantWR b = true.
Proof. destruct a, b; cbn; intros H; inversion H; subst; cbn; intros; try discriminate; auto. Qed.

Lemma forall_plain a c : forall_type a = Some c -> is_invariant c = true -> is_invariant a = true.
Proof. destruct a; cbn; intros H; inversion H; subst; cbn; intros; try discriminate; auto. Qed.

Lemma forall_accepted a c : forall_type a = Some c -> isInvariantWR c = true -> isInvariantWR a = true.
Proof. destruct a; cbn; intros H; inversion H; subst; cbn; intros; try discriminate; auto. Qed.

Lemma rate_is_wr cst l id rhs c : ltype (LRate cst l id rhs) = Some c -> c = CInvariantWR.
Proof. cbn. destruct l, rhs; cbn; intros H; inversion H; auto. Qed.

Lemma plain_accepted e : plain e = true -> accepted e = true.
Proof. unfold plain, accepted. destruct (ltype e) as [c|]; [|auto]. unfold isInvariantWR. intros H. now rewrite H. Qed.

(* ---- inversion of `accepted` / `plain` on the node kinds ---- *)

Lemma accepted_and a b : accepted (LAnd a b) = true -> accepted a = true /\ accepted b = true.
Proof.
  unfold accepted. cbn [ltype obind]. destruct (ltype a) as [ta|]; cbn [obind]; [|intros; discriminate]. destruct (ltype b) as [tb|]; cbn [obind]; [|intros; discriminate].
  destruct (bin_type OAnd ta tb) as [c|] eqn:E; cbn [obind]; [|intros; discriminate]. intros H. exact (and_accepted _ _ _ E H).
Qed.

Lemma accepted_or a b : accepted (LOr a b) = true -> accepted a = true /\ accepted b = true.
Proof.
  unfold accepted. cbn [ltype obind]. destruct (ltype a) as [ta|]; cbn [obind]; [|intros; discriminate]. destruct (ltype b) as [tb|]; cbn [obind]; [|intros; discriminate].
  destruct (bin_type OOr ta tb) as [c|] eqn:E; cbn [obind]; [|intros; discriminate]. intros H. exact (or_accepted _ _ _ E H).
Qed.

Lemma accepted_forall b : accepted (LForall b) = true -> accepted b = true.
Proof.
  unfold accepted. cbn [ltype obind]. destruct (ltype b) as [tb|]; cbn [obind]; [|intros; discriminate].
  destruct (forall_type tb) as [c|] eqn:E; cbn [obind]; [|intros; discriminate]. intros H. exact (forall_accepted _ _ E H).
Qed.

Lemma plain_and a b : plain (LAnd a b) = true -> plain a = true /\ plain b = true.
Proof.
  unfold plain. cbn [ltype obind]. destruct (ltype a) as [ta|]; cbn [obind]; [|intros; discriminate]. destruct (ltype b) as [tb|]; cbn [obind]; [|intros; discriminate].
  destruct (bin_type OAnd ta tb) as [c|] eqn:E; cbn [obind]; [|intros; discriminate]. intros H. exact (and_plain _ _ _ E H).
Qed.

Lemma plain_or a b : plain (LOr a b) = true -> plain a = true /\ plain b = true.
Proof.
  unfold plain. cbn [ltype obind]. destruct (ltype a) as [ta|]; cbn [obind]; [|intros; discriminate]. destruct (ltype b) as [tb|]; cbn [obind]; [|intros; discriminate].
  destruct (bin_type OOr ta tb) as [c|] eqn:E; cbn [obind]; [|intros; discriminate]. intros H. exact (or_plain _ _ _ E H).
Qed.

Lemma plain_forall b : plain (LForall b) = true -> plain b = true.
Proof.
  unfold plain. cbn [ltype obind]. destruct (ltype b) as [tb|]; cbn [obind]; [|intros; discriminate].
  destruct (forall_type tb) as [c|] eqn:E; cbn [obind]; [|intros; discriminate]. intros H. exact (forall_plain _ _ E H).
Qed.

Lemma plain_rate cst l id rhs : plain (LRate cst l id rhs) = false.
Proof.
  unfold plain. destruct (ltype (LRate cst l id rhs)) as [c|] eqn:E; [|reflexivity]. now rewrite (rate_is_wr _ _ _ _ _ E).
Qed.

Lemma leaf_accepted_plain c lt id : accepted (LLeaf c lt id) = true -> plain (LLeaf c lt id) = true.
Proof. unfold accepted, plain. cbn. destruct c; cbn; auto. Qed.

(* a rate-free subtree has no rate anywhere inside *)
Lemma plain_no_rates e : plain e = true -> cost_rates e = [] /\ has_clock_rate e = false /\ forallb keeps (flat e) = true.
Proof.
  induction e as [c lt id|a IHa b IHb|a IHa b IHb|b IHb|cst l id rhs]; intros H.
  - cbn. auto.
  - destruct (plain_and _ _ H) as [Ha Hb]. destruct (IHa Ha) as (A1 & A2 & A3), (IHb Hb) as (B1 & B2 & B3).
    cbn. rewrite A1, B1, A2, B2, forallb_app, A3, B3. auto.
  - destruct (plain_or _ _ H) as [Ha Hb]. destruct (IHa Ha) as (A1 & A2 & _), (IHb Hb) as (B1 & B2 & _).
    cbn. rewrite A1, B1, A2, B2. auto.
  - destruct (IHb (plain_forall _ H)) as (B1 & B2 & _). cbn. rewrite B1, B2. auto.
  - now rewrite plain_rate in H.
Qed.

Lemma filter_all {A} (f : A -> bool) l : forallb f l = true -> filter f l = l.
Proof. induction l as [|x l IH]; cbn; [auto|]. destruct (f x); cbn; [|intros; discriminate]. intros H. now rewrite IH. Qed.

(* ---- the decomposer ---- *)

Lemma push_inv k e s : inv (push k e s) = if k then inv s ++ [e] else inv s.
Proof. now destruct k. Qed.
Lemma push_cost k e s : cost (push k e s) = cost s /\ ncost (push k e s) = ncost s /\ clockrates (push k e s) = clockrates s /\ strict (push k e s) = strict s.
Proof. now destruct k. Qed.

(* inside a quantifier or a disjunction nothing is recorded in the invariant *)
Theorem decompose_inner_keeps_invariant e : forall s, inv (decompose e true s) = inv s.
Proof.
  induction e as [c lt id|a IHa b IHb|a IHa b IHb|b IHb|cst l id rhs]; intros s; cbn [decompose].
  - destruct (plain _); [|reflexivity]. cbn [negb]. unfold push. now destruct (root_lt _).
  - destruct (plain _). { cbn [negb]. unfold push. cbn [root_lt]. reflexivity. } now rewrite IHb, IHa.
  - destruct (plain _). { cbn [negb root_lt]. reflexivity. } cbn [negb push]. now rewrite IHb, IHa.
  - destruct (plain _). { reflexivity. } cbn [negb push]. now rewrite IHb.
  - rewrite plain_rate. now destruct cst.
Qed.

(* the conjuncts stored are those of the label, in order, less the cost equations among them *)
Theorem decompose_conjuncts e : forall s, accepted e = true ->
  flat_all (inv (decompose e false s)) = flat_all (inv s) ++ filter keeps (flat e).
Proof.
  induction e as [c lt id|a IHa b IHb|a IHa b IHb|b IHb|cst l id rhs]; intros s Hacc; cbn [decompose].
  - rewrite (leaf_accepted_plain _ _ _ Hacc). cbn [negb]. rewrite push_inv, flat_all_app, flat_all_one.
    cbn. now destruct lt.
  - destruct (plain (LAnd a b)) eqn:P.
    + cbn [negb root_lt]. rewrite push_inv, flat_all_app, flat_all_one.
      now rewrite (filter_all _ _ (proj2 (proj2 (plain_no_rates _ P)))).
    + destruct (accepted_and _ _ Hacc) as [Ha Hb]. rewrite (IHb _ Hb), (IHa _ Ha). cbn [flat]. now rewrite filter_app, app_assoc.
  - destruct (plain (LOr a b)) eqn:P; cbn [negb root_lt]; rewrite push_inv, flat_all_app, flat_all_one; cbn [flat filter keeps is_cost_rate negb].
    + reflexivity.
    + now rewrite !decompose_inner_keeps_invariant.
  - destruct (plain (LForall b)) eqn:P; cbn [negb root_lt]; rewrite push_inv, flat_all_app, flat_all_one; cbn [flat filter keeps is_cost_rate negb].
    + reflexivity.
    + now rewrite decompose_inner_keeps_invariant.
  - rewrite plain_rate. destruct cst; cbn [flat filter keeps is_cost_rate negb].
    + cbn. now rewrite app_nil_r.
    + rewrite push_inv, flat_all_app, flat_all_one. reflexivity.
Qed.

(* the cost equations: all of them are counted, wherever they stand, and the last one is kept *)
Lemma last_opt_app l1 l2 d : last_opt (l1 ++ l2) d = last_opt l2 (last_opt l1 d).
Proof.
  unfold last_opt. rewrite rev_app_distr. destruct (rev l2) as [|x r]; cbn; [|reflexivity]. reflexivity.
Qed.

Theorem decompose_costs e : forall f s, accepted e = true ->
  ncost (decompose e f s) = ncost s + length (cost_rates e) /\ cost (decompose e f s) = last_opt (cost_rates e) (cost s).
Proof.
  induction e as [c lt id|a IHa b IHb|a IHa b IHb|b IHb|cst l id rhs]; intros f s Hacc; cbn [decompose].
  - rewrite (leaf_accepted_plain _ _ _ Hacc). destruct (push_cost (negb f) (LLeaf c lt id) (if root_lt (LLeaf c lt id) then set_strict s else s)) as (-> & -> & _).
    cbn. destruct lt; cbn; split; auto; lia.
  - destruct (plain (LAnd a b)) eqn:P.
    + destruct (plain_no_rates _ P) as (-> & _). cbn [root_lt]. destruct (push_cost (negb f) (LAnd a b) s) as (-> & -> & _). cbn. split; auto; lia.
    + destruct (accepted_and _ _ Hacc) as [Ha Hb]. destruct (IHb f (decompose a f s) Hb) as [-> ->]. destruct (IHa f s Ha) as [-> ->].
      cbn [cost_rates]. rewrite app_length, last_opt_app. split; auto; lia.
  - destruct (plain (LOr a b)) eqn:P.
    + destruct (plain_no_rates _ P) as (-> & _). cbn [root_lt]. destruct (push_cost (negb f) (LOr a b) s) as (-> & -> & _). cbn. split; auto; lia.
    + destruct (accepted_or _ _ Hacc) as [Ha Hb].
      destruct (push_cost (negb f) (LOr a b) (decompose b true (decompose a true s))) as (-> & -> & _).
      destruct (IHb true (decompose a true s) Hb) as [-> ->]. destruct (IHa true s Ha) as [-> ->].
      cbn [cost_rates]. rewrite app_length, last_opt_app. split; auto; lia.
  - destruct (plain (LForall b)) eqn:P.
    + destruct (plain_no_rates _ P) as (-> & _). cbn [root_lt]. destruct (push_cost (negb f) (LForall b) s) as (-> & -> & _). cbn. split; auto; lia.
    + destruct (push_cost (negb f) (LForall b) (decompose b true s)) as (-> & -> & _).
      destruct (IHb true s (accepted_forall _ Hacc)) as [-> ->]. cbn [cost_rates]. split; auto.
  - rewrite plain_rate. destruct cst; cbn [cost_rates].
    + cbn. split; auto; lia.
    + destruct (push_cost (negb f) (LRate false l id rhs) (set_clock s)) as (-> & -> & _). cbn. split; auto; lia.
Qed.

Theorem decompose_clock_rates e : forall f s, accepted e = true -> clockrates (decompose e f s) = clockrates s || has_clock_rate e.
Proof.
  induction e as [c lt id|a IHa b IHb|a IHa b IHb|b IHb|cst l id rhs]; intros f s Hacc; cbn [decompose].
  - rewrite (leaf_accepted_plain _ _ _ Hacc). destruct (push_cost (negb f) (LLeaf c lt id) (if root_lt (LLeaf c lt id) then set_strict s else s)) as (_ & _ & -> & _).
    cbn. destruct lt; cbn; now rewrite orb_false_r.
  - destruct (plain (LAnd a b)) eqn:P.
    + destruct (plain_no_rates _ P) as (_ & -> & _). cbn [root_lt]. destruct (push_cost (negb f) (LAnd a b) s) as (_ & _ & -> & _). now rewrite orb_false_r.
    + destruct (accepted_and _ _ Hacc) as [Ha Hb]. rewrite (IHb _ _ Hb), (IHa _ _ Ha). cbn [has_clock_rate]. now rewrite orb_assoc.
  - destruct (plain (LOr a b)) eqn:P.
    + destruct (plain_no_rates _ P) as (_ & -> & _). cbn [root_lt]. destruct (push_cost (negb f) (LOr a b) s) as (_ & _ & -> & _). now rewrite orb_false_r.
    + destruct (accepted_or _ _ Hacc) as [Ha Hb].
      destruct (push_cost (negb f) (LOr a b) (decompose b true (decompose a true s))) as (_ & _ & -> & _).
      rewrite (IHb _ _ Hb), (IHa _ _ Ha). cbn [has_clock_rate]. now rewrite orb_assoc.
  - destruct (plain (LForall b)) eqn:P.
    + destruct (plain_no_rates _ P) as (_ & -> & _). cbn [root_lt]. destruct (push_cost (negb f) (LForall b) s) as (_ & _ & -> & _). now rewrite orb_false_r.
    + destruct (push_cost (negb f) (LForall b) (decompose b true s)) as (_ & _ & -> & _).
      now rewrite (IHb _ _ (accepted_forall _ Hacc)).
  - rewrite plain_rate. destruct cst; cbn [has_clock_rate negb].
    + cbn. now rewrite orb_false_r.
    + destruct (push_cost (negb f) (LRate false l id rhs) (set_clock s)) as (_ & _ & -> & _). cbn. now rewrite orb_true_r.
Qed.

Theorem decompose_strict e : forall f s, accepted e = true -> strict (decompose e f s) = strict s || strict_roots e.
Proof.
  induction e as [c lt id|a IHa b IHb|a IHa b IHb|b IHb|cst l id rhs]; intros f s Hacc; cbn [decompose strict_roots].
  - rewrite (leaf_accepted_plain _ _ _ Hacc). destruct (push_cost (negb f) (LLeaf c lt id) (if root_lt (LLeaf c lt id) then set_strict s else s)) as (_ & _ & _ & ->).
    cbn. destruct lt; cbn; [now rewrite orb_true_r | now rewrite orb_false_r].
  - destruct (plain (LAnd a b)) eqn:P.
    + cbn [root_lt]. destruct (push_cost (negb f) (LAnd a b) s) as (_ & _ & _ & ->). now rewrite orb_false_r.
    + destruct (accepted_and _ _ Hacc) as [Ha Hb]. rewrite (IHb _ _ Hb), (IHa _ _ Ha). now rewrite orb_assoc.
  - destruct (plain (LOr a b)) eqn:P.
    + cbn [root_lt]. destruct (push_cost (negb f) (LOr a b) s) as (_ & _ & _ & ->). now rewrite orb_false_r.
    + destruct (accepted_or _ _ Hacc) as [Ha Hb].
      destruct (push_cost (negb f) (LOr a b) (decompose b true (decompose a true s))) as (_ & _ & _ & ->).
      rewrite (IHb _ _ Hb), (IHa _ _ Ha). now rewrite orb_assoc.
  - destruct (plain (LForall b)) eqn:P.
    + cbn [root_lt]. destruct (push_cost (negb f) (LForall b) s) as (_ & _ & _ & ->). now rewrite orb_false_r.
    + destruct (push_cost (negb f) (LForall b) (decompose b true s)) as (_ & _ & _ & ->).
      now rewrite (IHb _ _ (accepted_forall _ Hacc)).
  - rewrite plain_rate. destruct cst.
    + cbn. now rewrite orb_false_r.
    + destruct (push_cost (negb f) (LRate false l id rhs) (set_clock s)) as (_ & _ & _ & ->). cbn. now rewrite orb_false_r.
Qed.

(* what visitLocation stores for an accepted invariant label *)
Definition stored (e : lexp) := inv (decompose e false d0).

Corollary stored_conjuncts e : accepted e = true -> flat_all (stored e) = filter keeps (flat e).
Proof. intros H. unfold stored. now rewrite (decompose_conjuncts e d0 H). Qed.

(* a label without a cost equation at its top level is stored conjunct for conjunct *)
Corollary stored_rate_free e : accepted e = true -> forallb keeps (flat e) = true -> flat_all (stored e) = flat e.
Proof. intros H K. rewrite (stored_conjuncts e H). now apply filter_all. Qed.

(* ---- meaning: whatever the conjuncts mean, the stored invariant and the cost equations taken out say what the label says ---- *)
Section Meaning.
  Variable sem : lexp -> bool.                                   (* any interpretation of labels ... *)
  Hypothesis sem_and : forall a b, sem (LAnd a b) = sem a && sem b.   (* ... that reads a conjunction as a conjunction *)

  Lemma sem_flat e : sem e = forallb sem (flat e).
  Proof. induction e; cbn [flat]; try (cbn; now rewrite andb_true_r). rewrite sem_and, forallb_app, IHe1, IHe2. reflexivity. Qed.
  Lemma sem_flat_all l : forallb sem (flat_all l) = forallb sem l.
  Proof. induction l as [|e l IH]; [reflexivity|]. unfold flat_all in *. cbn. rewrite forallb_app, IH, <- sem_flat. reflexivity. Qed.
  Lemma forallb_split {A} (p f : A -> bool) l : forallb f l = forallb f (filter p l) && forallb f (filter (fun x => negb (p x)) l).
  Proof. induction l as [|x l IH]; [reflexivity|]. cbn. destruct (p x); cbn; rewrite IH; destruct (f x); cbn; auto using andb_comm. now rewrite andb_false_r. Qed.

  Theorem stored_meaning e : accepted e = true ->
    forallb sem (stored e) && forallb sem (filter is_cost_rate (flat e)) = sem e.
  Proof.
    intro H. rewrite <- sem_flat_all, (stored_conjuncts e H), (sem_flat e), (forallb_split keeps sem (flat e)). f_equal.
    apply f_equal. apply filter_ext. intro x. unfold keeps. now rewrite negb_involutive.
  Qed.
End Meaning.
